/-
Helper lemmas for C11 (model: `SB3Verif/Model/Predict.lean`).
-/
import SB3Verif.Model.Predict
import Mathlib.Tactic.Linarith
import Mathlib.Tactic.Ring
import Mathlib.Tactic.FieldSimp
import Mathlib.Algebra.Order.Field.Basic

set_option linter.unusedSectionVars false
set_option linter.unusedVariables false

namespace SB3Verif.Lemmas.Predict

open SB3Verif.Predict

/-! ### Shapes -/

theorem prod_pos_of_pos : ∀ (s : Shape), posShape s = true → 0 < prod s
  | [], _ => by simp [prod]
  | d :: ds, h => by
    simp only [posShape, List.all_cons, Bool.and_eq_true, decide_eq_true_eq] at h
    have := prod_pos_of_pos ds (by simpa [posShape] using h.2)
    simp only [prod]
    exact Nat.mul_pos h.1 this

theorem cons_ne_self (n : Nat) (s : Shape) : n :: s ≠ s := by
  intro h
  have := congrArg List.length h
  simp at this

theorem isVectorized_single (l : Leaf) : isVectorized l l.shape = .ok false := by
  cases l <;> simp [isVectorized, isVecBox, isVecDiscrete, isVecMultiDiscrete, isVecMultiBinary, Leaf.shape]

theorem isVectorized_batch (l : Leaf) (n : Nat) : isVectorized l (n :: l.shape) = .ok true := by
  cases l with
  | box s img => simp [isVectorized, isVecBox, Leaf.shape]
  | discrete k => simp [isVectorized, isVecDiscrete, Leaf.shape]
  | multiDiscrete nv => simp [isVectorized, isVecMultiDiscrete, Leaf.shape]
  | multiBinary s => simp [isVectorized, isVecMultiBinary, Leaf.shape]

theorem isVectorized_false_shape (l : Leaf) (obs : Shape) (h : isVectorized l obs = .ok false) :
    obs = l.shape := by
  cases l with
  | box s img =>
    simp only [isVectorized, isVecBox, Leaf.shape] at h ⊢
    split at h
    · assumption
    · split at h <;> simp at h
  | discrete k =>
    simp only [isVectorized, isVecDiscrete, Leaf.shape] at h ⊢
    split at h <;> simp_all
  | multiDiscrete nv =>
    simp only [isVectorized, isVecMultiDiscrete, Leaf.shape] at h ⊢
    split at h
    · assumption
    · split at h <;> simp at h
  | multiBinary s =>
    simp only [isVectorized, isVecMultiBinary, Leaf.shape] at h ⊢
    split at h
    · assumption
    · split at h <;> simp at h

theorem isVectorized_true_shape (l : Leaf) (obs : Shape) (h : isVectorized l obs = .ok true) :
    ∃ n, obs = n :: l.shape := by
  cases l with
  | box s img =>
    simp only [isVectorized, isVecBox, Leaf.shape] at h ⊢
    split at h
    · simp at h
    · rename_i hne
      split at h
      · rename_i hd
        cases obs with
        | nil => simp at hd; exact absurd hd.symm (by simpa using fun h' => hne h'.symm)
        | cons a t => exact ⟨a, by simpa using hd⟩
      · simp at h
  | discrete k =>
    simp only [isVectorized, isVecDiscrete, Leaf.shape] at h ⊢
    split at h
    · simp at h
    · rename_i a; exact ⟨a, rfl⟩
    · simp at h
  | multiDiscrete nv =>
    simp only [isVectorized, isVecMultiDiscrete, Leaf.shape] at h ⊢
    split at h
    · simp at h
    · split at h
      · rename_i hd
        match obs, hd with
        | [a, b], hd => exact ⟨a, by simpa using hd.2⟩
      · simp at h
  | multiBinary s =>
    simp only [isVectorized, isVecMultiBinary, Leaf.shape] at h ⊢
    split at h
    · simp at h
    · split at h
      · rename_i hd
        cases obs with
        | nil => simp at hd
        | cons a t => exact ⟨a, by simpa using hd.2⟩
      · simp at h

/-! ### `obs_to_tensor` on one array -/

theorem leaf_shape_pos (l : Leaf) (h : l.valid = true) : 0 < prod l.shape := by
  cases l with
  | box s img =>
    simp only [Leaf.valid, Bool.and_eq_true] at h
    exact prod_pos_of_pos s h.1
  | discrete k => simp [Leaf.shape, prod]
  | multiDiscrete nv =>
    simp only [Leaf.valid, Bool.and_eq_true, decide_eq_true_eq] at h
    simp [Leaf.shape, prod]; exact h.2
  | multiBinary s =>
    simp only [Leaf.valid, Bool.and_eq_true] at h
    exact prod_pos_of_pos s h.1

theorem inferBatch_single (s : Shape) (h : 0 < prod s) : inferBatch s s = .ok 1 := by
  have h0 : prod s ≠ 0 := by omega
  simp [inferBatch, inferBatchN, h0, Nat.div_self h]

theorem inferBatch_batch (n : Nat) (s : Shape) (h : 0 < prod s) : inferBatch (n :: s) s = .ok n := by
  have h0 : prod s ≠ 0 := by omega
  simp [inferBatch, inferBatchN, h0, prod, Nat.mul_div_cancel _ h]

theorem maybeTranspose_fits (l : Leaf) (obs : Shape) (h : fits obs l.shape = true) :
    maybeTranspose l obs = .ok (obs, false) := by
  cases l with
  | box s img =>
    cases img
    · simp [maybeTranspose]
    · simp only [Leaf.shape] at h
      simp [maybeTranspose, h]
  | discrete k => simp [maybeTranspose]
  | multiDiscrete nv => simp [maybeTranspose]
  | multiBinary s => simp [maybeTranspose]

theorem leafToTensor_single (l : Leaf) (h : l.valid = true) :
    leafToTensor l l.shape = .ok ⟨1, false, false⟩ := by
  have hf : fits l.shape l.shape = true := by simp [fits]
  simp [leafToTensor, leafToTensorAcc, maybeTranspose_fits l _ hf, isVectorized_single, inferBatch_single _ (leaf_shape_pos l h)]

theorem leafToTensor_batch (l : Leaf) (n : Nat) (h : l.valid = true) :
    leafToTensor l (n :: l.shape) = .ok ⟨n, true, false⟩ := by
  have hf : fits (n :: l.shape) l.shape = true := by simp [fits]
  simp [leafToTensor, leafToTensorAcc, maybeTranspose_fits l _ hf, isVectorized_batch, inferBatch_batch _ _ (leaf_shape_pos l h)]

/-- an image in the other layout: `(h, w, c)` for the space `(c, h, w)` -/
theorem leafToTensor_hwc_single (c h w : Nat) (hc : 0 < c) (hh : 0 < h) (hw : 0 < w)
    (hne : [h, w, c] ≠ [c, h, w]) :
    leafToTensor (.box [c, h, w] true) [h, w, c] = .ok ⟨1, false, true⟩ := by
  have hp : 0 < prod [c, h, w] := by
    simp only [prod]; exact Nat.mul_pos hc (Nat.mul_pos hh (by omega))
  have h1 : fits [h, w, c] [c, h, w] = false := by
    simp only [fits, List.drop_succ_cons, List.drop_zero, Bool.or_eq_false_iff, decide_eq_false_iff_not]
    exact ⟨hne, by simp⟩
  have h2 : fits [c, h, w] [c, h, w] = true := by simp [fits]
  simp only [leafToTensor, leafToTensorAcc, maybeTranspose, h1, transposeShape, h2, Bool.false_eq_true, if_false, if_true]
  have := isVectorized_single (.box [c, h, w] true)
  simp only [Leaf.shape] at this
  simp [this, Leaf.shape, inferBatch_single _ hp]

theorem leafToTensor_hwc_batch (n c h w : Nat) (hc : 0 < c) (hh : 0 < h) (hw : 0 < w)
    (hne : [h, w, c] ≠ [c, h, w]) :
    leafToTensor (.box [c, h, w] true) [n, h, w, c] = .ok ⟨n, true, true⟩ := by
  have hp : 0 < prod [c, h, w] := by
    simp only [prod]; exact Nat.mul_pos hc (Nat.mul_pos hh (by omega))
  have h1 : fits [n, h, w, c] [c, h, w] = false := by
    simp only [fits, List.drop_succ_cons, List.drop_zero, Bool.or_eq_false_iff, decide_eq_false_iff_not]
    exact ⟨by simp, hne⟩
  have h2 : fits [n, c, h, w] [c, h, w] = true := by simp [fits]
  simp only [leafToTensor, leafToTensorAcc, maybeTranspose, h1, transposeShape, h2, Bool.false_eq_true, if_false, if_true]
  have := isVectorized_batch (.box [c, h, w] true) n
  simp only [Leaf.shape] at this
  simp [this, Leaf.shape, inferBatch_batch _ _ hp]

/-! ### Dict observations -/

theorem lookup_of_nodup : ∀ (items : List (String × Leaf)) (k : String) (l : Leaf),
    keysNodup items = true → (k, l) ∈ items → items.lookup k = some l
  | [], _, _, _, hm => by simp at hm
  | (k0, l0) :: rest, k, l, hn, hm => by
    simp only [keysNodup, Bool.and_eq_true, Bool.not_eq_true', List.any_eq_false, beq_iff_eq] at hn
    rcases List.mem_cons.mp hm with heq | hin
    · cases heq; simp [List.lookup]
    · have hk : k ≠ k0 := by
        intro hkk; subst hkk
        exact hn.1 (k, l) hin rfl
      have hb : (k == k0) = false := by simpa using hk
      simp only [List.lookup, hb]
      exact lookup_of_nodup rest k l hn.2 hin

/-- skipping the shape check of a later key changes nothing when that key is itself a batch -/
theorem leafToTensorAcc_of (acc : Bool) (l : Leaf) (s : Shape) (info : KeyInfo)
    (h : leafToTensor l s = .ok info) (hacc : acc = true → info.vectorized = true) :
    leafToTensorAcc acc l s = .ok info := by
  cases acc with
  | false => exact h
  | true =>
    have hv := hacc rfl
    simp only [leafToTensor, leafToTensorAcc] at h ⊢
    split at h
    · simp at h
    · rename_i o tr hmt
      simp only [Bool.false_eq_true, if_false] at h
      simp only [if_true]
      split at h
      · simp at h
      · rename_i v hvv
        split at h
        · simp at h
        · rename_i b hb
          simp only [Except.ok.injEq] at h
          subst h
          simp only at hv
          subst hv
          simp

theorem dictToTensor_map (items sub : List (String × Leaf)) (f : Leaf → Shape) (info : KeyInfo)
    (hl : ∀ kl ∈ sub, items.lookup kl.1 = some kl.2)
    (hf : ∀ kl ∈ sub, leafToTensor kl.2 (f kl.2) = .ok info) :
    ∀ acc : Bool, (acc = true → info.vectorized = true) →
      dictToTensor items acc (sub.map fun kl => (kl.1, f kl.2)) = .ok (sub.map fun _ => info) := by
  induction sub with
  | nil => intro acc _; simp [dictToTensor]
  | cons kl rest ih =>
    intro acc hacc
    have h1 := hl kl (by simp)
    have h2 := leafToTensorAcc_of acc _ _ _ (hf kl (by simp)) hacc
    have ih' := ih (fun x hx => hl x (by simp [hx])) (fun x hx => hf x (by simp [hx]))
      (acc || info.vectorized) (by
        intro h
        cases acc with
        | false => simpa using h
        | true => exact hacc rfl)
    simp [dictToTensor, h1, h2, ih']

theorem coversKeys_map (items : List (String × Leaf)) (f : Leaf → Shape) :
    coversKeys items (items.map fun kl => (kl.1, f kl.2)) = true := by
  simp only [coversKeys, List.all_eq_true, List.any_eq_true, beq_iff_eq]
  intro kl hkl
  exact ⟨(kl.1, f kl.2), List.mem_map.mpr ⟨kl, hkl, rfl⟩, rfl⟩

theorem netBatch_const (n : Nat) (info : KeyInfo) (items : List (String × Leaf)) (hne : items ≠ []) :
    netBatch (items.map fun _ => info) = .ok info.batch := by
  cases items with
  | nil => exact absurd rfl hne
  | cons a t => simp [netBatch]

theorem any_const (info : KeyInfo) (items : List (String × Leaf)) (hne : items ≠ []) :
    (items.map fun _ => info).any (·.vectorized) = info.vectorized := by
  cases items with
  | nil => exact absurd rfl hne
  | cons a t => cases hv : info.vectorized <;> simp [hv]

/-- the observation whose arrays have shape `f leaf` -/
def shaped (f : Leaf → Shape) : ObsSpace → ObsShape
  | .leaf l => .arr (f l)
  | .dict items => .dict (items.map fun kl => (kl.1, f kl.2))

/-- `obs_to_tensor` on observations of the space's own shape, all arrays with the same leading dimension
or none -/
theorem obsToTensor_uniform (os : ObsSpace) (hv : os.valid = true) (f : Leaf → Shape) (info : KeyInfo)
    (hf : ∀ l, l.valid = true → leafToTensor l (f l) = .ok info) :
    ∃ infos, obsToTensor os (shaped f os) = .ok infos ∧
      netBatch infos = .ok info.batch ∧ infos.any (·.vectorized) = info.vectorized := by
  cases os with
  | leaf l =>
    refine ⟨[info], ?_, by simp [netBatch], by simp⟩
    simp only [ObsSpace.valid] at hv
    simp [shaped, obsToTensor, hf l hv]
  | dict items =>
    simp only [ObsSpace.valid, Bool.and_eq_true, Bool.not_eq_true', List.all_eq_true] at hv
    obtain ⟨⟨hne, hnd⟩, hval⟩ := hv
    have hne' : items ≠ [] := by
      intro h; subst h; simp at hne
    refine ⟨items.map fun _ => info, ?_, netBatch_const 0 info items hne', any_const info items hne'⟩
    have := dictToTensor_map items items f info
      (fun kl hkl => lookup_of_nodup items kl.1 kl.2 hnd hkl)
      (fun kl hkl => hf kl.2 (hval kl hkl)) false (by simp)
    simp [shaped, obsToTensor, this, coversKeys_map]

theorem act_dim_eq (as : ActSpace) : as.dim = prod as.shape := by
  cases as <;> simp [ActSpace.dim, ActSpace.shape, prod]

theorem act_shape_pos (as : ActSpace) (h : as.valid = true) : 0 < prod as.shape := by
  cases as with
  | box s => exact prod_pos_of_pos s h
  | discrete n => simp [ActSpace.shape, prod]
  | multiDiscrete nv =>
    simp only [ActSpace.valid, Bool.and_eq_true, decide_eq_true_eq] at h
    simp [ActSpace.shape, prod]; exact h.2
  | multiBinary n =>
    simp only [ActSpace.valid, decide_eq_true_eq] at h
    simp [ActSpace.shape, prod]; exact h

theorem finishShape_eq (as : ActSpace) (h : as.valid = true) (b : Nat) (v : Bool) :
    finishShape as b v = if v then .ok (b :: as.shape) else if b = 1 then .ok as.shape else .error .squeeze := by
  have hp := act_shape_pos as h
  have h0 : prod as.shape ≠ 0 := by omega
  simp [finishShape, inferBatchN, act_dim_eq, h0, Nat.mul_div_cancel _ hp]

/-! ### `predict` and the exploration branch of `DQN.predict` -/

theorem single_eq_shaped (os : ObsSpace) : os.single = shaped Leaf.shape os := by
  cases os <;> rfl

theorem batched_eq_shaped (n : Nat) (os : ObsSpace) : os.batched n = shaped (fun l => n :: l.shape) os := by
  cases os <;> rfl

theorem predict_uniform (os : ObsSpace) (as : ActSpace) (hv : os.valid = true) (hfl : os.flattenable = true)
    (f : Leaf → Shape) (info : KeyInfo)
    (hf : ∀ l, l.valid = true → leafToTensor l (f l) = .ok info) :
    predict os as (shaped f os) = finishShape as info.batch info.vectorized := by
  obtain ⟨infos, h1, h2, h3⟩ := obsToTensor_uniform os hv f info hf
  simp [predict, h1, h2, h3, hfl]

theorem predict_single (os : ObsSpace) (as : ActSpace) (hv : os.valid = true) (hfl : os.flattenable = true)
    (ha : as.valid = true) : predict os as os.single = .ok as.shape := by
  rw [single_eq_shaped, predict_uniform os as hv hfl Leaf.shape ⟨1, false, false⟩ leafToTensor_single,
    finishShape_eq as ha]
  simp

theorem predict_batched (os : ObsSpace) (as : ActSpace) (n : Nat) (hv : os.valid = true)
    (hfl : os.flattenable = true) (ha : as.valid = true) :
    predict os as (os.batched n) = .ok (n :: as.shape) := by
  rw [batched_eq_shaped, predict_uniform os as hv hfl (fun l => n :: l.shape) ⟨n, true, false⟩
    (fun l hl => leafToTensor_batch l n hl), finishShape_eq as ha]
  simp

theorem vectorizedFlag_uniform (os : ObsSpace) (hv : os.valid = true) (f : Leaf → Shape) (info : KeyInfo)
    (hf : ∀ l, l.valid = true → leafToTensor l (f l) = .ok info) :
    vectorizedFlag os (shaped f os) = .ok info.vectorized := by
  obtain ⟨infos, h1, h2, h3⟩ := obsToTensor_uniform os hv f info hf
  simp [vectorizedFlag, h1, h3]

theorem leafIsVectorized_of (l : Leaf) (s : Shape) (info : KeyInfo) (h : leafToTensor l s = .ok info) :
    leafIsVectorized l s = .ok info.vectorized := by
  simp only [leafToTensor, leafToTensorAcc, Bool.false_eq_true, if_false] at h
  simp only [leafIsVectorized]
  split at h
  · simp at h
  · rename_i o tr hmt
    split at h
    · simp at h
    · rename_i v hv
      split at h
      · simp at h
      · simp only [Except.ok.injEq] at h
        subst h
        simpa using hv

theorem dictIsVectorized_map (items sub : List (String × Leaf)) (f : Leaf → Shape) (info : KeyInfo)
    (hl : ∀ kl ∈ sub, items.lookup kl.1 = some kl.2)
    (hf : ∀ kl ∈ sub, leafToTensor kl.2 (f kl.2) = .ok info) :
    ∀ acc : Bool, (acc = true → info.vectorized = true) →
      dictIsVectorized items acc (sub.map fun kl => (kl.1, f kl.2)) =
        .ok (acc || (info.vectorized && !sub.isEmpty)) := by
  induction sub with
  | nil => intro acc _; simp [dictIsVectorized]
  | cons kl rest ih =>
    intro acc hacc
    have h1 := hl kl (by simp)
    have h2 := leafIsVectorized_of _ _ _ (hf kl (by simp))
    have ih' := ih (fun x hx => hl x (by simp [hx])) (fun x hx => hf x (by simp [hx]))
    cases acc with
    | true =>
      have := ih' true hacc
      simp [dictIsVectorized, h1, this]
    | false =>
      have := ih' info.vectorized (fun h => h)
      simp only [List.map_cons, dictIsVectorized, h1, h2, this, Bool.false_eq_true, if_false]
      cases info.vectorized <;> simp

theorem policyIsVectorized_uniform (os : ObsSpace) (hv : os.valid = true) (f : Leaf → Shape) (info : KeyInfo)
    (hf : ∀ l, l.valid = true → leafToTensor l (f l) = .ok info) :
    policyIsVectorized os (shaped f os) = .ok info.vectorized := by
  cases os with
  | leaf l =>
    simp only [ObsSpace.valid] at hv
    simp [shaped, policyIsVectorized, leafIsVectorized_of _ _ _ (hf l hv)]
  | dict items =>
    simp only [ObsSpace.valid, Bool.and_eq_true, Bool.not_eq_true', List.all_eq_true] at hv
    obtain ⟨⟨hne, hnd⟩, hval⟩ := hv
    have := dictIsVectorized_map items items f info
      (fun kl hkl => lookup_of_nodup items kl.1 kl.2 hnd hkl)
      (fun kl hkl => hf kl.2 (hval kl hkl)) false (by simp)
    simp [shaped, policyIsVectorized, this, hne]

theorem firstDim_batched (os : ObsSpace) (n : Nat) (hv : os.valid = true) :
    firstDim (os.batched n) = .ok n := by
  cases os with
  | leaf l => simp [ObsSpace.batched, firstDim]
  | dict items =>
    cases items with
    | nil => simp [ObsSpace.valid] at hv
    | cons a t => simp [ObsSpace.batched, firstDim]

theorem dqnExplore_single (os : ObsSpace) (as : ActSpace) (hv : os.valid = true) :
    dqnExplore os as os.single = .ok as.shape := by
  rw [single_eq_shaped]
  simp [dqnExplore, policyIsVectorized_uniform os hv Leaf.shape ⟨1, false, false⟩ leafToTensor_single]

theorem dqnExplore_batched (os : ObsSpace) (as : ActSpace) (n : Nat) (hv : os.valid = true) :
    dqnExplore os as (os.batched n) = .ok (n :: as.shape) := by
  have h := policyIsVectorized_uniform os hv (fun l => n :: l.shape) ⟨n, true, false⟩
    (fun l hl => leafToTensor_batch l n hl)
  rw [← batched_eq_shaped] at h
  simp [dqnExplore, h, firstDim_batched os n hv]

/-! ### Values: clipping, unscaling -/

section Order
variable {α : Type} [LinearOrder α]

theorem clip_le (x lo hi : α) (h : lo ≤ hi) : clip x lo hi ≤ hi := by
  unfold clip
  dsimp only
  split_ifs <;> first | exact le_refl _ | exact h | (exact not_lt.mp ‹_›)

theorem le_clip (x lo hi : α) (h : lo ≤ hi) : lo ≤ clip x lo hi := by
  unfold clip
  dsimp only
  split_ifs <;> first | exact le_refl _ | exact h | (exact not_lt.mp ‹_›)

theorem clip_id (x lo hi : α) (h1 : lo ≤ x) (h2 : x ≤ hi) : clip x lo hi = x := by
  unfold clip
  dsimp only
  rw [if_neg (not_lt.mpr h1), if_neg (not_lt.mpr h2)]

theorem clip_above (x lo hi : α) (h : lo ≤ hi) (hx : hi ≤ x) : clip x lo hi = hi := by
  unfold clip
  dsimp only
  rw [if_neg (not_lt.mpr (le_trans h hx))]
  split_ifs with h3
  · rfl
  · exact le_antisymm (not_lt.mp h3) hx

theorem clip_below (x lo hi : α) (h : lo ≤ hi) (hx : x ≤ lo) : clip x lo hi = lo := by
  unfold clip
  dsimp only
  split_ifs with h1 h2 h3
  · exact absurd h (not_le.mpr h2)
  · rfl
  · exact absurd (lt_of_lt_of_le h3 (le_trans hx h)) (lt_irrefl _)
  · exact le_antisymm hx (not_lt.mp h1)

/-! ### argmax -/

theorem argmaxFrom_lt (xs : List α) : ∀ (best : α) (bi i : Nat), bi < i →
    argmaxFrom best bi i xs < i + xs.length := by
  induction xs with
  | nil => intro best bi i h; simpa [argmaxFrom] using h
  | cons x xs ih =>
    intro best bi i h
    simp only [argmaxFrom, List.length_cons]
    split_ifs
    · have := ih x i (i + 1) (by omega); omega
    · have := ih best bi (i + 1) (by omega); omega

theorem argmax_lt (l : List α) (h : l ≠ []) : argmax l < l.length := by
  cases l with
  | nil => exact absurd rfl h
  | cons x xs =>
    have := argmaxFrom_lt xs x 0 1 (by omega)
    simp only [argmax, List.length_cons]; omega

theorem argmaxFrom_spec (xs : List α) : ∀ (pre : List α) (best : α) (bi : Nat),
    pre[bi]? = some best → (∀ y ∈ pre, y ≤ best) →
    ∃ v, (pre ++ xs)[argmaxFrom best bi pre.length xs]? = some v ∧ ∀ y ∈ pre ++ xs, y ≤ v := by
  induction xs with
  | nil =>
    intro pre best bi h1 h2
    exact ⟨best, by simpa [argmaxFrom] using h1, by simpa using h2⟩
  | cons x xs ih =>
    intro pre best bi h1 h2
    simp only [argmaxFrom]
    split_ifs with hlt
    · have := ih (pre ++ [x]) x pre.length (by simp) (by
        intro y hy
        rcases List.mem_append.mp hy with hy | hy
        · exact le_of_lt (lt_of_le_of_lt (h2 y hy) hlt)
        · simp at hy; rw [hy])
      simpa [List.append_assoc] using this
    · have hbi : bi < pre.length := by
        rcases Nat.lt_or_ge bi pre.length with h | h
        · exact h
        · rw [List.getElem?_eq_none_iff.mpr h] at h1; simp at h1
      have := ih (pre ++ [x]) best bi (by rw [List.getElem?_append_left hbi]; exact h1) (by
        intro y hy
        rcases List.mem_append.mp hy with hy | hy
        · exact h2 y hy
        · simp at hy; rw [hy]; exact not_lt.mp hlt)
      simpa [List.append_assoc] using this

theorem argmax_spec (l : List α) (h : l ≠ []) :
    ∃ v, l[argmax l]? = some v ∧ ∀ y ∈ l, y ≤ v := by
  cases l with
  | nil => exact absurd rfl h
  | cons x xs =>
    have := argmaxFrom_spec xs [x] x 0 (by simp) (by simp)
    simpa [argmax] using this

theorem mdMode_inMulti : ∀ (nvec : List Nat) (logits : List α),
    (∀ n ∈ nvec, 0 < n) → logits.length = nvec.sum → inMulti nvec (mdMode nvec logits) = true
  | [], logits, _, _ => by simp [mdMode, splitBy, inMulti]
  | n :: ns, logits, hpos, hlen => by
    have hn : 0 < n := hpos n (by simp)
    simp only [List.sum_cons] at hlen
    have htake : (logits.take n).length = n := by simp; omega
    have hne : logits.take n ≠ [] := by
      intro h; rw [h] at htake; simp at htake; omega
    have h1 := argmax_lt (logits.take n) hne
    rw [htake] at h1
    have ih := mdMode_inMulti ns (logits.drop n) (fun m hm => hpos m (by simp [hm])) (by simp; omega)
    simp only [mdMode] at ih
    simp [mdMode, splitBy, inMulti, h1, ih]

theorem bernMode_lt [Zero α] (x : α) : bernMode x < 2 := by
  unfold bernMode; split_ifs <;> omega

end Order

section BoxPost
variable {α : Type} [LinearOrder α] [Add α] [Sub α] [Mul α] [Div α] [OfNat α 1] [OfNat α 2]

/-- whatever the arithmetic of `affine` produces (any rounding), the result is inside the bounds -/
theorem unscale_mem (lo hi s : α) (h : lo ≤ hi) : lo ≤ unscale lo hi s ∧ unscale lo hi s ≤ hi :=
  ⟨le_clip _ _ _ h, clip_le _ _ _ h⟩

theorem postBox1_mem (squash : Bool) (lo hi x : α) (h : lo ≤ hi) :
    lo ≤ postBox1 squash lo hi x ∧ postBox1 squash lo hi x ≤ hi := by
  unfold postBox1
  split_ifs
  · exact unscale_mem lo hi x h
  · exact ⟨le_clip _ _ _ h, clip_le _ _ _ h⟩

theorem postBox_inBox (squash : Bool) : ∀ (lo hi xs : List α),
    List.Forall₂ (· ≤ ·) lo hi → xs.length = lo.length → inBox lo hi (postBox squash lo hi xs) = true
  | [], [], xs, _, hl => by
    cases xs with
    | nil => simp [postBox, inBox]
    | cons a t => simp at hl
  | l :: los, h :: his, xs, hf, hl => by
    cases xs with
    | nil => simp at hl
    | cons x xs =>
      cases hf with
      | cons hlh hrest =>
        have := postBox1_mem squash l h x hlh
        have ih := postBox_inBox squash los his xs hrest (by simpa using hl)
        simp [postBox, inBox, not_lt.mpr this.1, not_lt.mpr this.2, ih]
  | [], _ :: _, _, hf, _ => by cases hf
  | _ :: _, [], _, hf, _ => by cases hf

theorem postBox_length (squash : Bool) : ∀ (lo hi xs : List α),
    lo.length = xs.length → hi.length = xs.length → (postBox squash lo hi xs).length = xs.length
  | [], [], [], _, _ => by simp [postBox]
  | l :: los, h :: his, x :: xs, h1, h2 => by
    simp only [postBox, List.length_cons]
    rw [postBox_length squash los his xs (by simpa using h1) (by simpa using h2)]
  | [], _ :: _, [], _, h2 => by simp at h2
  | _ :: _, _, [], h1, _ => by simp at h1
  | [], _, _ :: _, h1, _ => by simp at h1
  | _ :: _, [], _ :: _, _, h2 => by simp at h2

end BoxPost

section Field
variable {α : Type} [Field α] [LinearOrder α] [IsStrictOrderedRing α]

theorem affine_mem (lo hi s : α) (h : lo ≤ hi) (h1 : -1 ≤ s) (h2 : s ≤ 1) :
    lo ≤ affine lo hi s ∧ affine lo hi s ≤ hi := by
  unfold affine
  have hd : 0 ≤ hi - lo := by linarith
  have ht : 0 ≤ s + 1 := by linarith
  have ht2 : s + 1 ≤ 2 := by linarith
  have hm : 0 ≤ (s + 1) * (hi - lo) := mul_nonneg ht hd
  have hm2 : (s + 1) * (hi - lo) ≤ 2 * (hi - lo) := mul_le_mul_of_nonneg_right ht2 hd
  constructor <;> linarith

theorem unscale_eq_affine (lo hi s : α) (h : lo ≤ hi) (h1 : -1 ≤ s) (h2 : s ≤ 1) :
    unscale lo hi s = lo + (s + 1) / 2 * (hi - lo) := by
  have := affine_mem lo hi s h h1 h2
  unfold unscale
  rw [clip_id _ _ _ this.1 this.2]
  unfold affine
  ring

theorem unscale_one (lo hi : α) (h : lo ≤ hi) : unscale lo hi 1 = hi := by
  rw [unscale_eq_affine lo hi 1 h (by norm_num) (le_refl _)]; ring

theorem unscale_neg_one (lo hi : α) (h : lo ≤ hi) : unscale lo hi (-1) = lo := by
  rw [unscale_eq_affine lo hi (-1) h (le_refl _) (by norm_num)]; ring

/-- saturation: a scaled action at or beyond `1` (resp. `-1`) gives exactly the bound -/
theorem unscale_saturate_high (lo hi s : α) (h : lo ≤ hi) (hs : 1 ≤ s) : unscale lo hi s = hi := by
  unfold unscale
  apply clip_above _ _ _ h
  unfold affine
  have hd : 0 ≤ hi - lo := by linarith
  have hm : 2 * (hi - lo) ≤ (s + 1) * (hi - lo) := mul_le_mul_of_nonneg_right (by linarith) hd
  linarith

theorem unscale_saturate_low (lo hi s : α) (h : lo ≤ hi) (hs : s ≤ -1) : unscale lo hi s = lo := by
  unfold unscale
  apply clip_below _ _ _ h
  unfold affine
  have hd : 0 ≤ hi - lo := by linarith
  have hm : (s + 1) * (hi - lo) ≤ 0 := mul_nonpos_of_nonpos_of_nonneg (by linarith) hd
  linarith

theorem unscale_scale (lo hi a : α) (h : lo < hi) (h1 : lo ≤ a) (h2 : a ≤ hi) :
    unscale lo hi (scale lo hi a) = a := by
  have hne : hi - lo ≠ 0 := by
    have : 0 < hi - lo := by linarith
    exact ne_of_gt this
  have : affine lo hi (scale lo hi a) = a := by
    unfold affine scale
    field_simp
    ring
  unfold unscale
  rw [this]
  exact clip_id a lo hi h1 h2

theorem scale_mem (lo hi a : α) (h : lo < hi) (h1 : lo ≤ a) (h2 : a ≤ hi) :
    -1 ≤ scale lo hi a ∧ scale lo hi a ≤ 1 := by
  have hd : 0 < hi - lo := by linarith
  unfold scale
  have q0 : 0 ≤ (a - lo) / (hi - lo) := div_nonneg (by linarith) (le_of_lt hd)
  have q1 : (a - lo) / (hi - lo) ≤ 1 := by
    rw [div_le_one hd]; linarith
  constructor <;> linarith

end Field

/-! ### The deterministic action is in the action space -/

/-- a well-formed action space: `low ≤ high` component-wise, at least one class per discrete component -/
def ActSpaceV.wf {α : Type} [LE α] : ActSpaceV α → Prop
  | .box lo hi => List.Forall₂ (· ≤ ·) lo hi
  | .discrete n => 0 < n
  | .multiDiscrete nv => ∀ n ∈ nv, 0 < n
  | .multiBinary _ => True

/-- number of values the network emits for one batch element -/
def ActSpaceV.outDim {α : Type} : ActSpaceV α → Nat
  | .box lo _ => lo.length
  | .discrete n => n
  | .multiDiscrete nv => nv.sum
  | .multiBinary n => n

section Mode
variable {α : Type} [LinearOrder α] [Add α] [Sub α] [Mul α] [Div α] [OfNat α 1] [OfNat α 2] [Zero α]

theorem modeAction_contains (as : ActSpaceV α) (squash : Bool) (out : List α)
    (hwf : ActSpaceV.wf as) (hlen : out.length = ActSpaceV.outDim as) :
    as.contains (modeAction as squash out) = true := by
  cases as with
  | box lo hi =>
    simp only [modeAction, ActSpaceV.contains]
    exact postBox_inBox squash lo hi out hwf hlen
  | discrete n =>
    simp only [ActSpaceV.wf] at hwf
    simp only [ActSpaceV.outDim] at hlen
    have hne : out ≠ [] := by intro h; rw [h] at hlen; simp at hlen; omega
    have := argmax_lt out hne
    simp only [modeAction, ActSpaceV.contains, decide_eq_true_eq]
    omega
  | multiDiscrete nv =>
    simp only [modeAction, ActSpaceV.contains]
    exact mdMode_inMulti nv out hwf hlen
  | multiBinary n =>
    simp only [ActSpaceV.outDim] at hlen
    simp only [modeAction, ActSpaceV.contains, Bool.and_eq_true, beq_iff_eq, List.all_eq_true,
      decide_eq_true_eq, List.length_map, List.length_take]
    refine ⟨by omega, ?_⟩
    intro k hk
    obtain ⟨x, _, rfl⟩ := List.mem_map.mp hk
    exact bernMode_lt x

end Mode

/-! ### One-hot encodings -/

section OneHot
variable {α : Type} [Zero α] [One α]

theorem oneHot_length (n k : Nat) : (oneHot n k : List α).length = n := by simp [oneHot]

theorem oneHot_getElem? (n k i : Nat) (h : i < n) :
    (oneHot n k : List α)[i]? = some (if i = k then 1 else 0) := by
  simp [oneHot, List.getElem?_map, List.getElem?_range h]

theorem oneHot_injective (h01 : (0 : α) ≠ 1) (n k k' : Nat) (hk : k < n)
    (h : (oneHot n k : List α) = oneHot n k') : k = k' := by
  have h1 := oneHot_getElem? (α := α) n k k hk
  have h2 := oneHot_getElem? (α := α) n k' k hk
  rw [h] at h1
  rw [h1] at h2
  by_contra hne
  simp [hne] at h2
  exact h01 h2.symm

theorem multiOneHot_length : ∀ (nv ks : List Nat), ks.length = nv.length →
    (multiOneHot nv ks : List α).length = nv.sum
  | [], [], _ => by simp [multiOneHot]
  | n :: ns, k :: ks, h => by
    simp only [multiOneHot, List.length_append, oneHot_length, List.sum_cons]
    rw [multiOneHot_length ns ks (by simpa using h)]
  | [], _ :: _, h => by simp at h
  | _ :: _, [], h => by simp at h

end OneHot

section OneHotOrder
variable {α : Type} [Field α] [LinearOrder α] [IsStrictOrderedRing α]

/-- the position of the `1` is the value: `argmax` decodes a one-hot vector -/
theorem argmax_oneHot (n k : Nat) (hk : k < n) : argmax (oneHot n k : List α) = k := by
  have hne : (oneHot n k : List α) ≠ [] := by
    intro h
    have := oneHot_length (α := α) n k
    rw [h] at this; simp at this; omega
  obtain ⟨v, hv, hmax⟩ := argmax_spec (oneHot n k : List α) hne
  have hlt := argmax_lt (oneHot n k : List α) hne
  rw [oneHot_length] at hlt
  rw [oneHot_getElem? n k _ hlt] at hv
  have h1 : (1 : α) ∈ (oneHot n k : List α) := by
    have := oneHot_getElem? (α := α) n k k hk
    simp only [if_true] at this
    exact List.mem_of_getElem? this
  have := hmax 1 h1
  by_contra hne'
  simp only [hne', if_false, Option.some.injEq] at hv
  rw [← hv] at this
  exact absurd this (not_le.mpr zero_lt_one)

theorem mdMode_multiOneHot : ∀ (nv ks : List Nat), allLt nv ks = true →
    mdMode nv (multiOneHot nv ks : List α) = ks
  | [], [], _ => by simp [mdMode, splitBy]
  | n :: ns, k :: ks, h => by
    simp only [allLt, Bool.and_eq_true, decide_eq_true_eq] at h
    have ih := mdMode_multiOneHot ns ks h.2
    simp only [mdMode] at ih
    have hl := oneHot_length (α := α) n k
    have ht : ((oneHot n k : List α) ++ multiOneHot ns ks).take n = oneHot n k := by
      rw [List.take_append_of_le_length (by omega), List.take_of_length_le (by omega)]
    have hd : ((oneHot n k : List α) ++ multiOneHot ns ks).drop n = multiOneHot ns ks := by
      rw [List.drop_append_of_le_length (by omega), List.drop_of_length_le (by omega)]; simp
    simp only [mdMode, multiOneHot, splitBy, ht, hd, List.map_cons, argmax_oneHot n k h.1, ih]
  | [], _ :: _, h => by simp [allLt] at h
  | _ :: _, [], h => by simp [allLt] at h

theorem multiOneHot_injective (nv ks ks' : List Nat) (h : allLt nv ks = true) (h' : allLt nv ks' = true)
    (heq : (multiOneHot nv ks : List α) = multiOneHot nv ks') : ks = ks' := by
  rw [← mdMode_multiOneHot (α := α) nv ks h, heq, mdMode_multiOneHot nv ks' h']

end OneHotOrder

/-! ### Image layout -/

theorem idx_lt (a b A B : Nat) (ha : a < A) (hb : b < B) : a * B + b < A * B := by
  have h1 : (a + 1) * B ≤ A * B := Nat.mul_le_mul_right B ha
  have h2 : (a + 1) * B = a * B + B := by ring
  omega

/-- where `out[i]` of `transposeHWC` comes from -/
def srcHWC (H W C i : Nat) : Nat := ((i % (H * W)) / W) * (W * C) + (i % W) * C + i / (H * W)

/-- where `out[i]` of `transposeCHW` comes from -/
def srcCHW (H W C i : Nat) : Nat := (i % C) * (H * W) + (i / (W * C)) * W + (i / C) % W

theorem srcHWC_at (H W C c h w : Nat) (hc : c < C) (hh : h < H) (hw : w < W) :
    srcHWC H W C (c * (H * W) + h * W + w) = h * (W * C) + w * C + c := by
  have hr : h * W + w < H * W := idx_lt h w H W hh hw
  have e1 : c * (H * W) + h * W + w = c * (H * W) + (h * W + w) := by ring
  have e2 : c * (H * W) + h * W + w = (c * H + h) * W + w := by ring
  have m1 : (c * (H * W) + h * W + w) % (H * W) = h * W + w := by
    rw [e1, Nat.mul_add_mod_of_lt hr]
  have d1 : (c * (H * W) + h * W + w) / (H * W) = c := by
    apply Nat.div_eq_of_lt_le
    · rw [e1]; exact Nat.le_add_right _ _
    · rw [e1]
      have : (c + 1) * (H * W) = c * (H * W) + H * W := by ring
      omega
  have m2 : (c * (H * W) + h * W + w) % W = w := by
    rw [e2, Nat.mul_add_mod_of_lt hw]
  have d2 : (h * W + w) / W = h := by
    apply Nat.div_eq_of_lt_le
    · exact Nat.le_add_right _ _
    · have : (h + 1) * W = h * W + W := by ring
      omega
  simp only [srcHWC, m1, d1, m2, d2]

theorem srcHWC_lt (H W C i : Nat) (hi : i < C * H * W) : srcHWC H W C i < H * W * C := by
  have hHW : 0 < H * W := by
    rcases Nat.eq_zero_or_pos (H * W) with h | h
    · rw [Nat.mul_assoc, h] at hi; simp at hi
    · exact h
  have hW : 0 < W := by
    rcases Nat.eq_zero_or_pos W with h | h
    · subst h; simp at hHW
    · exact h
  have h1 : i % (H * W) / W < H := by
    rw [Nat.div_lt_iff_lt_mul hW]; exact Nat.mod_lt _ hHW
  have h2 : i % W < W := Nat.mod_lt _ hW
  have h3 : i / (H * W) < C := by
    rw [Nat.div_lt_iff_lt_mul hHW]; rw [Nat.mul_assoc] at hi; exact hi
  have h4 : (i % W) * C + i / (H * W) < W * C := idx_lt _ _ W C h2 h3
  have h5 := idx_lt _ _ H (W * C) h1 h4
  simp only [srcHWC]
  have : H * (W * C) = H * W * C := by ring
  omega

section Transpose
variable {β γ : Type} [Inhabited β] [Inhabited γ]

theorem transposeHWC_length (H W C : Nat) (flat : List β) : (transposeHWC H W C flat).length = C * H * W := by
  simp [transposeHWC]

theorem transposeHWC_getElem? (H W C : Nat) (flat : List β) (i : Nat) (hi : i < C * H * W) :
    (transposeHWC H W C flat)[i]? = some (flat.getD (srcHWC H W C i) default) := by
  simp [transposeHWC, srcHWC, List.getElem?_map, List.getElem?_range hi]

/-- `out[c, h, w] = in[h, w, c]` -/
theorem transposeHWC_index (H W C : Nat) (flat : List β) (c h w : Nat) (hc : c < C) (hh : h < H) (hw : w < W) :
    (transposeHWC H W C flat)[c * (H * W) + h * W + w]? = some (flat.getD (h * (W * C) + w * C + c) default) := by
  have hi : c * (H * W) + h * W + w < C * H * W := by
    have h1 : h * W + w < H * W := idx_lt h w H W hh hw
    have h2 := idx_lt c (h * W + w) C (H * W) hc h1
    have : C * (H * W) = C * H * W := by ring
    omega
  rw [transposeHWC_getElem? H W C flat _ hi, srcHWC_at H W C c h w hc hh hw]

/-- a pointwise map (the `/ 255` scaling) commutes with the axis permutation -/
theorem transposeHWC_map (H W C : Nat) (f : β → γ) (flat : List β) (hlen : flat.length = H * W * C) :
    (transposeHWC H W C flat).map f = transposeHWC H W C (flat.map f) := by
  apply List.ext_getElem?
  intro i
  rcases Nat.lt_or_ge i (C * H * W) with hi | hi
  · rw [List.getElem?_map, transposeHWC_getElem? H W C flat i hi, transposeHWC_getElem? H W C _ i hi]
    have hs := srcHWC_lt H W C i hi
    simp [List.getD, List.getElem?_eq_getElem (show srcHWC H W C i < flat.length by omega)]
  · rw [List.getElem?_eq_none_iff.mpr (by simp [transposeHWC_length]; exact hi),
      List.getElem?_eq_none_iff.mpr (by simp [transposeHWC_length]; exact hi)]

theorem srcCHW_decomp (H W C i : Nat) (hi : i < H * W * C) :
    ∃ c h w, c < C ∧ h < H ∧ w < W ∧ srcCHW H W C i = c * (H * W) + h * W + w ∧
      h * (W * C) + w * C + c = i := by
  have hWC : 0 < W * C := by
    rcases Nat.eq_zero_or_pos (W * C) with h | h
    · rw [Nat.mul_assoc, h] at hi; simp at hi
    · exact h
  have hC : 0 < C := by
    rcases Nat.eq_zero_or_pos C with h | h
    · subst h; simp at hWC
    · exact h
  have hW : 0 < W := by
    rcases Nat.eq_zero_or_pos W with h | h
    · subst h; simp at hWC
    · exact h
  refine ⟨i % C, i / (W * C), (i / C) % W, Nat.mod_lt _ hC, ?_, Nat.mod_lt _ hW, rfl, ?_⟩
  · rw [Nat.div_lt_iff_lt_mul hWC]; rw [Nat.mul_assoc] at hi; exact hi
  · have e1 := Nat.div_add_mod i C
    have e2 := Nat.div_add_mod (i / C) W
    have e3 : i / C / W = i / (W * C) := by rw [Nat.div_div_eq_div_mul, Nat.mul_comm]
    rw [e3] at e2
    calc i / (W * C) * (W * C) + i / C % W * C + i % C
        = C * (W * (i / (W * C)) + i / C % W) + i % C := by ring
      _ = C * (i / C) + i % C := by rw [e2]
      _ = i := e1

/-- `transposeCHW` undoes `transposeHWC`: the re-ordering loses and duplicates nothing -/
theorem transposeCHW_transposeHWC (H W C : Nat) (flat : List β) (hlen : flat.length = H * W * C) :
    transposeCHW H W C (transposeHWC H W C flat) = flat := by
  apply List.ext_getElem?
  intro i
  rcases Nat.lt_or_ge i (H * W * C) with hi | hi
  · obtain ⟨c, h, w, hc, hh, hw, hsrc, hback⟩ := srcCHW_decomp H W C i hi
    have hget : (transposeCHW H W C (transposeHWC H W C flat))[i]? =
        some ((transposeHWC H W C flat).getD (srcCHW H W C i) default) := by
      simp [transposeCHW, srcCHW, List.getElem?_map, List.getElem?_range hi]
    rw [hget, hsrc]
    have := transposeHWC_index H W C flat c h w hc hh hw
    simp only [List.getD, this, Option.getD_some, hback]
    rw [List.getElem?_eq_getElem (show i < flat.length by omega)]
    simp
  · rw [List.getElem?_eq_none_iff.mpr (by simp [transposeCHW]; exact hi),
      List.getElem?_eq_none_iff.mpr (by omega)]

end Transpose

/-! ### A Dict observation with one batched and one single array -/

theorem predict_two_keys (k1 k2 : String) (l1 l2 : Leaf) (as : ActSpace) (n : Nat) (hk : k1 ≠ k2)
    (h1 : l1.valid = true) (h2 : l2.valid = true) (f1 : l1.flattenable = true) (f2 : l2.flattenable = true)
    (ha : as.valid = true) :
    predict (.dict [(k1, l1), (k2, l2)]) as (.dict [(k1, n :: l1.shape), (k2, l2.shape)]) =
      if n = 1 then .ok (1 :: as.shape) else .error .mixedBatch := by
  have hb : (k2 == k1) = false := by simpa using fun h => hk h.symm
  have hc : coversKeys [(k1, l1), (k2, l2)] [(k1, n :: l1.shape), (k2, l2.shape)] = true := by
    simp [coversKeys]
  have hb1 : leafToTensorAcc false l1 (n :: l1.shape) = .ok ⟨n, true, false⟩ := leafToTensor_batch l1 n h1
  have hs2 : leafToTensorAcc true l2 l2.shape = .ok ⟨1, true, false⟩ := by
    have hf : fits l2.shape l2.shape = true := by simp [fits]
    simp [leafToTensorAcc, maybeTranspose_fits l2 _ hf, inferBatch_single _ (leaf_shape_pos l2 h2)]
  have ht : dictToTensor [(k1, l1), (k2, l2)] false [(k1, n :: l1.shape), (k2, l2.shape)] =
      .ok [⟨n, true, false⟩, ⟨1, true, false⟩] := by
    simp [dictToTensor, List.lookup, hb, hb1, hs2]
  simp only [predict, obsToTensor, ht, hc, if_true, ObsSpace.flattenable, List.all_cons, f1, f2, List.all_nil,
    Bool.and_self, Bool.not_true, Bool.false_eq_true, if_false, netBatch]
  by_cases hn : n = 1
  · subst hn
    simp [finishShape_eq as ha]
  · have : ((1 : Nat) == n) = false := by simpa using fun h => hn h.symm
    simp [this, hn]

end SB3Verif.Lemmas.Predict
