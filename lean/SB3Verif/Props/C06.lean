/-
C06 — On-policy collection records what happened and bootstraps time-limit truncations.

Property theorems only (helper lemmas are in `SB3Verif/Lemmas/OnPolicy.lean`). All statements are about the
executable model `SB3Verif/Model/OnPolicy.lean`, whose definitions the driver `SB3Verif/Driver/C06.lean`
runs against real PPO / A2C training runs on scripted environments.

Quantifiers: every statement holds for every environment index `e` (so for every `n_envs ≥ 1`), every
number of steps, every stream of environment outputs (all episode scripts) and of policy samples, every
critic `V`, every `γ`, every way of cutting the steps into rollouts and `learn()` calls.
-/
import SB3Verif.Lemmas.OnPolicy

namespace SB3Verif.C06

open SB3Verif.OnPolicy

section collection
variable {O A α : Type} [Add α] [Mul α]

/-- **Slot contents.** Let `p` be the state in front of step `t` of a rollout — the carried state `c` for
`t = 0`, otherwise what step `t-1` left (`new_obs`, `dones`) — and `x` the externals of step `t`. Then slot
`(t, e)` holds: the observation the policy saw, the action it sampled (as sampled), the environment's reward
after time-limit handling, the episode-start flag `p.lastStarts e`, and the value / log-probability the
current policy assigns to that observation / action. -/
theorem slot_contents (γ : α) (V : O → α) (f : A → A) (c : Carry O) (xs : List (StepIn O A α))
    (t : ℕ) (p : Carry O) (x : StepIn O A α)
    (hp : (c :: xs.map carryOf)[t]? = some p) (hx : xs[t]? = some x) (e : ℕ) :
    ((collectRollout γ V f c xs).rows[t]?).map (fun row => row e) =
      some { obs := p.lastObs e
             action := (x.sample e).action
             reward := rewardOf γ V (x.out e)
             start := p.lastStarts e
             value := V (p.lastObs e)
             logp := (x.sample e).logp } := by
  simp [collectRollout, Lemmas.collectLoop_rows, List.getElem?_zipWith, hp, hx, slotOf]

/-- A rollout of `n_steps` iterations fills exactly `n_steps` rows. -/
theorem rows_length (γ : α) (V : O → α) (f : A → A) (c : Carry O) (xs : List (StepIn O A α)) :
    (collectRollout γ V f c xs).rows.length = xs.length := by
  simp [collectRollout, Lemmas.collectLoop_rows_length]

/-- **Episode start = previous done, observation = previous successor** inside a rollout: the slot of step
`t+1` holds the observation returned by step `t` and the `done` flag of step `t`. -/
theorem episode_start_is_previous_done (γ : α) (V : O → α) (f : A → A) (c : Carry O)
    (xs : List (StepIn O A α)) (t : ℕ) (x₀ x₁ : StepIn O A α)
    (h₀ : xs[t]? = some x₀) (h₁ : xs[t + 1]? = some x₁) (e : ℕ) :
    ((collectRollout γ V f c xs).rows[t + 1]?).map (fun row => ((row e).obs, (row e).start)) =
      some ((x₀.out e).obs, (x₀.out e).done) := by
  have hp : (c :: xs.map carryOf)[t + 1]? = some (carryOf x₀) := by simp [h₀]
  have := slot_contents γ V f c xs (t + 1) (carryOf x₀) x₁ hp h₁ e
  cases h : (collectRollout γ V f c xs).rows[t + 1]? with
  | none => simp [h] at this
  | some row =>
    simp only [h, Option.map_some, Option.some.injEq] at this
    simp [this, carryOf]

/-- The first slot of a rollout holds the carried observation and the carried episode-start flag. -/
theorem first_slot_from_carry (γ : α) (V : O → α) (f : A → A) (c : Carry O) (x : StepIn O A α)
    (xs : List (StepIn O A α)) (e : ℕ) :
    ((collectRollout γ V f c (x :: xs)).rows[0]?).map (fun row => ((row e).obs, (row e).start, (row e).value)) =
      some (c.lastObs e, c.lastStarts e, V (c.lastObs e)) := by
  simp [collectRollout, collectLoop, slotOf]

/-- **The buffer keeps the sampled action**: the rows do not depend on the clip / unscale map at all. -/
theorem buffer_keeps_unclipped (γ : α) (V : O → α) (f g : A → A) (c : Carry O) (xs : List (StepIn O A α)) :
    (collectRollout γ V f c xs).rows = (collectRollout γ V g c xs).rows := by
  simp [collectRollout, Lemmas.collectLoop_rows]

/-- **The environment receives the transformed action**: at step `t`, sub-environment `e` is stepped with
`f (sampled action)`, `f` being the clip / unscale / identity map of the action space. -/
theorem env_receives_transformed (γ : α) (V : O → α) (f : A → A) (c : Carry O) (xs : List (StepIn O A α))
    (t : ℕ) (e : ℕ) :
    ((collectRollout γ V f c xs).envActs[t]?).map (fun a => a e) =
      (xs[t]?).map (fun x => f (x.sample e).action) := by
  simp only [collectRollout, Lemmas.collectLoop_acts, List.getElem?_map, Option.map_map]
  cases xs[t]? <;> rfl

/-! ### Time-limit bootstrap -/

/-- **Bootstrap rule at the `VecEnv` interface**: the stored reward is `r + γ·V(terminal observation)` when
`done`, a terminal observation is present and the `TimeLimit.truncated` flag is set; it is `r` in every other
case. The `γ` is the algorithm's `γ`, the `V` the critic that also produced the slot values. -/
theorem reward_bootstrap (γ : α) (V : O → α) (o : VOut O α) :
    rewardOf γ V o =
      match o.terminalObs with
      | some tobs => if o.done && o.timeLimit then o.reward + γ * V tobs else o.reward
      | none => o.reward := by
  unfold rewardOf
  cases o.done <;> cases o.terminalObs <;> cases o.timeLimit <;> simp

/-- **Exactly on time-limit truncation** (end to end through the vectorised environment): the reward is
increased by `γ·V(last observation of the episode)` iff the episode was truncated and not terminated. -/
theorem reward_bootstrap_exact (γ : α) (V : O → α) (r : Raw O α) :
    rewardOf γ V (vecOut r) =
      if r.truncated && !r.terminated then r.reward + γ * V r.obs else r.reward := by
  unfold rewardOf vecOut
  cases r.terminated <;> cases r.truncated <;> cases r.staleTerminal <;> simp

/-- **The `done` guard**: the same exact rule holds for a vectorised environment that writes
`TimeLimit.truncated` / `terminal_observation` only when an episode ends, fed by sub-environments that return one
info dict object for their whole life — the stale `TimeLimit.truncated = True` and stale `terminal_observation`
of an earlier truncated episode, still visible on later steps, never change a reward, whatever they are. -/
theorem reward_bootstrap_exact_lazy (γ : α) (V : O → α) (r : Raw O α) :
    rewardOf γ V (vecOutLazy r) =
      if r.truncated && !r.terminated then r.reward + γ * V r.obs else r.reward := by
  unfold rewardOf vecOutLazy
  cases r.terminated <;> cases r.truncated <;> cases r.staleTerminal <;> cases r.staleTimeLimit <;> simp

/-- Hence the stored reward does not depend on what the reused info dict still carries. -/
theorem stale_info_keys_ignored (γ : α) (V : O → α) (r : Raw O α) (st : Option O) (sf : Bool) :
    rewardOf γ V (vecOutLazy { r with staleTerminal := st, staleTimeLimit := sf }) = rewardOf γ V (vecOutLazy r) ∧
      rewardOf γ V (vecOut { r with staleTerminal := st, staleTimeLimit := sf }) = rewardOf γ V (vecOut r) := by
  simp [reward_bootstrap_exact_lazy, reward_bootstrap_exact]

/-- truncated, not terminated ⇒ bootstrapped with the value of the *terminal* observation (not of the
observation of the next episode, which is what `new_obs` holds). -/
theorem reward_truncated (γ : α) (V : O → α) (r : Raw O α) (h₁ : r.truncated = true) (h₂ : r.terminated = false) :
    rewardOf γ V (vecOut r) = r.reward + γ * V r.obs ∧ (vecOut r).obs = r.resetObs := by
  refine ⟨by rw [reward_bootstrap_exact]; simp [h₁, h₂], by simp [vecOut, h₁, h₂]⟩

/-- terminated (with or without a simultaneous truncation) ⇒ never bootstrapped. -/
theorem reward_terminated (γ : α) (V : O → α) (r : Raw O α) (h : r.terminated = true) :
    rewardOf γ V (vecOut r) = r.reward := by
  simp [reward_bootstrap_exact, h]

/-- episode continues ⇒ the environment's reward, and the next observation is the step's own. -/
theorem reward_running (γ : α) (V : O → α) (r : Raw O α) (h₁ : r.terminated = false) (h₂ : r.truncated = false) :
    rewardOf γ V (vecOut r) = r.reward ∧ (vecOut r).obs = r.obs ∧ (vecOut r).done = false := by
  refine ⟨by rw [reward_bootstrap_exact]; simp [h₁, h₂], by simp [vecOut, h₁, h₂], by simp [vecOut, h₁, h₂]⟩

/-! ### End of the rollout -/

/-- **Last values from the successor observation**: `compute_returns_and_advantage` receives the values of
the observation returned by the last step of the rollout, and that step's `dones`. -/
theorem last_values_from_successor (γ : α) (V : O → α) (f : A → A) (c : Carry O) (xs : List (StepIn O A α))
    (x : StepIn O A α) (hx : xs.getLast? = some x) (e : ℕ) :
    (collectRollout γ V f c xs).lastValues e = V ((x.out e).obs) ∧
      (collectRollout γ V f c xs).lastDones e = (x.out e).done := by
  simp [collectRollout, hx, carryOf]

/-- The observation / flags used for the last values are exactly the state carried into the next rollout. -/
theorem last_values_eq_carry (γ : α) (V : O → α) (f : A → A) (c : Carry O) (xs : List (StepIn O A α)) (e : ℕ) :
    (collectRollout γ V f c xs).lastValues e = V ((collectRollout γ V f c xs).carry.lastObs e) ∧
      (collectRollout γ V f c xs).lastDones e = (collectRollout γ V f c xs).carry.lastStarts e := by
  simp only [collectRollout, Lemmas.collectLoop_carry]
  cases xs.getLast? <;> simp

/-! ### State carried across rollouts and `learn()` calls -/

/-- After a rollout the carried state is what its last step returned (unchanged if there was no step). -/
theorem rollout_carry (γ : α) (V : O → α) (f : A → A) (c : Carry O) (xs : List (StepIn O A α)) :
    (collectRollout γ V f c xs).carry = (xs.getLast?.map carryOf).getD c := by
  simp [collectRollout, Lemmas.collectLoop_carry]

omit [Add α] [Mul α] in
/-- **`set_env` / `load(env=…)` restart the carried state.** They forget the last observation (`_last_obs = None`); the next
`learn()` call then resets the environment whatever `reset_num_timesteps` says, and BOTH carried pieces restart together:
the observation is the reset observation and every episode-start flag is true — exactly the state a resetting `learn()`
produces from any previous state `c`. (The driver's `set_env` operation is this forgetting.) -/
theorem set_env_restarts_carry (c : Carry O) (r : Bool) (obs : Nat → O) :
    setupLearn (none : Option (Carry O)) r obs = fresh obs ∧
    setupLearn (none : Option (Carry O)) r obs = setupLearn (some c) true obs ∧
    (∀ e, (setupLearn (none : Option (Carry O)) r obs).lastStarts e = true) := by
  simp [setupLearn, fresh]

/-- **State carry, all histories.** Take any sequence of `learn()` calls that do not reset the environment
and rollouts (of any lengths, each with its own policy). The (observation, episode-start) pairs stored in
the buffer rows, read one after the other across all rollouts, are the initial state followed by what each
environment step returned — shifted by one step, nothing skipped, nothing repeated, however the steps are
cut into rollouts and `learn()` calls. -/
theorem state_carry (γ : α) (f : A → A) (c : Carry O) (ops : List (Op O A α)) (h : noReset ops = true) :
    (allRows (runOps γ f c ops)).map rowCarry =
      (c :: (allSteps ops).map carryOf).take (allSteps ops).length := by
  induction ops generalizing c with
  | nil => simp [runOps, allRows, allSteps]
  | cons op ops ih =>
    cases op with
    | learn r obs =>
      simp only [noReset, Bool.and_eq_true, Bool.not_eq_true'] at h
      simp only [runOps, setupLearn, h.1, allSteps]
      exact ih c h.2
    | rollout V xs =>
      simp only [noReset] at h
      have ih' := ih (collectRollout γ V f c xs).carry h
      simp only [runOps, allRows, List.flatMap_cons, List.map_append, allSteps, List.length_append] at ih' ⊢
      rw [ih', rollout_carry]
      have hrows : (collectRollout γ V f c xs).rows.map rowCarry = (c :: xs.map carryOf).take xs.length := by
        simp only [collectRollout]; exact Lemmas.rows_rowCarry γ V f c xs
      rw [hrows]
      have := Lemmas.take_append_carry c (xs.map carryOf) ((allSteps ops).map carryOf)
      simp only [List.length_map, List.getLast?_map] at this
      rw [← this]

/-- The state after any such history is what the very last environment step returned. -/
theorem carry_after_ops (γ : α) (f : A → A) (c : Carry O) (ops : List (Op O A α)) (h : noReset ops = true) :
    carryAfterOps γ f c ops = ((allSteps ops).getLast?.map carryOf).getD c := by
  induction ops generalizing c with
  | nil => simp [carryAfterOps, allSteps]
  | cons op ops ih =>
    cases op with
    | learn r obs =>
      simp only [noReset, Bool.and_eq_true, Bool.not_eq_true'] at h
      simp only [carryAfterOps, setupLearn, h.1, allSteps]
      exact ih c h.2
    | rollout V xs =>
      simp only [noReset] at h
      simp only [carryAfterOps, allSteps, ih _ h, rollout_carry, List.getLast?_append]
      cases (allSteps ops).getLast? <;> simp

/-- `learn(reset_num_timesteps=False)` on an initialised algorithm does not touch the carried state:
the next rollout continues the running episodes. -/
theorem learn_without_reset_continues (γ : α) (f : A → A) (c : Carry O) (obs : ℕ → O) (ops : List (Op O A α)) :
    runOps γ f c (.learn false obs :: ops) = runOps γ f c ops := by
  simp [runOps, setupLearn]

/-- A resetting `learn()` forgets the past: what follows starts from the reset observation with every
episode-start flag set, whatever happened before. -/
theorem reset_forgets (γ : α) (f : A → A) (c : Carry O) (obs : ℕ → O) (ops₁ ops₂ : List (Op O A α)) :
    runOps γ f c (ops₁ ++ .learn true obs :: ops₂) = runOps γ f c ops₁ ++ runOps γ f (fresh obs) ops₂ := by
  induction ops₁ generalizing c with
  | nil => simp [runOps, setupLearn]
  | cons op ops ih =>
    cases op with
    | learn r o => simp [runOps, ih]
    | rollout V xs => simp [runOps, ih]

/-- The first `learn()` of a new algorithm (`_last_obs is None`) resets whatever `reset_num_timesteps` says. -/
theorem first_learn_resets (r : Bool) (obs : ℕ → O) (e : ℕ) :
    (setupLearn (none : Option (Carry O)) r obs).lastObs e = obs e ∧
      (setupLearn (none : Option (Carry O)) r obs).lastStarts e = true := by
  simp [setupLearn, fresh]

/-- **One long rollout = two consecutive ones** (same policy): cutting a rollout anywhere changes no slot. -/
theorem rollout_split (γ : α) (V : O → α) (f : A → A) (c : Carry O) (xs ys : List (StepIn O A α)) :
    (collectRollout γ V f c (xs ++ ys)).rows =
      (collectRollout γ V f c xs).rows ++
        (collectRollout γ V f (collectRollout γ V f c xs).carry ys).rows := by
  induction xs generalizing c with
  | nil => simp [collectRollout, collectLoop]
  | cons x xs ih =>
    have := ih (carryOf x)
    simp only [collectRollout, collectLoop, List.cons_append] at this ⊢
    rw [this]

/-- **Environments do not influence each other**: slot `(t, e)` and the action environment `e` receives depend
only on component `e` of the carried state, of the actor samples and of the environment outputs. -/
theorem env_independent (γ : α) (V : O → α) (f : A → A) (c c' : Carry O) (xs ys : List (StepIn O A α)) (e : ℕ)
    (hc : c.lastObs e = c'.lastObs e ∧ c.lastStarts e = c'.lastStarts e)
    (h : List.Forall₂ (fun x y => x.sample e = y.sample e ∧ x.out e = y.out e) xs ys) :
    (collectRollout γ V f c xs).rows.map (fun row => row e) =
        (collectRollout γ V f c' ys).rows.map (fun row => row e) ∧
      (collectRollout γ V f c xs).envActs.map (fun a => a e) =
        (collectRollout γ V f c' ys).envActs.map (fun a => a e) := by
  simp only [collectRollout]
  induction h generalizing c c' with
  | nil => simp [collectLoop]
  | @cons x y xs ys hxy _ ih =>
    have hc' : (carryOf x).lastObs e = (carryOf y).lastObs e ∧
        (carryOf x).lastStarts e = (carryOf y).lastStarts e := by
      simp [carryOf, hxy.2]
    have := ih (carryOf x) (carryOf y) hc'
    simp only [collectLoop, List.map_cons, this.1, this.2, slotOf, hc.1, hc.2, hxy.1, hxy.2, and_self]

end collection

/-! ### Hand-over to GAE (composition with the C05 model) -/

section gae
variable {O A α : Type} [CommRing α]

/-- **The rollout is bootstrapped with the successor of its last step.** Feeding the collected buffer and
`lastValues` / `lastDones` to the GAE loop of C05, the advantage of the last step of environment `e` is
`r′ + γ · V(observation after the last step) · (1 − done) − V(observation of the last step)`, for every
rollout length, every `λ`, every history — `r′` being the (possibly time-limit bootstrapped) stored reward.
(All earlier advantages then follow from C05's closed form.) -/
theorem last_step_advantage (γ lam : α) (V : O → α) (f : A → A) (c : Carry O)
    (init : List (StepIn O A α)) (x : StepIn O A α) (e : ℕ) :
    (advantagesOf γ lam (collectRollout γ V f c (init ++ [x])) e).getLast? =
      some (rewardOf γ V (x.out e) + γ * V ((x.out e).obs) * (1 - boolS (x.out e).done)
            - V (((init.getLast?.map carryOf).getD c).lastObs e)) := by
  have hl := last_values_from_successor γ V f c (init ++ [x]) x (by simp) e
  have hrows := rollout_split γ V f c init [x]
  unfold advantagesOf
  rw [hl.1, hl.2, hrows, rollout_carry]
  simp only [gaeSteps, List.map_append]
  have : (collectRollout γ V f ((init.getLast?.map carryOf).getD c) [x]).rows =
      [slotOf γ V ((init.getLast?.map carryOf).getD c) x] := by
    simp [collectRollout, collectLoop]
  rw [this]
  simp only [List.map_cons, List.map_nil]
  rw [Lemmas.gaeCol_snoc_getLast]
  simp [slotOf]

/-- **End to end: the advantages `collect_rollouts` leaves in the buffer are GAE of what happened.**
For every environment `e`, rollout length `T = xs.length`, step `t`, `γ`, `λ`, episode script and policy / critic
stream, the advantage computed from the collected buffer (C05's backward loop on the stored rewards, values,
episode starts, with `last_values` / `dones`) is C05's closed form written on the *externals*:
`Σ_{l < T-t} (γλ)^l · Π_{j<l} (1 − done_{t+j}) · δ_{t+l}` with
`δ_k = r′_k + γ · V(observation returned by step k) · (1 − done_k) − V(observation the policy saw at step k)`,
`r′_k` = environment reward `+ γ·V(terminal observation)` exactly on time-limit truncation (`tdAt`, `rewardOf`),
`done_k` the previous-done flags that became the episode starts, and the last step bootstrapped with the
value of its successor observation times `(1 − last done)`. -/
theorem advantages_are_gae_of_collected_rollout (γ lam : α) (V : O → α) (f : A → A) (c : Carry O)
    (xs : List (StepIn O A α)) (e t : ℕ) :
    (advantagesOf γ lam (collectRollout γ V f c xs) e).getD t 0 =
      ∑ l ∈ Finset.range (xs.length - t),
        (γ * lam) ^ l * (∏ j ∈ Finset.range l, (1 - boolS (doneAt xs e (t + j)))) * tdAt γ V c xs e (t + l) :=
  Lemmas.adv_closed γ lam V f c xs e t

/-- … and the returns are those advantages plus the value of the observation the policy saw. -/
theorem returns_are_advantage_plus_value (γ lam : α) (V : O → α) (f : A → A) (c : Carry O)
    (xs : List (StepIn O A α)) (e t : ℕ) (p : Carry O) (ht : t < xs.length)
    (hp : (c :: xs.map carryOf)[t]? = some p) :
    (returnsOf γ lam (collectRollout γ V f c xs) e).getD t 0 =
      (advantagesOf γ lam (collectRollout γ V f c xs) e).getD t 0 + V (p.lastObs e) := by
  have hx : xs[t]? = some xs[t] := List.getElem?_eq_getElem ht
  have hs : (gaeSteps (collectRollout γ V f c xs).rows e)[t]? = some (Lemmas.mkStep γ V e p xs[t]) := by
    rw [Lemmas.gaeSteps_rows, List.getElem?_zipWith, hp, hx]
  have hlen : t < (advantagesOf γ lam (collectRollout γ V f c xs) e).length := by
    unfold advantagesOf
    rw [SB3Verif.Lemmas.gaeCol_length, Lemmas.steps_length]; exact ht
  have ha : (advantagesOf γ lam (collectRollout γ V f c xs) e)[t]? =
      some ((advantagesOf γ lam (collectRollout γ V f c xs) e)[t]) := List.getElem?_eq_getElem hlen
  simp only [returnsOf, SB3Verif.Rollout.returnsCol, List.getD_eq_getElem?_getD, List.getElem?_zipWith, ha, hs]
  simp [Lemmas.mkStep]

/-- **Inside one episode** (`s ≤ t`, no episode end in `[s, t)`, episode ends at step `t`): the sum runs through
the end of the episode with full weights and stops there — nothing of the next episode leaks in. -/
theorem advantage_within_episode (γ lam : α) (V : O → α) (f : A → A) (c : Carry O) (xs : List (StepIn O A α))
    (e s t : ℕ) (hst : s ≤ t) (ht : t < xs.length) (hrun : ∀ j, s ≤ j → j < t → doneAt xs e j = false)
    (hend : doneAt xs e t = true) :
    (advantagesOf γ lam (collectRollout γ V f c xs) e).getD s 0 =
      ∑ l ∈ Finset.range (t - s + 1), (γ * lam) ^ l * tdAt γ V c xs e (s + l) :=
  Lemmas.adv_segment γ lam V f c xs e s t hst ht hrun hend

/-- TD residual of a step cut by the time limit (not terminated): `r + γ·V(terminal observation) − V(obs)`;
the first observation of the next episode does not enter. -/
theorem td_residual_truncated (γ : α) (V : O → α) (c : Carry O) (xs : List (StepIn O A α)) (e t : ℕ)
    (p : Carry O) (x : StepIn O A α) (r : Raw O α)
    (hp : (c :: xs.map carryOf)[t]? = some p) (hx : xs[t]? = some x) (hr : x.out e = vecOut r)
    (h₁ : r.truncated = true) (h₂ : r.terminated = false) :
    tdAt γ V c xs e t = r.reward + γ * V r.obs - V (p.lastObs e) := by
  simp only [tdAt, hp, hx, hr, (reward_truncated γ V r h₁ h₂).1]
  simp [vecOut, h₁, h₂, boolS]

/-- TD residual of a terminated step (truncated at the same time or not): `r − V(obs)`, no bootstrap at all. -/
theorem td_residual_terminated (γ : α) (V : O → α) (c : Carry O) (xs : List (StepIn O A α)) (e t : ℕ)
    (p : Carry O) (x : StepIn O A α) (r : Raw O α)
    (hp : (c :: xs.map carryOf)[t]? = some p) (hx : xs[t]? = some x) (hr : x.out e = vecOut r)
    (h : r.terminated = true) :
    tdAt γ V c xs e t = r.reward - V (p.lastObs e) := by
  simp only [tdAt, hp, hx, hr, reward_terminated γ V r h]
  simp [vecOut, h, boolS]

/-- **A truncation is bootstrapped, not cut.** If the episode of environment `e` is truncated (not terminated)
at step `t`, the advantage of step `t` is `r_t + γ·V(terminal observation) − V(obs_t)`, and for every earlier step
`s` of the same episode the GAE sum continues through that bootstrapped residual with weight `(γλ)^{t-s}` (and
ends there). -/
theorem truncation_is_bootstrapped_not_cut (γ lam : α) (V : O → α) (f : A → A) (c : Carry O)
    (xs : List (StepIn O A α)) (e s t : ℕ) (p : Carry O) (x : StepIn O A α) (r : Raw O α)
    (hp : (c :: xs.map carryOf)[t]? = some p) (hx : xs[t]? = some x) (hr : x.out e = vecOut r)
    (h₁ : r.truncated = true) (h₂ : r.terminated = false)
    (hst : s ≤ t) (hrun : ∀ j, s ≤ j → j < t → doneAt xs e j = false) :
    (advantagesOf γ lam (collectRollout γ V f c xs) e).getD t 0 = r.reward + γ * V r.obs - V (p.lastObs e) ∧
    (advantagesOf γ lam (collectRollout γ V f c xs) e).getD s 0 =
      (∑ l ∈ Finset.range (t - s), (γ * lam) ^ l * tdAt γ V c xs e (s + l)) +
        (γ * lam) ^ (t - s) * (r.reward + γ * V r.obs - V (p.lastObs e)) := by
  have ht : t < xs.length := (List.getElem?_eq_some_iff.mp hx).1
  have hend : doneAt xs e t = true := by simp [doneAt, hx, hr, vecOut, h₁]
  have htd := td_residual_truncated γ V c xs e t p x r hp hx hr h₁ h₂
  constructor
  · rw [Lemmas.adv_segment γ lam V f c xs e t t (le_refl t) ht (fun j h1 h2 => absurd h1 (by omega)) hend]
    simp [htd]
  · rw [Lemmas.adv_segment γ lam V f c xs e s t hst ht hrun hend, Finset.sum_range_succ]
    have : s + (t - s) = t := by omega
    rw [this, htd]

end gae

/-! ### Action sent to the environment (any linearly ordered field) -/

section actions
set_option linter.unusedSectionVars false
variable {α : Type} [Field α] [LinearOrder α] [IsStrictOrderedRing α]

/-- **The environment receives an action inside its bounds** — clipped (unsquashed Gaussian policies) or
unscaled from `[-1, 1]` (squashed policies) — for every sampled value. -/
theorem env_receives_clipped (k : ActKind) (hk : k ≠ .ident) (half a lo hi : α) (h : lo ≤ hi) :
    lo ≤ envScalar k half a lo hi ∧ envScalar k half a lo hi ≤ hi := by
  cases k with
  | clip => exact Lemmas.clip_mem a lo hi h
  | unscale => exact Lemmas.clip_mem _ lo hi h
  | ident => exact absurd rfl hk

/-- Clipping leaves an action that is already inside the bounds untouched, and saturates otherwise. -/
theorem clip_cases (half a lo hi : α) (h : lo ≤ hi) :
    envScalar .clip half a lo hi = if a < lo then lo else if hi < a then hi else a := by
  unfold envScalar
  split_ifs with h1 h2
  · exact Lemmas.clip_below a lo hi h (le_of_lt h1)
  · exact Lemmas.clip_above a lo hi h (le_of_lt h2)
  · exact Lemmas.clip_inside a lo hi (not_lt.mp h1) (not_lt.mp h2)

/-- Unsquashing is the affine map `[-1, 1] → [lo, hi]` (the clip of the rounding fix is the identity in
exact arithmetic); in particular `-1 ↦ lo` and `1 ↦ hi`. -/
theorem unscale_affine (a lo hi : α) (h : lo ≤ hi) (h1 : -1 ≤ a) (h2 : a ≤ 1) :
    envScalar .unscale (2⁻¹ : α) a lo hi = lo + (a + 1) / 2 * (hi - lo) :=
  Lemmas.unscale_affine a lo hi h h1 h2

theorem unscale_endpoints (lo hi : α) (h : lo ≤ hi) :
    envScalar .unscale (2⁻¹ : α) (-1) lo hi = lo ∧ envScalar .unscale (2⁻¹ : α) 1 lo hi = hi := by
  constructor
  · rw [unscale_affine (-1) lo hi h (le_refl _) (by norm_num)]; ring
  · rw [unscale_affine 1 lo hi h (by norm_num) (le_refl _)]; ring

/-- Component `i` of the vector handed to `env.step` is the scalar map applied to component `i` of the
sampled action with the `i`-th bounds. -/
theorem envAction_component (k : ActKind) (hk : k ≠ .ident) (half : α) (lo hi a : List α) (i : ℕ)
    (x l u : α) (hx : a[i]? = some x) (hl : lo[i]? = some l) (hu : hi[i]? = some u) :
    (envAction k half lo hi a)[i]? = some (envScalar k half x l u) := by
  have hz : (lo.zip hi)[i]? = some (l, u) := (List.getElem?_zip_eq_some (z := (l, u))).mpr ⟨hl, hu⟩
  cases k with
  | ident => exact absurd rfl hk
  | clip => simp [envAction, List.getElem?_zipWith, hz, hx]
  | unscale => simp [envAction, List.getElem?_zipWith, hz, hx]

/-- Non-Box action spaces: the environment receives the sampled action itself. -/
theorem envAction_ident (half : α) (lo hi a : List α) : envAction .ident half lo hi a = a := rfl

/-- Which map applies: Box ∧ squashed → unscale; Box ∧ ¬squashed → clip; otherwise identity. -/
theorem actKind_cases : actKind true true = .unscale ∧ actKind true false = .clip ∧
    ∀ s, actKind false s = .ident := by
  refine ⟨rfl, rfl, fun s => rfl⟩

end actions

/-! ### Non-vacuity: the hypotheses above are met by concrete, non-trivial data -/

section examples

/-- two environments; observations are tags, actions and scalars integers -/
def exOut (o : ℕ) (r : ℤ) (term trunc : Bool) (reset : ℕ) : VOut ℕ ℤ := vecOut ⟨o, r, term, trunc, reset, none, false⟩

/-- step 0: env 0 truncated (obs 11 → reset 20), env 1 runs on (obs 111) -/
def exStep0 : StepIn ℕ ℤ ℤ :=
  { sample := fun e => ⟨5 + e, -1⟩, out := fun e => if e = 0 then exOut 11 3 false true 20 else exOut 111 4 false false 0 }

/-- step 1: env 0 runs on (obs 21), env 1 terminated and truncated at once (obs 112 → reset 120) -/
def exStep1 : StepIn ℕ ℤ ℤ :=
  { sample := fun e => ⟨7 + e, -2⟩, out := fun e => if e = 0 then exOut 21 1 false false 0 else exOut 112 2 true true 120 }

def exV (o : ℕ) : ℤ := 2 * o
def exCarry : Carry ℕ := fresh (fun e => 10 + 100 * e)

example : ((exCarry :: [exStep0, exStep1].map carryOf)[1]? ).isSome ∧ ([exStep0, exStep1][1]?).isSome := by decide

/-- slot (0, 0): carried obs 10, start, value 20, truncation bootstrapped with γ·V(11) = 3·22 -/
example : ((collectRollout (3 : ℤ) exV id exCarry [exStep0, exStep1]).rows[0]?).map (fun row => row 0) =
    some ⟨10, 5, 3 + 3 * 22, true, 20, -1⟩ := by decide

/-- slot (1, 0): observation after the reset (20), start = previous done = true -/
example : ((collectRollout (3 : ℤ) exV id exCarry [exStep0, exStep1]).rows[1]?).map (fun row => row 0) =
    some ⟨20, 7, 1, true, 40, -2⟩ := by decide

/-- slot (1, 1): terminated ∧ truncated is *not* bootstrapped; start = previous done = false -/
example : ((collectRollout (3 : ℤ) exV id exCarry [exStep0, exStep1]).rows[1]?).map (fun row => row 1) =
    some ⟨111, 8, 2, false, 222, -2⟩ := by decide

/-- last values: V of the successor observations (21 and the reset observation 120), dones of the last step -/
example : (collectRollout (3 : ℤ) exV id exCarry [exStep0, exStep1]).lastValues 0 = 42 ∧
    (collectRollout (3 : ℤ) exV id exCarry [exStep0, exStep1]).lastValues 1 = 240 ∧
    (collectRollout (3 : ℤ) exV id exCarry [exStep0, exStep1]).lastDones 1 = true := by decide

/-- advantages of env 0 with λ = 1: last step 1 + 3·42·(1−0) − 40 = 87; first step 69 + 3·40·(1−1) − 20 + 3·1·0·87 = 49 -/
example : advantagesOf (3 : ℤ) 1 (collectRollout (3 : ℤ) exV id exCarry [exStep0, exStep1]) 0 = [49, 87] := by decide

example : List.Forall₂ (fun (x y : StepIn ℕ ℤ ℤ) => x.sample 0 = y.sample 0 ∧ x.out 0 = y.out 0) [exStep0] [exStep0] :=
  List.Forall₂.cons ⟨rfl, rfl⟩ List.Forall₂.nil

example : noReset ([.rollout exV [exStep0], .learn false (fun _ => 0), .rollout exV [exStep1]] : List (Op ℕ ℤ ℤ)) = true := by
  decide

/-! a 3-step, 2-environment rollout: env 0 is truncated at step 0, runs on, and is truncated again exactly on
the rollout boundary (step 2); env 1 runs, terminates at step 1, and is still running at the end -/

def exA : StepIn ℕ ℤ ℤ :=
  { sample := fun e => ⟨5 + e, -1⟩, out := fun e => if e = 0 then exOut 11 3 false true 20 else exOut 111 4 false false 0 }
def exB : StepIn ℕ ℤ ℤ :=
  { sample := fun e => ⟨7 + e, -2⟩, out := fun e => if e = 0 then exOut 21 1 false false 0 else exOut 112 2 true false 120 }
def exC : StepIn ℕ ℤ ℤ :=
  { sample := fun e => ⟨9 + e, -3⟩, out := fun e => if e = 0 then exOut 22 5 false true 30 else exOut 121 1 false false 0 }

/-- env 0 (γ = 3, λ = 1): step 0 = 3 + 3·V(11) − V(10) = 49 (bootstrapped, then cut); step 2 = 5 + 3·V(22) − V(21) = 95
(boundary truncation); step 1 = (1 + 3·V(21) − V(20)) + 3·95 = 372 continues through the bootstrapped residual -/
example : advantagesOf (3 : ℤ) 1 (collectRollout (3 : ℤ) exV id exCarry [exA, exB, exC]) 0 = [49, 372, 95] := by decide

/-- env 1: termination at step 1 is cut without bootstrap (2 − V(111) = −220); the unfinished last step is
bootstrapped with the successor: 1 + 3·V(121) − V(120) = 487 -/
example : advantagesOf (3 : ℤ) 1 (collectRollout (3 : ℤ) exV id exCarry [exA, exB, exC]) 1 = [-210, -220, 487] := by
  decide

example : returnsOf (3 : ℤ) 1 (collectRollout (3 : ℤ) exV id exCarry [exA, exB, exC]) 0 = [69, 412, 137] := by decide

/-- the hypotheses of `truncation_is_bootstrapped_not_cut` at `s = 1`, `t = 2`, `e = 0` -/
example : doneAt [exA, exB, exC] 0 1 = false ∧ doneAt [exA, exB, exC] 0 2 = true ∧
    exC.out 0 = vecOut (⟨22, 5, false, true, 30, none, false⟩ : Raw ℕ ℤ) ∧
    (exCarry :: [exA, exB, exC].map carryOf)[2]?.isSome ∧ [exA, exB, exC][2]?.isSome := by
  refine ⟨by decide, by decide, rfl, by decide, by decide⟩

/-- the hypotheses of `td_residual_terminated` at `t = 1`, `e = 1` -/
example : exB.out 1 = vecOut (⟨112, 2, true, false, 120, none, false⟩ : Raw ℕ ℤ) ∧
    (List.range 3).map (tdAt (3 : ℤ) exV exCarry [exA, exB, exC] 1) = [450, -220, 487] := by
  refine ⟨rfl, by decide⟩

/-- a running step whose reused info dict still says "truncated, terminal observation 11": not bootstrapped -/
example : rewardOf (3 : ℤ) exV (vecOutLazy ⟨21, 1, false, false, 0, some 11, true⟩) = 1 ∧
    (vecOutLazy (⟨21, 1, false, false, 0, some 11, true⟩ : Raw ℕ ℤ)).timeLimit = true ∧
    (vecOutLazy (⟨21, 1, false, false, 0, some 11, true⟩ : Raw ℕ ℤ)).terminalObs = some 11 := by decide

example : (2 : ℚ)⁻¹ * 2 = 1 ∧ ((-2 : ℚ) ≤ 6) := by norm_num

end examples

end SB3Verif.C06
