/-
C17 ∘ C01 — the wrapped vectorised environment still satisfies the VecEnv contract, end to end.

Composition of the base VecEnv model of C01 (`SB3Verif.VecEnv`: `Vec`, either implementation, any number of
sub-environments, any answers of the sub-environments) with the wrapper model of C17 (`SB3Verif.Wrappers`: any stack
of VecFrameStack / VecTransposeImage / VecExtractDictObs / VecMonitor / VecCheckNan, one state per environment).

C01's model is generic in the observation type `ω` and the reward type `ρ`: it is instantiated at `ω := Obs` (the
key/array observations of the wrapper model) and `ρ := Int`; the adapter `recOf` turns what the base `step()` returned
for environment `i` (observation, reward, done, info dictionary) into the record the wrapper stack consumes.

The theorems compose C01's `step_done`, `step_truncated_flag`, `step_reward`, `step_episode_ends`,
`step_episode_continues`, `step_info_passthrough`, `reset_delivers` with C17's `passthrough`, `ordinary_obs`,
`terminal_like_obs`, `terminal_absent`, `framestack_spec` (through their lemma forms).
-/
import SB3Verif.Props.C01
import SB3Verif.Lemmas.Wrappers

namespace SB3Verif.C17C01

open SB3Verif.Wrappers

/-! ### The adapter and the wrapped environment -/

/-- the entries of a base `info` dictionary the wrappers read -/
def infoOf (d : VecEnv.Info Obs) : Wrappers.Info :=
  { terminal := match VecEnv.dictGet d "terminal_observation" with
      | some (VecEnv.Val.obs t) => some t
      | _ => none,
    truncated := match VecEnv.dictGet d "TimeLimit.truncated" with
      | some (VecEnv.Val.bool b) => b
      | _ => false,
    episode := none,
    payload := match VecEnv.dictGet d "payload" with
      | some (VecEnv.Val.int p) => p
      | _ => 0 }

/-- environment `i`'s slice of what the base `step()` returned -/
def recOf (o : VecEnv.Out Obs Int) (i : Nat) : Rec :=
  { obs := ((o.obs[i]?).join).getD [],
    rew := ((o.rews[i]?).join).getD 0,
    done := (o.dones[i]?).getD false,
    info := infoOf ((o.infos[i]?).getD []) }

/-- `step()` of the wrapped vectorised environment: the base VecEnv steps, every environment's slice goes through
that environment's stack of wrapper states (`vecStep`). Result: new base state, new wrapper states, one record per
environment. -/
def wrappedStep (v : VecEnv.Vec Obs Int) (sts : List (List WS)) (acts : List Int)
    (xs : List (VecEnv.StepResp Obs Int)) : (VecEnv.Vec Obs Int × List (List WS)) × List Rec :=
  let res := vecStep sts ((List.range v.n).map (recOf (v.step acts xs).2))
  (((v.step acts xs).1, res.map (·.1)), res.map (·.2))

/-- `reset()` of the wrapped vectorised environment -/
def wrappedReset (v : VecEnv.Vec Obs Int) (sts : List (List WS)) (zs : List (VecEnv.ResetRes Obs)) :
    (VecEnv.Vec Obs Int × List (List WS)) × List Obs :=
  let res := vecReset sts ((List.range v.n).map fun i => (((v.reset zs).2.obs[i]?).join).getD [])
  (((v.reset zs).1, res.map (·.1)), res.map (·.2))

/-! ### What the adapter sees (C01's contract, read through `recOf`) -/

theorem recOf_step (v : VecEnv.Vec Obs Int) (hwf : v.WF) (acts : List Int) (xs : List (VecEnv.StepResp Obs Int))
    (hv : (VecEnv.Op.step acts xs).valid v.n = true) (i : Nat) (hi : i < v.n) (a : Int)
    (x : VecEnv.StepResp Obs Int) (ha : acts[i]? = some a) (hx : xs[i]? = some x) :
    (recOf (v.step acts xs).2 i).rew = x.raw.rew ∧
    (recOf (v.step acts xs).2 i).done = (x.raw.terminated || x.raw.truncated) ∧
    (recOf (v.step acts xs).2 i).info.truncated = (x.raw.truncated && !x.raw.terminated) ∧
    (recOf (v.step acts xs).2 i).info.episode = none ∧
    ((x.raw.terminated || x.raw.truncated) = false →
      (recOf (v.step acts xs).2 i).obs = x.raw.obs ∧
      (VecEnv.dictGet x.raw.info "terminal_observation" = none → (recOf (v.step acts xs).2 i).info.terminal = none)) ∧
    ((x.raw.terminated || x.raw.truncated) = true → ∀ z, x.rst = some z →
      (recOf (v.step acts xs).2 i).obs = z.obs ∧ (recOf (v.step acts xs).2 i).info.terminal = some x.raw.obs) := by
  have hlen := (C01.step_shapes v hwf acts xs hv).2.2.2.1
  have hinfo : (v.step acts xs).2.infos[i]? = some ((v.step acts xs).2.infos[i]'(by rw [hlen]; exact hi)) :=
    List.getElem?_eq_getElem _
  have hd := C01.step_done v hwf acts xs hv i hi a x ha hx
  have hr := C01.step_reward v hwf acts xs hv i hi a x ha hx
  have ht := C01.step_truncated_flag v hwf acts xs hv i hi a x ha hx
  rw [hinfo] at ht
  simp only [Option.bind_some] at ht
  refine ⟨by simp [recOf, hr], by simp [recOf, hd], by simp [recOf, infoOf, hinfo, ht], rfl, ?_, ?_⟩
  · intro hnd
    obtain ⟨c1, c2, _⟩ := C01.step_episode_continues v hwf acts xs hv i hi a x ha hx hnd
    rw [hinfo] at c2
    simp only [Option.bind_some] at c2
    refine ⟨by simp [recOf, c1], ?_⟩
    intro hclean
    simp [recOf, infoOf, hinfo, c2, hclean]
  · intro hdone z hz
    obtain ⟨c1, c2, _⟩ := C01.step_episode_ends v hwf acts xs hv i hi a x ha hx hdone z hz
    rw [hinfo] at c2
    simp only [Option.bind_some] at c2
    exact ⟨by simp [recOf, c1], by simp [recOf, infoOf, hinfo, c2]⟩

/-- the record of environment `i` returned by the wrapped step is environment `i`'s own stack run on environment
`i`'s own slice -/
theorem wrappedStep_env (v : VecEnv.Vec Obs Int) (sts : List (List WS)) (hs : sts.length = v.n) (acts : List Int)
    (xs : List (VecEnv.StepResp Obs Int)) (i : Nat) (hi : i < v.n) :
    (wrappedStep v sts acts xs).2[i]? = some (stackStep (sts[i]'(hs ▸ hi)) (recOf (v.step acts xs).2 i)).2 ∧
    (wrappedStep v sts acts xs).1.2[i]? = some (stackStep (sts[i]'(hs ▸ hi)) (recOf (v.step acts xs).2 i)).1 := by
  simp [wrappedStep, vecStep, hs, hi]

/-! ### The end-to-end contract -/

/-- **`wrapped_step_contract`**: for every base vectorised environment (DummyVecEnv or SubprocVecEnv model, any
reachable state, any number of sub-environments), every stack of wrappers in any order and any states (one stack
state per environment), every step and every answer of the sub-environments: for every environment `i` the record
`R` returned by the WRAPPED environment satisfies the VecEnv contract —
* `R.done = terminated ∨ truncated` of sub-environment `i`, `R.info["TimeLimit.truncated"] = truncated ∧ ¬terminated`,
  the reward is the sub-environment's;
* episode continues: no `terminal_observation`, and the observation is the stack's transformation of the
  sub-environment's observation;
* episode ends: `terminal_observation` is present and equals the transformation that the stack, in its pre-reset
  state, gives to an ordinary observation, applied to the sub-environment's LAST observation; the returned
  observation is what `reset()` of the stack returns for the FIRST observation of the next episode. -/
theorem wrapped_step_contract (v : VecEnv.Vec Obs Int) (hwf : v.WF) (sts : List (List WS)) (hs : sts.length = v.n)
    (acts : List Int) (xs : List (VecEnv.StepResp Obs Int)) (hv : (VecEnv.Op.step acts xs).valid v.n = true)
    (i : Nat) (hi : i < v.n) (a : Int) (x : VecEnv.StepResp Obs Int) (ha : acts[i]? = some a)
    (hx : xs[i]? = some x) :
    ∃ R, (wrappedStep v sts acts xs).2[i]? = some R ∧
      R.done = (x.raw.terminated || x.raw.truncated) ∧
      R.info.truncated = (x.raw.truncated && !x.raw.terminated) ∧
      R.rew = x.raw.rew ∧
      ((x.raw.terminated || x.raw.truncated) = false →
        VecEnv.dictGet x.raw.info "terminal_observation" = none →
          R.info.terminal = none ∧ R.obs = stackObsFn (sts[i]'(hs ▸ hi)) x.raw.obs) ∧
      ((x.raw.terminated || x.raw.truncated) = true → ∀ z, x.rst = some z →
        obsSig z.obs = obsSig x.raw.obs → KeysNodup x.raw.obs →
          R.info.terminal = some (stackObsFn (sts[i]'(hs ▸ hi)) x.raw.obs) ∧
          R.obs = (stackReset (sts[i]'(hs ▸ hi)) z.obs).2) := by
  obtain ⟨b1, b2, b3, _, b5, b6⟩ := recOf_step v hwf acts xs hv i hi a x ha hx
  obtain ⟨p1, p2, p3, _⟩ := Lemmas.Wrappers.stackStep_passthrough (sts[i]'(hs ▸ hi)) (recOf (v.step acts xs).2 i)
  refine ⟨_, (wrappedStep_env v sts hs acts xs i hi).1, p2.trans b2, p3.trans b3, p1.trans b1, ?_, ?_⟩
  · intro hnd hclean
    obtain ⟨c1, c2⟩ := b5 hnd
    refine ⟨Lemmas.Wrappers.stackStep_terminal_none _ _ (c2 hclean), ?_⟩
    rw [Lemmas.Wrappers.stackStep_obs_ordinary _ _ (b2.trans hnd), c1]
  · intro hdone z hz hsig hnd
    obtain ⟨c1, c2⟩ := b6 hdone z hz
    refine ⟨Lemmas.Wrappers.stackStep_terminal_alike _ _ x.raw.obs (b2.trans hdone) c2 (by rw [c1]; exact hsig) hnd, ?_⟩
    rw [Lemmas.Wrappers.stackStep_done_obs _ _ (b2.trans hdone), c1]

/-- **`wrapped_reset_contract`**: `reset()` of the wrapped environment returns, for environment `i`, what the stack's
`reset` makes of the observation sub-environment `i` answered to `reset(seed, options)`. -/
theorem wrapped_reset_contract (v : VecEnv.Vec Obs Int) (hwf : v.WF) (sts : List (List WS)) (hs : sts.length = v.n)
    (zs : List (VecEnv.ResetRes Obs)) (hz : zs.length = v.n) (i : Nat) (hi : i < v.n) (z : VecEnv.ResetRes Obs)
    (hzi : zs[i]? = some z) :
    (wrappedReset v sts zs).2[i]? = some (stackReset (sts[i]'(hs ▸ hi)) z.obs).2 := by
  obtain ⟨c1, _⟩ := C01.reset_delivers v hwf zs hz i hi z hzi
  simp [wrappedReset, vecReset, hs, hi, c1]

/-- **`wrapped_framestack_autoreset_window`** (VecFrameStack directly on a Box base environment): whatever happened
before (any history `h` of environment `i`'s sub-stack: any number of earlier episodes), when sub-environment `i` ends
its episode the window returned by the wrapped environment is the stack of the one-frame new episode — `n - 1` zero
frames and the first observation of the next episode: no frame of the finished episode survives the automatic
reset — and `terminal_observation` is the stack of the finished episode completed by its last observation. -/
theorem wrapped_framestack_autoreset_window (v : VecEnv.Vec Obs Int) (hwf : v.WF) (sts : List (List WS))
    (hs : sts.length = v.n) (acts : List Int) (xs : List (VecEnv.StepResp Obs Int))
    (hv : (VecEnv.Op.step acts xs).valid v.n = true) (i : Nat) (hi : i < v.n) (a : Int)
    (x : VecEnv.StepResp Obs Int) (ha : acts[i]? = some a) (hx : xs[i]? = some x)
    (hdone : (x.raw.terminated || x.raw.truncated) = true) (z : VecEnv.ResetRes Obs) (hz : x.rst = some z)
    (first : Bool) (n : Nat) (shape : List Nat) (hn : 0 < n) (hne : shape ≠ []) (hpos : 0 < prod shape)
    (h : List FEv) (hh : ∀ e ∈ h, EvOK shape e)
    (hst : sts[i]'(hs ▸ hi) = [WS.frameStack [("", first)] [("", fsRun first (Arr.zeros (stackedShape n first shape)) h)]])
    (last next : Arr) (hlast : x.raw.obs = [("", last)]) (hnext : z.obs = [("", next)])
    (hl : FrameOK shape last) (hnx : FrameOK shape next) :
    ∃ R, (wrappedStep v sts acts xs).2[i]? = some R ∧
      R.obs = [("", stackOf first n shape [next])] ∧
      R.info.terminal = some [("", stackOf first n shape (curEpisode [] h ++ [last]))] := by
  obtain ⟨_, _, _, _, _, b6⟩ := recOf_step v hwf acts xs hv i hi a x ha hx
  obtain ⟨c1, c2⟩ := b6 hdone z hz
  have hd : (recOf (v.step acts xs).2 i).done = true :=
    (recOf_step v hwf acts xs hv i hi a x ha hx).2.1.trans hdone
  obtain ⟨hrun, hep⟩ := Lemmas.Wrappers.fsRun_spec first n shape hn hne hpos h [] (by simp) hh
  rw [← Lemmas.Wrappers.zeros_eq_specArr first n shape hne hpos] at hrun
  have hupd := Lemmas.Wrappers.updateArr_spec first n shape hn hne hpos (curEpisode [] h) next true (some last) hep hnx
    (by intro t ht; cases ht; exact hl)
  rw [← hrun] at hupd
  refine ⟨_, (wrappedStep_env v sts hs acts xs i hi).1, ?_, ?_⟩
  · rw [hst]
    simp only [stackStep, WS.step, c1, c2, hd, hnext, hlast, fsUpdate, firstOf, getKey, List.map_cons, List.map_nil,
      List.lookup_cons_self, Option.getD_some, Option.map_some, hupd, if_true,
      Lemmas.Wrappers.stackOf_eq_specArr first n shape hpos]
  · rw [hst]
    simp only [stackStep, WS.step, c1, c2, hd, hnext, hlast, fsUpdate, firstOf, getKey, List.map_cons, List.map_nil,
      List.lookup_cons_self, Option.getD_some, Option.map_some, hupd, if_true,
      Lemmas.Wrappers.stackOf_eq_specArr first n shape hpos]

/-! ### Non-vacuity: 2 environments under [VecFrameStack(3), VecTransposeImage] over a DummyVecEnv

Environment 0 ends a length-1 episode with `terminated ∧ truncated`; environment 1 continues. -/

def exImg (k : Int) : Obs := [("", ⟨[4, 4, 1], (List.range 16).map fun (p : Nat) => k + (p : Int)⟩)]

def exSpace : Space := ⟨false, [("", ⟨[4, 4, 1], List.replicate 16 0, List.replicate 16 255, "uint8"⟩)]⟩

def exStack : List WS :=
  match buildStack [.frameStack 3 (.all .auto), .transpose false] exSpace with
  | .ok (ws, _) => ws
  | .error _ => []

def exResets : List (VecEnv.ResetRes Obs) := [⟨exImg 10, []⟩, ⟨exImg 100, []⟩]

def exAnswers : List (VecEnv.StepResp Obs Int) :=
  [⟨⟨exImg 30, 5, true, true, [("payload", .int 1)]⟩, some ⟨exImg 50, []⟩⟩, ⟨⟨exImg 120, 7, false, false, []⟩, none⟩]

/-- the state the step is taken from: fresh DummyVecEnv of 2 sub-environments and fresh wrapper stacks, after `reset()` -/
def exState := wrappedReset (VecEnv.Vec.init .dummy 2) [exStack, exStack] exResets

/-- the hypotheses of `wrapped_step_contract` hold at this state … -/
example : exState.1.1.WF ∧ exState.1.2.length = exState.1.1.n ∧
    (VecEnv.Op.step [0, 0] exAnswers).valid exState.1.1.n = true ∧
    obsSig (exImg 50) = obsSig (exImg 30) ∧ KeysNodup (exImg 30) := by
  refine ⟨?_, by decide, by decide, by decide, by unfold KeysNodup; decide⟩
  exact (C01.wf_invariant .dummy 2 [VecEnv.Op.reset exResets] (by decide)).1

/-- … and this is what the wrapped environment returns: done / TimeLimit.truncated / reward / other info, the stacked
and transposed terminal observation `[0…, frame 10…, frame 30…]` and the new windows -/
example :
    let out := (wrappedStep exState.1.1 exState.1.2 [0, 0] exAnswers).2
    out.map (·.done) = [true, false] ∧ out.map (·.info.truncated) = [false, false] ∧
    out.map (·.rew) = [5, 7] ∧ out.map (·.info.payload) = [1, 0] ∧
    out.map (·.info.terminal) =
      [some [("", ⟨[3, 4, 4], List.replicate 16 0 ++ (List.range 16).map (fun (p : Nat) => 10 + (p : Int)) ++
                              (List.range 16).map (fun (p : Nat) => 30 + (p : Int))⟩)], none] ∧
    out.map (·.obs) =
      [[("", ⟨[3, 4, 4], List.replicate 32 0 ++ (List.range 16).map (fun (p : Nat) => 50 + (p : Int))⟩)],
       [("", ⟨[3, 4, 4], List.replicate 16 0 ++ (List.range 16).map (fun (p : Nat) => 100 + (p : Int)) ++
                          (List.range 16).map (fun (p : Nat) => 120 + (p : Int))⟩)]] := by
  intro out
  decide +kernel

end SB3Verif.C17C01
