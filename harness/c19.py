"""
C19 — No aliasing between the library and its callers.

Implementation under test (real code from $SB3_REPO): DummyVecEnv, SubprocVecEnv, VecFrameStack, VecTransposeImage,
VecExtractDictObs, VecNormalize (+ get_original_obs/reward, normalize_obs/unnormalize_obs), VecMonitor, VecCheckNan,
ReplayBuffer, DictReplayBuffer, RolloutBuffer, DictRolloutBuffer, HerReplayBuffer (add / sample / get /
compute_returns_and_advantage), BasePolicy.predict / obs_to_tensor of the actor-critic, DQN, SAC and TD3 policies.
Model: lean/SB3Verif/Model/Ownership.lean (driver lean/SB3Verif/Driver/C19.lean).

Every case is a call sequence on ONE library object.  It is executed twice:

  * BASE run  — the caller keeps every object it passed in and every object it got back, never writes to them, and
    after every library call compares all of them with the snapshot taken when it obtained them (detector a), checks
    that the arguments of the call are unchanged (argument mutated), and MEASURES the ownership mode of every
    argument / result of the call: memory overlap (exact, `np.shares_memory`) and container identity against every
    array / tensor / dict / list reachable from the library object after the call, against the arguments, and against
    every object held from earlier calls;
  * TWIN run  — a second, identically constructed library object receives the same calls with identically rebuilt
    arguments; after every call the caller overwrites every object of that call (arguments and results) in place with
    sentinels (arrays/tensors filled, dict entries rebound, junk keys/items added).  Every result must equal the
    result of the same call in the BASE run (detector b), and the scripted environments must have received the same
    calls.

(a), (b) and the argument check are the property ORACLE (the sentence of C19 evaluated on the real objects).  The measured
modes are the CORRESPONDENCE with the Lean model: they must not exceed the mode-table row printed by the driver, and
the heap machine of the model, run on the program of the case with the *measured* modes, must predict every
interference the real objects show (no interference at all whenever all measured modes are copy-discipline modes —
that is theorem `discipline_noninterference`).  Per-call modes are MEASURED, NOT PROVED.
"""
from __future__ import annotations

import copy
import os
import warnings
from collections import OrderedDict

import gymnasium as gym
import numpy as np

from harness.common import InfraError
from harness.envs import (ScriptedEnv, act_space, encode, gen_script, make_tag, obs_space)

RULE = (
    "cases from one SplitMix64 stream, each a call sequence on one library object, run twice (held-object snapshots; "
    "twin with sentinel overwrites). venv: DummyVecEnv (quick+thorough) / SubprocVecEnv(fork) base over scripted "
    "environments, observation kinds box rank 1/2, uint8 image HWC/CHW, Discrete, MultiDiscrete, MultiBinary, Dict "
    "(with a Discrete entry), Dict of boxes, Tuple; sub-environments put nested mutable containers into every info (a list, a dict of lists, a set, a custom object, all mutated in place at every step; optionally also one reused observation buffer and info dict); n_envs 1-3; a type-correct stack of 0-4 wrappers from "
    "{VecFrameStack, VecTransposeImage(skip or not), VecExtractDictObs, VecNormalize(norm_obs/norm_reward/training, "
    "norm_obs_keys), VecMonitor, VecCheckNan}; 3-9 calls from reset / step / get_original_obs / get_original_reward / "
    "normalize_obs / unnormalize_obs with episode scripts weighted to length-1 episodes and resets right after a step. "
    "buffer: ReplayBuffer (optimize_memory_usage or not), DictReplayBuffer, RolloutBuffer, DictRolloutBuffer, "
    "HerReplayBuffer (copy_info_dict or not, 3 goal strategies), array / Discrete / Dict observations, 5 action kinds, "
    "n_envs 1-3, capacity 2-6 steps (wrap-around), add / sample (optionally through a VecNormalize) / "
    "compute_returns_and_advantage / get / reset sequences. policy: ActorCritic / DQN / SAC / TD3 policies (Mlp, "
    "MultiInput with an image key) on Box, image HWC/CHW, Discrete, MultiDiscrete, MultiBinary, Dict observations, "
    "predict (single / batched, deterministic or seeded) and obs_to_tensor. "
    "learn (library as caller): DQN / TD3 / SAC / PPO / A2C learn() of 12-40 steps (net_arch=[4]) on 1-2 scripted "
    "environments with frequent episode ends, Box or Dict observations, with/without VecNormalize and VecMonitor; a "
    "recording wrapper outside everything and patched get_original_obs/get_original_reward/normalize_obs/unnormalize_obs "
    "snapshot every object handed to the algorithm and re-check all of them before every env call, at every callback "
    "on_step / on_rollout_end and at every buffer add; the buffer row written by add is compared with the returned "
    "observation objects (non-terminal rows; terminal rows without VecNormalize). "
    "non-trivial = venv case with a reset directly after a step that ended an episode through >= 1 wrapper, or buffer "
    "case that wraps around and samples after the wrap, or policy case with a Dict or image observation; "
    "distinct = distinct canonical case"
)
STREAMS = {
    "modes": "measured ownership class of every argument/result of every call <= class of the row of the Lean mode "
             "table (stack rows composed by the model's stackSig); strictly cleaner is counted, not an alarm",
    "program": "interference observed on the real objects (held object changed by a later call / twin result differs) "
               "is predicted by the Lean heap machine run on the case's program with the measured modes; with "
               "all-discipline modes the machine predicts none (discipline_noninterference) so none may be observed",
    "table": "driver's table is well-formed: every row named by the harness exists, every in-statement row that is "
             "not a recorded exception has copy-discipline modes",
}

SENT = 77

# ======================================================================================================
#  generic object utilities
# ======================================================================================================
_th = None


def th():
    global _th
    if _th is None:
        import torch

        _th = torch
    return _th


def is_tensor(o):
    return _th is not None and isinstance(o, _th.Tensor) or (type(o).__module__.startswith("torch") and hasattr(o, "detach")
                                                            and hasattr(o, "numpy"))


IMMUT = (str, bytes, int, float, bool, complex, type(None), np.generic)


class Tracker19:
    """a small custom (picklable, deep-copyable) object a sub-environment puts into its infos and keeps mutating"""

    def __init__(self):
        self.count = 0
        self.items = []

    def push(self, x):
        self.count += 1
        self.items.append(x)


def as_np(o):
    """ndarray view of an array / cpu tensor (shares memory)"""
    if isinstance(o, np.ndarray):
        return o
    return o.detach().numpy()


def snap(o, _depth=0):
    """deep canonical snapshot (hashable-free, compared with ==)"""
    if _depth > 12:
        return ("deep",)
    if isinstance(o, np.ndarray):
        if o.dtype == object:
            return ("ndo", tuple(o.shape), [snap(e, _depth + 1) for e in o.ravel().tolist()])
        return ("nd", str(o.dtype), tuple(o.shape), o.tobytes())
    if is_tensor(o):
        a = o.detach().cpu().numpy()
        return ("th", str(o.dtype), tuple(a.shape), a.tobytes())
    if isinstance(o, dict):
        drop_t = set(o.keys()) >= {"r", "l", "t"}  # VecMonitor episode record: wall-clock 't' is not compared
        return ("d", sorted((repr(k), snap(v, _depth + 1)) for k, v in o.items() if not (drop_t and k == "t")))
    if isinstance(o, (list, tuple)):
        return ("l", [snap(v, _depth + 1) for v in o])
    if isinstance(o, np.generic):
        return ("s", str(o.dtype), repr(o.item()))
    if isinstance(o, IMMUT):
        return ("p", repr(o))
    if isinstance(o, (set, frozenset)):
        return ("set", sorted(repr(x) for x in o))
    if isinstance(o, Tracker19):
        return ("d", sorted((repr(k), snap(v, _depth + 1)) for k, v in vars(o).items()))
    return ("o", type(o).__name__)


def diff_path(a, b, path=""):
    """first path at which two snapshots differ (None if equal)"""
    if a == b:
        return None
    if a[0] != b[0]:
        return f"{path}<{a[0]}!={b[0]}>"
    if a[0] == "d":
        ka, kb = [k for k, _ in a[1]], [k for k, _ in b[1]]
        if ka != kb:
            return f"{path}<keys {sorted(set(ka) ^ set(kb))[:3]}>"
        for (k, x), (_, y) in zip(a[1], b[1]):
            d = diff_path(x, y, f"{path}[{k}]")
            if d:
                return d
    if a[0] in ("l",):
        if len(a[1]) != len(b[1]):
            return f"{path}<len {len(a[1])}!={len(b[1])}>"
        for i, (x, y) in enumerate(zip(a[1], b[1])):
            d = diff_path(x, y, f"{path}[{i}]")
            if d:
                return d
    if a[0] == "set":
        return f"{path}<set {sorted(set(a[1]) ^ set(b[1]))[:3]}>"
    if a[0] == "ndo":
        for i, (x, y) in enumerate(zip(a[2], b[2])):
            d = diff_path(x, y, f"{path}[{i}]")
            if d:
                return d
    return path + "<value>"


def leaves(o, _depth=0, arrays=None, conts=None):
    """(array views, mutable containers) an object consists of"""
    arrays = [] if arrays is None else arrays
    conts = [] if conts is None else conts
    if _depth > 12:
        return arrays, conts
    if isinstance(o, np.ndarray):
        if o.dtype == object:
            for e in o.ravel().tolist():
                leaves(e, _depth + 1, arrays, conts)
        arrays.append(o)
    elif is_tensor(o):
        if o.device.type == "cpu" and o.layout == th().strided:
            arrays.append(as_np(o))
    elif isinstance(o, dict):
        conts.append(o)
        for v in o.values():
            leaves(v, _depth + 1, arrays, conts)
    elif isinstance(o, list):
        conts.append(o)
        for v in o:
            leaves(v, _depth + 1, arrays, conts)
    elif isinstance(o, tuple):
        for v in o:
            leaves(v, _depth + 1, arrays, conts)
    elif isinstance(o, set):
        conts.append(o)
    elif isinstance(o, Tracker19):
        conts.append(o)
        for v in vars(o).values():
            leaves(v, _depth + 1, arrays, conts)
    return arrays, conts


def overwrite(o, _depth=0):
    """the caller changes an object it holds, in place, as thoroughly as it can"""
    if _depth > 12:
        return
    if isinstance(o, np.ndarray):
        if o.dtype == object:
            flat = o.reshape(-1) if o.flags.c_contiguous else o.ravel()
            for i in range(flat.size):
                e = flat[i]
                if isinstance(e, IMMUT):
                    flat[i] = SENT
                else:
                    overwrite(e, _depth + 1)
        elif o.flags.writeable and o.size:
            if o.dtype == bool:
                np.logical_not(o, out=o)
            else:
                o[...] = np.where(o == SENT, SENT + 1, SENT).astype(o.dtype)
    elif is_tensor(o):
        t = th()
        with t.no_grad():
            if o.dtype == t.bool:
                o.logical_not_()
            elif o.numel():
                o.copy_(t.where(o == SENT, t.full_like(o, SENT + 1), t.full_like(o, SENT)))
    elif isinstance(o, dict):
        for k in list(o.keys()):
            v = o[k]
            if isinstance(v, IMMUT):
                o[k] = SENT if v != SENT else SENT + 1
            else:
                overwrite(v, _depth + 1)
        o["__c19_junk__"] = SENT
    elif isinstance(o, list):
        for i, v in enumerate(o):
            if isinstance(v, IMMUT):
                o[i] = SENT
            else:
                overwrite(v, _depth + 1)
        o.append({"__c19_junk__": SENT})
    elif isinstance(o, tuple):
        for v in o:
            overwrite(v, _depth + 1)
    elif isinstance(o, set):
        o.clear()
        o.add("__c19_junk__")
    elif isinstance(o, Tracker19):
        for k, v in list(vars(o).items()):
            if isinstance(v, IMMUT):
                setattr(o, k, SENT)
            else:
                overwrite(v, _depth + 1)
        o.junk = SENT


_SKIP_TYPES = None


def _skip_types():
    global _SKIP_TYPES
    if _SKIP_TYPES is None:
        import types

        _SKIP_TYPES = (str, bytes, int, float, bool, complex, type(None), np.generic, type, types.ModuleType,
                       types.FunctionType, types.BuiltinFunctionType, types.MethodType, np.dtype, np.random.Generator,
                       np.random.RandomState)
    return _SKIP_TYPES


def reach(roots):
    """every array view / dict / list reachable from the library object(s) -> (arrays, container ids, keepalive)"""
    skip = _skip_types()
    arrays, conts, seen, keep = [], set(), set(), []
    stack = list(roots)
    n = 0
    while stack:
        o = stack.pop()
        if isinstance(o, skip):
            continue
        i = id(o)
        if i in seen:
            continue
        seen.add(i)
        keep.append(o)
        n += 1
        if n > 200000:
            raise InfraError("reach(): object graph too large")
        if isinstance(o, np.ndarray):
            arrays.append(o)
            if o.dtype == object:
                stack.extend(o.ravel().tolist())
        elif is_tensor(o):
            if o.device.type == "cpu" and o.layout == th().strided:
                arrays.append(as_np(o))
        elif isinstance(o, dict):
            conts.add(i)
            stack.extend(o.values())
        elif isinstance(o, (list, tuple, set, frozenset)):
            if isinstance(o, (list, set)):
                conts.add(i)
            stack.extend(o)
        else:
            d = getattr(o, "__dict__", None)
            if isinstance(d, dict):
                if isinstance(o, Tracker19):
                    conts.add(i)
                stack.extend(d.values())
            sl = getattr(type(o), "__slots__", None)
            if sl:
                for s in ([sl] if isinstance(sl, str) else sl):
                    try:
                        stack.append(getattr(o, s))
                    except Exception:
                        pass
    return arrays, conts, keep


def _bounds(a):
    if a.size == 0:
        return None
    try:
        from numpy.lib.array_utils import byte_bounds
    except Exception:  # pragma: no cover
        byte_bounds = np.byte_bounds
    return byte_bounds(a)


class MemIndex:
    """exact memory-overlap queries against a fixed set of arrays"""

    def __init__(self, arrays):
        self.items = []
        for a in arrays:
            b = _bounds(a)
            if b is not None:
                self.items.append((b[0], b[1], a))

    def overlaps(self, a):
        b = _bounds(a)
        if b is None:
            return False
        lo, hi = b
        for l2, h2, x in self.items:
            if lo < h2 and l2 < hi:
                try:
                    if np.shares_memory(a, x, max_work=10000):
                        return True
                except Exception:
                    return True  # too hard to decide exactly: the byte ranges overlap
        return False


# ======================================================================================================
#  scripted pieces
# ======================================================================================================
IMG = (6, 5, 3)


def o_space(kind):
    from gymnasium import spaces

    if kind == "dictbox":
        return spaces.Dict({"vec": obs_space("box1"), "img": obs_space("image_hwc")})
    if kind == "dictsmall":  # no image key, small Discrete: cheap to train on
        return spaces.Dict({"vec": obs_space("box1"), "aux": obs_space("box2"), "phase": spaces.Discrete(8)})
    return obs_space(kind)


def o_encode(tag, kind):
    if kind == "dictbox":
        return {"vec": encode(tag, "box1"), "img": encode(tag, "image_hwc")}
    if kind == "dictsmall":
        return {"vec": encode(tag, "box1"), "aux": encode(tag, "box2"), "phase": np.int64(tag % 8)}
    return encode(tag, kind)


class Env19(ScriptedEnv):
    """ScriptedEnv plus (a) the observation kind 'dictbox' (Dict of Box spaces only: VecFrameStack accepts it) and
    (b) `reuse=True`: like many real environments it keeps ONE observation buffer and ONE info dict and updates them in
    place at every step/reset — whatever a VecEnv hands to its caller must not be those objects"""

    def __init__(self, env_id=0, obs_kind="box1", act_kind="discrete", script=None, reuse=False):
        base_kind = "box1" if obs_kind in ("dictbox", "dictsmall") else obs_kind
        super().__init__(env_id=env_id, obs_kind=base_kind, act_kind=act_kind, script=script, check_actions=False)
        self.kind19 = obs_kind
        self.observation_space = o_space(obs_kind)
        self.reuse = reuse
        self._obs_buf = None
        self._info_buf = {}
        # nested mutable containers the environment owns, reports in every info and keeps mutating in place
        self._hist = []
        self._stats = {"steps": 0, "actions": [], "per_episode": {"lengths": []}}
        self._seen = set()
        self._tracker = Tracker19()

    def _nested(self, info, what):
        self._hist.append(what)
        self._stats["steps"] = self.n_steps
        self._stats["actions"].append(what * 2)
        if what < 0:
            self._stats["per_episode"]["lengths"].append(self.n_steps)
        self._seen.add(what % 5)
        self._tracker.push(what)
        info["hist"] = self._hist
        info["stats"] = self._stats
        info["seen"] = self._seen
        info["tracker"] = self._tracker
        return info

    def _out_obs(self, o):
        if self.kind19 in ("dictbox", "dictsmall"):
            o = o_encode(make_tag(self.env_id, self.episode, self.step_in_ep), self.kind19)
        if not self.reuse:
            return o
        if self._obs_buf is None:
            self._obs_buf = copy.deepcopy(o)
            return self._obs_buf
        if isinstance(o, dict):
            for k, v in o.items():
                if isinstance(self._obs_buf[k], np.ndarray) and self._obs_buf[k].shape:
                    np.copyto(self._obs_buf[k], v)
                else:
                    self._obs_buf[k] = v
            return self._obs_buf
        if isinstance(o, np.ndarray) and o.shape:
            np.copyto(self._obs_buf, o)
            return self._obs_buf
        return o

    def _out_info(self, info):
        if not self.reuse:
            return info
        self._info_buf.clear()
        self._info_buf.update(info)
        return self._info_buf

    def reset(self, *, seed=None, options=None):
        o, info = super().reset(seed=seed, options=options)
        return self._out_obs(o), self._nested(info, -1 - self.episode)

    def step(self, action):
        o, r, te, tr, info = super().step(action)
        info["payload"] = np.array([self.n_steps, self.env_id], dtype=np.int64)
        info["nested"] = {"k": float(self.n_steps)}
        return self._out_obs(o), r, te, tr, self._out_info(self._nested(info, self.n_steps))


class Env19Fn:
    def __init__(self, **kw):
        self.kw = kw

    def __call__(self):
        return Env19(**self.kw)


def goal_space():
    from gymnasium import spaces

    return spaces.Dict({
        "observation": spaces.Box(-1e6, 1e6, (3,), np.float32),
        "achieved_goal": spaces.Box(-1e6, 1e6, (2,), np.float32),
        "desired_goal": spaces.Box(-1e6, 1e6, (2,), np.float32),
    })


class GoalEnv19(gym.Env):
    """only what HerReplayBuffer needs from its env: compute_reward (uses the info dicts when they are stored)"""

    metadata = {"render_modes": []}

    def __init__(self):
        super().__init__()
        self.observation_space = goal_space()
        self.action_space = gym.spaces.Box(-1.0, 1.0, (2,), np.float32)

    def reset(self, *, seed=None, options=None):
        return {k: np.zeros(s.shape, dtype=s.dtype) for k, s in self.observation_space.spaces.items()}, {}

    def step(self, action):
        o, _ = self.reset()
        return o, 0.0, False, False, {}

    def compute_reward(self, achieved_goal, desired_goal, info):
        a = np.asarray(achieved_goal, dtype=np.float64)
        d = np.asarray(desired_goal, dtype=np.float64)
        r = -(np.abs(a - d).reshape(len(a), -1).sum(axis=1) > 0.5).astype(np.float64)
        bonus = np.array([float(i.get("bonus", 0.0)) if isinstance(i, dict) else 0.0 for i in info])
        return r + bonus


def make_actions(kind, n, k):
    """batched actions for n envs, content derived from k"""
    if kind == "discrete":
        return np.array([(k + e) % 4 for e in range(n)], dtype=np.int64)
    if kind == "multidiscrete":
        return np.array([[(k + e) % 3, (k + 2 * e) % 2] for e in range(n)], dtype=np.int64)
    if kind == "multibinary":
        return np.array([[(k >> j) & 1 for j in range(3)] for e in range(n)], dtype=np.int8)
    if kind == "box":
        return np.array([[-2.0 + ((k + e) % 8), 0.5 + ((k + e) % 4) * 0.25] for e in range(n)], dtype=np.float32)
    return np.array([[((k + e) % 5) * 0.25 - 0.5, ((k + 3 * e) % 3) * 0.5 - 0.5] for e in range(n)], dtype=np.float32)


def stack_obs(tags, kind):
    obs = [o_encode(t, kind) for t in tags]
    if isinstance(obs[0], dict):
        return {k: np.stack([o[k] for o in obs]) for k in obs[0]}
    return np.stack(obs)


# ======================================================================================================
#  subjects
# ======================================================================================================
class Subject:
    """one library object + how to call it.  op protocol:
         args(i)  -> OrderedDict name -> freshly built argument object
         call(i, args) -> OrderedDict name -> result object
         target(i) -> descriptor of the mode-table row (resolved by the Lean driver)"""

    def roots(self):
        raise NotImplementedError

    def close(self):
        pass

    def env_logs(self):
        return None


# ---------------------------------------------------------------------------------------- vec envs
LAYER_NAMES = {"framestack": "VecFrameStack", "transpose": "VecTransposeImage", "extract": "VecExtractDictObs",
               "normalize": "VecNormalize", "monitor": "VecMonitor", "checknan": "VecCheckNan"}


class VenvSubject(Subject):
    def __init__(self, case):
        from stable_baselines3.common.vec_env import (DummyVecEnv, SubprocVecEnv, VecCheckNan, VecExtractDictObs,
                                                      VecFrameStack, VecMonitor, VecNormalize, VecTransposeImage)

        self.case = case
        n = case["n"]
        fns = [Env19Fn(env_id=i, obs_kind=case["obs"], act_kind=case["act"], script=case["scripts"][i],
                       reuse=bool(case.get("reuse"))) for i in range(n)]
        if case["base"] == "subproc":
            venv = SubprocVecEnv(fns, start_method=case.get("start", "fork"))
        else:
            venv = DummyVecEnv(fns)
        self.base = venv
        self.vn = None
        self.dict_at = []  # is the observation a dict when it enters layer j
        for L in case["layers"]:
            from gymnasium import spaces

            self.dict_at.append(isinstance(venv.observation_space, spaces.Dict))
            w = L["w"]
            if w == "framestack":
                venv = VecFrameStack(venv, n_stack=L["n_stack"], channels_order=L.get("order"))
            elif w == "transpose":
                venv = VecTransposeImage(venv, skip=L.get("skip", False))
            elif w == "extract":
                venv = VecExtractDictObs(venv, key=L["key"])
            elif w == "normalize":
                venv = VecNormalize(venv, training=L.get("training", True), norm_obs=L.get("norm_obs", True),
                                    norm_reward=L.get("norm_reward", True), clip_obs=L.get("clip_obs", 10.0),
                                    norm_obs_keys=L.get("keys"))
                self.vn = venv
            elif w == "monitor":
                venv = VecMonitor(venv)
            elif w == "checknan":
                venv = VecCheckNan(venv, raise_exception=False)
            else:
                raise InfraError(f"bad layer {w}")
        self.venv = venv
        self.k = 0

    def roots(self):
        return [self.venv]

    def close(self):
        try:
            self.venv.close()
        except Exception:
            pass

    def env_logs(self):
        return self.base.env_method("get_log")

    def args(self, i):
        op = self.case["ops"][i]
        a = OrderedDict()
        if op["op"] == "step":
            a["actions"] = make_actions(self.case["act"], self.case["n"], op["k"])
        elif op["op"] in ("normalize_obs", "unnormalize_obs"):
            a["obs"] = copy.deepcopy(self.vn.old_obs)
        elif op["op"] in ("normalize_reward", "unnormalize_reward"):
            a["reward"] = np.array([0.5 * (op.get("k", 0) + e) for e in range(self.case["n"])], dtype=np.float64)
        return a

    def call(self, i, a):
        op = self.case["ops"][i]["op"]
        r = OrderedDict()
        if op == "reset":
            r["obs"] = self.venv.reset()
        elif op == "step":
            r["obs"], r["rewards"], r["dones"], r["infos"] = self.venv.step(a["actions"])
        elif op == "get_original_obs":
            r["obs"] = self.vn.get_original_obs()
        elif op == "get_original_reward":
            r["reward"] = self.vn.get_original_reward()
        elif op == "normalize_obs":
            r["obs"] = self.vn.normalize_obs(a["obs"])
        elif op == "unnormalize_obs":
            r["obs"] = self.vn.unnormalize_obs(a["obs"])
        elif op == "normalize_reward":
            r["reward"] = self.vn.normalize_reward(a["reward"])
        else:
            raise InfraError(f"bad venv op {op}")
        return r

    def layer_desc(self):
        out = []
        for L, is_dict in zip(self.case["layers"], self.dict_at):
            v = ""
            if L["w"] == "transpose":
                v = "skip" if L.get("skip") else ("dict" if is_dict else "array")
            out.append({"cls": LAYER_NAMES[L["w"]], "variant": v})
        return out

    def target(self, i):
        op = self.case["ops"][i]["op"]
        if op in ("reset", "step"):
            return {"kind": "stack", "base": "SubprocVecEnv" if self.case["base"] == "subproc" else "DummyVecEnv",
                    "layers": self.layer_desc(), "call": op}
        return {"kind": "row", "cls": "VecNormalize", "call": op, "variant": ""}

    def label(self):
        return ("SubprocVecEnv" if self.case["base"] == "subproc" else "DummyVecEnv") + "".join(
            "+" + LAYER_NAMES[L["w"]] for L in self.case["layers"])


# ---------------------------------------------------------------------------------------- buffers
BUF_CLS = {"replay": "ReplayBuffer", "dict_replay": "DictReplayBuffer", "rollout": "RolloutBuffer",
           "dict_rollout": "DictRolloutBuffer", "her": "HerReplayBuffer"}


class BufferSubject(Subject):
    def __init__(self, case):
        from stable_baselines3.common.buffers import DictReplayBuffer, DictRolloutBuffer, ReplayBuffer, RolloutBuffer
        from stable_baselines3.common.vec_env import DummyVecEnv, VecNormalize

        self.case = case
        n, size = case["n"], case["size"]
        c = case["cls"]
        self.aspace = act_space(case["act"])
        self.henv = None
        self.vn = None
        if c == "her":
            from stable_baselines3.her.her_replay_buffer import HerReplayBuffer

            self.ospace = goal_space()
            from gymnasium import spaces

            self.aspace = spaces.Box(-1.0, 1.0, (2,), np.float32)
            self.henv = DummyVecEnv([GoalEnv19])
            self.buf = HerReplayBuffer(size * n, self.ospace, self.aspace, env=self.henv, device="cpu", n_envs=n,
                                       n_sampled_goal=case.get("n_sampled_goal", 4),
                                       goal_selection_strategy=case.get("strategy", "future"),
                                       copy_info_dict=case.get("copy_info_dict", False))
        else:
            self.ospace = o_space(case["obs"])
            if c == "replay":
                opt = case.get("memopt", False)
                self.buf = ReplayBuffer(size * n, self.ospace, self.aspace, device="cpu", n_envs=n,
                                        optimize_memory_usage=opt, handle_timeout_termination=not opt)
            elif c == "dict_replay":
                self.buf = DictReplayBuffer(size * n, self.ospace, self.aspace, device="cpu", n_envs=n)
            elif c == "rollout":
                self.buf = RolloutBuffer(size, self.ospace, self.aspace, device="cpu", gamma=0.5, gae_lambda=0.5, n_envs=n)
            elif c == "dict_rollout":
                self.buf = DictRolloutBuffer(size, self.ospace, self.aspace, device="cpu", gamma=0.5, gae_lambda=0.5,
                                             n_envs=n)
            else:
                raise InfraError(f"bad buffer class {c}")
        if case.get("vn"):
            # a VecNormalize with non-trivial statistics for sample(env=...)
            kw = dict(obs_kind=case["obs"], act_kind="discrete", script=[[1.0, False, False]])
            if c == "her":
                inner = DummyVecEnv([GoalEnv19])
                self.vn = VecNormalize(inner, norm_obs=True, norm_reward=True, clip_obs=1e6, clip_reward=1e6)
            else:
                inner = DummyVecEnv([Env19Fn(env_id=0, **kw)])
                keys = ["vec"] if case["obs"] == "dict" else None
                self.vn = VecNormalize(inner, norm_obs=True, norm_reward=True, clip_obs=1e6, clip_reward=1e6,
                                       norm_obs_keys=keys)
            self.vn.reset()
            for _ in range(2):
                self.vn.step(np.stack([self.vn.action_space.sample() * 0]))
            self.vn.training = False

    def roots(self):
        return [self.buf] + ([self.vn] if self.vn is not None else [])

    def close(self):
        for e in (self.henv, self.vn):
            try:
                if e is not None:
                    e.close()
            except Exception:
                pass

    # -- arguments ------------------------------------------------------------------------------------
    def _obs(self, k):
        n = self.case["n"]
        if self.case["cls"] == "her":
            t = np.array([[k + 10 * e, k + 10 * e + 0.5, -1.0] for e in range(n)], dtype=np.float32)
            return {"observation": t, "achieved_goal": t[:, :2] * 2.0, "desired_goal": np.tile(
                np.array([[3.0, 4.0]], dtype=np.float32), (n, 1)) + np.arange(n, dtype=np.float32).reshape(n, 1)}
        tags = [make_tag(e, 1, k % 250) for e in range(n)]
        return stack_obs(tags, self.case["obs"])

    def _action(self, k):
        n = self.case["n"]
        if self.case["cls"] == "her":
            return make_actions("box_sym", n, k)
        a = make_actions(self.case["act"], n, k)
        if self.case["act"] == "discrete" and self.case.get("act2d"):
            a = a.reshape(n, 1)
        return a

    def args(self, i):
        op = self.case["ops"][i]
        n = self.case["n"]
        a = OrderedDict()
        o = op["op"]
        k = op.get("k", 0)
        if o == "add" and self.case["cls"] in ("replay", "dict_replay", "her"):
            a["obs"] = self._obs(k)
            a["next_obs"] = self._obs(k + 1)
            a["action"] = self._action(k)
            a["reward"] = np.array([k + 0.25 * e for e in range(n)], dtype=np.float32)
            a["done"] = np.array(op["done"], dtype=bool if op.get("done_bool", True) else np.float32)
            infos = []
            for e in range(n):
                info = {"TimeLimit.truncated": bool(op["trunc"][e]), "bonus": 8.0 * (k + 1) + e}
                if op["done"][e]:
                    t = self._obs(k + 1)
                    info["terminal_observation"] = ({kk: v[e] for kk, v in t.items()} if isinstance(t, dict) else t[e])
                infos.append(info)
            a["infos"] = infos
        elif o == "add":
            t = th()
            a["obs"] = self._obs(k)
            a["action"] = self._action(k)
            a["reward"] = np.array([k + 0.25 * e for e in range(n)], dtype=np.float32)
            a["episode_start"] = np.array(op["start"], dtype=np.float32 if op.get("start_f", True) else bool)
            a["value"] = t.tensor([0.5 * k + e for e in range(n)], dtype=t.float32).reshape(op.get("vshape", [n]))
            a["log_prob"] = t.tensor([-0.25 * k - e for e in range(n)], dtype=t.float32)
        elif o == "compute":
            t = th()
            a["last_values"] = t.tensor([1.0 + e for e in range(n)], dtype=t.float32).reshape(op.get("vshape", [n]))
            a["dones"] = np.array(op["done"], dtype=bool)
        return a

    def call(self, i, a):
        op = self.case["ops"][i]
        o = op["op"]
        r = OrderedDict()
        if o == "add":
            self.buf.add(*a.values())
        elif o == "sample":
            np.random.seed(op["seed"])
            s = self.buf.sample(op["batch"], env=self.vn if op.get("vn") else None)
            for f in s._fields:
                r[f] = getattr(s, f)
        elif o == "compute":
            self.buf.compute_returns_and_advantage(a["last_values"], a["dones"])
        elif o == "get":
            np.random.seed(op["seed"])
            batches = list(self.buf.get(op["batch"]))
            for f in batches[0]._fields:
                r[f] = [getattr(b, f) for b in batches]
        elif o == "reset":
            self.buf.reset()
        else:
            raise InfraError(f"bad buffer op {o}")
        return r

    def target(self, i):
        op = self.case["ops"][i]
        v = ""
        if self.case["cls"] == "her" and op["op"] == "add":
            v = "copy_info_dict" if self.case.get("copy_info_dict") else ""
        return {"kind": "row", "cls": BUF_CLS[self.case["cls"]], "call": op["op"], "variant": v}

    def label(self):
        return BUF_CLS[self.case["cls"]]


# ---------------------------------------------------------------------------------------- policies
def p_space(kind):
    from gymnasium import spaces

    if kind == "pbox":
        return spaces.Box(-10.0, 10.0, (3,), np.float32)
    if kind == "pbox2":
        return spaces.Box(-10.0, 10.0, (2, 2), np.float32)
    if kind == "pimg_hwc":
        return spaces.Box(0, 255, IMG, np.uint8)
    if kind == "pimg_chw":
        return spaces.Box(0, 255, (IMG[2], IMG[0], IMG[1]), np.uint8)
    if kind == "pdisc":
        return spaces.Discrete(7)
    if kind == "pmd":
        return spaces.MultiDiscrete([3, 4])
    if kind == "pmb":
        return spaces.MultiBinary(4)
    if kind == "pdict":
        return spaces.Dict({"vec": p_space("pbox"), "disc": spaces.Discrete(5), "md": spaces.MultiDiscrete([2, 3])})
    if kind == "pdict_img":
        return spaces.Dict({"vec": p_space("pbox"), "img": spaces.Box(0, 255, (1, 36, 36), np.uint8)})
    raise ValueError(kind)


def p_obs(kind, k, space=None):
    """one (unbatched) observation of the kind, content derived from k"""
    space = space or p_space(kind)
    from gymnasium import spaces

    if isinstance(space, spaces.Dict):
        return {kk: p_obs(None, k + j, s) for j, (kk, s) in enumerate(space.spaces.items())}
    if isinstance(space, spaces.Discrete):
        return np.int64(k % space.n)
    if isinstance(space, spaces.MultiDiscrete):
        return np.array([(k + j) % int(m) for j, m in enumerate(space.nvec)], dtype=np.int64)
    if isinstance(space, spaces.MultiBinary):
        return np.array([(k >> j) & 1 for j in range(space.n)], dtype=np.int8)
    size = int(np.prod(space.shape))
    if space.dtype == np.uint8:
        return ((np.arange(size) * 7 + k * 13) % 256).astype(np.uint8).reshape(space.shape)
    return (((np.arange(size) + k) % 9) * 0.5 - 2.0).astype(np.float32).reshape(space.shape)


class PolicySubject(Subject):
    def __init__(self, case):
        t = th()
        from gymnasium import spaces

        self.case = case
        t.manual_seed(case["init_seed"])
        self.ospace = p_space(case["obs"])
        self.aspace = act_space(case["act"])
        is_dict = isinstance(self.ospace, spaces.Dict)
        kw = dict(net_arch=[4])
        if case["obs"] == "pdict_img":
            kw["features_extractor_kwargs"] = dict(cnn_output_dim=4)
        lr = lambda _: 1e-3  # noqa: E731
        p = case["policy"]
        if p == "ac":
            from stable_baselines3.common.policies import ActorCriticPolicy, MultiInputActorCriticPolicy

            cls = MultiInputActorCriticPolicy if is_dict else ActorCriticPolicy
        elif p == "dqn":
            from stable_baselines3.dqn.policies import DQNPolicy, MultiInputPolicy

            cls = MultiInputPolicy if is_dict else DQNPolicy
        elif p == "sac":
            from stable_baselines3.sac.policies import MultiInputPolicy, SACPolicy

            cls = MultiInputPolicy if is_dict else SACPolicy
        elif p == "td3":
            from stable_baselines3.td3.policies import MultiInputPolicy, TD3Policy

            cls = MultiInputPolicy if is_dict else TD3Policy
        else:
            raise InfraError(f"bad policy {p}")
        self.policy = cls(self.ospace, self.aspace, lr, **kw)

    def roots(self):
        return [self.policy]

    def args(self, i):
        op = self.case["ops"][i]
        a = OrderedDict()
        if op["batch"] is None:
            a["observation"] = p_obs(self.case["obs"], op["k"])
            if isinstance(a["observation"], np.generic):
                a["observation"] = np.array(a["observation"])
        else:
            obs = [p_obs(self.case["obs"], op["k"] + j) for j in range(op["batch"])]
            if isinstance(obs[0], dict):
                a["observation"] = {k: np.stack([o[k] for o in obs]) for k in obs[0]}
            else:
                a["observation"] = np.stack(obs)
        return a

    def call(self, i, a):
        op = self.case["ops"][i]
        r = OrderedDict()
        th().manual_seed(op["seed"])
        if op["op"] == "predict":
            r["actions"], _ = self.policy.predict(a["observation"], deterministic=op["det"])
        elif op["op"] == "obs_to_tensor":
            r["tensor"], r["vectorized"] = self.policy.obs_to_tensor(a["observation"])
        else:
            raise InfraError(f"bad policy op {op['op']}")
        return r

    def target(self, i):
        op = self.case["ops"][i]
        v = ""
        if op["op"] == "obs_to_tensor":
            v = "dict" if self.case["obs"].startswith("pdict") else ("image" if "img" in self.case["obs"] else "array")
        return {"kind": "row", "cls": "BasePolicy", "call": op["op"], "variant": v}

    def label(self):
        return "BasePolicy"


def make_subject(case):
    if case["kind"] == "venv":
        return VenvSubject(case)
    if case["kind"] == "buffer":
        return BufferSubject(case)
    if case["kind"] == "policy":
        return PolicySubject(case)
    raise InfraError(f"bad case kind {case.get('kind')}")


# ======================================================================================================
#  the two runs
# ======================================================================================================
class Held:
    __slots__ = ("name", "obj", "snap", "call", "role", "handle")

    def __init__(self, name, obj, call, role, handle):
        self.name, self.obj, self.call, self.role, self.handle = name, obj, call, role, handle
        self.snap = snap(obj)


ARG_ORDER = {"clean": 0, "retained": 1, "mutated": 2}


def measure_call(subj, args, results, held_before):
    """ownership class of every argument / result of the call just made (BASE run)"""
    arrays, conts, keep = reach(subj.roots())
    internal = MemIndex(arrays)
    arg_names = list(args.keys())
    arg_idx = {}
    arg_leaves = []
    for j, (nm, o) in enumerate(args.items()):
        arrs, cs = leaves(o)
        arg_leaves.append((arrs, cs))
    prev_arrays, prev_conts = [], set()
    for h in held_before:
        arrs, cs = leaves(h.obj)
        prev_arrays.extend(arrs)
        prev_conts.update(id(c) for c in cs)
    prev = MemIndex(prev_arrays)
    m_args, m_res = OrderedDict(), OrderedDict()
    for j, nm in enumerate(arg_names):
        arrs, cs = arg_leaves[j]
        ret = any(internal.overlaps(a) for a in arrs) or any(id(c) in conts for c in cs)
        m_args[nm] = "retained" if ret else "clean"
    arg_index = [MemIndex(arrs) for arrs, _ in arg_leaves]
    arg_cont_ids = [set(id(c) for c in cs) for _, cs in arg_leaves]
    res_seen_arrays = []
    for nm, o in results.items():
        arrs, cs = leaves(o)
        cls = "fresh"
        for j in range(len(arg_names)):
            if any(arg_index[j].overlaps(a) for a in arrs) or any(id(c) in arg_cont_ids[j] for c in cs):
                cls = f"arg:{j}"
                break
        if cls == "fresh":
            if any(internal.overlaps(a) for a in arrs) or any(id(c) in conts for c in cs):
                cls = "retained"
            elif any(prev.overlaps(a) for a in arrs) or any(id(c) in prev_conts for c in cs):
                cls = "held"
            else:
                sib = MemIndex(res_seen_arrays)
                if any(sib.overlaps(a) for a in arrs):
                    cls = "held"
        res_seen_arrays.extend(arrs)
        m_res[nm] = cls
    del keep
    return m_args, m_res


def run_base(case):
    """-> dict(calls=[{op, args:{name:class}, res:{name:class}, res_snap, error}], findings=[...], logs)"""
    subj = make_subject(case)
    findings, calls, held = [], [], []
    handle = 0
    try:
        for i, op in enumerate(case["ops"]):
            args = subj.args(i)
            pre = {nm: snap(o) for nm, o in args.items()}
            err = None
            try:
                with warnings.catch_warnings():
                    warnings.simplefilter("ignore")
                    res = subj.call(i, args)
            except InfraError:
                raise
            except Exception as e:  # the same exception must come out of the twin
                res = OrderedDict()
                err = f"{type(e).__name__}"
            rec = {"op": op["op"], "error": err, "args": OrderedDict(), "res": OrderedDict(), "arg_handles": [],
                   "res_handles": [], "changed": []}
            # (oracle) arguments must not be modified by the call
            mutated = set()
            for nm, o in args.items():
                d = diff_path(pre[nm], snap(o), nm)
                if d:
                    mutated.add(nm)
                    findings.append({"kind": "arg_mutated", "cls": subj.label(), "call": op["op"], "part": nm,
                                     "call_index": i, "where": d})
            # (oracle a) nothing the caller holds may change
            for h in held:
                d = diff_path(h.snap, snap(h.obj), h.name)
                if d:
                    findings.append({"kind": "held_changed", "cls": subj.label(), "call": op["op"],
                                     "part": f"{case['ops'][h.call]['op']}.{h.role}.{h.name.split(':')[-1]}",
                                     "call_index": i, "held_from": h.call, "where": d})
                    rec["changed"].append(h.handle)
                    h.snap = snap(h.obj)  # report each change once
            m_args, m_res = measure_call(subj, args, res, held)
            for nm in m_args:
                if nm in mutated:
                    m_args[nm] = "mutated"
            rec["args"], rec["res"] = m_args, m_res
            if isinstance(res.get("dones"), np.ndarray):
                rec["any_done"] = bool(np.any(res["dones"]))
            rec["res_snap"] = OrderedDict((nm, snap(o)) for nm, o in res.items())
            for nm, o in args.items():
                held.append(Held(f"{i}:{nm}", o, i, "arg", handle))
                rec["arg_handles"].append(handle)
                handle += 1
            for nm, o in res.items():
                held.append(Held(f"{i}:{nm}", o, i, "res", handle))
                rec["res_handles"].append(handle)
                handle += 1
            rec["target"] = subj.target(i)
            calls.append(rec)
        logs = subj.env_logs()
    finally:
        subj.close()
    return {"calls": calls, "findings": findings, "logs": logs, "label": subj.label()}


def run_twin(case, base, only=None):
    """same calls on a twin object; the caller overwrites everything it holds after each call.
    only: None = overwrite everything, or a set of (op, role, name) triples to overwrite just those"""
    subj = make_subject(case)
    findings = []
    diff_calls = []
    try:
        for i, op in enumerate(case["ops"]):
            b = base["calls"][i]
            args = subj.args(i)
            err = None
            try:
                with warnings.catch_warnings():
                    warnings.simplefilter("ignore")
                    res = subj.call(i, args)
            except InfraError:
                raise
            except Exception as e:
                res = OrderedDict()
                err = f"{type(e).__name__}"
            if err != b["error"]:
                findings.append({"kind": "twin_differs", "cls": subj.label(), "call": op["op"], "part": "exception",
                                 "call_index": i, "where": f"base {b['error']} twin {err}"})
                diff_calls.append(i)
                if err is not None:
                    break
            else:
                bad = False
                for nm, o in res.items():
                    d = diff_path(b["res_snap"].get(nm), snap(o), nm) if nm in b["res_snap"] else nm + "<missing>"
                    if d:
                        findings.append({"kind": "twin_differs", "cls": subj.label(), "call": op["op"], "part": nm,
                                         "call_index": i, "where": d})
                        bad = True
                if bad:
                    diff_calls.append(i)
            for nm, o in args.items():
                if only is None or (op["op"], "arg", nm) in only:
                    overwrite(o)
            for nm, o in res.items():
                if only is None or (op["op"], "res", nm) in only:
                    overwrite(o)
        logs = subj.env_logs()
        if logs is not None and base["logs"] is not None and snap(logs) != snap(base["logs"]):
            findings.append({"kind": "twin_differs", "cls": subj.label(), "call": "env", "part": "env_log",
                             "call_index": len(case["ops"]), "where": diff_path(snap(base["logs"]), snap(logs), "log")})
    finally:
        subj.close()
    return {"findings": findings, "diff_calls": diff_calls}


def attribute(case, base, twin):
    """which single kind of overwritten object explains the twin difference (for a specific signature)"""
    cands = []
    for c in base["calls"]:
        for nm in c["args"]:
            t = (c["op"], "arg", nm)
            if t not in cands:
                cands.append(t)
        for nm in c["res"]:
            t = (c["op"], "res", nm)
            if t not in cands:
                cands.append(t)
    culprits = []
    for t in cands:
        try:
            r = run_twin(case, base, only={t})
        except InfraError:
            raise
        except Exception:
            continue
        if r["findings"]:
            culprits.append(f"{t[0]}.{t[1]}.{t[2]}")
    return culprits


# ======================================================================================================
#  library-as-caller stream: the algorithms hold what the VecEnv / VecNormalize returned to them
# ======================================================================================================
WHAT_LIB = "the library (an algorithm, as the caller of its VecEnv) changed in place an object a VecEnv wrapper had returned to it"
WHAT_ROW = "a buffer row differs from the object the VecEnv returned and the algorithm handed to add()"
ON_POLICY = ("ppo", "a2c")


class LearnProbe:
    """everything the outermost recording wrapper and the patched VecNormalize methods returned, with snapshots"""

    WINDOW = 160

    def __init__(self, case):
        self.case = case
        self.held = []  # [obj, snap, source, call_no, extra]
        self.findings = []
        self.calls = 0
        self.benign_bootstrap = 0
        self.changed_parts = set()
        self.prev_obs = None  # deep copies of the observation the algorithm acts on / stores (normalised view)
        self.cur_obs = None
        self.prev_orig = None
        self.cur_orig = None
        self.last_infos = None
        self.last_dones = None
        self.rows_checked = 0

    def hold(self, obj, source, extra=None):
        self.held.append([obj, snap(obj), source, self.calls, extra])
        if len(self.held) > self.WINDOW:
            del self.held[: len(self.held) - self.WINDOW]

    def recheck(self, at):
        for h in self.held:
            now = snap(h[0])
            if now == h[1]:
                continue
            where = diff_path(h[1], now, h[2])
            part = h[2].split(".")[-1]
            if (h[2] == "step.rewards" and self.case["algo"] in ON_POLICY and h[4] is not None
                    and self._is_bootstrap(h)):
                self.benign_bootstrap += 1
            else:
                self.changed_parts.add(part)
                self.findings.append({"kind": "lib_changed_returned", "returned_by": h[2], "detected_at": at,
                                      "returned_at_call": h[3], "detected_at_call": self.calls, "where": where})
            h[1] = now

    @staticmethod
    def _is_bootstrap(h):
        """on-policy timeout bootstrapping adds gamma*V(terminal) to the rewards array of truncated episode ends, in
        place (rewards are outside the sentence of C19): only those entries may differ"""
        before, dones, truncs = h[4]
        now = np.asarray(h[0])
        if now.shape != before.shape:
            return False
        for i in range(len(before)):
            if now[i] != before[i] and not (dones[i] and truncs[i]):
                return False
        return True


def make_recorder(venv, probe):
    from stable_baselines3.common.vec_env.base_vec_env import VecEnvWrapper

    class Recorder19(VecEnvWrapper):
        def reset(self):
            probe.recheck("env.reset")
            obs = self.venv.reset()
            probe.calls += 1
            probe.hold(obs, "reset.obs")
            probe.prev_obs, probe.cur_obs = probe.cur_obs, copy.deepcopy(obs)
            return obs

        def step_async(self, actions):
            probe.recheck("env.step")
            self.venv.step_async(actions)

        def step_wait(self):
            obs, rewards, dones, infos = self.venv.step_wait()
            probe.calls += 1
            probe.hold(obs, "step.obs")
            truncs = [bool(i.get("TimeLimit.truncated", False)) for i in infos]
            probe.hold(rewards, "step.rewards", (np.array(rewards, copy=True), np.array(dones, copy=True), truncs))
            probe.hold(dones, "step.dones")
            probe.hold(infos, "step.infos")
            probe.prev_obs, probe.cur_obs = probe.cur_obs, copy.deepcopy(obs)
            probe.last_infos, probe.last_dones = copy.deepcopy(infos), np.array(dones, copy=True)
            return obs, rewards, dones, infos

    return Recorder19(venv)


def patch_vecnormalize(vn, probe):
    """record what the public helpers of the VecNormalize instance return (to the algorithm and to the buffers)"""
    for name in ("get_original_obs", "get_original_reward", "normalize_obs", "unnormalize_obs"):
        orig = getattr(vn, name)

        def wrapped(*a, _orig=orig, _name=name, **k):
            r = _orig(*a, **k)
            probe.hold(r, _name + ".result")
            if _name == "get_original_obs":
                probe.prev_orig, probe.cur_orig = probe.cur_orig, copy.deepcopy(r)
            return r

        setattr(vn, name, wrapped)


def _rows_equal(stored, expected, rows):
    """stored: buffer slot (n_envs, ...) ; expected: batched observation; compare the given env rows after casting"""
    st = np.asarray(stored)
    ex = np.asarray(expected).astype(st.dtype).reshape(st.shape)
    return all(np.array_equal(st[i], ex[i]) for i in rows)


def check_row(probe, buf, field, pos, expected, rows, off_policy):
    if expected is None or not rows:
        return
    store = getattr(buf, field)
    ok = True
    if isinstance(store, dict):
        for k in store:
            ok = ok and _rows_equal(store[k][pos], expected[k], rows)
    else:
        ok = _rows_equal(store[pos], expected, rows)
    probe.rows_checked += 1
    if not ok:
        probe.findings.append({"kind": "stored_row_differs", "returned_by": "step.obs/reset.obs/get_original_obs",
                               "detected_at": "buffer.add", "field": field, "detected_at_call": probe.calls,
                               "returned_at_call": probe.calls - (1 if field == "observations" else 0), "where": field})


def patch_buffer(model, probe, has_vn):
    off = probe.case["algo"] not in ON_POLICY
    buf = model.replay_buffer if off else model.rollout_buffer
    orig = buf.add

    def add(*a, **k):
        probe.recheck("buffer.add")
        pos = buf.pos
        r = orig(*a, **k)
        n = probe.case["n"]
        if off:
            exp_obs = probe.prev_orig if has_vn else probe.prev_obs
            exp_next = probe.cur_orig if has_vn else probe.cur_obs
            check_row(probe, buf, "observations", pos, exp_obs, list(range(n)), True)
            dones = probe.last_dones if probe.last_dones is not None else np.zeros(n, dtype=bool)
            check_row(probe, buf, "next_observations", pos, exp_next, [i for i in range(n) if not dones[i]], True)
            if not has_vn and probe.last_infos is not None:
                for i in range(n):
                    if dones[i] and probe.last_infos[i].get("terminal_observation") is not None:
                        t = probe.last_infos[i]["terminal_observation"]
                        store = buf.next_observations
                        if isinstance(store, dict):
                            okk = all(np.array_equal(np.asarray(store[kk][pos][i]).reshape(-1),
                                                     np.asarray(t[kk]).astype(store[kk].dtype).reshape(-1)) for kk in store)
                        else:
                            okk = np.array_equal(np.asarray(store[pos][i]).reshape(-1),
                                                 np.asarray(t).astype(store.dtype).reshape(-1))
                        probe.rows_checked += 1
                        if not okk:
                            probe.findings.append({"kind": "stored_row_differs", "returned_by": "step.infos",
                                                   "detected_at": "buffer.add", "field": "next_observations(terminal)",
                                                   "detected_at_call": probe.calls, "returned_at_call": probe.calls,
                                                   "where": "terminal_observation"})
        else:
            check_row(probe, buf, "observations", pos, probe.prev_obs, list(range(n)), False)
        return r

    buf.add = add


def run_learn(case):
    import torch
    from stable_baselines3 import A2C, DQN, PPO, SAC, TD3
    from stable_baselines3.common.callbacks import BaseCallback
    from stable_baselines3.common.vec_env import DummyVecEnv, VecMonitor, VecNormalize

    probe = LearnProbe(case)
    n = case["n"]
    fns = [Env19Fn(env_id=i, obs_kind=case["obs"], act_kind=case["act"], script=case["scripts"][i],
                   reuse=bool(case.get("reuse"))) for i in range(n)]
    venv = DummyVecEnv(fns)
    if case.get("monitor"):
        venv = VecMonitor(venv)
    vn = None
    if case.get("vn"):
        keys = ["vec", "aux"] if case["obs"] == "dictsmall" else None
        vn = VecNormalize(venv, norm_obs=case["vn"].get("norm_obs", True), norm_reward=case["vn"].get("norm_reward", True),
                          clip_obs=case["vn"].get("clip_obs", 10.0), norm_obs_keys=keys if case["vn"].get("norm_obs", True) else None)
        venv = vn
        patch_vecnormalize(vn, probe)
    env = make_recorder(venv, probe)
    policy = "MultiInputPolicy" if case["obs"] == "dictsmall" else "MlpPolicy"
    pk = dict(net_arch=[4])
    algo = case["algo"]
    common_kw = dict(policy_kwargs=pk, device="cpu", verbose=0, seed=case["seed"])
    torch.manual_seed(case["seed"])
    np.random.seed(case["seed"])
    if algo == "dqn":
        model = DQN(policy, env, learning_starts=case["ls"], buffer_size=case["buf"], batch_size=4, train_freq=case["tf"],
                    gradient_steps=1, target_update_interval=5, **common_kw)
    elif algo == "td3":
        model = TD3(policy, env, learning_starts=case["ls"], buffer_size=case["buf"], batch_size=4, train_freq=case["tf"],
                    gradient_steps=1, **common_kw)
    elif algo == "sac":
        model = SAC(policy, env, learning_starts=case["ls"], buffer_size=case["buf"], batch_size=4, train_freq=case["tf"],
                    gradient_steps=1, **common_kw)
    elif algo == "ppo":
        model = PPO(policy, env, n_steps=case["n_steps"], batch_size=case["n_steps"] * n, n_epochs=1, **common_kw)
    elif algo == "a2c":
        model = A2C(policy, env, n_steps=case["n_steps"], **common_kw)
    else:
        raise InfraError(f"bad algo {algo}")
    patch_buffer(model, probe, vn is not None)

    class Cb(BaseCallback):
        def _on_step(self):
            probe.recheck("callback.on_step")
            return True

        def _on_rollout_end(self):
            probe.recheck("callback.on_rollout_end")

    try:
        with warnings.catch_warnings():
            warnings.simplefilter("ignore")
            model.learn(total_timesteps=case["total"], callback=Cb())
        probe.recheck("learn.end")
        # which of the last returned objects does the algorithm still hold (identity)
        kept = [x for x in (getattr(model, "_last_obs", None), getattr(model, "_last_original_obs", None),
                            getattr(model, "_last_episode_starts", None)) if x is not None]
        kept_arrays, kept_conts = [], set()
        for x in kept:
            a, c = leaves(x)
            kept_arrays.extend(a)
            kept_conts.update(id(cc) for cc in c)
        idx = MemIndex(kept_arrays)
        retained_parts = set()
        for obj, _, source, _, _ in probe.held[-12:]:
            a, c = leaves(obj)
            if any(idx.overlaps(x) for x in a) or any(id(cc) in kept_conts for cc in c):
                retained_parts.add(source)
    finally:
        env.close()
    return probe, retained_parts


LEARN_PARTS = {"reset.obs": "obs", "step.obs": "obs", "step.rewards": "rewards", "step.dones": "dones",
               "step.infos": "infos", "get_original_obs.result": "original_obs",
               "get_original_reward.result": "original_reward", "normalize_obs.result": "normalized_obs",
               "unnormalize_obs.result": "normalized_obs"}


def gen_learn(rng, widen, thorough):
    algo = rng.weighted([("dqn", 3), ("td3", 2), ("sac", 2), ("ppo", 2), ("a2c", 2)])
    if algo == "dqn":
        act = "discrete"
    elif algo in ("td3", "sac"):
        act = rng.choice(["box", "box_sym"])
    else:
        act = rng.choice(["discrete", "box", "box_sym", "multidiscrete"])
    n = rng.randint(1, 2)
    obs = rng.weighted([("box1", 3), ("box2", 2), ("dictsmall", 3)])
    style = rng.weighted([("len1", 2), ("mixed", 4), ("both", 1), ("trunc_only", 2), ("term_only", 1)])
    case = {"kind": "learn", "algo": algo, "obs": obs, "act": act, "n": n,
            "scripts": [gen_script(rng, rng.randint(2, 6), style) for _ in range(n)],
            "total": rng.randint(12, 40 if not widen else 60), "seed": rng.randint(0, 2**31 - 1),
            "monitor": rng.chance(0.4), "reuse": rng.chance(0.3)}
    if rng.chance(0.6):
        case["vn"] = {"norm_obs": rng.chance(0.85), "norm_reward": rng.chance(0.7), "clip_obs": rng.choice([10.0, 1e6, 0.5])}
    if algo in ON_POLICY:
        case["n_steps"] = rng.randint(3, 8)
    else:
        case["ls"] = rng.randint(0, 8)
        case["buf"] = rng.choice([6, 12, 50])
        case["tf"] = rng.randint(1, 3)
    return case


def check_learn(ctx, case, ops, plan, pending):
    rep = ctx.report
    try:
        probe, retained = run_learn(case)
    except InfraError:
        raise
    except Exception as e:
        import traceback

        rep.case(case, None)
        rep.violation("unexpected exception from the implementation on a valid call sequence", case,
                      {"kind": "exception", "exception": type(e).__name__, "case_kind": "learn"},
                      traceback.format_exc()[-1500:])
        return
    ends = sum(1 for h in probe.held if h[2] == "step.dones" and np.any(h[0]))
    rep.case(case, case if (case.get("vn") and ends > 0) else None)
    rep.count(f"learn:{case['algo']}" + (":vn" if case.get("vn") else "") + f":{case['obs']}")
    rep.count("learn_env_calls", probe.calls)
    rep.count("learn_buffer_rows_checked", probe.rows_checked)
    if probe.benign_bootstrap:
        rep.count("learn_onpolicy_timeout_bootstrap_rewards_in_place(outside_statement)", probe.benign_bootstrap)
    if probe.findings:
        order = {"lib_changed_returned": 0, "stored_row_differs": 1}
        f = sorted(probe.findings, key=lambda x: (order[x["kind"]], x["detected_at_call"]))[0]
        sig = {"kind": f["kind"], "algo": case["algo"], "family": "on_policy" if case["algo"] in ON_POLICY else "off_policy",
               "returned_by": f["returned_by"], "detected_at": f["detected_at"], "vecnormalize": bool(case.get("vn"))}
        if "field" in f:
            sig["field"] = f["field"]
        pending.append((0, WHAT_LIB if f["kind"] == "lib_changed_returned" else WHAT_ROW, case, sig,
                        {"first": f, "all": probe.findings[:8]}))
    # model op: the algorithm as the caller of the wrapper — which parts it changed / still holds
    seen_parts = []
    for h in probe.held:
        p = LEARN_PARTS.get(h[2])
        if p and p not in seen_parts:
            seen_parts.append(p)
    mutated_parts = {LEARN_PARTS.get(f["returned_by"]) for f in probe.findings if f["kind"] == "lib_changed_returned"}
    args = []
    for p in seen_parts:
        srcs = [s for s, pp in LEARN_PARTS.items() if pp == p]
        if p in mutated_parts:
            cl = "mutated"
        elif any(s in retained for s in srcs):
            cl = "retained"
        else:
            cl = "clean"
        args.append([p, cl])
    fam = "OnPolicyAlgorithm" if case["algo"] in ON_POLICY else "OffPolicyAlgorithm"
    if probe.benign_bootstrap:
        args = [[p, "mutated" if p == "rewards" else c] for p, c in args]
    plan.append((case, {"calls": [{"op": "learn", "args": OrderedDict(args), "res": OrderedDict(), "changed": []}],
                        "label": fam}, {"diff_calls": [], "findings": []}, len(ops)))
    ops.append({"op": "case", "calls": [{"target": {"kind": "row", "cls": fam, "call": "learn", "variant": ""},
                                         "args": args, "res": []}]})


# ======================================================================================================
#  generators
# ======================================================================================================
ACTS = ["box", "box_sym", "discrete", "multidiscrete", "multibinary"]
VENV_OBS = [("box1", 3), ("box2", 1), ("image_hwc", 3), ("image_chw", 1), ("discrete", 1), ("multidiscrete", 1),
            ("multibinary", 1), ("dict", 3), ("dictbox", 3), ("tuple", 1)]
# per observation kind: (is Box, is image HWC, dict keys -> sub kind)
KIND_INFO = {
    "box1": dict(box=True, img=False, keys=None), "box2": dict(box=True, img=False, keys=None),
    "image_hwc": dict(box=True, img=True, keys=None), "image_chw": dict(box=True, img=False, keys=None),
    "discrete": dict(box=False, img=False, keys=None), "multidiscrete": dict(box=False, img=False, keys=None),
    "multibinary": dict(box=False, img=False, keys=None), "tuple": dict(box=False, img=False, keys=None),
    "dict": dict(box=False, img=True, keys={"vec": "box1", "img": "image_hwc", "disc": "discrete"}),
    "dictbox": dict(box=False, img=True, keys={"vec": "box1", "img": "image_hwc"}),
}


def gen_layers(rng, obs, max_layers):
    st = dict(KIND_INFO[obs])
    st["keys"] = dict(st["keys"]) if st["keys"] else None
    st["allbox"] = obs == "dictbox"
    st["normed"] = False
    layers, used = [], set()
    n_layers = rng.weighted([(0, 2), (1, 5), (2, 5), (3, 3), (4, 1)])
    n_layers = min(n_layers, max_layers)
    for _ in range(n_layers):
        opts = []
        is_dict = st["keys"] is not None
        if (st["box"] or (is_dict and st["allbox"])) and list(used).count("framestack") < 1 + 0:
            opts.append(("framestack", 4))
        if st["img"] and "transpose" not in used:
            opts.append(("transpose", 3))
        if is_dict:
            opts.append(("extract", 2))
        if "normalize" not in used and obs != "tuple":
            opts.append(("normalize", 4))
        if "monitor" not in used:
            opts.append(("monitor", 2))
        if "checknan" not in used:
            opts.append(("checknan", 3))
        if not opts:
            break
        w = rng.weighted(opts)
        used.add(w)
        if w == "framestack":
            L = {"w": w, "n_stack": rng.randint(1, 4)}
            if not is_dict and rng.chance(0.25):
                L["order"] = rng.choice(["first", "last"])
            st["img"] = False  # keep the stack type-correct whatever the stacked shape is
        elif w == "transpose":
            L = {"w": w, "skip": rng.chance(0.2)}
            if not L["skip"]:
                st["img"] = False
        elif w == "extract":
            key = rng.choice(sorted(st["keys"].keys()))
            L = {"w": w, "key": key}
            sub = st["keys"][key]
            already_t = not st["img"]
            st = dict(KIND_INFO[sub])
            st["allbox"] = False
            st["normed"] = False
            if already_t:
                st["img"] = False
        elif w == "normalize":
            L = {"w": w, "training": rng.chance(0.8), "norm_reward": rng.chance(0.7),
                 "clip_obs": rng.choice([10.0, 1e6, 0.5])}
            if is_dict:
                boxkeys = sorted(k for k, v in st["keys"].items() if KIND_INFO[v]["box"])
                can = bool(boxkeys)
                L["norm_obs"] = can and rng.chance(0.8)
                if L["norm_obs"]:
                    ks = [k for k in boxkeys if rng.chance(0.7)] or boxkeys[:1]
                    L["keys"] = ks if not (st["allbox"] and len(ks) == len(boxkeys) and rng.chance(0.5)) else None
                    if L["keys"] is None and not st["allbox"]:
                        L["keys"] = ks
                    if "img" in (L["keys"] or boxkeys):
                        st["img"] = False
            else:
                L["norm_obs"] = st["box"] and rng.chance(0.8)
                if L["norm_obs"]:
                    st["img"] = False
        else:
            L = {"w": w}
        layers.append(L)
    return layers


def gen_venv(rng, widen, thorough):
    obs = rng.weighted(VENV_OBS)
    n = rng.randint(1, 3)
    base = "subproc" if rng.chance(0.10 if thorough else 0.04) else "dummy"
    layers = gen_layers(rng, obs, 4)
    has_vn = any(L["w"] == "normalize" for L in layers)
    style = rng.weighted([("len1", 3), ("mixed", 5), ("both", 1), ("trunc_only", 1), ("term_only", 1), ("never", 1)])
    scripts = [gen_script(rng, rng.randint(2, 6), style if rng.chance(0.7) else None) for _ in range(n)]
    n_ops = rng.randint(3, 9) + (6 if widen else 0)
    ops = [{"op": "reset"}]
    k = 0
    while len(ops) < n_ops:
        cand = [("step", 8), ("reset", 2)]
        if ops[-1]["op"] == "step":
            cand.append(("reset", 2))
        if has_vn:
            cand += [("get_original_obs", 1.5), ("get_original_reward", 1), ("normalize_obs", 1), ("unnormalize_obs", 1),
                     ("normalize_reward", 0.5)]
        o = rng.weighted(cand)
        if o == "step":
            k += 1
            ops.append({"op": "step", "k": k})
        elif o == "normalize_reward":
            ops.append({"op": o, "k": k})
        else:
            ops.append({"op": o})
    case = {"kind": "venv", "base": base, "obs": obs, "act": rng.choice(ACTS), "n": n, "layers": layers,
            "scripts": scripts, "ops": ops, "reuse": rng.chance(0.45)}
    if base == "subproc":
        case["start"] = "fork"
    return case


REPLAY_OBS = ["box1", "box2", "image_hwc", "discrete", "multidiscrete", "multibinary"]


def gen_buffer(rng, widen, thorough):
    cls = rng.weighted([("replay", 3), ("dict_replay", 2), ("rollout", 2), ("dict_rollout", 1), ("her", 3)])
    n = rng.randint(1, 3)
    size = rng.randint(2, 6)
    case = {"kind": "buffer", "cls": cls, "n": n, "size": size, "act": rng.choice(ACTS)}
    if cls in ("replay", "rollout"):
        case["obs"] = rng.choice(REPLAY_OBS)
    elif cls in ("dict_replay", "dict_rollout"):
        case["obs"] = rng.choice(["dict", "dict", "dictbox"])
    else:
        case["obs"] = None
    if case["act"] == "discrete" and rng.chance(0.4):
        case["act2d"] = True
    if cls == "replay" and rng.chance(0.25):
        case["memopt"] = True
    if cls == "her":
        case["copy_info_dict"] = rng.chance(0.4)
        case["strategy"] = rng.choice(["future", "final", "episode"])
        case["n_sampled_goal"] = rng.randint(1, 4)
    if cls in ("replay", "dict_replay", "her") and rng.chance(0.2) and case["obs"] in (None, "box1", "box2", "image_hwc", "dict", "dictbox"):
        case["vn"] = True
    n_ops = rng.randint(5, 12) + (8 if widen else 0)
    ops = []
    k = 0
    if cls in ("replay", "dict_replay", "her"):
        adds = 0
        had_done = False
        while len(ops) < n_ops:
            can_sample = adds > 0 and (cls != "her" or had_done)
            o = rng.weighted([("add", 6), ("sample", 3 if can_sample else 0.0001)])
            if o == "sample" and not can_sample:
                o = "add"
            if o == "add":
                style = rng.weighted([("rand", 5), ("all", 1), ("none", 2)])
                done = [style == "all" or (style == "rand" and rng.chance(0.35)) for _ in range(n)]
                trunc = [d and rng.chance(0.4) for d in done]
                op = {"op": "add", "k": k, "done": done, "trunc": trunc}
                if rng.chance(0.2):
                    op["done_bool"] = False
                ops.append(op)
                k += 1
                adds += 1
                had_done = had_done or any(done)
            else:
                op = {"op": "sample", "batch": rng.randint(1, 6), "seed": rng.randint(0, 2**31 - 1)}
                if case.get("vn") and rng.chance(0.6):
                    op["vn"] = True
                ops.append(op)
    else:
        filled, computed, flat = 0, False, False
        while len(ops) < n_ops:
            if flat:
                o = rng.weighted([("get", 2), ("reset", 3)])
            elif filled < size:
                o = rng.weighted([("add", 12), ("reset", 1)])
            elif not computed:
                o = rng.weighted([("compute", 6), ("get", 1)])
            else:
                o = rng.weighted([("get", 5), ("reset", 1)])
            if o == "add":
                op = {"op": "add", "k": k, "start": [int(rng.chance(0.3)) for _ in range(n)]}
                if rng.chance(0.2):
                    op["start_f"] = False
                if rng.chance(0.3):
                    op["vshape"] = [n, 1]
                ops.append(op)
                k += 1
                filled += 1
            elif o == "compute":
                op = {"op": "compute", "done": [rng.chance(0.4) for _ in range(n)]}
                if rng.chance(0.3):
                    op["vshape"] = [n, 1]
                ops.append(op)
                computed = True
            elif o == "get":
                ops.append({"op": "get", "batch": rng.weighted([(None, 2), (rng.randint(1, size * n + 1), 4)]),
                            "seed": rng.randint(0, 2**31 - 1)})
                flat = True
            else:
                ops.append({"op": "reset"})
                filled, computed, flat = 0, False, False
    case["ops"] = ops
    return case


POLICY_OBS = [("pbox", 3), ("pbox2", 1), ("pimg_hwc", 2), ("pimg_chw", 2), ("pdisc", 1), ("pmd", 1), ("pmb", 1),
              ("pdict", 3), ("pdict_img", 1)]


def gen_policy(rng, widen, thorough):
    policy = rng.weighted([("ac", 4), ("dqn", 2), ("sac", 2), ("td3", 2)])
    if policy == "ac":
        act = rng.choice(ACTS)
    elif policy == "dqn":
        act = "discrete"
    else:
        act = rng.choice(["box", "box_sym"])
    obs = rng.weighted(POLICY_OBS)
    ops = []
    for _ in range(rng.randint(3, 6) + (4 if widen else 0)):
        o = rng.weighted([("predict", 4), ("obs_to_tensor", 1)])
        op = {"op": o, "k": rng.randint(0, 40), "batch": rng.weighted([(None, 2), (1, 1), (2, 1), (3, 1)]),
              "seed": rng.randint(0, 2**31 - 1)}
        if o == "predict":
            op["det"] = rng.chance(0.5)
        ops.append(op)
    return {"kind": "policy", "policy": policy, "obs": obs, "act": act, "init_seed": rng.randint(0, 2**31 - 1), "ops": ops}


def gen_cases(ctx):
    rng = ctx.rng
    cases = []
    for _ in range(ctx.budget(700, 7000)):
        cases.append(gen_venv(rng, ctx.widen, ctx.thorough))
    for _ in range(ctx.budget(700, 7000)):
        cases.append(gen_buffer(rng, ctx.widen, ctx.thorough))
    for _ in range(ctx.budget(200, 2000)):
        cases.append(gen_policy(rng, ctx.widen, ctx.thorough))
    for _ in range(ctx.budget(72, 720)):
        cases.append(gen_learn(rng, ctx.widen, ctx.thorough))
    return cases


def shrink_learn(case):
    if case["total"] > 4:
        for t in (case["total"] // 2, case["total"] - 4, case["total"] - 1):
            if 1 <= t < case["total"]:
                c = dict(case)
                c["total"] = t
                yield c
    if case["n"] > 1:
        c = dict(case)
        c["n"] = 1
        c["scripts"] = case["scripts"][:1]
        yield c
    for f in ("monitor", "reuse"):
        if case.get(f):
            c = dict(case)
            c[f] = False
            yield c
    if case["obs"] != "box1":
        c = dict(case)
        c["obs"] = "box1"
        yield c
    for i, sc in enumerate(case["scripts"]):
        if len(sc) > 1:
            c = dict(case)
            c["scripts"] = [x if j != i else x[:-1] for j, x in enumerate(case["scripts"])]
            yield c


def shrink_candidates(case):
    if case.get("kind") == "learn":
        yield from shrink_learn(case)
        return
    ops = case["ops"]
    # drop one call (the first reset of a VecEnv stays)
    lo = 1 if case["kind"] == "venv" else 0
    for i in range(len(ops) - 1, lo - 1, -1):
        if len(ops) > 1:
            c = dict(case)
            c["ops"] = ops[:i] + ops[i + 1:]
            yield c
    if case["kind"] == "venv":
        for j in range(len(case["layers"]) - 1, -1, -1):
            c = dict(case)
            c["layers"] = case["layers"][:j] + case["layers"][j + 1:]
            yield c
        if case["base"] == "subproc":
            c = dict(case)
            c["base"] = "dummy"
            yield c
        if case.get("reuse"):
            c = dict(case)
            c["reuse"] = False
            yield c
    if case.get("n", 1) > 1:
        c = copy.deepcopy(case)
        c["n"] = case["n"] - 1
        if "scripts" in c:
            c["scripts"] = c["scripts"][:c["n"]]
        for op in c["ops"]:
            for f in ("done", "trunc", "start"):
                if f in op:
                    op[f] = op[f][:c["n"]]
            if "vshape" in op:
                op["vshape"] = [c["n"]] + op["vshape"][1:]
        yield c
    if case.get("vn"):
        c = copy.deepcopy(case)
        c["vn"] = False
        for op in c["ops"]:
            op.pop("vn", None)
        yield c


# ======================================================================================================
#  check
# ======================================================================================================
WHAT = {
    "arg_mutated": "a library call modified an argument object of the caller",
    "held_changed": "an object the caller holds (passed in or returned earlier) was changed by a later library call",
    "twin_differs": "a later library result depends on what the caller did to objects it holds "
                    "(something was stored or returned by reference)",
}


def signature_of(case, f, culprits):
    sig = {"kind": f["kind"], "cls": f["cls"].split("+")[-1] if case["kind"] == "venv" else f["cls"],
           "call": f["call"], "part": f["part"]}
    if case["kind"] == "venv":
        sig["stack"] = f["cls"]
    if case["kind"] == "buffer" and case["cls"] == "her":
        sig["copy_info_dict"] = bool(case.get("copy_info_dict"))
    if culprits is not None:
        sig["cause"] = culprits[0] if len(culprits) == 1 else ("none-single" if not culprits else "several")
        sig["causes"] = culprits[:6]
    return sig


def mres_json(c):
    if c.startswith("arg:"):
        return ["arg", int(c.split(":")[1])]
    return "retained" if c == "held" else c


def nontrivial(case, base):
    if case["kind"] == "venv":
        if not case["layers"]:
            return False
        calls = base["calls"]
        return any(calls[i]["op"] == "step" and calls[i].get("any_done") and calls[i + 1]["op"] == "reset"
                   for i in range(len(calls) - 1))
    if case["kind"] == "buffer":
        if case["cls"] in ("rollout", "dict_rollout"):
            ops = [o["op"] for o in case["ops"]]
            return "reset" in ops and "get" in ops[ops.index("reset"):]
        adds = 0
        for o in case["ops"]:
            if o["op"] == "add":
                adds += 1
            elif o["op"] == "sample" and adds > case["size"]:
                return True
        return False
    return case["obs"] in ("pdict", "pdict_img", "pimg_hwc", "pimg_chw")  # (learn cases: VecNormalize and >= 1 episode end)


VN_OPS = ("get_original_obs", "get_original_reward", "normalize_obs", "unnormalize_obs", "normalize_reward")


def validate(case):
    """a (shrunk / replayed) case must still be a well-formed call sequence"""
    kind = case.get("kind")
    if kind == "venv":
        has_vn = any(L["w"] == "normalize" for L in case["layers"])
        if not case["ops"] or case["ops"][0]["op"] != "reset":
            raise ValueError("invalid case: a VecEnv sequence starts with reset()")
        if not has_vn and any(o["op"] in VN_OPS for o in case["ops"]):
            raise ValueError("invalid case: VecNormalize call without a VecNormalize layer")
        if len(case["scripts"]) != case["n"]:
            raise ValueError("invalid case: scripts")
    elif kind == "learn":
        if len(case["scripts"]) != case["n"] or case["total"] < 1:
            raise ValueError("invalid case: learn")
        return
    elif kind not in ("buffer", "policy"):
        raise ValueError("invalid case kind")
    if not case["ops"]:
        raise ValueError("invalid case: no calls")


def check_cases(ctx, cases):
    rep = ctx.report
    ops, plan, pending = [{"op": "table"}], [], []
    for case in cases:
        validate(case)
        kind = case.get("kind")
        rep.count(f"kind:{kind}")
        if kind == "learn":
            check_learn(ctx, case, ops, plan, pending)
            continue
        try:
            base = run_base(case)
            twin = run_twin(case, base)
        except InfraError:
            raise
        except Exception as e:  # the case could not even be set up / driven: the implementation raised outside a call
            import traceback

            rep.case(case, None)
            rep.violation("unexpected exception from the implementation on a valid call sequence", case,
                          {"kind": "exception", "exception": type(e).__name__, "case_kind": kind},
                          traceback.format_exc()[-1500:])
            continue
        rep.case(case, case if nontrivial(case, base) else None)
        # ---- input distribution
        rep.count(f"subject:{base['label'].split('+')[0]}")
        if kind == "venv":
            rep.count(f"venv_layers={len(case['layers'])}")
            for L in case["layers"]:
                rep.count(f"layer:{L['w']}")
            rep.count(f"venv_obs:{case['obs']}")
            rep.count("venv_env_reuses_buffers" if case.get("reuse") else "venv_env_fresh_objects")
        elif kind == "buffer":
            rep.count(f"buffer:{case['cls']}" + (":memopt" if case.get("memopt") else "") + (":vn" if case.get("vn") else "")
                      + (":copy_info" if case.get("copy_info_dict") else ""))
            rep.count(f"buffer_obs:{case['obs']}")
        else:
            rep.count(f"policy:{case['policy']}:{case['obs']}")
        rep.count(f"n_envs={case.get('n', 1)}")
        for c in base["calls"]:
            rep.count(f"call:{c['op']}" + (":raised" if c["error"] else ""))
        # ---- oracle
        findings = base["findings"] + twin["findings"]
        if findings:
            order = {"arg_mutated": 0, "held_changed": 1, "twin_differs": 2}
            f = sorted(findings, key=lambda x: (order[x["kind"]], x["call_index"]))[0]
            culprits = None
            if f["kind"] == "twin_differs":
                try:
                    culprits = attribute(case, base, twin)
                except InfraError:
                    raise
                except Exception:
                    culprits = None
            sig = signature_of(case, f, culprits)
            pending.append((0, WHAT[f["kind"]], case, sig,
                            {"first": f, "all": [dict(x) for x in findings[:8]]}))
        # ---- model op
        calls = []
        for c in base["calls"]:
            calls.append({"target": c["target"], "args": [[nm, cl] for nm, cl in c["args"].items()],
                          "res": [[nm, mres_json(cl)] for nm, cl in c["res"].items()]})
        plan.append((case, base, twin, len(ops)))
        ops.append({"op": "case", "calls": calls})
    for _, what, vcase, sig, detail in sorted(pending, key=lambda t: t[0]):
        rep.violation(what, vcase, sig, detail)
    outs = ctx.lean.run(ops)
    # ---- the table itself
    tab = outs[0]
    if tab is not None:
        bad_rows = [r for r in tab.get("rows", []) if r["in_statement"] and not r["exception"] and not r["discipline"]]
        bad_layers = [L for L in tab.get("layers", []) if not L["clean"]]
        if "error" in tab or bad_rows or bad_layers:
            rep.disagree("table", {"op": "table"}, "every in-statement row copy-discipline", {"rows": bad_rows, "layers": bad_layers,
                                                                                            "error": tab.get("error")})
        else:
            rep.agree()
            rep.count("table_rows", len(tab["rows"]))
            rep.count("table_layers", len(tab["layers"]))
    for case, base, twin, i in plan:
        mo = outs[i]
        if mo is None:
            continue
        if "error" in mo:
            rep.disagree("modes", case, [dict(c["args"], **c["res"]) for c in base["calls"]], mo)
            continue
        # (1) modes: measured class <= table class
        worse, cleaner = [], []
        for ci, mc in enumerate(mo["calls"]):
            for part in mc["args"] + mc["res"]:
                if isinstance(part, str):
                    worse.append([ci, part])
                elif part[3] == "worse":
                    worse.append([ci, "/".join(mc["row"]), part[0], {"table": part[1], "measured_class": base["calls"][ci]["args"].get(
                        part[0], base["calls"][ci]["res"].get(part[0]))}])
                elif part[3] == "cleaner":
                    cleaner.append(f"{'/'.join(mc['row'][:2])}.{part[0]}")
        for c in set(cleaner):
            rep.count(f"mode_cleaner_than_table:{c}")
        if worse:
            rep.disagree("modes", case, worse, "measured ownership class is worse than the table row")
        else:
            rep.agree()
        # (2) program: observed interference must be predicted by the heap machine run with the measured modes
        impl_changed = {ci: sorted(c["changed"]) for ci, c in enumerate(base["calls"]) if c["changed"]}
        model_changed = {ci: sorted(mc["changed"]) for ci, mc in enumerate(mo["calls"]) if mc["changed"]}
        impl_twin = sorted(set(i2 for i2 in twin["diff_calls"]))
        model_twin = [ci for ci, mc in enumerate(mo["calls"]) if mc["twin_differs"]]
        env_log_diff = any(f["part"] == "env_log" for f in twin["findings"])
        ok = mo["refines"] and mo["strip_ok"]
        for ci, hs in impl_changed.items():
            if not set(hs) <= set(model_changed.get(ci, [])):
                ok = False
        for ci in impl_twin:
            if ci not in model_twin:
                ok = False
        if env_log_diff and mo["discipline"]:
            ok = False
        if mo["discipline"] and (model_changed or model_twin):
            ok = False  # would contradict discipline_noninterference
        if not ok:
            rep.disagree("program", case, {"held_changed": impl_changed, "twin_differs": impl_twin, "env_log": env_log_diff},
                         {"held_changed": model_changed, "twin_differs": model_twin, "discipline": mo["discipline"],
                          "refines": mo["refines"], "strip_ok": mo["strip_ok"]})
        else:
            rep.agree()
        rep.count("model_discipline" if mo["discipline"] else "model_not_discipline")
