"""
C18 — Episode statistics from Monitor, VecMonitor and evaluate_policy are exact.

Implementation under test:
    stable_baselines3.common.monitor        (Monitor, ResultsWriter, load_results)
    stable_baselines3.common.vec_env.vec_monitor (VecMonitor)
    stable_baselines3.common.evaluation     (evaluate_policy)
Model: lean/SB3Verif/Model/Monitor.lean (driver lean/SB3Verif/Driver/C18.lean)

Two detectors per case:
  * correspondence — the Lean model is fed what the scripted sub-environments returned and must produce exactly
    what the real wrappers / evaluate_policy produced (infos, attributes, file rows, returned lists, number of steps);
  * oracle — the property sentence evaluated on the implementation's observables against the ground truth taken from
    the scripted environments' own call logs (never through the Lean model).
"""
from __future__ import annotations

import itertools
import math
import os
import shutil
import tempfile
import time as _time_mod
import warnings
from fractions import Fraction as F

import numpy as np

from harness.common import guarded, ratj, unratj
from harness.envs import ScriptedEnv, gen_script

RULE = (
    "cases from one SplitMix64 stream, five kinds. monitor: one Monitor over a scripted env, 1-40 calls mixing step, "
    "reset after the end, early reset, reset twice, step after the end, reset with a missing reset keyword; "
    "allow_early_resets on/off, with/without file, info_keywords/reset_keywords. vecmonitor: VecMonitor over a "
    "DummyVecEnv of 1-6 scripted envs with unequal scripts, steps and mid-run reset(), with/without file and "
    "info_keywords. eval: evaluate_policy with n_envs 1-7, n_eval_episodes 0-20 (incl. fewer than envs), unequal "
    "episode lengths, no monitor / Monitor / VecMonitor / both, gym.Env or VecEnv, environment already stepped "
    "before the call, called twice, return_episode_rewards on/off. load: several Monitor files in one directory "
    "read back with load_results, and a file continued with override_existing=False. Rewards are multiples of 1/64 "
    "(every float32/float64 sum and round(.,6) is exact: implementation and Rat model must agree exactly) or, in the "
    "float stream, decimal fractions no binary float represents, checked against the exact rational sum within bounds "
    "DERIVED per component: Monitor (float64 sum, 6-decimal rounding) 5e-7 + (n+2)*2^-52*sum|r| and the value must have "
    "6 decimals; Monitor.episode_returns and evaluate_policy's own accumulators (n+2)*2^-52*sum|r|; VecMonitor (float32 by "
    "design) (n+2)*2^-24*sum|r|; mean/std: largest per-return bound + rounding of np.mean/np.std in the returns' dtype. "
    "The env hands out its rewards as python float / np.float64 / np.float32 / 0-d arrays / np.int64; a few cases per run "
    "have single episodes of 200-1500 steps (2500 in thorough). Clock replaced by a deterministic strictly increasing one. "
    "non-trivial = monitor case with an early reset inside an episode that later completes / vecmonitor case with "
    ">=2 envs ending episodes at different steps / eval case with n_eval_episodes not a multiple of n_envs (or fewer "
    "than n_envs) and unequal episode lengths / load case with >=2 files whose episodes interleave; distinct = distinct "
    "canonical case"
)
STREAMS = {
    "monitor": "answers of every Monitor.reset/step call (errors, info['episode']), episode_returns/lengths, "
               "total_steps, needs_reset, rows read back with load_results, calls received by the env == model",
    "vecmonitor": "info['episode'] of every env and step, episode_count, accumulators, rows read back == model",
    "eval": "returned (rewards, lengths) in order, number of env.step calls until evaluate_policy stopped == model "
            "(model given the raw env outputs beyond the stopping point)",
    "load": "order of the rows returned by load_results for several files / appended sessions == model",
    "float": "same streams with non-representable rewards of every reward dtype and long episodes, compared with the "
             "exact Rat model within the bound derived for the component (float64 / float64 + round6 / float32)",
}

STEP_LIMIT = 4000

# monitor files are tiny and short-lived: keep them in memory-backed storage when there is one (no disk traffic)
TMPROOT = "/dev/shm" if os.path.isdir("/dev/shm") and os.access("/dev/shm", os.W_OK) else None


def mktmp():
    return tempfile.mkdtemp(prefix="c18_", dir=TMPROOT)


# ------------------------------------------------------------------------------------------------------------------
# environments, policy, clock
class ScriptedEnvKw(ScriptedEnv):
    """ScriptedEnv that accepts extra reset keywords (Monitor.reset_keywords are forwarded to the env) and refuses
    to run forever (a broken quota loop must surface as an exception, not as a hang)."""

    def __init__(self, *a, rdtype="float", **kw):
        super().__init__(*a, **kw)
        self.rdtype = rdtype

    def reset(self, *, seed=None, options=None, **kwargs):
        return super().reset(seed=seed, options=options)

    def step(self, action):
        if self.n_steps >= STEP_LIMIT:
            raise RuntimeError("C18 harness: step budget exceeded (evaluation loop does not terminate)")
        obs, rew, te, tr, info = super().step(action)
        out = conv_reward(rew, self.rdtype)
        self.log[-1][3] = float(out)  # the log (ground truth) holds the value that was actually handed out
        return obs, out, te, tr, info


RDTYPES = ["float", "f64", "f32", "arr0", "arr0f32", "int"]


def conv_reward(r, rdtype):
    """the object the env returns as reward (gymnasium: SupportsFloat)"""
    if rdtype == "float":
        return float(r)
    if rdtype == "f64":
        return np.float64(r)
    if rdtype == "f32":
        return np.float32(r)
    if rdtype == "arr0":
        return np.array(r, dtype=np.float64)
    if rdtype == "arr0f32":
        return np.array(r, dtype=np.float32)
    if rdtype == "int":
        return np.int64(round(r))
    raise ValueError(rdtype)


def gen_rdtype(rng):
    return rng.weighted([("float", 4), ("f64", 2), ("f32", 4), ("arr0", 1), ("arr0f32", 1), ("int", 1)])


class ZeroPolicy:
    """anything with a predict method is accepted by evaluate_policy"""

    def __init__(self):
        self.calls = 0

    def predict(self, observation, state=None, episode_start=None, deterministic=True):
        self.calls += 1
        n = len(observation)
        return np.zeros(n, dtype=np.int64), None


class FakeClock:
    """strictly increasing deterministic clock; all values are small dyadic rationals (exact in float64)"""

    def __init__(self, t0, dts):
        self.t = float(t0)
        self.dts = [float(d) for d in dts]
        self.i = 0

    def time(self):
        self.t += self.dts[self.i % len(self.dts)]
        self.i += 1
        return self.t

    def bump(self, d):
        self.t += float(d)


class patched_time:
    def __init__(self, clock):
        self.clock = clock

    def __enter__(self):
        self.orig = _time_mod.time
        _time_mod.time = self.clock.time
        return self.clock

    def __exit__(self, *a):
        _time_mod.time = self.orig
        return False


def gen_clock(rng):
    return {"t0": 1000 + rng.randint(0, 64) / 8.0, "dts": [rng.choice([0.125, 0.25, 0.5, 1.0, 3.0, 0.375]) for _ in range(rng.randint(1, 4))]}


# ------------------------------------------------------------------------------------------------------------------
# generators
EXACT_SMALL = [0.0, 1.0, -1.0, 0.5, 2.0, -0.25, 3.0, 0.015625, -0.015625, 1.984375, 7.75, -3.515625]
FLOATY = [0.1, 0.3, -0.7, 1.1, 0.001, 2.675, -0.045, 1 / 3.0, 0.000001, 123.456789, -0.2]


def gen_reward(rng, floaty):
    if floaty:
        return float(rng.choice(FLOATY)) if rng.chance(0.7) else rng.randint(-5000, 5000) / 1000.0
    if rng.chance(0.6):
        return float(rng.choice(EXACT_SMALL))
    return rng.randint(-512, 512) / 64.0


def gen_script18(rng, floaty=False, need_done=False, style=None, length=None):
    s = gen_script(rng, length=length, style=style)
    for e in s:
        e[0] = gen_reward(rng, floaty)
    if need_done and not any(e[1] or e[2] for e in s):
        k = rng.randint(0, len(s) - 1)
        s[k][1 + rng.randint(0, 1)] = True
    return s


def gen_monitor(rng, widen, floaty=False, finding_rate=1.0):
    reset_keys = rng.weighted([([], 6), (["a"], 2), (["a", "b"], 1)])
    info_keys = rng.weighted([([], 4), (["tag"], 3), (["k", "tag"], 2), (["tag", "k"], 1)])
    allow_early = rng.chance(0.65)
    # histories with resets that lack a keyword (rejected with ValueError; must not disturb the running episode:
    # F-C18-a, fixed in /repo by 43bb017)
    kwfail = bool(reset_keys) and rng.chance(0.3)
    n_ops = rng.randint(1, 60 if widen else 40)
    script = gen_script18(rng, floaty)
    ops = []
    # walk with a coarse idea of the env state (only used to bias the mix; the run itself does not depend on it)
    pos, done, started = 0, True, False
    for _ in range(n_ops):
        if done:
            kind = rng.weighted([("reset", 8), ("step", 1)])
        else:
            kind = rng.weighted([("step", 10), ("reset", 2 if allow_early else 1)])
        if kind == "reset":
            kw = {}
            for k in reset_keys:
                if not (kwfail and rng.chance(0.3)):
                    kw[k] = rng.randint(-9, 99)
            if rng.chance(0.1):
                kw["zz"] = rng.randint(0, 9)  # a keyword nobody asked for (passed through to the env)
            ops.append(["reset", kw])
            if all(k in kw for k in reset_keys) and (allow_early or done):
                done, started = False, True
        else:
            ops.append(["step"])
            if not done and started:
                e = script[pos % len(script)]
                pos += 1
                if e[1] or e[2]:
                    done = True
    return {"kind": "monitor", "float": floaty, "rdtype": gen_rdtype(rng), "allow_early": allow_early, "file": rng.chance(0.6),
            "info_keys": info_keys, "reset_keys": reset_keys, "script": script, "ops": ops, "clock": gen_clock(rng)}


def gen_vecmonitor(rng, widen, floaty=False):
    n = rng.randint(1, 8 if widen else 6)
    ops = ["reset"]
    for _ in range(rng.randint(1, 50 if widen else 30)):
        ops.append("reset" if rng.chance(0.08) else "step")
    return {"kind": "vecmonitor", "float": floaty, "rdtype": gen_rdtype(rng), "n": n, "scripts": [gen_script18(rng, floaty) for _ in range(n)],
            "file": rng.chance(0.6), "info_keys": rng.weighted([([], 4), (["tag"], 3), (["tag", "k"], 1)]),
            "inner_monitor": rng.chance(0.15), "ops": ops, "clock": gen_clock(rng)}


def gen_eval(rng, widen, floaty=False):
    n = rng.weighted([(1, 3), (2, 3), (3, 3), (4, 2), (5, 2), (6, 1), (7, 2)] + ([(8, 2)] if widen else []))
    N = rng.weighted([(0, 1), (1, 2), (rng.randint(0, n), 3), (rng.randint(0, 20 if widen else 15), 6), (n, 1), (2 * n, 1),
                      (n - 1, 1), (n + 1, 1)])
    N = max(0, N)
    wrap = rng.weighted([("none", 3), ("monitor", 3), ("vecmonitor", 3), ("both", 1)])
    scripts = []
    for i in range(n):
        style = rng.weighted([(None, 5), ("len1", 1), ("mixed", 2)])
        scripts.append(gen_script18(rng, floaty, need_done=True, style=style,
                                    length=rng.weighted([(None, 4), (1, 1), (2, 1), (rng.randint(15, 30), 1)])))
    gym_env = n == 1 and wrap in ("none", "monitor") and rng.chance(0.5)
    # a reward-transforming VecEnvWrapper ABOVE the monitor(s): with a Monitor/VecMonitor anywhere in the stack the reported
    # returns are the true ones whatever the outer wrappers do to the reward batch (seeded C18-f)
    outer = "none"
    if wrap != "none" and not gym_env:
        outer = rng.weighted([("none", 3), ("vecnormalize", 2), ("scale", 2), ("two", 1)])
    return {"kind": "eval", "float": floaty, "rdtype": gen_rdtype(rng), "n": n, "N": N, "wrap": wrap, "scripts": scripts,
            "gym_env": gym_env, "outer": outer,
            "pre_steps": rng.weighted([(0, 5), (1, 2), (rng.randint(2, 9), 2)]),
            "twice": rng.chance(0.25), "N2": rng.randint(0, 9), "ret_eps": not rng.chance(0.15),
            "callback": rng.chance(0.3), "allow_early": True, "clock": gen_clock(rng)}


def gen_load(rng, widen, floaty=False, finding_rate=1.0):
    # a file continued with override_existing=False reproduces the known finding K-C18-b: kept rare
    append = rng.chance(0.3 * finding_rate)
    if append:
        n = 1
    else:
        n = rng.randint(1, 6 if widen else 5)
    return {"kind": "load", "float": False, "n": n, "append": append,
            "scripts": [gen_script18(rng, False, need_done=rng.chance(0.9)) for _ in range(n)],
            "steps": rng.randint(0, 40 if widen else 25), "steps2": rng.randint(0, 12),
            "gap": rng.choice([0.125, 2.0, 40.5]), "clock": gen_clock(rng), "nested": rng.chance(0.35)}


LONG_REWARDS = [0.1, 0.3, 1 / 3.0, -0.2, 0.7, 1.1, 0.001, 2.675]


def long_script(rng, length):
    """one episode of `length` steps (final step ends it), rewards that no binary float represents exactly"""
    pool = [rng.choice(LONG_REWARDS) for _ in range(rng.randint(1, 3))]
    s = [[float(rng.choice(pool)), False, False] for _ in range(length)]
    s[-1][1 + rng.randint(0, 1)] = True
    return s


def gen_long(rng, kind, thorough):
    """long episodes in the float stream: accumulation error grows with the length, the derived bounds must still hold
    (and a float32 running sum where float64 is specified must not)"""
    rdtype = rng.weighted([("f32", 5), ("arr0f32", 1), ("f64", 2), ("float", 2)])
    top = 2500 if thorough else 1500
    clock = gen_clock(rng)
    if kind == "monitor":
        L = rng.randint(300, top)
        ops = [["reset", {}]] + [["step"]] * L + [["reset", {}]] + [["step"]] * rng.randint(0, 40)
        return {"kind": "monitor", "float": True, "long": True, "rdtype": rdtype, "allow_early": True, "file": rng.chance(0.5),
                "info_keys": rng.choice([[], ["tag"]]), "reset_keys": [], "script": long_script(rng, L), "ops": ops,
                "clock": clock}
    if kind == "vecmonitor":
        n = rng.randint(1, 3)
        Ls = [rng.randint(200, top) for _ in range(n)]
        return {"kind": "vecmonitor", "float": True, "long": True, "rdtype": rdtype, "n": n,
                "scripts": [long_script(rng, L) for L in Ls], "file": rng.chance(0.5), "info_keys": [],
                "inner_monitor": False, "ops": ["reset"] + ["step"] * (max(Ls) + rng.randint(0, 30)), "clock": clock}
    n = rng.randint(1, 2)
    N = rng.randint(1, 2) * n if rng.chance(0.5) else rng.randint(1, 3)
    per_env = -(-N // n) + 1
    Ls = [rng.randint(200, min(top, 1500, (STEP_LIMIT - 100) // per_env)) for _ in range(n)]
    return {"kind": "eval", "float": True, "long": True, "rdtype": rdtype, "n": n, "N": N,
            "wrap": rng.weighted([("none", 2), ("monitor", 4), ("vecmonitor", 2), ("both", 1)]),
            "scripts": [long_script(rng, L) for L in Ls], "gym_env": False, "pre_steps": rng.choice([0, 0, 3]),
            "twice": False, "N2": 0, "ret_eps": not rng.chance(0.2), "callback": False, "allow_early": True, "clock": clock}


def gen_cases(ctx):
    rng = ctx.rng
    cases = []
    # known findings need only a few witnesses per run (the worker keeps a bounded list of oracle hits)
    fr = 0.12 if ctx.thorough else 1.0
    for _ in range(ctx.budget(140, 1400)):
        cases.append(gen_monitor(rng, ctx.widen, finding_rate=fr))
    for _ in range(ctx.budget(90, 900)):
        cases.append(gen_vecmonitor(rng, ctx.widen))
    for _ in range(ctx.budget(220, 2200)):
        cases.append(gen_eval(rng, ctx.widen))
    for _ in range(ctx.budget(50, 500)):
        cases.append(gen_load(rng, ctx.widen, finding_rate=fr))
    for _ in range(ctx.budget(20, 200)):
        cases.append(gen_monitor(rng, ctx.widen, floaty=True, finding_rate=fr))
    for _ in range(ctx.budget(20, 200)):
        cases.append(gen_vecmonitor(rng, ctx.widen, floaty=True))
    for _ in range(ctx.budget(30, 300)):
        cases.append(gen_eval(rng, ctx.widen, floaty=True))
    for kind, q, t in (("monitor", 8, 60), ("vecmonitor", 4, 30), ("eval", 8, 60)):
        for _ in range(ctx.budget(q, t)):
            cases.append(gen_long(rng, kind, ctx.thorough))
    return cases


def shrink_candidates(case):
    k = case.get("kind")
    if k == "monitor":
        ops = case["ops"]
        for cut in (len(ops) // 2, len(ops) - 1):
            if 0 < cut < len(ops):
                c = dict(case)
                c["ops"] = ops[:cut]
                yield c
        for i in range(len(ops)):
            c = dict(case)
            c["ops"] = ops[:i] + ops[i + 1:]
            yield c
        if case["file"]:
            c = dict(case)
            c["file"] = False
            yield c
        if case["info_keys"]:
            c = dict(case)
            c["info_keys"] = []
            yield c
        if len(case["script"]) > 1:
            c = dict(case)
            c["script"] = case["script"][:-1]
            yield c
    elif k == "vecmonitor":
        ops = case["ops"]
        for cut in (len(ops) // 2, len(ops) - 1):
            if 1 < cut < len(ops):
                c = dict(case)
                c["ops"] = ops[:cut]
                yield c
        if case["n"] > 1:
            for e in range(case["n"]):
                c = dict(case)
                c["n"] = case["n"] - 1
                c["scripts"] = case["scripts"][:e] + case["scripts"][e + 1:]
                yield c
        for i in range(1, len(ops)):
            c = dict(case)
            c["ops"] = ops[:i] + ops[i + 1:]
            yield c
        for f, v in (("file", False), ("info_keys", []), ("inner_monitor", False)):
            if case[f]:
                c = dict(case)
                c[f] = v
                yield c
    elif k == "eval":
        if case["twice"]:
            c = dict(case)
            c["twice"] = False
            yield c
        if case["pre_steps"]:
            c = dict(case)
            c["pre_steps"] = 0
            yield c
        if case["n"] > 1:
            for e in range(case["n"]):
                c = dict(case)
                c["n"] = case["n"] - 1
                c["scripts"] = case["scripts"][:e] + case["scripts"][e + 1:]
                c["gym_env"] = False
                yield c
        if case["N"] > 0:
            for N in (case["N"] // 2, case["N"] - 1):
                c = dict(case)
                c["N"] = N
                yield c
        for i, s in enumerate(case["scripts"]):
            if len(s) > 1:
                s2 = s[:-1]
                if any(e[1] or e[2] for e in s2):
                    c = dict(case)
                    c["scripts"] = case["scripts"][:i] + [s2] + case["scripts"][i + 1:]
                    yield c
        for f, v in (("callback", False), ("gym_env", False)):
            if case[f]:
                c = dict(case)
                c[f] = v
                yield c
        if not case["ret_eps"]:
            c = dict(case)
            c["ret_eps"] = True
            yield c
    elif k == "load":
        for f in ("steps", "steps2"):
            if case[f] > 0:
                for v in (case[f] // 2, case[f] - 1):
                    c = dict(case)
                    c[f] = v
                    yield c
        if case["n"] > 1:
            for e in range(case["n"]):
                c = dict(case)
                c["n"] = case["n"] - 1
                c["scripts"] = case["scripts"][:e] + case["scripts"][e + 1:]
                yield c


# ------------------------------------------------------------------------------------------------------------------
# ground truth from the scripted environments' own logs
def f32(x):
    """the value a float32 array slot holds after `buf[i] = x` (DummyVecEnv.buf_rews is float32)"""
    return float(np.float32(x))


def truth_from_log(log, start=0, cast=None):
    """
    log: ScriptedEnv.log ([["reset", seed, options, tag] | ["step", action, tag, reward, terminated, truncated, ...]]).
    `cast`: what the observer sees of a reward (None: the env's own value, as a Monitor inside the VecEnv does;
    `f32`: the float32 value DummyVecEnv hands to VecMonitor / evaluate_policy).
    Returns (episodes, per_entry, proto_ok):
      episodes  : [(return, length, tag of the final step, index in log, sum of |rewards|)] of every episode that was
                  completed (exact rational arithmetic),
                  an episode being the steps the env received since its last reset() up to a final step;
      per_entry : for each log entry from `start`, the episode tuple if that entry completed one, else None;
      proto_ok  : False if the env was stepped after an episode end (or before any reset) without a reset in between.
    """
    cur = None
    eps, per, ok = [], [], True
    for idx in range(start, len(log)):
        e = log[idx]
        if e[0] == "reset":
            cur = []
            per.append(None)
        else:
            if cur is None:
                ok = False
                cur = []
            cur.append(F(e[3]) if cast is None else F(cast(e[3])))
            if e[4] or e[5]:
                ep = (sum(cur, F(0)), len(cur), e[2], idx, sum((abs(x) for x in cur), F(0)))
                eps.append(ep)
                per.append(ep)
                cur = None
            else:
                per.append(None)
    return eps, per, ok


E52 = 2.0 ** -52
E24 = 2.0 ** -24


def tol_for(component, n, abs_sum, floaty):
    """
    DERIVED absolute bound on |reported return - exact sum of the n rewards| per component (abs_sum = sum |r_i|).
    Exact stream (rewards multiples of 1/64): 0, everything must be exact. Float stream:
      monitor : Monitor adds python floats (float64: each of the n-1 additions rounds by <= 2^-53 * partial sum,
                partial sums <= abs_sum) and then rounds to 6 decimals (<= 5e-7, result again a double)
      f64     : float64 accumulation without rounding (Monitor.episode_returns, evaluate_policy's own accumulators)
      f32     : VecMonitor accumulates in float32 by design: n roundings of <= 2^-24 * partial sum (+ one for a
                decimal print/parse of the float32 in the CSV)
    """
    if not floaty:
        return 0.0
    a = float(abs_sum)
    if component == "monitor":
        return 5e-7 + (n + 2) * E52 * max(1.0, a) + 1e-12
    if component == "f64":
        return (n + 2) * E52 * max(1.0, a)
    if component == "f32":
        return (n + 2) * E24 * a + 1e-12
    raise ValueError(component)


def close_enough(a, b, tol):
    """a, b exact Fractions; tol = 0: equal; else |a - b| <= tol (exact arithmetic)"""
    if not tol:
        return a == b
    return abs(F(a) - F(b)) <= F(tol)


def six_decimals(x):
    """x (a Fraction holding a double) is the double nearest to a number with at most 6 decimals"""
    return float(x) == round(float(x), 6)


def rmax_of(case):
    sc = case["scripts"] if "scripts" in case else [case["script"]]
    return 1.000001 * max([1e-30] + [abs(float(conv_reward(e[0], case.get("rdtype", "float")))) for s_ in sc for e in s_])


def ctol(component, case):
    """correspondence tolerance as a function of the episode length: the model computes the exact value (and the
    exact 6-decimal rounding for Monitor), the implementation is within tol_for of it; sum |r_i| <= l * max |r|"""
    floaty = case["float"]
    rm = rmax_of(case) if floaty else 0.0

    def f(l):
        t = tol_for(component, l, l * rm, floaty)
        return t + (5e-7 if (floaty and component == "monitor") else 0.0)
    return f


def ep_canon(ep):
    """info['episode'] -> {'r': Fraction, 'l': int, 'extra': {k: int}} (clock column dropped)"""
    if ep is None:
        return None
    return {"r": F(float(ep["r"])), "l": int(ep["l"]), "extra": {k: int(v) for k, v in ep.items() if k not in ("r", "l", "t")}}


def model_ep(j):
    if j is None:
        return None
    return {"r": unratj(j["r"]), "l": j["l"], "extra": {k: v for k, v in j["extra"]}}


def ep_same(a, b, tolf):
    """tolf: episode length -> tolerance on the return"""
    if a is None or b is None:
        return a is None and b is None
    return a["l"] == b["l"] and a["extra"] == b["extra"] and close_enough(a["r"], b["r"], tolf(a["l"]))


def read_results(path):
    """load_results(path) -> list of {'r','l','extra', 't', 'index'} in the order of the returned frame"""
    from stable_baselines3.common.monitor import load_results

    import pandas

    df = load_results(path)
    rows = []
    cols = [c for c in df.columns if c not in ("r", "l", "t", "index")]
    for _, row in df.iterrows():
        # an empty cell (a key that was not in the row's dictionary) is read back as NaN: left out
        rows.append({"r": F(float(row["r"])), "l": int(row["l"]),
                     "extra": {c: int(row[c]) for c in cols if not pandas.isna(row[c])},
                     "t": F(float(row["t"])), "index": int(row["index"])})
    return rows


def read_raw_csv(fname):
    """header t_start and the rows as written: [(t, [fields])]"""
    import json

    with open(fname) as fh:
        first = fh.readline()
        header = json.loads(first[1:])
        names = fh.readline().strip().split(",")
        rows = []
        for line in fh:
            vals = line.strip().split(",")
            rows.append(dict(zip(names, vals)))
    return header, names, rows


def kvlist(d, keys=None):
    return [[k, int(d[k])] for k in (keys if keys is not None else d)]


# ------------------------------------------------------------------------------------------------------------------
# kind: monitor
def run_monitor(ctx, case):
    from stable_baselines3.common.monitor import Monitor

    tmp = mktmp() if case["file"] else None
    try:
        clock = FakeClock(case["clock"]["t0"], case["clock"]["dts"])
        with patched_time(clock):
            env = ScriptedEnvKw(env_id=0, script=case["script"], rdtype=case.get("rdtype", "float"))
            mon = Monitor(env, filename=os.path.join(tmp, "m") if tmp else None, allow_early_resets=case["allow_early"],
                          reset_keywords=tuple(case["reset_keys"]), info_keywords=tuple(case["info_keys"]))
            outcomes, mops, loglen = [], [], []
            for op in case["ops"]:
                if op[0] == "reset":
                    kw = dict(op[1])
                    try:
                        mon.reset(**kw)
                        outcomes.append("reset-ok")
                    except RuntimeError as e:
                        if "before done" not in str(e):
                            raise
                        outcomes.append("err-early-reset")
                    except ValueError as e:
                        if "keyword argument" not in str(e):
                            raise
                        outcomes.append("err-missing-kw")
                    mops.append({"k": "reset", "kw": kvlist(kw)})
                else:
                    try:
                        obs, r, te, tr, info = mon.step(0)
                    except RuntimeError as e:
                        if "needs reset" not in str(e):
                            raise
                        outcomes.append("err-needs-reset")
                        mops.append({"k": "step", "r": 0, "te": False, "tr": False, "info": []})
                    else:
                        outcomes.append({"ep": ep_canon(info.get("episode")), "done": bool(te or tr), "tag": int(info["tag"]),
                                         "rew": F(float(r))})
                        mops.append({"k": "step", "r": ratj(F(float(r))), "te": bool(te), "tr": bool(tr),
                                     "info": [["tag", int(info["tag"])], ["k", int(info["k"])]]})
                loglen.append(len(env.log))
            res = {
                "outcomes": outcomes, "loglen": loglen, "log": env.get_log(),
                "returns": [F(float(x)) for x in mon.get_episode_rewards()],
                "lengths": [int(x) for x in mon.get_episode_lengths()],
                "total_steps": int(mon.get_total_steps()), "needs_reset": bool(mon.needs_reset),
                "times": [float(x) for x in mon.get_episode_times()],
            }
            mon.close()
            res["file_rows"] = read_results(tmp) if tmp else None
        res["op"] = {"op": "monitor", "allow_early": case["allow_early"], "info_keys": case["info_keys"],
                     "reset_keys": case["reset_keys"], "ops": mops}
        return res
    finally:
        if tmp:
            shutil.rmtree(tmp, ignore_errors=True)


def oracle_monitor(ctx, case, r):
    rep = ctx.report
    floaty = case["float"]
    log = r["log"]
    sig = {"kind": "monitor", "allow_early": case["allow_early"], "cause": "other"}
    # replay the ops against the env's log: which ops reached the env, what is the running episode
    cur_true, cur_def = None, None  # rewards since the last reset that reached the env / ... or failed keyword reset
    kwfail_in_episode = False
    kw_dirty = False       # a failed keyword reset may have updated current_reset_info partially
    last_kw = {}
    li = 0
    n_true = 0
    n_step_entries = 0
    for k, (op, out) in enumerate(zip(case["ops"], r["outcomes"])):
        reached = out == "reset-ok" or isinstance(out, dict)
        before = r["loglen"][k - 1] if k else 0
        if (r["loglen"][k] - before) != (1 if reached else 0):
            rep.violation("a rejected call reached the wrapped environment, or an accepted one did not", case,
                          dict(sig, field="forwarding"), {"op_index": k, "answer": str(out)})
            return False
        if out == "err-missing-kw":
            cur_def = []
            kwfail_in_episode = True
            kw_dirty = True
            continue
        if not reached:
            continue
        entry = log[li]
        li += 1
        if op[0] == "reset":
            if entry[0] != "reset":
                rep.violation("env log does not match the accepted calls", case, dict(sig, field="forwarding"))
                return False
            cur_true, cur_def, kwfail_in_episode = [], [], False
            for key in case["reset_keys"]:
                last_kw[key] = op[1][key]
            continue
        if entry[0] != "step" or entry[2] != out["tag"]:
            rep.violation("env log does not match the accepted calls", case, dict(sig, field="forwarding"))
            return False
        if cur_true is None:
            # the wrapped env was stepped although its episode had ended (or it was never reset)
            cause = "reset-missing-keyword" if kwfail_in_episode else "other"
            rep.violation("Monitor let a step through to an environment that needs a reset", case,
                          dict(sig, field="protocol", cause=cause), {"op_index": k})
            return cause != "other"
        n_step_entries += 1
        rew = F(entry[3])
        cur_true.append(rew)
        cur_def = (cur_def if cur_def is not None else []) + [rew]
        done = bool(entry[4] or entry[5])
        ep = out["ep"]
        if done != (ep is not None):
            rep.violation("'episode' info present exactly at episode ends", case, dict(sig, field="presence"),
                          {"op_index": k, "done": done, "episode": str(ep)})
            return False
        if done:
            n_true += 1
            want = (sum(cur_true, F(0)), len(cur_true))
            got = (ep["r"], ep["l"])
            tol = tol_for("monitor", len(cur_true), sum((abs(x) for x in cur_true), F(0)), floaty)
            if not (close_enough(got[0], want[0], tol) and got[1] == want[1] and (not floaty or six_decimals(got[0]))):
                wdef = (sum(cur_def, F(0)), len(cur_def))
                explained = close_enough(got[0], wdef[0], tol) and got[1] == wdef[1]
                cause = "reset-missing-keyword" if (kwfail_in_episode and explained) else "other"
                rep.violation("info['episode'] is not the return/length of the episode that ended", case,
                              dict(sig, field="episode", cause=cause),
                              {"op_index": k, "reported": [str(got[0]), got[1]], "true": [str(want[0]), want[1]]})
                return cause != "other"
            # extra keys: info_keywords come from the final step, reset keywords from the last accepted reset
            src = {"tag": entry[2], "k": n_step_entries}
            for key in case["info_keys"]:
                if ep["extra"].get(key) != src[key]:
                    rep.violation("info_keywords value is not the one of the final step", case, dict(sig, field="extra"),
                                  {"key": key, "got": ep["extra"].get(key), "true": src[key]})
                    return False
            if not kw_dirty:
                for key in case["reset_keys"]:
                    if ep["extra"].get(key) != last_kw.get(key):
                        rep.violation("reset keyword value is not the one of the reset that started the episode", case,
                                      dict(sig, field="extra-reset"), {"key": key, "got": ep["extra"].get(key), "true": last_kw.get(key)})
                        return False
            if set(ep["extra"]) != set(case["info_keys"]) | set(case["reset_keys"]):
                rep.violation("unexpected keys in info['episode']", case, dict(sig, field="extra-keys"), {"keys": sorted(ep["extra"])})
                return False
            cur_true = None
    eps, _, _ = truth_from_log(log)
    truth = [(e[0], e[1]) for e in eps]
    if len(truth) != n_true:
        rep.violation("oracle bookkeeping mismatch", case, dict(sig, field="bookkeeping"))
        return False
    got = list(zip(r["returns"], r["lengths"]))
    # episode_returns is the unrounded float64 sum
    if len(got) != len(truth) or not all(close_enough(g[0], e[0], tol_for("f64", e[1], e[4], floaty)) and g[1] == e[1]
                                         for g, e in zip(got, eps)):
        rep.violation("get_episode_rewards/lengths are not the completed episodes in order", case, dict(sig, field="attributes"),
                      {"got": [[str(a), b] for a, b in got], "true": [[str(a), b] for a, b in truth]})
        return False
    n_steps = sum(1 for e in log if e[0] == "step")
    if r["total_steps"] != n_steps:
        rep.violation("get_total_steps is not the number of steps the env received", case, dict(sig, field="total_steps"),
                      {"got": r["total_steps"], "true": n_steps})
        return False
    if r["file_rows"] is not None:
        rows = [(x["r"], x["l"]) for x in r["file_rows"]]
        if len(rows) != len(truth) or not all(close_enough(g[0], e[0], tol_for("monitor", e[1], e[4], floaty)) and g[1] == e[1]
                                              for g, e in zip(rows, eps)):
            rep.violation("load_results does not list the completed episodes in order", case, dict(sig, field="file"),
                          {"got": [[str(a), b] for a, b in rows], "true": [[str(a), b] for a, b in truth]})
            return False
        if "tag" in case["info_keys"]:
            if [x["extra"].get("tag") for x in r["file_rows"]] != [e[2] for e in eps]:
                rep.violation("load_results rows are not tagged with the final step of their episode", case,
                              dict(sig, field="file-extra"))
                return False
        # "the same episodes": every row carries the extra keys of the info['episode'] that was handed out
        reported = [o["ep"]["extra"] for o in r["outcomes"] if isinstance(o, dict) and o["ep"] is not None]
        if [x["extra"] for x in r["file_rows"]] != reported:
            rep.violation("load_results rows do not carry the extra keys of the reported episodes", case,
                          dict(sig, field="file-extra-keys"),
                          {"file": [x["extra"] for x in r["file_rows"]], "infos": reported})
            return False
    return True


def cmp_monitor(ctx, case, r, mo):
    rep = ctx.report
    floaty = case["float"]
    if "error" in mo:
        rep.disagree("monitor", case, "ok", mo)
        return
    impl_outs = []
    for o in r["outcomes"]:
        impl_outs.append(o if isinstance(o, str) else {"ep": o["ep"]})
    model_outs = [o if isinstance(o, str) else {"ep": model_ep(o["ep"])} for o in mo["outs"]]
    ok = len(impl_outs) == len(model_outs)
    if ok:
        for a, b in zip(impl_outs, model_outs):
            if isinstance(a, str) or isinstance(b, str):
                ok = ok and a == b
            else:
                ok = ok and ep_same(a["ep"], b["ep"], ctol("monitor", case))
    if not ok:
        rep.disagree("monitor", case, [str(x) for x in impl_outs], [str(x) for x in model_outs], "answers to the calls")
        return
    m_ret = [unratj(x) for x in mo["returns"]]
    t64 = ctol("f64", case)
    if not (len(m_ret) == len(r["returns"]) and len(r["lengths"]) == len(m_ret)
            and all(close_enough(a, b, t64(l)) for a, b, l in zip(r["returns"], m_ret, r["lengths"]))
            and mo["lengths"] == r["lengths"] and mo["total_steps"] == r["total_steps"]
            and mo["needs_reset"] == r["needs_reset"]):
        rep.disagree("monitor", case, {"returns": [str(x) for x in r["returns"]], "lengths": r["lengths"],
                                       "total_steps": r["total_steps"], "needs_reset": r["needs_reset"]},
                     {k: mo[k] for k in ("returns", "lengths", "total_steps", "needs_reset")}, "attributes")
        return
    # calls that reached the env
    impl_trace = [["reset"] if e[0] == "reset" else ["step", ratj(F(e[3])), bool(e[4] or e[5])] for e in r["log"]]
    if impl_trace != mo["trace"]:
        rep.disagree("monitor", case, impl_trace, mo["trace"], "calls received by the wrapped env")
        return
    if r["file_rows"] is not None:
        m_rows = [model_ep(x) for x in mo["rows"]]
        i_rows = [{"r": x["r"], "l": x["l"], "extra": x["extra"]} for x in r["file_rows"]]
        if len(m_rows) != len(i_rows) or not all(ep_same(a, b, ctol("monitor", case)) for a, b in zip(i_rows, m_rows)):
            rep.disagree("monitor", case, [str(x) for x in i_rows], [str(x) for x in m_rows], "rows read back with load_results")
            return
    rep.agree()


# ------------------------------------------------------------------------------------------------------------------
# kind: vecmonitor
def make_env_fn(i, script, monitor=False, filename=None, info_keywords=(), allow_early=True, override_existing=True,
                id_offset=0, rdtype="float"):
    def f():
        env = ScriptedEnvKw(env_id=i + id_offset, script=script, rdtype=rdtype)
        if monitor:
            from stable_baselines3.common.monitor import Monitor

            env = Monitor(env, filename=filename, info_keywords=info_keywords, allow_early_resets=allow_early,
                          override_existing=override_existing)
        return env

    return f


def run_vecmonitor(ctx, case):
    from stable_baselines3.common.vec_env import DummyVecEnv, VecMonitor

    n = case["n"]
    tmp = mktmp() if case["file"] else None
    try:
        clock = FakeClock(case["clock"]["t0"], case["clock"]["dts"])
        with patched_time(clock), warnings.catch_warnings():
            warnings.simplefilter("ignore")
            venv = DummyVecEnv([make_env_fn(i, case["scripts"][i], monitor=case["inner_monitor"],
                                            rdtype=case.get("rdtype", "float")) for i in range(n)])
            vm = VecMonitor(venv, filename=os.path.join(tmp, "v") if tmp else None, info_keywords=tuple(case["info_keys"]))
            steps, mops = [], []
            for op in case["ops"]:
                if op == "reset":
                    vm.reset()
                    steps.append(None)
                    mops.append({"k": "reset"})
                else:
                    obs, rews, dones, infos = vm.step(np.zeros(n, dtype=np.int64))
                    steps.append({"eps": [ep_canon(infos[i].get("episode")) for i in range(n)],
                                  "dones": [bool(d) for d in dones], "tags": [int(infos[i]["tag"]) for i in range(n)],
                                  "keys": [sorted(infos[i].keys()) for i in range(n)]})
                    mops.append({"k": "step", "row": [{"r": ratj(F(float(rews[i]))), "d": bool(dones[i]),
                                                       "info": [["tag", int(infos[i]["tag"])], ["k", int(infos[i]["k"])]]}
                                                      for i in range(n)]})
            res = {"steps": steps, "count": int(vm.episode_count),
                   "rets": [F(float(x)) for x in vm.episode_returns], "lens": [int(x) for x in vm.episode_lengths],
                   "logs": [venv.envs[i].unwrapped.get_log() for i in range(n)]}
            vm.close()
            res["file_rows"] = read_results(tmp) if tmp else None
        res["op"] = {"op": "vecmonitor", "n": n, "info_keys": case["info_keys"], "ops": mops}
        return res
    finally:
        if tmp:
            shutil.rmtree(tmp, ignore_errors=True)


def oracle_vecmonitor(ctx, case, r):
    rep = ctx.report
    floaty = case["float"]
    n = case["n"]
    sig = {"kind": "vecmonitor", "n": n}
    order = []  # emission order over the whole run: (step index, env)
    for i in range(n):
        eps, per, ok = truth_from_log(r["logs"][i], cast=f32)  # VecMonitor sees DummyVecEnv's float32 rewards
        if not ok:
            rep.violation("oracle: scripted env stepped without reset", case, dict(sig, field="protocol"))
            return
        # the step entries of the log, in order, correspond to the "step" ops
        step_entries = [p for e, p in zip(r["logs"][i], per) if e[0] == "step"]
        k = 0
        for si, st in enumerate(r["steps"]):
            if st is None:
                continue
            truth = step_entries[k]
            k += 1
            ep = st["eps"][i]
            if (truth is None) != (ep is None):
                rep.violation("'episode' info present exactly at episode ends", case, dict(sig, field="presence"),
                              {"env": i, "op_index": si})
                return
            if truth is not None:
                if not (close_enough(ep["r"], truth[0], tol_for("f32", truth[1], truth[4], floaty)) and ep["l"] == truth[1]):
                    rep.violation("info['episode'] is not the return/length of the episode that ended", case,
                                  dict(sig, field="episode"),
                                  {"env": i, "op_index": si, "reported": [str(ep["r"]), ep["l"]],
                                   "true": [str(truth[0]), truth[1]]})
                    return
                if "tag" in case["info_keys"] and ep["extra"].get("tag") != truth[2]:
                    rep.violation("info_keywords value is not the one of the final step", case, dict(sig, field="extra"))
                    return
                order.append((si, i, truth))
            if "tag" not in st["keys"][i] or "k" not in st["keys"][i]:
                rep.violation("VecMonitor dropped keys of the sub-environment's info", case, dict(sig, field="info-keys"))
                return
    order.sort(key=lambda x: (x[0], x[1]))
    if r["count"] != len(order):
        rep.violation("episode_count is not the number of completed episodes", case, dict(sig, field="count"),
                      {"got": r["count"], "true": len(order)})
        return
    if r["file_rows"] is not None:
        rows = [(x["r"], x["l"]) for x in r["file_rows"]]
        truth = [(t[0], t[1]) for _, _, t in order]
        if len(rows) != len(truth) or not all(close_enough(g[0], t[0], tol_for("f32", t[1], t[4], floaty)) and g[1] == t[1]
                                              for g, (_, _, t) in zip(rows, order)):
            rep.violation("load_results does not list the completed episodes in order", case, dict(sig, field="file"),
                          {"got": [[str(a), b] for a, b in rows], "true": [[str(a), b] for a, b in truth]})
            return
        if "tag" in case["info_keys"] and [x["extra"].get("tag") for x in r["file_rows"]] != [t[2] for _, _, t in order]:
            rep.violation("load_results rows are not tagged with the final step of their episode", case,
                          dict(sig, field="file-extra"))
            return


def cmp_vecmonitor(ctx, case, r, mo):
    rep = ctx.report
    floaty = case["float"]
    if "error" in mo:
        rep.disagree("vecmonitor", case, "ok", mo)
        return
    for si, (st, out) in enumerate(zip(r["steps"], mo["outs"])):
        if st is None:
            if out != []:
                rep.disagree("vecmonitor", case, "reset", out)
                return
            continue
        m_eps = [model_ep(x) for x in out]
        if len(m_eps) != len(st["eps"]) or not all(ep_same(a, b, ctol("f32", case)) for a, b in zip(st["eps"], m_eps)):
            rep.disagree("vecmonitor", case, [str(x) for x in st["eps"]], [str(x) for x in m_eps], f"infos of op {si}")
            return
    m_rets = [unratj(x) for x in mo["rets"]]
    if not (mo["count"] == r["count"] and mo["lens"] == r["lens"] and len(m_rets) == len(r["rets"])
            and all(close_enough(a, b, ctol("f32", case)(max(l, 1))) for a, b, l in zip(r["rets"], m_rets, r["lens"]))):
        rep.disagree("vecmonitor", case, {"count": r["count"], "lens": r["lens"], "rets": [str(x) for x in r["rets"]]},
                     {k: mo[k] for k in ("count", "lens", "rets")}, "accumulators")
        return
    if r["file_rows"] is not None:
        m_rows = [model_ep(x) for x in mo["rows"]]
        i_rows = [{"r": x["r"], "l": x["l"], "extra": x["extra"]} for x in r["file_rows"]]
        if len(m_rows) != len(i_rows) or not all(ep_same(a, b, ctol("f32", case)) for a, b in zip(i_rows, m_rows)):
            rep.disagree("vecmonitor", case, [str(x) for x in i_rows], [str(x) for x in m_rows], "rows read back with load_results")
            return
    rep.agree()


# ------------------------------------------------------------------------------------------------------------------
# kind: eval
EXTRA_ROWS = 4


def wrap_outer(venv, outer):
    """reward-transforming wrappers placed above the monitors"""
    if outer == "none":
        return venv
    from stable_baselines3.common.vec_env import VecEnvWrapper, VecNormalize

    class ScaleReward(VecEnvWrapper):
        def reset(self):
            return self.venv.reset()

        def step_wait(self):
            o, r, d, i = self.venv.step_wait()
            return o, r * np.float32(0.25) - np.float32(3.0), d, i

    if outer == "scale":
        return ScaleReward(venv)
    if outer == "vecnormalize":
        return VecNormalize(venv, norm_obs=False, norm_reward=True, clip_reward=1.0)
    return ScaleReward(VecNormalize(venv, norm_obs=False, norm_reward=True, clip_reward=1.0))


def run_eval(ctx, case):
    from stable_baselines3.common.evaluation import evaluate_policy
    from stable_baselines3.common.vec_env import DummyVecEnv, VecMonitor

    n = case["n"]
    wrap = case["wrap"]
    clock = FakeClock(case["clock"]["t0"], case["clock"]["dts"])
    with patched_time(clock), warnings.catch_warnings():
        warnings.simplefilter("ignore")
        inner = wrap in ("monitor", "both")
        if case["gym_env"]:
            env = make_env_fn(0, case["scripts"][0], monitor=inner, rdtype=case.get("rdtype", "float"))()
            bases = [env.unwrapped]
            target = env
            venv = None
        else:
            venv = DummyVecEnv([make_env_fn(i, case["scripts"][i], monitor=inner, rdtype=case.get("rdtype", "float"))
                                for i in range(n)])
            bases = [venv.envs[i].unwrapped for i in range(n)]
            target = VecMonitor(venv) if wrap in ("vecmonitor", "both") else venv
            target = wrap_outer(target, case.get("outer", "none"))
        if case["pre_steps"]:
            if case["gym_env"]:
                target.reset()
                for _ in range(case["pre_steps"]):
                    o, rr, te, tr, _i = target.step(0)
                    if te or tr:
                        target.reset()
            else:
                target.reset()
                for _ in range(case["pre_steps"]):
                    target.step(np.zeros(n, dtype=np.int64))
        calls = []
        for N in ([case["N"], case["N2"]] if case["twice"] else [case["N"]]):
            start = [len(b.log) for b in bases]
            cb_log = []

            def cb(loc, glob, cb_log=cb_log):
                cb_log.append((int(loc["i"]), bool(loc["done"]), len(loc["episode_rewards"])))

            pol = ZeroPolicy()
            out = evaluate_policy(pol, target, n_eval_episodes=N, return_episode_rewards=case["ret_eps"], warn=False,
                                  callback=cb if case["callback"] else None)
            calls.append({"N": N, "start": start, "end": [len(b.log) for b in bases], "out": out,
                          "n_steps_after": [b.n_steps for b in bases], "predicts": pol.calls, "cb": cb_log})
        logs = [b.get_log() for b in bases]
        if venv is not None:
            target.close()
    res = {"calls": [], "logs": logs}
    seen = eval_component(case)[1] or float  # Monitor sees the env's own reward, the vectorised observers its float32 cast
    for c in calls:
        # window of each env's log that belongs to this call: starts with the reset made by evaluate_policy
        rows, T = None, None
        win = [logs[i][c["start"][i]:c["end"][i]] for i in range(n)]
        per_env_steps = [[e for e in w if e[0] == "step"] for w in win]
        T = len(per_env_steps[0])
        raw_rows = []
        for t in range(T + EXTRA_ROWS):
            row = []
            for i in range(n):
                if t < len(per_env_steps[i]):
                    e = per_env_steps[i][t]
                    row.append({"r": ratj(F(seen(e[3]))), "d": bool(e[4] or e[5])})
                else:
                    s = case["scripts"][i]
                    e = s[(c["n_steps_after"][i] + (t - len(per_env_steps[i]))) % len(s)]
                    row.append({"r": ratj(F(seen(float(conv_reward(e[0], case.get("rdtype", "float")))))), "d": bool(e[1] or e[2])})
            raw_rows.append(row)
        if case["ret_eps"]:
            rewards = [F(float(x)) for x in c["out"][0]]
            lengths = [int(x) for x in c["out"][1]]
            mean = std = None
        else:
            rewards = lengths = None
            mean, std = float(c["out"][0]), float(c["out"][1])
        res["calls"].append({"N": c["N"], "win": win, "T": T, "lockstep": all(len(p) == T for p in per_env_steps),
                             "first_is_reset": all(len(w) > 0 and w[0][0] == "reset" for w in win),
                             "rewards": rewards, "lengths": lengths, "mean": mean, "std": std, "predicts": c["predicts"],
                             "cb": c["cb"],
                             "op": {"op": "eval_raw", "n": n, "N": c["N"], "wrap": {"both": "vecmonitor"}.get(wrap, wrap),
                                    "spec": not case.get("long", False), "rows": raw_rows}})
    return res


def eval_component(case):
    """which arithmetic produced the returns evaluate_policy hands back, and what that arithmetic saw of the rewards"""
    if case["wrap"] == "monitor":
        return "monitor", None      # Monitor (inside the VecEnv) sees the env's own reward objects
    if case["wrap"] in ("vecmonitor", "both"):
        return "f32", f32           # VecMonitor: float32 accumulation of DummyVecEnv's float32 rewards
    return "f64", f32               # evaluate_policy's own float64 accumulators over DummyVecEnv's float32 rewards


def same_multiset(got, want, comp, floaty):
    """got: [(return, length)]; want: episode tuples (return, length, tag, idx, sum|r|). Multisets equal; float
    stream: returns within the derived bound of `comp`. Grouped by length, then the sorted pairing (which minimises the
    largest distance between paired points on a line) must be within the largest bound of the group."""
    if len(got) != len(want):
        return False
    if not floaty:
        return sorted(got) == sorted((w[0], w[1]) for w in want)
    groups = {}
    for r, l in got:
        groups.setdefault(l, [[], [], 0.0])[0].append(r)
    for w in want:
        g = groups.setdefault(w[1], [[], [], 0.0])
        g[1].append(w[0])
        g[2] = max(g[2], tol_for(comp, w[1], w[4], floaty))
    for l, (a, b, tol) in groups.items():
        if len(a) != len(b):
            return False
        if any(not close_enough(x, y, tol) for x, y in zip(sorted(a), sorted(b))):
            return False
    return True


def mean_std_ok(mean, std, vals, tols, float32_arith):
    """
    mean/std returned by evaluate_policy vs the exact episode returns `vals` (floats), within the DERIVED bound:
      * every return may be off by its own bound tols[i]; mean and std are 1-Lipschitz in the sup norm of such a
        perturbation (|std(x+e) - std(x)| <= std(e) <= max|e|);
      * np.mean / np.std run in the dtype of the returns: float32 with VecMonitor (its returns are np.float32), float64
        otherwise: (N + 4) * eps * max(1, max|r|) covers the rounding of the sum, the division, x - mean and the root.
    """
    if not vals:
        return math.isnan(mean) and math.isnan(std)
    big = max(1.0, max(abs(v) for v in vals))
    tol = max(tols) + (len(vals) + 4) * (2.0 ** -23 if float32_arith else 2.0 ** -52) * big + 1e-12
    return abs(mean - float(np.mean(vals))) <= tol and abs(std - float(np.std(vals))) <= tol


def even_splits(N, n):
    base, extra = divmod(N, n)
    for sub in itertools.combinations(range(n), extra):
        yield [base + (1 if i in sub else 0) for i in range(n)]


def oracle_eval(ctx, case, r):
    rep = ctx.report
    floaty = case["float"]
    n = case["n"]
    for ci, c in enumerate(r["calls"]):
        N = c["N"]
        sig = {"kind": "eval", "wrap": case["wrap"], "call": ci, "outer": case.get("outer", "none")}
        if not c["first_is_reset"] or not c["lockstep"]:
            rep.violation("evaluate_policy did not reset the environments first / did not step them together", case,
                          dict(sig, field="protocol"))
            return
        comp, cast = eval_component(case)
        truths = []
        for i in range(n):
            eps, per, ok = truth_from_log(c["win"][i], cast=cast)
            if not ok:
                rep.violation("oracle: scripted env stepped without reset", case, dict(sig, field="protocol"))
                return
            truths.append(eps)
        if c["rewards"] is not None:
            got = list(zip(c["rewards"], c["lengths"]))
            if len(got) != N or len(c["rewards"]) != len(c["lengths"]):
                rep.violation("evaluate_policy did not return exactly n_eval_episodes episodes", case, dict(sig, field="count"),
                              {"N": N, "returned": len(got)})
                return
        else:
            got = None
        # is there an even split whose first-q_i episodes per env are what was returned?
        found = False
        some_feasible = False
        for q in even_splits(N, n):
            if any(q[i] > len(truths[i]) for i in range(n)):
                continue
            some_feasible = True
            want = [ep for i in range(n) for ep in truths[i][:q[i]]]
            if got is not None:
                if same_multiset(got, want, comp, floaty) and \
                        (comp != "monitor" or not floaty or all(six_decimals(g[0]) for g in got)):
                    found = True
                    break
            else:
                vals = [float(x[0]) for x in want]
                if mean_std_ok(c["mean"], c["std"], vals, [tol_for(comp, w[1], w[4], floaty) for w in want], comp == "f32"):
                    found = True
                    break
        if not found:
            rep.violation("evaluate_policy result is not n_eval_episodes complete episodes split as evenly as possible over "
                          "the envs, each with its true return and length", case, dict(sig, field="episodes"),
                          {"N": N, "n": n, "returned": None if got is None else [[str(a), b] for a, b in got],
                           "mean_std": [c["mean"], c["std"]],
                           "completed_per_env": [[[str(e[0]), e[1]] for e in t] for t in truths],
                           "an_even_split_was_available": some_feasible})
            return
        if c["cb"]:
            # attribution through the callback: every env must get floor or ceil of N/n episodes
            per_env = [0] * n
            for k, (i, done, cnt) in enumerate(c["cb"]):
                nxt = c["cb"][k + 1][2] if k + 1 < len(c["cb"]) else N
                if nxt > cnt:
                    per_env[i] += nxt - cnt
            if sum(per_env) != N or max(per_env) - min(per_env) > 1:
                rep.violation("episodes are not split as evenly as possible over the envs", case, dict(sig, field="split"),
                              {"per_env": per_env})
                return


def cmp_eval(ctx, case, r, mouts):
    rep = ctx.report
    floaty = case["float"]
    for c, mo in zip(r["calls"], mouts):
        if mo is None:
            return
        if "error" in mo:
            rep.disagree("eval", case, "ok", mo)
            return
        m_out = [(unratj(p[0]), p[1]) for p in mo["out"]]
        m_spec = [(unratj(p[0]), p[1]) for p in mo["spec"]] if mo.get("spec") is not None else None
        if not mo["finished"] or mo["steps"] != c["T"]:
            rep.disagree("eval", case, {"steps": c["T"]}, {"steps": mo["steps"], "finished": mo["finished"]},
                         "number of env.step calls made by evaluate_policy")
            return
        if c["rewards"] is not None:
            got = list(zip(c["rewards"], c["lengths"]))
            tf = ctol(eval_component(case)[0], case)
            if len(got) != len(m_out) or not all(g[1] == m[1] and close_enough(g[0], m[0], tf(g[1])) for g, m in zip(got, m_out)):
                rep.disagree("eval", case, [[str(a), b] for a, b in got], [[str(a), b] for a, b in m_out], "returned lists")
                return
        else:
            vals = [float(x[0]) for x in m_out]
            tf = ctol(eval_component(case)[0], case)
            if not mean_std_ok(c["mean"], c["std"], vals, [tf(x[1]) for x in m_out], eval_component(case)[0] == "f32"):
                rep.disagree("eval", case, [c["mean"], c["std"]],
                             [float(np.mean(vals)), float(np.std(vals))] if vals else ["nan", "nan"], "mean/std")
                return
        if case["wrap"] != "monitor" or not floaty:
            # closed-form specification (own accumulation, no rounding) == loop result; with Monitor the 6-digit rounding
            # separates them on non-dyadic rewards
            if mo.get("spec") is not None and m_spec != m_out:
                rep.disagree("eval", case, "-", {"out": mo["out"], "spec": mo["spec"]}, "model loop vs model closed form")
                return
        if c["predicts"] != c["T"]:
            rep.disagree("eval", case, {"predict_calls": c["predicts"]}, {"steps": c["T"]}, "one predict per step")
            return
        rep.agree()


# ------------------------------------------------------------------------------------------------------------------
# kind: load
def run_load(ctx, case):
    from stable_baselines3.common.monitor import Monitor, get_monitor_files
    from stable_baselines3.common.vec_env import DummyVecEnv

    n = case["n"]
    tmp = mktmp()
    try:
        clock = FakeClock(case["clock"]["t0"], case["clock"]["dts"])
        with patched_time(clock), warnings.catch_warnings():
            warnings.simplefilter("ignore")
            truth = []  # completion order over the whole history: (return, length, tag)

            def session(steps, override, id_offset=0, shift=0.0):
                venv = DummyVecEnv([make_env_fn(i, case["scripts"][i], monitor=True, filename=os.path.join(tmp, f"e{i}"),
                                                info_keywords=("tag",), override_existing=override, id_offset=id_offset)
                                    for i in range(n)])
                clock.bump(shift)  # after t_start was taken: the session's relative times are shifted by `shift`
                venv.reset()
                for _ in range(steps):
                    venv.step(np.zeros(n, dtype=np.int64))
                logs = [venv.envs[i].unwrapped.get_log() for i in range(n)]
                venv.close()
                pers = [[p for e, p in zip(logs[i], truth_from_log(logs[i])[1]) if e[0] == "step"] for i in range(n)]
                for t in range(steps):
                    for i in range(n):
                        if pers[i][t] is not None:
                            truth.append(pers[i][t][:3])

            session(case["steps"], True)
            if case["append"]:
                clock.bump(case["gap"])
                # relative times of the second session are = 1/16 mod 1/8: no ties with the first session's
                session(case["steps2"], False, id_offset=4, shift=0.0625)
            if case.get("nested"):
                # a monitor file of ANOTHER environment in a sub-folder (log_dir/eval/…monitor.csv): load_results(log_dir)
                # reads the log folder, not the tree below it (seeded change C18-j)
                sub = os.path.join(tmp, "eval")
                os.makedirs(sub, exist_ok=True)
                ev = DummyVecEnv([make_env_fn(0, case["scripts"][0], monitor=True, filename=os.path.join(sub, "ev"),
                                              info_keywords=("tag",), override_existing=True, id_offset=2)])
                ev.reset()
                for _ in range(max(4, case["steps"] // 2)):
                    ev.step(np.zeros(1, dtype=np.int64))
                ev.close()
            rows = read_results(tmp)
            files = []
            for fname in sorted(get_monitor_files(tmp)):
                header, names, raw = read_raw_csv(fname)
                files.append({"t_start": ratj(F(float(header["t_start"]))),
                              "rows": [[ratj(F(float(x["t"]))), int(x["tag"])] for x in raw]})
        return {"rows": rows, "truth": truth, "op": {"op": "load", "files": files}}
    finally:
        shutil.rmtree(tmp, ignore_errors=True)


def oracle_load(ctx, case, r):
    rep = ctx.report
    sig = {"kind": "load", "append": case["append"], "cause": "other"}
    got = [(x["r"], x["l"], x["extra"].get("tag")) for x in r["rows"]]
    want = [(t[0], t[1], t[2]) for t in r["truth"]]
    if got != want:
        if sorted(got, key=lambda x: (x[2], x[0], x[1])) == sorted(want, key=lambda x: (x[2], x[0], x[1])):
            what = "load_results lists the completed episodes, but not in the order in which they ended"
            if case["append"]:
                sig["cause"] = "appended-session-clock"
        else:
            what = "load_results does not list exactly the completed episodes"
        rep.violation(what, case, dict(sig, field="order" if "order" in what else "rows"),
                      {"got_tags": [g[2] for g in got], "true_tags": [w[2] for w in want]})
        return False
    ts = [x["t"] for x in r["rows"]]
    if any(b < a for a, b in zip(ts, ts[1:])):
        rep.violation("load_results: time column not sorted", case, dict(sig, field="t"))
        return False
    return True


def cmp_load(ctx, case, r, mo):
    rep = ctx.report
    if "error" in mo:
        rep.disagree("load", case, "ok", mo)
        return
    impl = [x["extra"].get("tag") for x in r["rows"]]
    model = [p[1] for p in mo["rows"]]
    if impl != model:
        rep.disagree("load", case, impl, model, "order of rows")
        return
    it = [x["t"] for x in r["rows"]]
    mt = [unratj(p[0]) for p in mo["rows"]]
    if it != mt:
        rep.disagree("load", case, [str(x) for x in it], [str(x) for x in mt], "re-based time column")
        return
    rep.agree()


# ------------------------------------------------------------------------------------------------------------------
def nontrivial(case, r):
    k = case["kind"]
    if k == "monitor":
        # an early reset inside an episode, and a later completed episode
        seen_early = False
        running = False
        for op, out in zip(case["ops"], r["outcomes"]):
            if op[0] == "reset" and out == "reset-ok":
                if running:
                    seen_early = True
                running = False
            elif isinstance(out, dict):
                running = not out["done"]
                if out["done"] and seen_early:
                    return True
        return False
    if k == "vecmonitor":
        if case["n"] < 2:
            return False
        ends = [{si for si, st in enumerate(r["steps"]) if st is not None and st["dones"][i]} for i in range(case["n"])]
        return len({frozenset(e) for e in ends}) > 1 and sum(len(e) for e in ends) >= 2
    if k == "eval":
        n, N = case["n"], case["N"]
        lens = {tuple(e[1] or e[2] for e in s) for s in case["scripts"]}
        return n > 1 and N % n != 0 and len(lens) > 1
    if k == "load":
        if case["append"]:
            return case["steps2"] > 0 and case["steps"] > 0
        tags = [t[2] >> 17 for t in r["truth"]]
        return case["n"] > 1 and any(a > b for a, b in zip(tags, tags[1:]))
    return False


def check_cases(ctx, cases):
    rep = ctx.report
    ops, plan = [], []
    for case in cases:
        k = case["kind"]
        rep.count(f"kind:{k}" + (":float" if case.get("float") else ""))
        if k == "monitor":
            r = guarded(ctx, case, lambda: run_monitor(ctx, case))
        elif k == "vecmonitor":
            r = guarded(ctx, case, lambda: run_vecmonitor(ctx, case))
        elif k == "eval":
            r = guarded(ctx, case, lambda: run_eval(ctx, case))
        elif k == "load":
            r = guarded(ctx, case, lambda: run_load(ctx, case))
        else:
            raise ValueError(k)
        if r is None:
            rep.case(case, None)
            continue
        rep.case(case, case if nontrivial(case, r) else None)
        # input distribution
        if k == "monitor":
            rep.count("monitor:allow_early=%s" % case["allow_early"])
            rep.count("monitor:file=%s" % case["file"])
            rep.count("monitor:info_keys=%d" % len(case["info_keys"]))
            rep.count("monitor:reset_keys=%d" % len(case["reset_keys"]))
            for o in r["outcomes"]:
                rep.count("monitor:answer:" + (o if isinstance(o, str) else ("episode-end" if o["ep"] is not None else "step")))
            rep.count("monitor:episodes=%s" % min(len(r["returns"]), 5))
        elif k == "vecmonitor":
            rep.count("vecmonitor:n=%d" % case["n"])
            rep.count("vecmonitor:file=%s" % case["file"])
            rep.count("vecmonitor:mid-run-reset=%s" % ("reset" in case["ops"][1:]))
            rep.count("vecmonitor:episodes", r["count"])
        elif k == "eval":
            n, N = case["n"], case["N"]
            rep.count("eval:n=%d" % n)
            rep.count("eval:wrap=" + case["wrap"])
            rep.count("eval:outer_reward_wrapper=" + case.get("outer", "none"))
            rep.count("eval:ratio=" + ("N=0" if N == 0 else "N<n" if N < n else "N%n=0" if N % n == 0 else "N%n!=0"))
            rep.count("eval:gym_env=%s" % case["gym_env"])
            rep.count("eval:pre_stepped=%s" % (case["pre_steps"] > 0))
            rep.count("eval:twice=%s" % case["twice"])
            rep.count("eval:return_episode_rewards=%s" % case["ret_eps"])
        elif k == "load":
            rep.count("load:files=%d" % case["n"])
            rep.count("load:append=%s" % case["append"])
            rep.count("load:rows", len(r["rows"]))
        if k == "eval":
            o = [c["op"] for c in r["calls"]]
        else:
            o = [r["op"]]
        plan.append((case, r, len(ops), len(o)))
        ops.extend(o)
    outs = ctx.lean.run(ops)

    def finding_prone(case):
        if case["kind"] == "load":
            return bool(case["append"])
        return False

    # cases that can only reproduce a known finding are judged last: new oracle hits come first in the bounded list
    for case, r, i, cnt in sorted(plan, key=lambda p: finding_prone(p[0])):
        k = case["kind"]
        mo = outs[i:i + cnt]
        if k == "monitor":
            ok = oracle_monitor(ctx, case, r)
            if mo[0] is not None:
                cmp_monitor(ctx, case, r, mo[0])
        elif k == "vecmonitor":
            oracle_vecmonitor(ctx, case, r)
            if mo[0] is not None:
                cmp_vecmonitor(ctx, case, r, mo[0])
        elif k == "eval":
            oracle_eval(ctx, case, r)
            if mo[0] is not None:
                cmp_eval(ctx, case, r, mo)
        elif k == "load":
            oracle_load(ctx, case, r)
            if mo[0] is not None:
                cmp_load(ctx, case, r, mo[0])
