/-
Model for C02: `SubprocVecEnv` as a message-passing system, `DummyVecEnv` as the sequential reference
(stable_baselines3/common/vec_env/{subproc_vec_env,dummy_vec_env,base_vec_env}.py).

* `EnvSem`   — a sub-environment is an arbitrary *deterministic* state machine (`step`, `reset`, attribute
               read/write, method call). Nothing else is assumed about it: the theorems quantify over every `EnvSem`.
* `Worker`   — the body of `_worker`: private state = the environment and the local variable `reset_info`;
               `Worker.react` is one iteration of its `while True: cmd, data = remote.recv(); …; remote.send(…)` loop.
* `Proc`     — a worker process with its two pipe directions as FIFO queues (`inbox`: parent → worker,
               `outbox`: worker → parent). `Proc.fire` is one worker transition (take the oldest command, react, put
               the reply at the end of the outbox); a worker whose inbox is empty is blocked in `recv` (no-op).
* `Sched`    — an ARBITRARY schedule: before every parent action (a `send` or a `recv`) an arbitrary list of worker
               ids fires. A blocking `recv i` on an empty outbox additionally runs worker `i` (it "eventually
               answers"); if worker `i` has nothing to answer the parent is dead-locked (`none`).
* `Sys`      — the parent object `SubprocVecEnv` (`remotes`, `reset_infos`, `_seeds`, `_options`); every public
               operation is the parent program of the code: send to the target remotes in order, then receive from
               the target remotes in order (`step_async`/`step_wait`, `reset`, `get_attr`, `set_attr`, `env_method`,
               targets chosen by `_get_target_remotes` / `_get_indices`).
* `Dummy`    — `DummyVecEnv`: the same operations as sequential loops over `self.envs`, `reset_infos[i]` written in
               place.
* `Scripted` — the Lean twin of `harness/c02.py:TimedEnv` (a `harness/envs.py:ScriptedEnv`), used by the driver to
               instantiate `EnvSem`; the theorems do not depend on it.

Observations `ω`, rewards `ρ` and actions `α` are never inspected (every space kind is an instance).
Core Lean only, no imports.
-/

namespace SB3Verif.Subproc

/-! ### Python values -/

/-- A flat options dictionary (`dict[str, int]`), insertion ordered. Python truthiness = non-empty. -/
abbrev Opts := List (String × Int)

inductive Val (ω : Type) where
  | none
  | bool (b : Bool)
  | int (i : Int)
  | str (s : String)
  | obs (o : ω)
  | opts (d : Opts)
  | ints (l : List Int)
  deriving DecidableEq, Repr

/-- A Python `dict[str, Any]`, insertion ordered, keys unique. -/
abbrev Info (ω : Type) := List (String × Val ω)

/-- `d[k] = v` -/
def dictSet {β : Type} (d : List (String × β)) (k : String) (v : β) : List (String × β) :=
  match d with
  | [] => [(k, v)]
  | (k', v') :: rest => if k' = k then (k, v) :: rest else (k', v') :: dictSet rest k v

/-- `{"options": o} if o else {}` -/
def maybeOptions (o : Opts) : Option Opts := if o.isEmpty then none else some o

/-! ### Sub-environments -/

/-- result of `env.step(action)` -/
structure Raw (ω ρ : Type) where
  obs : ω
  rew : ρ
  terminated : Bool
  truncated : Bool
  info : Info ω
  deriving DecidableEq, Repr

/-- A sub-environment: any deterministic machine with state `σ`. -/
structure EnvSem (σ α ω ρ : Type) where
  step : σ → α → σ × Raw ω ρ
  /-- `env.reset(seed=…, options=…)`; `options = none` = keyword not passed -/
  reset : σ → Option Int → Option Opts → σ × (ω × Info ω)
  getAttr : σ → String → Val ω
  setAttr : σ → String → Val ω → σ
  method : σ → String → List Int → σ × Val ω
  /-- `is_wrapped(env, wrapper_class)` -/
  isWrapped : σ → String → Bool
  /-- `env.close()` -/
  close : σ → σ

/-! ### Commands and replies on the pipes -/

inductive Cmd (α ω : Type) where
  | step (a : α)
  | reset (seed : Option Int) (options : Opts)
  | getAttr (name : String)
  | setAttr (name : String) (v : Val ω)
  | envMethod (name : String) (args : List Int)
  | isWrapped (cls : String)
  /-- `("close", None)`: the worker closes its environment and exits; the "reply" `None` stands for the process exit
  that the parent observes with `process.join()` -/
  | close
  deriving DecidableEq, Repr

inductive Reply (ω ρ : Type) where
  /-- `(observation, reward, done, info, reset_info)` -/
  | step (obs : ω) (rew : ρ) (done : Bool) (info : Info ω) (resetInfo : Info ω)
  /-- `(observation, reset_info)` -/
  | reset (obs : ω) (resetInfo : Info ω)
  | val (v : Val ω)
  deriving DecidableEq, Repr

/-- Private state of one worker process: its environment and the local variable `reset_info`. -/
structure W (σ ω : Type) where
  env : σ
  resetInfo : Info ω
  deriving DecidableEq, Repr

variable {σ α ω ρ : Type}

/-- The lines shared by `DummyVecEnv.step_wait` and the `"step"` branch of `_worker`:
```
info["TimeLimit.truncated"] = truncated and not terminated
if done: info["terminal_observation"] = observation
``` -/
def stepInfo (r : Raw ω ρ) : Info ω :=
  let info := dictSet r.info "TimeLimit.truncated" (Val.bool (r.truncated && !r.terminated))
  if r.terminated || r.truncated then dictSet info "terminal_observation" (Val.obs r.obs) else info

/-- One iteration of the `_worker` loop. -/
def Worker.react (E : EnvSem σ α ω ρ) (w : W σ ω) : Cmd α ω → W σ ω × Reply ω ρ
  | .step a =>
    let x := E.step w.env a
    if x.2.terminated || x.2.truncated then
      -- observation, reset_info = env.reset()
      let y := E.reset x.1 none none
      ({ env := y.1, resetInfo := y.2.2 }, .step y.2.1 x.2.rew true (stepInfo x.2) y.2.2)
    else
      ({ env := x.1, resetInfo := w.resetInfo }, .step x.2.obs x.2.rew false (stepInfo x.2) w.resetInfo)
  | .reset seed opts =>
    let y := E.reset w.env seed (maybeOptions opts)
    ({ env := y.1, resetInfo := y.2.2 }, .reset y.2.1 y.2.2)
  | .getAttr name => (w, .val (E.getAttr w.env name))
  | .setAttr name v => ({ w with env := E.setAttr w.env name v }, .val .none)
  | .envMethod name args =>
    let y := E.method w.env name args
    ({ w with env := y.1 }, .val y.2)
  | .isWrapped cls => (w, .val (.bool (E.isWrapped w.env cls)))
  | .close => ({ w with env := E.close w.env }, .val .none)

/-! ### Target selection, parent-side bookkeeping (common to both classes: `base_vec_env.py`) -/

/-- `VecEnvIndices = None | int | Iterable[int]` -/
inductive Indices where
  | all
  | one (k : Nat)
  | many (ks : List Nat)
  deriving DecidableEq, Repr

/-- `_get_indices` -/
def getIndices (n : Nat) : Indices → List Nat
  | .all => List.range n
  | .one k => [k]
  | .many ks => ks

inductive OptArg where
  | none
  | dict (d : Opts)
  | list (l : List Opts)
  deriving DecidableEq, Repr

/-- `VecEnv.set_options` -/
def setOptionsList (n : Nat) : OptArg → List Opts
  | .none => List.replicate n []
  | .dict d => List.replicate n d
  | .list l => l

/-- `VecEnv.seed(seed)`: `[seed + idx for idx in range(num_envs)]` -/
def seedList (n : Nat) (s : Int) : List (Option Int) := (List.range n).map fun (i : Nat) => some (s + (i : Int))

/-- A public operation of the vectorised environment. -/
inductive Op (α ω : Type) where
  | seed (s : Int)
  | setOptions (o : OptArg)
  | reset
  | step (acts : List α)
  | getAttr (name : String) (idx : Indices)
  | setAttr (name : String) (v : Val ω) (idx : Indices)
  | envMethod (name : String) (args : List Int) (idx : Indices)
  | isWrapped (cls : String) (idx : Indices)
  deriving DecidableEq, Repr

/-- `enumerate`: element `j` of the list is addressed to sub-environment `k + j`. -/
def indexedFrom {β : Type} (k : Nat) : List β → List (Nat × β)
  | [] => []
  | c :: cs => (k, c) :: indexedFrom (k + 1) cs

/-- Which sub-environment gets which command, in the order of the `for` loop of the operation
(`for env_idx, remote in enumerate(self.remotes)`, `zip(self.remotes, actions)`,
`for remote in target_remotes` — and the same loops over `self.envs` / `target_envs` in `DummyVecEnv`). -/
def plan (n : Nat) (seeds : List (Option Int)) (options : List Opts) : Op α ω → List (Nat × Cmd α ω)
  | .seed _ => []
  | .setOptions _ => []
  | .reset => indexedFrom 0 ((List.range n).map fun i => Cmd.reset (seeds.getD i none) (options.getD i []))
  | .step acts => indexedFrom 0 (acts.map Cmd.step)
  | .getAttr name idx => (getIndices n idx).map fun i => (i, Cmd.getAttr name)
  | .setAttr name v idx => (getIndices n idx).map fun i => (i, Cmd.setAttr name v)
  | .envMethod name args idx => (getIndices n idx).map fun i => (i, Cmd.envMethod name args)
  | .isWrapped cls idx => (getIndices n idx).map fun i => (i, Cmd.isWrapped cls)

/-- The operation is within the domain of both classes (no `IndexError`, one action per sub-environment). -/
def Op.valid (n : Nat) : Op α ω → Prop
  | .seed _ => True
  | .setOptions _ => True
  | .reset => True
  | .step acts => acts.length = n
  | .getAttr _ idx => ∀ i ∈ getIndices n idx, i < n
  | .setAttr _ _ idx => ∀ i ∈ getIndices n idx, i < n
  | .envMethod _ _ idx => ∀ i ∈ getIndices n idx, i < n
  | .isWrapped _ idx => ∀ i ∈ getIndices n idx, i < n

instance (n : Nat) (op : Op α ω) : Decidable (op.valid n) := by
  cases op <;> simp only [Op.valid] <;> infer_instance

/-- What the caller observes after one operation. -/
structure Out (ω ρ : Type) where
  obs : List ω := []
  rews : List ρ := []
  dones : List Bool := []
  infos : List (Info ω) := []
  results : List (Val ω) := []        -- return value of get_attr / env_method
  seeds : List (Option Int) := []      -- return value of seed()
  resetInfos : List (Info ω) := []    -- `vec_env.reset_infos` after the operation
  deriving DecidableEq, Repr

def Reply.obs? : Reply ω ρ → Option ω
  | .step o _ _ _ _ => some o
  | .reset o _ => some o
  | .val _ => none

def Reply.rew? : Reply ω ρ → Option ρ
  | .step _ r _ _ _ => some r
  | _ => none

def Reply.done? : Reply ω ρ → Option Bool
  | .step _ _ d _ _ => some d
  | _ => none

def Reply.info? : Reply ω ρ → Option (Info ω)
  | .step _ _ _ i _ => some i
  | _ => none

def Reply.resetInfo? : Reply ω ρ → Option (Info ω)
  | .step _ _ _ _ ri => some ri
  | .reset _ ri => some ri
  | .val _ => none

def Reply.val? : Reply ω ρ → Option (Val ω)
  | .val v => some v
  | _ => none

/-- `zip(*results)` and stacking, per operation kind; `resetInfos` = the object's `reset_infos` afterwards. -/
def assemble (op : Op α ω) (n : Nat) (replies : List (Reply ω ρ)) (resetInfos : List (Info ω)) : Out ω ρ :=
  match op with
  | .seed s => { seeds := seedList n s, resetInfos := resetInfos }
  | .setOptions _ => { resetInfos := resetInfos }
  | .reset => { obs := replies.filterMap Reply.obs?, resetInfos := resetInfos }
  | .step _ =>
    { obs := replies.filterMap Reply.obs?, rews := replies.filterMap Reply.rew?,
      dones := replies.filterMap Reply.done?, infos := replies.filterMap Reply.info?, resetInfos := resetInfos }
  | .getAttr _ _ => { results := replies.filterMap Reply.val?, resetInfos := resetInfos }
  | .setAttr _ _ _ => { resetInfos := resetInfos }
  | .envMethod _ _ _ => { results := replies.filterMap Reply.val?, resetInfos := resetInfos }
  | .isWrapped _ _ => { results := replies.filterMap Reply.val?, resetInfos := resetInfos }

/-! ### DummyVecEnv: sequential loops in the parent process -/

structure Dummy (σ ω : Type) where
  envs : List σ
  resetInfos : List (Info ω)
  seeds : List (Option Int)
  options : List Opts
  deriving DecidableEq, Repr

def Dummy.init (envs : List σ) : Dummy σ ω :=
  { envs := envs, resetInfos := List.replicate envs.length [],
    seeds := List.replicate envs.length none, options := List.replicate envs.length [] }

/-- Body of one loop iteration of a `DummyVecEnv` method for sub-environment `i`. For `step` the last component
of the answer is `self.reset_infos[i]` after the iteration. -/
def Dummy.callEnv (E : EnvSem σ α ω ρ) (d : Dummy σ ω) (i : Nat) (c : Cmd α ω) : Dummy σ ω × Reply ω ρ :=
  match d.envs[i]? with
  | none => (d, .val .none)
  | some e =>
    match c with
    | .step a =>
      -- obs, buf_rews[i], terminated, truncated, buf_infos[i] = envs[i].step(actions[i])
      let x := E.step e a
      if x.2.terminated || x.2.truncated then
        -- obs, reset_infos[i] = envs[i].reset()
        let y := E.reset x.1 none none
        ({ d with envs := d.envs.set i y.1, resetInfos := d.resetInfos.set i y.2.2 },
          .step y.2.1 x.2.rew true (stepInfo x.2) y.2.2)
      else
        ({ d with envs := d.envs.set i x.1 },
          .step x.2.obs x.2.rew false (stepInfo x.2) (d.resetInfos.getD i []))
    | .reset seed opts =>
      -- obs, reset_infos[i] = envs[i].reset(seed=_seeds[i], **maybe_options)
      let y := E.reset e seed (maybeOptions opts)
      ({ d with envs := d.envs.set i y.1, resetInfos := d.resetInfos.set i y.2.2 }, .reset y.2.1 y.2.2)
    | .getAttr name => (d, .val (E.getAttr e name))
    | .setAttr name v => ({ d with envs := d.envs.set i (E.setAttr e name v) }, .val .none)
    | .envMethod name args =>
      let y := E.method e name args
      ({ d with envs := d.envs.set i y.1 }, .val y.2)
    | .isWrapped cls => (d, .val (.bool (E.isWrapped e cls)))
    | .close => ({ d with envs := d.envs.set i (E.close e) }, .val .none)

/-- `for env_idx in …:` — the iterations one after the other -/
def Dummy.loop (E : EnvSem σ α ω ρ) (d : Dummy σ ω) : List (Nat × Cmd α ω) → Dummy σ ω × List (Reply ω ρ)
  | [] => (d, [])
  | (i, c) :: rest =>
    let x := Dummy.callEnv E d i c
    let y := Dummy.loop E x.1 rest
    (y.1, x.2 :: y.2)

/-- bookkeeping after the loop (`_reset_seeds(); _reset_options()`, `self._seeds = …`, `self._options = …`) -/
def Dummy.post (d : Dummy σ ω) : Op α ω → Dummy σ ω
  | .seed s => { d with seeds := seedList d.envs.length s }
  | .setOptions o => { d with options := setOptionsList d.envs.length o }
  | .reset => { d with seeds := List.replicate d.envs.length none, options := List.replicate d.envs.length [] }
  | _ => d

/-- the operation without the dtype of the reward buffer -/
def Dummy.runOpRaw (E : EnvSem σ α ω ρ) (d : Dummy σ ω) (op : Op α ω) : Dummy σ ω × Out ω ρ :=
  let x := Dummy.loop E d (plan d.envs.length d.seeds d.options op)
  let d' := Dummy.post x.1 op
  (d', assemble op d.envs.length x.2 d'.resetInfos)

/-- `buf_rews` is a `float32` array: `self.buf_rews[env_idx] = reward` converts every reward (`cast`);
`step_wait` returns a copy of it. (`SubprocVecEnv` stacks the Python floats as they are.) -/
def Out.castRews (cast : ρ → ρ) (o : Out ω ρ) : Out ω ρ := { o with rews := o.rews.map cast }

/-- A public operation of `DummyVecEnv`. `cast` = conversion to the dtype of `buf_rews`. -/
def Dummy.runOp (E : EnvSem σ α ω ρ) (cast : ρ → ρ) (d : Dummy σ ω) (op : Op α ω) : Dummy σ ω × Out ω ρ :=
  ((Dummy.runOpRaw E d op).1, (Dummy.runOpRaw E d op).2.castRews cast)

def Dummy.runOps (E : EnvSem σ α ω ρ) (cast : ρ → ρ) (d : Dummy σ ω) : List (Op α ω) → Dummy σ ω × List (Out ω ρ)
  | [] => (d, [])
  | op :: rest =>
    ((Dummy.runOps E cast (Dummy.runOp E cast d op).1 rest).1,
      (Dummy.runOp E cast d op).2 :: (Dummy.runOps E cast (Dummy.runOp E cast d op).1 rest).2)

/-! ### SubprocVecEnv: worker processes, pipes, schedules -/

structure Proc (σ α ω ρ : Type) where
  w : W σ ω
  inbox : List (Cmd α ω)
  outbox : List (Reply ω ρ)
  deriving DecidableEq, Repr

/-- One transition of a worker process: blocked if there is no command, otherwise take the oldest command,
react, append the reply to the pipe back to the parent. -/
def Proc.fire (E : EnvSem σ α ω ρ) (p : Proc σ α ω ρ) : Proc σ α ω ρ :=
  match p.inbox with
  | [] => p
  | c :: cs =>
    let x := Worker.react E p.w c
    { w := x.1, inbox := cs, outbox := p.outbox ++ [x.2] }

/-- `remote.send(cmd)`: never blocks (pipe capacity is an assumption, see meta/C02.json). -/
def Proc.send (p : Proc σ α ω ρ) (c : Cmd α ω) : Proc σ α ω ρ := { p with inbox := p.inbox ++ [c] }

/-- `remote.recv()`: the oldest reply; if there is none yet the parent blocks until the worker has produced
one (the worker runs); if the worker has no command either, nobody will ever answer: dead-lock. -/
def Proc.recv (E : EnvSem σ α ω ρ) (p : Proc σ α ω ρ) : Option (Proc σ α ω ρ × Reply ω ρ) :=
  match p.outbox with
  | r :: rest => some ({ p with outbox := rest }, r)
  | [] =>
    match p.inbox with
    | c :: cs =>
      let x := Worker.react E p.w c
      some ({ w := x.1, inbox := cs, outbox := [] }, x.2)
    | [] => none

/-- apply `f` to element `i` (no-op when out of range) -/
def upd {β : Type} (l : List β) (i : Nat) (f : β → β) : List β :=
  match l[i]? with
  | none => l
  | some b => l.set i (f b)

def fire (E : EnvSem σ α ω ρ) (ps : List (Proc σ α ω ρ)) (j : Nat) : List (Proc σ α ω ρ) :=
  upd ps j (Proc.fire E)

def fireAll (E : EnvSem σ α ω ρ) (ps : List (Proc σ α ω ρ)) (js : List Nat) : List (Proc σ α ω ρ) :=
  js.foldl (fire E) ps

def send (ps : List (Proc σ α ω ρ)) (i : Nat) (c : Cmd α ω) : List (Proc σ α ω ρ) :=
  upd ps i (fun p => p.send c)

def recv (E : EnvSem σ α ω ρ) (ps : List (Proc σ α ω ρ)) (i : Nat) :
    Option (List (Proc σ α ω ρ) × Reply ω ρ) :=
  match ps[i]? with
  | none => none
  | some p =>
    match p.recv E with
    | none => none
    | some x => some (ps.set i x.1, x.2)

/-- An action of the parent process on the pipes. -/
inductive PAct (α ω : Type) where
  | send (i : Nat) (c : Cmd α ω)
  | recv (i : Nat)
  deriving DecidableEq, Repr

/-- A schedule: chunk `k` lists the worker transitions that happen before the `k`-th parent action
(any worker ids, any number, any order; ids of blocked or non-existent workers are no-ops). -/
abbrev Sched := List (List Nat)

/-- Run a parent program under a schedule. `none` = the parent blocks forever in a `recv`. -/
def runProg (E : EnvSem σ α ω ρ) (ps : List (Proc σ α ω ρ)) (sch : Sched) :
    List (PAct α ω) → Option (List (Proc σ α ω ρ) × Sched × List (Reply ω ρ))
  | [] => some (ps, sch, [])
  | a :: rest =>
    let ps1 := fireAll E ps (sch.headD [])
    match a with
    | .send i c => runProg E (send ps1 i c) sch.tail rest
    | .recv i =>
      match recv E ps1 i with
      | none => none
      | some x =>
        match runProg E x.1 sch.tail rest with
        | none => none
        | some y => some (y.1, y.2.1, x.2 :: y.2.2)

/-- the parent object -/
structure Sys (σ α ω ρ : Type) where
  procs : List (Proc σ α ω ρ)
  resetInfos : List (Info ω)
  seeds : List (Option Int)
  options : List Opts
  deriving DecidableEq, Repr

def Sys.init (envs : List σ) : Sys σ α ω ρ :=
  { procs := envs.map fun e => { w := { env := e, resetInfo := [] }, inbox := [], outbox := [] },
    resetInfos := List.replicate envs.length [],
    seeds := List.replicate envs.length none, options := List.replicate envs.length [] }

/-- The parent program of every public method: `for remote in targets: remote.send(...)` followed by
`[remote.recv() for remote in targets]`. -/
def program (pl : List (Nat × Cmd α ω)) : List (PAct α ω) :=
  pl.map (fun x => PAct.send x.1 x.2) ++ pl.map (fun x => PAct.recv x.1)

/-- bookkeeping after the receive loop -/
def Sys.post (s : Sys σ α ω ρ) (procs : List (Proc σ α ω ρ)) (replies : List (Reply ω ρ)) : Op α ω → Sys σ α ω ρ
  | .seed sd => { s with procs := procs, seeds := seedList s.procs.length sd }
  | .setOptions o => { s with procs := procs, options := setOptionsList s.procs.length o }
  | .reset =>
    -- obs, self.reset_infos = zip(*results); self._reset_seeds(); self._reset_options()
    { procs := procs, resetInfos := replies.filterMap Reply.resetInfo?,
      seeds := List.replicate s.procs.length none, options := List.replicate s.procs.length [] }
  | .step _ =>
    -- obs, rews, dones, infos, self.reset_infos = zip(*results)
    { s with procs := procs, resetInfos := replies.filterMap Reply.resetInfo? }
  | _ => { s with procs := procs }

def Sys.runOp (E : EnvSem σ α ω ρ) (s : Sys σ α ω ρ) (sch : Sched) (op : Op α ω) :
    Option (Sys σ α ω ρ × Sched × Out ω ρ) :=
  match runProg E s.procs sch (program (plan s.procs.length s.seeds s.options op)) with
  | none => none
  | some x =>
    let s' := Sys.post s x.1 x.2.2 op
    some (s', x.2.1, assemble op s.procs.length x.2.2 s'.resetInfos)

def Sys.runOps (E : EnvSem σ α ω ρ) (s : Sys σ α ω ρ) (sch : Sched) :
    List (Op α ω) → Option (Sys σ α ω ρ × Sched × List (Out ω ρ))
  | [] => some (s, sch, [])
  | op :: rest =>
    match Sys.runOp E s sch op with
    | none => none
    | some x =>
      match Sys.runOps E x.1 x.2.1 rest with
      | none => none
      | some y => some (y.1, y.2.1, x.2.2 :: y.2.2)

/-- Order in which the workers completed their `k`-th command of an operation is not an output of the system;
`pendingWork` (how many commands are still unanswered) is what the driver reports for sanity. -/
def Sys.pendingWork (s : Sys σ α ω ρ) : Nat :=
  (s.procs.map fun p => p.inbox.length + p.outbox.length).sum

/-! ### The objects with `step_async` / `step_wait` / `close` and the flags `waiting`, `closed` -/

/-- A call on the vectorised-environment object: an operation that sends and receives within one call, or one of the
calls that leave / rely on state in the pipes. -/
inductive Call (α ω : Type) where
  | op (o : Op α ω)
  | stepAsync (acts : List α)
  | stepWait
  | close
  deriving DecidableEq, Repr

/-- the `SubprocVecEnv` object: pipes and bookkeeping plus `self.waiting`, `self.closed` -/
structure Sub (σ α ω ρ : Type) where
  sys : Sys σ α ω ρ
  waiting : Bool
  closed : Bool
  deriving DecidableEq, Repr

/-- the `DummyVecEnv` object: `self.actions` is what `step_async` stored -/
structure Dum (σ α ω : Type) where
  d : Dummy σ ω
  actions : List α
  deriving DecidableEq, Repr

def Sub.init (envs : List σ) : Sub σ α ω ρ := { sys := Sys.init envs, waiting := false, closed := false }
def Dum.init (envs : List σ) : Dum σ α ω := { d := Dummy.init envs, actions := [] }

/-- `zip(self.remotes, actions)` -/
def stepPlan (acts : List α) : List (Nat × Cmd α ω) := indexedFrom 0 (acts.map Cmd.step)

/-- `for remote in self.remotes: remote.send(("close", None))` … `for process in self.processes: process.join()` -/
def closePlan (n : Nat) : List (Nat × Cmd α ω) := (List.range n).map fun i => (i, Cmd.close)

/-- `[remote.recv() for remote in self.remotes]` -/
def recvAll (n : Nat) : List (PAct α ω) := (List.range n).map PAct.recv

def sendsOf (pl : List (Nat × Cmd α ω)) : List (PAct α ω) := pl.map fun x => PAct.send x.1 x.2

/-- One call on `SubprocVecEnv` under a schedule. `none` = the parent blocks forever. -/
def Sub.run (E : EnvSem σ α ω ρ) (x : Sub σ α ω ρ) (sch : Sched) : Call α ω → Option (Sub σ α ω ρ × Sched × Out ω ρ)
  | .op o =>
    match Sys.runOp E x.sys sch o with
    | none => none
    | some r => some ({ x with sys := r.1 }, r.2.1, r.2.2)
  | .stepAsync acts =>
    -- for remote, action in zip(self.remotes, actions): remote.send(("step", action));  self.waiting = True
    match runProg E x.sys.procs sch (sendsOf (stepPlan acts)) with
    | none => none
    | some r =>
      some ({ x with sys := { x.sys with procs := r.1 }, waiting := true }, r.2.1, { resetInfos := x.sys.resetInfos })
  | .stepWait =>
    -- results = [remote.recv() for remote in self.remotes];  self.waiting = False;  … = zip(*results)
    match runProg E x.sys.procs sch (recvAll x.sys.procs.length) with
    | none => none
    | some r =>
      let s' := Sys.post x.sys r.1 r.2.2 (Op.step [] : Op α ω)
      some ({ x with sys := s', waiting := false }, r.2.1, assemble (Op.step [] : Op α ω) x.sys.procs.length r.2.2 s'.resetInfos)
  | .close =>
    -- if self.closed: return;  if self.waiting: recv from every remote;  send close to every remote;  join;  closed = True
    if x.closed then some (x, sch, { resetInfos := x.sys.resetInfos })
    else
      match runProg E x.sys.procs sch
          ((if x.waiting then recvAll x.sys.procs.length else []) ++ program (closePlan x.sys.procs.length)) with
      | none => none
      | some r =>
        some ({ x with sys := { x.sys with procs := r.1 }, closed := true }, r.2.1, { resetInfos := x.sys.resetInfos })

/-- One call on `DummyVecEnv`. `step_wait` executes the stored actions; `close` closes every environment (again, if
called twice: there is no `closed` flag). -/
def Dum.run (E : EnvSem σ α ω ρ) (cast : ρ → ρ) (y : Dum σ α ω) : Call α ω → Dum σ α ω × Out ω ρ
  | .op o => ({ y with d := (Dummy.runOp E cast y.d o).1 }, (Dummy.runOp E cast y.d o).2)
  | .stepAsync acts => ({ y with actions := acts }, { resetInfos := y.d.resetInfos })
  | .stepWait => ({ y with d := (Dummy.runOp E cast y.d (Op.step y.actions)).1 }, (Dummy.runOp E cast y.d (Op.step y.actions)).2)
  | .close =>
    let l := Dummy.loop E y.d (closePlan y.d.envs.length)
    ({ y with d := l.1 }, { resetInfos := l.1.resetInfos })

def Sub.runAll (E : EnvSem σ α ω ρ) (x : Sub σ α ω ρ) (sch : Sched) :
    List (Call α ω) → Option (Sub σ α ω ρ × Sched × List (Out ω ρ))
  | [] => some (x, sch, [])
  | c :: rest =>
    match Sub.run E x sch c with
    | none => none
    | some r =>
      match Sub.runAll E r.1 r.2.1 rest with
      | none => none
      | some q => some (q.1, q.2.1, r.2.2 :: q.2.2)

def Dum.runAll (E : EnvSem σ α ω ρ) (cast : ρ → ρ) (y : Dum σ α ω) : List (Call α ω) → Dum σ α ω × List (Out ω ρ)
  | [] => (y, [])
  | c :: rest =>
    ((Dum.runAll E cast (Dum.run E cast y c).1 rest).1,
      (Dum.run E cast y c).2 :: (Dum.runAll E cast (Dum.run E cast y c).1 rest).2)

/-- What the object's protocol allows next. -/
inductive Phase where
  | idle      -- no step outstanding
  | waiting   -- `step_async` sent, `step_wait` not yet called
  | closed
  deriving DecidableEq, Repr

/-- Domain of the calls: `none` = outside the domain of the classes in this phase (e.g. `get_attr` between
`step_async` and `step_wait`, anything but `close` after `close`). -/
def Call.next (n : Nat) : Phase → Call α ω → Option Phase
  | .idle, .op o => if o.valid n then some .idle else none
  | .idle, .stepAsync acts => if acts.length = n then some .waiting else none
  | .waiting, .stepWait => some .idle
  | .idle, .close => some .closed
  | .waiting, .close => some .closed
  | .closed, .close => some .closed
  | _, _ => none

/-- phase after a history; `none` = the history leaves the domain -/
def phaseAfter (n : Nat) : Phase → List (Call α ω) → Option Phase
  | p, [] => some p
  | p, c :: rest =>
    match Call.next n p c with
    | none => none
    | some p' => phaseAfter n p' rest

/-! ### float32 conversion of an exact value (the `cast` of the real `DummyVecEnv`) -/

def pow2 (e : Int) : Rat := if e ≥ 0 then ((2 ^ e.toNat : Nat) : Rat) else 1 / ((2 ^ (-e).toNat : Nat) : Rat)

def ratAbs (q : Rat) : Rat := if q < 0 then -q else q

/-- `⌊log₂ q⌋` for `q > 0`: one of `log2 num - log2 den - 1`, `log2 num - log2 den` -/
def ilog2 (q : Rat) : Int :=
  let e : Int := (Nat.log2 q.num.natAbs : Int) - (Nat.log2 q.den : Int)
  if pow2 e ≤ q then e else e - 1

/-- round to the nearest integer, ties to even -/
def roundHalfEven (q : Rat) : Int :=
  let f := q.floor
  let r := q - (f : Rat)
  if r < 1 / 2 then f else if 1 / 2 < r then f + 1 else if f % 2 = 0 then f else f + 1

/-- IEEE-754 binary32 round-to-nearest-even of an exact value, for the normal range (24-bit significand;
sub-normal numbers and overflow are outside the model, see meta/C02.json). -/
def roundF32 (q : Rat) : Rat :=
  if q = 0 then 0
  else
    let ulp := pow2 (ilog2 (ratAbs q) - 23)
    (roundHalfEven (q / ulp) : Rat) * ulp

/-! ### The scripted environment of the harness (instance used by the driver) -/

namespace Scripted

structure St where
  envId : Nat
  script : List (Rat × Bool × Bool)
  episode : Int := -1
  stepInEp : Nat := 0
  nSteps : Nat := 0
  someAttr : Int := 0
  lastAction : Int := -1
  /-- number of `gym.Wrapper` layers around the scripted environment (0, 1 = `PassThrough`, 2 = `OuterWrap(PassThrough)`) -/
  depth : Nat := 0
  /-- attributes that live on the wrapper layers (merged, outermost wins): `setattr(env, …)` on a wrapped environment
  writes HERE, not into the scripted environment; `get_wrapper_attr` looks here first -/
  shadow : List (String × Int) := []
  closed : Bool := false
  /-- what `reset()` puts into its info: 0 = always `reset_tag / seed / options`; 1 = that only for a reset that was given
  a seed or options, `{}` for an argument-less (automatic) reset; 2 = always `{}` -/
  resetStyle : Nat := 0
  deriving DecidableEq, Repr

/-- `harness/envs.py:make_tag` -/
def makeTag (envId : Nat) (episode : Int) (step : Nat) : Nat :=
  (envId % 8) * 131072 + (episode % 512).toNat * 256 + step % 256

def optSeedVal : Option Int → Val Nat
  | none => .none
  | some s => .int s

def optOptsVal : Option Opts → Val Nat
  | none => .none
  | some o => .opts o

def reset (s : St) (seed : Option Int) (options : Option Opts) : St × (Nat × Info Nat) :=
  let ep := s.episode + 1
  let tag := makeTag s.envId ep 0
  let full : Info Nat := [("reset_tag", .int tag), ("seed", optSeedVal seed), ("options", optOptsVal options)]
  let info : Info Nat :=
    if s.resetStyle = 2 then [] else if s.resetStyle = 1 ∧ seed.isNone ∧ options.isNone then [] else full
  ({ s with episode := ep, stepInEp := 0 }, (tag, info))

def step (s : St) (a : Int) : St × Raw Nat Rat :=
  let e := s.script.getD (s.nSteps % s.script.length) (0, false, false)
  let n := s.nSteps + 1
  let k := s.stepInEp + 1
  let tag := makeTag s.envId s.episode k
  ({ s with nSteps := n, stepInEp := k, lastAction := a },
    { obs := tag, rew := e.1, terminated := e.2.1, truncated := e.2.2,
      info := [("tag", .int tag), ("k", .int n)] })

/-- attribute of the scripted environment itself -/
def innerAttr (s : St) : String → Val Nat
  | "some_attr" => .int s.someAttr
  | "n_steps" => .int s.nSteps
  | "episode" => .int s.episode
  | "env_id" => .int s.envId
  | "step_in_ep" => .int s.stepInEp
  | "last_action" => .int s.lastAction
  | _ => .none

/-- `env.get_wrapper_attr(name)`: the outermost layer that has the attribute, else the scripted environment -/
def getAttr (s : St) (name : String) : Val Nat :=
  match (if s.depth = 0 then none else s.shadow.lookup name) with
  | some v => .int v
  | none => innerAttr s name

/-- `setattr(env, name, value)` on the object the vectorised environment holds: the outermost wrapper if there is
one (the scripted environment underneath does not see it), else the scripted environment -/
def setAttr (s : St) (name : String) (v : Val Nat) : St :=
  if s.depth = 0 then
    match name, v with
    | "some_attr", .int i => { s with someAttr := i }
    | "n_steps", .int i => { s with nSteps := i.toNat }
    | _, _ => s
  else
    match v with
    | .int i => { s with shadow := dictSet s.shadow name i }
    | _ => s

def method (s : St) (name : String) (args : List Int) : St × Val Nat :=
  match name with
  | "add_to_attr" =>
    let v := s.someAttr + args.sum
    ({ s with someAttr := v }, .int v)
  | "echo" => (s, .ints ((s.envId : Int) :: args))
  | _ => (s, .none)

def isWrapped (s : St) (cls : String) : Bool :=
  (decide (1 ≤ s.depth) && cls == "PassThrough") || (decide (2 ≤ s.depth) && cls == "OuterWrap")

def sem : EnvSem St Int Nat Rat :=
  { step := step, reset := reset, getAttr := getAttr, setAttr := setAttr, method := method,
    isWrapped := isWrapped, close := fun s => { s with closed := true } }

end Scripted

end SB3Verif.Subproc
