/-
Line protocol shared by all model drivers.

One JSON value per input line, one JSON value per output line. The Python harness
(`/verif/harness/common.py`, `LeanDriver`) writes the lines, the driver of a property
(`SB3Verif/Driver/Cxx.lean`) interprets them with the *executable model definitions* of that
property and prints the model's answer; the harness diffs the answers with what the real
stable-baselines3 code did on the same inputs.

Only `Lean.Data.Json` (part of the Lean distribution, not Mathlib) is imported.
-/
import Lean.Data.Json

open Lean

namespace SB3Verif.Proto

/-- Field access with a readable error. -/
def fld (j : Json) (k : String) : Except String Json :=
  match j.getObjVal? k with
  | .ok v => .ok v
  | .error _ => .error s!"missing field {k}"

def asInt (j : Json) : Except String Int :=
  match j.getInt? with
  | .ok v => .ok v
  | .error _ => .error s!"not an int: {j.compress}"

def asNat (j : Json) : Except String Nat :=
  match j.getNat? with
  | .ok v => .ok v
  | .error _ => .error s!"not a nat: {j.compress}"

def asBool (j : Json) : Except String Bool :=
  match j with
  | .bool b => .ok b
  | _ =>
    match j.getInt? with
    | .ok 0 => .ok false
    | .ok 1 => .ok true
    | _ => .error s!"not a bool: {j.compress}"

def asStr (j : Json) : Except String String :=
  match j.getStr? with
  | .ok v => .ok v
  | .error _ => .error s!"not a string: {j.compress}"

def asList (j : Json) : Except String (List Json) :=
  match j.getArr? with
  | .ok v => .ok v.toList
  | .error _ => .error s!"not a list: {j.compress}"

def asListOf {α} (f : Json → Except String α) (j : Json) : Except String (List α) := do
  let l ← asList j
  l.mapM f

/-- A rational crosses the protocol as `[num, den]` (or as a plain integer). -/
def asRat (j : Json) : Except String Rat :=
  match j.getInt? with
  | .ok v => .ok (v : Rat)
  | .error _ =>
    match j.getArr? with
    | .ok #[a, b] => do
      let n ← asInt a
      let d ← asInt b
      if d = 0 then .error "zero denominator" else .ok ((n : Rat) / (d : Rat))
    | _ => .error s!"not a rational: {j.compress}"

def ratJ (q : Rat) : Json := Json.arr #[toJson q.num, toJson (q.den : Int)]

def intJ (i : Int) : Json := toJson i
def natJ (n : Nat) : Json := toJson n
def boolJ (b : Bool) : Json := Json.bool b
def strJ (s : String) : Json := Json.str s
def listJ {α} (f : α → Json) (l : List α) : Json := Json.arr (l.map f).toArray
def objJ (kvs : List (String × Json)) : Json := Json.mkObj kvs

def getInt (j : Json) (k : String) : Except String Int := fld j k >>= asInt
def getNat (j : Json) (k : String) : Except String Nat := fld j k >>= asNat
def getBool (j : Json) (k : String) : Except String Bool := fld j k >>= asBool
def getStr (j : Json) (k : String) : Except String String := fld j k >>= asStr
def getRat (j : Json) (k : String) : Except String Rat := fld j k >>= asRat
def getList {α} (f : Json → Except String α) (j : Json) (k : String) : Except String (List α) :=
  fld j k >>= asListOf f

def errJ (e : String) : Json := objJ [("error", strJ e)]

/-- Read lines until end of input; each line is handed to `step` together with the state.
A line that is not valid JSON, or that `step` rejects, yields an `{"error": …}` answer and leaves
the state unchanged — the driver never guesses a default. -/
partial def loop {σ : Type} (h : IO.FS.Stream) (out : IO.FS.Stream)
    (step : σ → Json → Except String (σ × Json)) (s : σ) : IO Unit := do
  let line ← h.getLine
  if line.isEmpty then
    out.flush
    return ()
  if line.trimAscii.isEmpty then
    loop h out step s
  else
    match Json.parse line with
    | .error e =>
      out.putStrLn (errJ s!"parse: {e}").compress
      loop h out step s
    | .ok j =>
      match step s j with
      | .error e =>
        out.putStrLn (errJ e).compress
        loop h out step s
      | .ok (s', o) =>
        out.putStrLn o.compress
        loop h out step s'

def run {σ : Type} (step : σ → Json → Except String (σ × Json)) (init : σ) : IO Unit := do
  let stdin ← IO.getStdin
  let stdout ← IO.getStdout
  loop stdin stdout step init

end SB3Verif.Proto
