/-
C02 — SubprocVecEnv is observationally equivalent to DummyVecEnv under any timing.

Property theorems only (helper lemmas: `SB3Verif/Lemmas/Subproc.lean`). All statements are about the executable
model `SB3Verif/Model/Subproc.lean`, whose definitions the driver `SB3Verif/Driver/C02.lean` runs against the real
`SubprocVecEnv` and `DummyVecEnv`.

Quantifiers: every deterministic sub-environment semantics `E` (hence every space kind, every script), every number
of sub-environments (`envs : List σ`), every history `ops` of `seed / set_options / reset / step / get_attr / set_attr /
env_method` with `None | int | list` index arguments (repetitions and any order allowed), and EVERY schedule
`sch : List (List Nat)` of worker transitions interleaved with the parent's sends and receives.

Finding F-C02-a (known, not fixed): `DummyVecEnv` returns rewards converted to `float32`, `SubprocVecEnv` returns
them as they are. The full statement "all observables equal" is therefore false
(`subproc_equiv_dummy_counterexample`); it holds with the rewards compared after the conversion
(`subproc_equiv_dummy_mod_cast`, no hypothesis) and literally when the rewards are `float32`-representable
(`subproc_equiv_dummy_partial`).
-/
import SB3Verif.Lemmas.Subproc

namespace SB3Verif.C02

open SB3Verif.Subproc

variable {σ α ω ρ : Type}

/-- **Processes share nothing**: a transition of worker `j` leaves the state, the inbox and the outbox of every
other worker `i ≠ j` unchanged. -/
theorem worker_isolated (E : EnvSem σ α ω ρ) (ps : List (Proc σ α ω ρ)) (i j : Nat) (h : j ≠ i) :
    (fire E ps j)[i]? = ps[i]? := by
  unfold fire upd
  cases ps[j]? with
  | none => rfl
  | some p => exact List.getElem?_set_ne h

/-- **FIFO determinism**: whatever worker transitions happen (any ids, any number, any order), for every worker the
replies still to be received — those already in its outbox followed by the answers to the commands still in its
inbox — and the state it will have once its inbox is worked off do not change. -/
theorem fifo_determinism (E : EnvSem σ α ω ρ) (ps : List (Proc σ α ω ρ)) (js : List Nat) (i : Nat) :
    ((fireAll E ps js)[i]?).map (fun p => (p.outbox ++ (runCmds E p.w p.inbox).2, (runCmds E p.w p.inbox).1)) =
      (ps[i]?).map (fun p => (p.outbox ++ (runCmds E p.w p.inbox).2, (runCmds E p.w p.inbox).1)) := by
  have h := congrArg (fun l => l[i]?) (views_fireAll E ps js)
  simp only [List.getElem?_map] at h
  cases h1 : (fireAll E ps js)[i]? <;> cases h2 : ps[i]? <;> simp_all [view]

/-- **Schedule independence of a parent program**: under any two schedules a program of sends and receives either
dead-locks under both or returns the same replies in the same order and leaves every worker with the same pending
replies and the same eventual state. -/
theorem schedule_independent (E : EnvSem σ α ω ρ) (ps : List (Proc σ α ω ρ)) (sch1 sch2 : Sched)
    (prog : List (PAct α ω)) :
    (runProg E ps sch1 prog).map (fun x => (x.1.map (view E), x.2.2)) =
      (runProg E ps sch2 prog).map (fun x => (x.1.map (view E), x.2.2)) := by
  rw [runProg_refines, runProg_refines]

/-- **Main theorem, no hypothesis on the rewards**: for every environment semantics, every number of
sub-environments, every history of valid operations and EVERY schedule, `SubprocVecEnv` never blocks and every
operation returns what `DummyVecEnv` returns — observations, dones, infos, reset_infos, call results, seeds, in
sub-environment order — with `DummyVecEnv`'s rewards being the conversion (`cast`, float32) of `SubprocVecEnv`'s. -/
theorem subproc_equiv_dummy_mod_cast (E : EnvSem σ α ω ρ) (cast : ρ → ρ) (envs : List σ) (ops : List (Op α ω))
    (sch : Sched) (hv : ∀ op ∈ ops, op.valid envs.length) :
    ∃ s' sch' outs, Sys.runOps E (Sys.init envs) sch ops = some (s', sch', outs) ∧
      (Dummy.runOps E cast (Dummy.init envs) ops).2 = outs.map (Out.castRews cast) :=
  let ⟨s', sch', outs, h1, h2, _⟩ :=
    runOps_equiv E cast ops (Sys.init envs) (Dummy.init envs) sch (Rel.init E envs) hv
  ⟨s', sch', outs, h1, h2⟩

/-- **The property as stated, under the missing hypothesis** (F-C02-a): if every reward `SubprocVecEnv` returns is a
fixed point of the conversion (is float32-representable), all observables are equal under every schedule. -/
theorem subproc_equiv_dummy_partial (E : EnvSem σ α ω ρ) (cast : ρ → ρ) (envs : List σ) (ops : List (Op α ω))
    (sch : Sched) (hv : ∀ op ∈ ops, op.valid envs.length)
    (hrep : ∀ x, Sys.runOps E (Sys.init envs) sch ops = some x → ∀ o ∈ x.2.2, ∀ r ∈ o.rews, cast r = r) :
    (Sys.runOps E (Sys.init envs) sch ops).map (fun x => x.2.2) =
      some (Dummy.runOps E cast (Dummy.init envs) ops).2 := by
  obtain ⟨s', sch', outs, h1, h2⟩ := subproc_equiv_dummy_mod_cast E cast envs ops sch hv
  have h3 := hrep _ h1
  rw [h1, h2]
  simp only [Option.map_some, Option.some.injEq]
  symm
  have : ∀ o ∈ outs, Out.castRews cast o = o := by
    intro o ho
    have : o.rews.map cast = o.rews := by
      conv => rhs; rw [← List.map_id o.rews]
      exact List.map_congr_left (fun r hr => h3 o ho r hr)
    simp [Out.castRews, this]
  conv => rhs; rw [← List.map_id outs]
  exact List.map_congr_left this

/-- With the identity conversion (rewards kept as they are in both classes) the equality is unconditional. -/
theorem subproc_equiv_dummy_same_dtype (E : EnvSem σ α ω ρ) (envs : List σ) (ops : List (Op α ω))
    (sch : Sched) (hv : ∀ op ∈ ops, op.valid envs.length) :
    (Sys.runOps E (Sys.init envs) sch ops).map (fun x => x.2.2) =
      some (Dummy.runOps E id (Dummy.init envs) ops).2 :=
  subproc_equiv_dummy_partial E id envs ops sch hv (fun _ _ _ _ _ _ => rfl)

/-- one scripted sub-environment whose reward is `1/10` -/
def cexEnv : Scripted.St := { envId := 0, script := [((1 : Rat) / 10, false, false)] }

/-- **F-C02-a, the full statement is false**: with the real float32 conversion, one sub-environment whose reward is
`0.1`, `reset; step` under the empty schedule: `SubprocVecEnv` returns `1/10`, `DummyVecEnv` returns
`13421773/134217728`. -/
theorem subproc_equiv_dummy_counterexample :
    (Sys.runOps Scripted.sem (Sys.init [cexEnv]) [] [Op.reset, Op.step [0]]).map (fun x => x.2.2) ≠
      some (Dummy.runOps Scripted.sem roundF32 (Dummy.init [cexEnv]) [Op.reset, Op.step [0]]).2 := by
  decide +kernel

/-- **Index order, not completion order**: the outputs of a history do not depend on the schedule. -/
theorem index_order_not_completion_order (E : EnvSem σ α ω ρ) (envs : List σ) (ops : List (Op α ω))
    (sch1 sch2 : Sched) (hv : ∀ op ∈ ops, op.valid envs.length) :
    (Sys.runOps E (Sys.init envs) sch1 ops).map (fun x => x.2.2) =
      (Sys.runOps E (Sys.init envs) sch2 ops).map (fun x => x.2.2) := by
  rw [subproc_equiv_dummy_same_dtype E envs ops sch1 hv, subproc_equiv_dummy_same_dtype E envs ops sch2 hv]

/-- **No dead-lock**: every parent program of a valid history terminates under every schedule (all sends of an
operation precede its first receive, every command is answered exactly once). -/
theorem no_deadlock (E : EnvSem σ α ω ρ) (envs : List σ) (ops : List (Op α ω)) (sch : Sched)
    (hv : ∀ op ∈ ops, op.valid envs.length) : (Sys.runOps E (Sys.init envs) sch ops).isSome := by
  obtain ⟨s', sch', outs, h1, _⟩ := subproc_equiv_dummy_mod_cast E id envs ops sch hv
  simp [h1]

/-- **After every history the pipes are empty and the workers hold Dummy's state**: every worker's environment is
`DummyVecEnv.envs[i]`, its local `reset_info` is `DummyVecEnv.reset_infos[i]`, and the parents' `reset_infos`,
`_seeds`, `_options` coincide. -/
theorem drained_states_equal (E : EnvSem σ α ω ρ) (cast : ρ → ρ) (envs : List σ) (ops : List (Op α ω))
    (sch : Sched) (hv : ∀ op ∈ ops, op.valid envs.length) :
    ∃ s' sch' outs, Sys.runOps E (Sys.init envs) sch ops = some (s', sch', outs) ∧
      (∀ p ∈ s'.procs, p.inbox = [] ∧ p.outbox = []) ∧
      s'.procs.map (fun p => p.w.env) = (Dummy.runOps E cast (Dummy.init envs) ops).1.envs ∧
      s'.procs.map (fun p => p.w.resetInfo) = (Dummy.runOps E cast (Dummy.init envs) ops).1.resetInfos ∧
      s'.resetInfos = (Dummy.runOps E cast (Dummy.init envs) ops).1.resetInfos ∧
      s'.seeds = (Dummy.runOps E cast (Dummy.init envs) ops).1.seeds ∧
      s'.options = (Dummy.runOps E cast (Dummy.init envs) ops).1.options := by
  obtain ⟨s', sch', outs, h1, _, R⟩ :=
    runOps_equiv E cast ops (Sys.init envs) (Dummy.init envs) sch (Rel.init E envs) hv
  obtain ⟨d1, d2⟩ := R.drained
  refine ⟨s', sch', outs, h1, d1, ?_, ?_, R.ri, R.seeds, R.options⟩
  · have := congrArg (List.map (fun w : W σ ω => w.env)) d2
    simp only [List.map_map] at this
    rw [show (fun p : Proc σ α ω ρ => p.w.env) = (fun w : W σ ω => w.env) ∘ (fun p => p.w) from rfl, this]
    exact Dummy.ws_envs _ R.len
  · have := congrArg (List.map (fun w : W σ ω => w.resetInfo)) d2
    simp only [List.map_map] at this
    rw [show (fun p : Proc σ α ω ρ => p.w.resetInfo) = (fun w : W σ ω => w.resetInfo) ∘ (fun p => p.w) from rfl,
      this]
    exact Dummy.ws_resetInfos _ R.len

/-- **Index routing (1)**: an operation touches exactly the sub-environments `_get_indices` names — the environment
and the `reset_infos` entry of every other index are unchanged (stated for the sequential class; by
`drained_states_equal` the workers of `SubprocVecEnv` hold the same states). -/
theorem target_indices_untouched (E : EnvSem σ α ω ρ) (d : Dummy σ ω) (op : Op α ω) (j : Nat)
    (h : ∀ x ∈ plan d.envs.length d.seeds d.options op, x.1 ≠ j) :
    (Dummy.runOpRaw E d op).1.envs[j]? = d.envs[j]? ∧
    (Dummy.runOpRaw E d op).1.resetInfos[j]? = d.resetInfos[j]? := by
  obtain ⟨h1, h2⟩ := Dummy.loop_untouched E (plan d.envs.length d.seeds d.options op) d j h
  cases op <;> exact ⟨h1, h2⟩

/-- **Index routing (2)**: `get_attr(name, indices)` on `SubprocVecEnv`, from any state in step with a `DummyVecEnv`
state `d` and under any schedule, returns the attribute of `envs[i]` for `i` running through `indices` in the given
order (repetitions included), for `indices = None | k | [k…]`. -/
theorem target_indices_results (E : EnvSem σ α ω ρ) (s : Sys σ α ω ρ) (d : Dummy σ ω) (sch : Sched)
    (name : String) (idx : Indices) (R : Rel E s d) (hv : ∀ i ∈ getIndices d.envs.length idx, i < d.envs.length) :
    ∃ s' sch' out, Sys.runOp E s sch (Op.getAttr name idx) = some (s', sch', out) ∧
      out.results.map some = (getIndices d.envs.length idx).map (fun i => d.envs[i]?.map (fun e => E.getAttr e name)) := by
  obtain ⟨s', sch', h1, _⟩ := runOp_equiv E s d sch (Op.getAttr name idx) R hv
  refine ⟨s', sch', _, h1, ?_⟩
  exact (Dummy.loop_getAttr E name (getIndices d.envs.length idx) d hv).2

/-- **`step_async` then `step_wait`** (or any other cut of a parent program into two calls, with any worker
transitions in between): `step_async` never blocks and returns nothing; `step_wait`, continuing with the pipes and
the schedule it finds, completes the replies of the undivided `step`. -/
theorem step_async_wait_split (E : EnvSem σ α ω ρ) (ps : List (Proc σ α ω ρ)) (sch : Sched)
    (pl : List (Nat × Cmd α ω)) :
    ∃ ps1 sch1, runProg E ps sch (pl.map fun x => PAct.send x.1 x.2) = some (ps1, sch1, []) ∧
      runProg E ps sch (program pl) = runProg E ps1 sch1 (pl.map fun x => PAct.recv x.1) := by
  obtain ⟨ps1, sch1, h⟩ := runProg_sends E ps sch pl
  refine ⟨ps1, sch1, h, ?_⟩
  unfold program
  rw [runProg_append, h]
  simp only [Option.bind_some, List.nil_append]
  cases runProg E ps1 sch1 (pl.map fun x => PAct.recv x.1) <;> rfl

/-- **Slot `i` is sub-environment `i`**: from states in step and under any schedule, the replies from which
`SubprocVecEnv.step(actions)` assembles its return value are, position by position, the answer of worker `i`
(holding `envs[i]` and `reset_infos[i]`) to `actions[i]` — never another worker's, whatever the completion order. -/
theorem step_slotwise (E : EnvSem σ α ω ρ) (s : Sys σ α ω ρ) (d : Dummy σ ω) (sch : Sched) (acts : List α)
    (R : Rel E s d) (hv : acts.length = d.envs.length) :
    ∃ s' sch', Sys.runOp E s sch (Op.step acts) =
      some (s', sch',
        assemble (Op.step acts) d.envs.length
          (List.zipWith (fun w a => (Worker.react E w (Cmd.step a)).2) (Dummy.ws d) acts)
          ((List.zipWith (fun w a => (Worker.react E w (Cmd.step a)).1) (Dummy.ws d) acts).map
            (fun w => w.resetInfo))) := by
  obtain ⟨s', sch', h1, _⟩ := runOp_equiv E s d sch (Op.step acts) R hv
  refine ⟨s', sch', ?_⟩
  rw [h1]
  have hwl : (Dummy.ws d).length = d.envs.length := by simp [Dummy.ws, R.len]
  obtain ⟨l1, l2, l3, _, _, _⟩ :=
    Dummy.loop_eq E (plan d.envs.length d.seeds d.options (Op.step acts : Op α ω)) d R.len
  have hrep := seqCalls_indexed_replies E (acts.map (Cmd.step : α → Cmd α ω)) [] (Dummy.ws d) (by simp [hv, hwl])
  have hri := seqCalls_indexed0 E (acts.map (Cmd.step : α → Cmd α ω)) (Dummy.ws d) (by simp [hv, hwl])
    (plan_step_resetting acts)
  simp only [List.length_nil, List.nil_append, List.zipWith_map_right] at hrep
  have hplan : plan d.envs.length d.seeds d.options (Op.step acts : Op α ω) =
      indexedFrom 0 (acts.map (Cmd.step : α → Cmd α ω)) := rfl
  rw [hplan] at l1 l2 l3
  have hri2 : (Dummy.loop E d (indexedFrom 0 (acts.map (Cmd.step : α → Cmd α ω)))).1.resetInfos =
      (List.zipWith (fun w a => (Worker.react E w (Cmd.step a)).2) (Dummy.ws d) acts).filterMap Reply.resetInfo? := by
    rw [← Dummy.ws_resetInfos _ l3, l2, ← hri, hrep]
  have hri3 := zipWith_react_resetInfo E (Dummy.ws d) acts
  simp only [Dummy.runOpRaw, Dummy.post, hplan]
  rw [hri2, hri3, l1, hrep]

/-! ### `step_async` / `step_wait` / `close` as separate calls, flags `waiting` and `closed` -/

/-- **Equivalence extended to the calls that leave state in the pipes**: for every history of calls inside the
protocol (`phaseAfter … = some _`: operations and `step_async` only when no step is outstanding, `step_wait` only after
`step_async`, `close` at any point — also while a step is outstanding — and nothing but `close` after `close`) and
every schedule, `SubprocVecEnv` never blocks and every call returns what `DummyVecEnv` returns (rewards after
`DummyVecEnv`'s float32 conversion, F-C02-a). -/
theorem subproc_equiv_dummy_calls (E : EnvSem σ α ω ρ) (cast : ρ → ρ) (envs : List σ) (cs : List (Call α ω))
    (sch : Sched) (p : Phase) (h : phaseAfter envs.length .idle cs = some p) :
    ∃ x' sch' outs, Sub.runAll E (Sub.init envs) sch cs = some (x', sch', outs) ∧
      (Dum.runAll E cast (Dum.init envs) cs).2 = outs.map (Out.castRews cast) :=
  let ⟨x', sch', outs, h1, h2, _⟩ :=
    runAll_equiv E cast envs.length cs .idle p (Sub.init envs) (Dum.init envs) sch (XRel.init E envs) h
  ⟨x', sch', outs, h1, h2⟩

/-- **`close` drains and terminates**: after any history inside the protocol that ends closed — `close` may have been
called while a step was outstanding — under every schedule the parent did not block, `closed` is set, no worker is left
with a command in its inbox or a reply in its outbox, and a further `close` is a no-op (same object, schedule
untouched, nothing sent). -/
theorem close_drains_and_terminates (E : EnvSem σ α ω ρ) (envs : List σ) (cs : List (Call α ω)) (sch : Sched)
    (h : phaseAfter envs.length .idle cs = some .closed) :
    ∃ x' sch' outs, Sub.runAll E (Sub.init envs) sch cs = some (x', sch', outs) ∧ x'.closed = true ∧
      (∀ p ∈ x'.sys.procs, p.inbox = [] ∧ p.outbox = []) ∧
      ∀ sch2, Sub.run E x' sch2 Call.close = some (x', sch2, { resetInfos := x'.sys.resetInfos }) := by
  obtain ⟨x', sch', outs, h1, _, hcl, _, ws, hws⟩ :=
    runAll_equiv E id envs.length cs .idle .closed (Sub.init envs) (Dum.init envs) sch (XRel.init E envs) h
  refine ⟨x', sch', outs, h1, hcl, views_quiet_drained E _ ws hws, ?_⟩
  intro sch2
  simp only [Sub.run, hcl, if_true]

/-- **The `waiting` flag**: after any history inside the protocol that has not closed the object, under every
schedule, `waiting` is set exactly when a `step_async` has been sent whose `step_wait` has not been called, and then
every worker owes exactly one reply (one command in its inbox or one reply in its outbox); otherwise all pipes are
empty. -/
theorem waiting_flag_inv (E : EnvSem σ α ω ρ) (envs : List σ) (cs : List (Call α ω)) (sch : Sched) (p : Phase)
    (h : phaseAfter envs.length .idle cs = some p) (hp : p ≠ .closed) :
    ∃ x' sch' outs, Sub.runAll E (Sub.init envs) sch cs = some (x', sch', outs) ∧ x'.closed = false ∧
      (x'.waiting = true ↔ p = .waiting) ∧
      ∀ q ∈ x'.sys.procs, q.inbox.length + q.outbox.length = if x'.waiting then 1 else 0 := by
  obtain ⟨x', sch', outs, h1, _, R⟩ :=
    runAll_equiv E id envs.length cs .idle p (Sub.init envs) (Dum.init envs) sch (XRel.init E envs) h
  refine ⟨x', sch', outs, h1, ?_⟩
  cases p with
  | closed => exact absurd rfl hp
  | idle =>
    obtain ⟨R0, hw, hcl, _⟩ := R
    refine ⟨hcl, by simp [hw], ?_⟩
    intro q hq
    obtain ⟨h2, h3⟩ := R0.drained.1 q hq
    simp [hw, h2, h3]
  | waiting =>
    obtain ⟨hw, hcl, hn, han, hviews, _, _, _, hlen⟩ := R
    refine ⟨hcl, by simp [hw], ?_⟩
    intro q hq
    have hone := waiting_pending_one E (Dummy.ws (Dum.runAll E id (Dum.init envs) cs).1.d)
      (Dum.runAll E id (Dum.init envs) cs).1.actions (by simp only [Dummy.ws, List.length_zipWith]; rw [← hlen, Nat.min_self, han, hn])
    have hmem : view E q ∈ x'.sys.procs.map (view E) := List.mem_map_of_mem hq
    rw [hviews] at hmem
    have := hone _ hmem
    rw [pending_length] at this
    simp [hw, this]

/-! ### the hypotheses are satisfiable by non-trivial data -/

/-- a three-environment history mixing every operation kind, with repeated and permuted indices -/
def exOps : List (Op Int Nat) :=
  [Op.seed 7, Op.setOptions (.dict [("a", 1)]), Op.reset, Op.step [0, 1, 2],
   Op.envMethod "add_to_attr" [2, 3] (.many [2, 0, 2]), Op.setAttr "n_steps" (.int 0) (.one 1),
   Op.getAttr "some_attr" .all, Op.step [3, 3, 3]]

def exEnvs : List Scripted.St :=
  [{ envId := 0, script := [(1, false, false), (2, true, false)] },
   { envId := 1, script := [((1 : Rat) / 2, false, true)] },
   { envId := 2, script := [(0, true, true), (3, false, false)] }]

example : ∀ op ∈ exOps, op.valid exEnvs.length := by decide

/-- the initial states are in step -/
example : Rel Scripted.sem (Sys.init exEnvs : Sys Scripted.St Int Nat Rat) (Dummy.init exEnvs) := Rel.init _ _

/-- the rewards of `exEnvs` are float32-representable: `hrep` of `subproc_equiv_dummy_partial` holds, here under
a schedule in which worker 2 always answers first and worker 0 last -/
example : ∀ x, Sys.runOps Scripted.sem (Sys.init exEnvs) [[2], [2, 1], [2, 1, 0, 0], [1, 2]] exOps = some x →
    ∀ o ∈ x.2.2, ∀ r ∈ o.rews, roundF32 r = r := by decide +kernel

/-- … and the run returns auto-reset observations (tag of episode 1 for worker 2) and the results of the repeated
index list `[2, 0, 2]` in that order -/
example : ((Sys.runOps Scripted.sem (Sys.init exEnvs) [[2], [2, 1], [2, 1, 0, 0], [1, 2]] exOps).map
    (fun x => x.2.2.map (fun o => (o.obs, o.dones, o.results)))) =
    some [([], [], []), ([], [], []), ([0, 131072, 262144], [], []),
          ([1, 131328, 262400], [false, true, true], []),
          ([], [], [.int 5, .int 5, .int 10]), ([], [], []), ([], [], [.int 5, .int 0, .int 10]),
          ([256, 131584, 262401], [true, true, false], [])] := by decide +kernel

/-- a history with a split step, a `close` while a step is outstanding and a second `close`: inside the protocol -/
def exCalls : List (Call Int Nat) :=
  [.op .reset, .stepAsync [0, 1, 2], .stepWait, .op (.isWrapped "PassThrough" (.many [2, 0])), .stepAsync [3, 3, 3],
   .close, .close]

example : phaseAfter exEnvs.length .idle exCalls = some .closed := by decide

example : phaseAfter exEnvs.length .idle (exCalls.take 5) = some .waiting := by decide

end SB3Verif.C02
