/-
Helper lemmas for C03 (model: `SB3Verif/Model/Replay.lean`): modular arithmetic of the ring cursor,
`List.set`/`getD` facts, the representation invariant `Inv` (arrays ↔ rows added since the last reset),
its preservation by `add` / `reset`, and what `get` / `sampleSlots` read through it.
-/
import SB3Verif.Model.Replay
import Mathlib.Tactic.Ring
import Mathlib.Tactic.Linarith

set_option linter.unnecessarySeqFocus false
set_option linter.unusedSimpArgs false

namespace SB3Verif.Lemmas.Replay
open SB3Verif.Replay

theorem mod_ne_of_lt {cap a b : ℕ} (h1 : a < b) (h2 : b < a + cap) : a % cap ≠ b % cap := by
  intro h
  have hd : cap ∣ b - a := Nat.dvd_of_mod_eq_zero (Nat.sub_mod_eq_zero_of_mod_eq h.symm)
  have := Nat.le_of_dvd (by omega) hd
  omega

theorem succ_mod_wrap {cap p : ℕ} (hp : p < cap) : (if p + 1 = cap then 0 else p + 1) = (p + 1) % cap := by
  split
  · next h => rw [h, Nat.mod_self]
  · next h => rw [Nat.mod_eq_of_lt (by omega)]

theorem succ_mod {cap L : ℕ} : (L + 1) % cap = (L % cap + 1) % cap :=
  (Nat.mod_add_mod L cap 1).symm

theorem exists_in_window {cap L s : ℕ} (hL : cap ≤ L) (hs : s < cap) :
    ∃ a, a < L ∧ L ≤ a + cap ∧ a % cap = s := by
  have hc : 0 < cap := by omega
  have hdm := Nat.div_add_mod L cap
  have hr := Nat.mod_lt L hc
  have hq : 1 ≤ L / cap := (Nat.one_le_div_iff hc).mpr hL
  obtain ⟨q, hq'⟩ : ∃ q, L / cap = q + 1 := ⟨L / cap - 1, by omega⟩
  rw [hq'] at hdm
  have hm : cap * (q + 1) = cap * q + cap := by ring
  by_cases h : s < L % cap
  · refine ⟨cap * (q + 1) + s, by omega, by omega, ?_⟩
    rw [Nat.mul_add_mod]; exact Nat.mod_eq_of_lt hs
  · refine ⟨cap * q + s, by omega, by omega, ?_⟩
    rw [Nat.mul_add_mod]; exact Nat.mod_eq_of_lt hs

theorem getD_set {β : Type} (A : List β) (i j : ℕ) (v d : β) :
    (A.set i v).getD j d = if i = j ∧ i < A.length then v else A.getD j d := by
  simp only [List.getD_eq_getElem?_getD, List.getElem?_set]
  by_cases h : i = j
  · subst h
    by_cases h2 : i < A.length
    · simp [h2]
    · simp [h2]
  · simp [h]

theorem getD_append_one {β : Type} (H : List β) (r d : β) (a : ℕ) :
    (H ++ [r]).getD a d = if a = H.length then r else H.getD a d := by
  simp only [List.getD_eq_getElem?_getD]
  by_cases h : a < H.length
  · rw [List.getElem?_append_left h]; simp [Nat.ne_of_lt h]
  · by_cases h2 : a = H.length
    · subst h2; simp
    · rw [List.getElem?_eq_none (by simp; omega), List.getElem?_eq_none (by omega)]; simp [h2]

/-- `A` holds, at slot `a % cap`, the value `g a` for each of the (at most `cap`) most recent indices. -/
def Window {β : Type} (A : List β) (d : β) (cap L : ℕ) (g : ℕ → β) : Prop :=
  ∀ a, a < L → L ≤ a + cap → A.getD (a % cap) d = g a

/-- the same for the `cap - 1` most recent indices -/
def WindowS {β : Type} (A : List β) (d : β) (cap L : ℕ) (g : ℕ → β) : Prop :=
  ∀ a, a < L → L < a + cap → A.getD (a % cap) d = g a

theorem Window.push {β : Type} {A : List β} {d : β} {cap L : ℕ} {g : ℕ → β}
    (hA : A.length = cap) (hc : 0 < cap) (h : Window A d cap L g) (v : β) :
    Window (A.set (L % cap) v) d cap (L + 1) (fun a => if a = L then v else g a) := by
  intro a ha hw
  rw [getD_set]
  by_cases hL : a = L
  · subst hL; simp [hA, Nat.mod_lt _ hc]
  · have hne : a % cap ≠ L % cap := mod_ne_of_lt (by omega) (by omega)
    simp only [hL, if_false]
    rw [if_neg (by intro h'; exact hne h'.1.symm)]
    exact h a (by omega) (by omega)

theorem WindowS.push2 {β : Type} {A : List β} {d : β} {cap L : ℕ} {g : ℕ → β}
    (hA : A.length = cap) (hc : 0 < cap) (h : WindowS A d cap L g) (v w : β) :
    WindowS ((A.set (L % cap) v).set ((L % cap + 1) % cap) w) d cap (L + 1) (fun a => if a = L then v else g a)
    ∧ ((A.set (L % cap) v).set ((L % cap + 1) % cap) w).getD ((L + 1) % cap) d = w := by
  rw [← succ_mod]
  constructor
  · intro a ha hw
    have hne1 : a % cap ≠ (L + 1) % cap := mod_ne_of_lt (by omega) (by omega)
    rw [getD_set, if_neg (by intro h'; exact hne1 h'.1.symm), getD_set]
    by_cases hL : a = L
    · subst hL; simp [hA, Nat.mod_lt _ hc]
    · have hne : a % cap ≠ L % cap := mod_ne_of_lt (by omega) (by omega)
      simp only [hL, if_false]
      rw [if_neg (by intro h'; exact hne h'.1.symm)]
      exact h a (by omega) (by omega)
  · rw [getD_set]; simp [hA, Nat.mod_lt _ hc]

theorem cap_pos (c : Cfg) : 0 < c.cap := by
  unfold Cfg.cap; omega

/-- The representation invariant tying the arrays to the rows added since the last reset. -/
structure Inv (c : Cfg) (b : Buf) (H : List Row) : Prop where
  cfg_eq : b.cfg = c
  pos_eq : b.pos = H.length % c.cap
  full_eq : b.full = decide (c.cap ≤ H.length)
  l_obs : b.obsA.length = c.cap
  l_next : b.nextA.length = c.cap
  l_act : b.actA.length = c.cap
  l_rew : b.rewA.length = c.cap
  l_done : b.doneA.length = c.cap
  l_to : b.toA.length = c.cap
  act_w : Window b.actA [] c.cap H.length (fun a => (H.getD a []).map (·.act))
  rew_w : Window b.rewA [] c.cap H.length (fun a => (H.getD a []).map (·.rew))
  done_w : Window b.doneA [] c.cap H.length (fun a => (H.getD a []).map (fun t => b2i t.done))
  to_w : c.hto = true → Window b.toA [] c.cap H.length (fun a => (H.getD a []).map (fun t => b2i t.timeout))
  to_z : c.hto = false → b.toA = zerosI c.cap c.nEnvs
  obs_w : c.memopt = false → Window b.obsA [] c.cap H.length (fun a => (H.getD a []).map (·.obs))
  next_w : c.memopt = false → Window b.nextA [] c.cap H.length (fun a => (H.getD a []).map (·.next))
  obs_ws : c.memopt = true → WindowS b.obsA [] c.cap H.length (fun a => (H.getD a []).map (·.obs))
  obs_last : c.memopt = true → 0 < H.length →
    b.obsA.getD (H.length % c.cap) [] = (H.getD (H.length - 1) []).map (·.next)

theorem inv_init (c : Cfg) : Inv c (Buf.init c) [] := by
  have hc := cap_pos c
  constructor <;> (simp [Buf.init, zerosN, zerosI, Window, WindowS]) <;> omega

theorem window_congr {β : Type} {A : List β} {d : β} {cap L : ℕ} {g g' : ℕ → β}
    (h : Window A d cap L g) (hg : ∀ a, a < L → g a = g' a) : Window A d cap L g' :=
  fun a ha hw => (h a ha hw).trans (hg a ha)

theorem windowS_congr {β : Type} {A : List β} {d : β} {cap L : ℕ} {g g' : ℕ → β}
    (h : WindowS A d cap L g) (hg : ∀ a, a < L → g a = g' a) : WindowS A d cap L g' :=
  fun a ha hw => (h a ha hw).trans (hg a ha)

theorem push_row {β : Type} {A : List (List β)} {cap : ℕ} {H : List Row} (f : Trans → β)
    (hA : A.length = cap) (hc : 0 < cap)
    (h : Window A [] cap H.length (fun a => (H.getD a []).map f)) (row : Row) :
    Window (A.set (H.length % cap) (row.map f)) [] cap (H ++ [row]).length
      (fun a => ((H ++ [row]).getD a []).map f) := by
  rw [List.length_append, List.length_singleton]
  refine window_congr (Window.push hA hc h (row.map f)) ?_
  intro a _
  rw [getD_append_one]
  split <;> rfl

theorem inv_reset {c : Cfg} {b : Buf} {H : List Row} (h : Inv c b H) : Inv c b.reset [] := by
  have hc := cap_pos c
  constructor
  · exact h.cfg_eq
  · simp [Buf.reset]
  · simp [Buf.reset]; omega
  · exact h.l_obs
  · exact h.l_next
  · exact h.l_act
  · exact h.l_rew
  · exact h.l_done
  · exact h.l_to
  · intro a ha; simp at ha
  · intro a ha; simp at ha
  · intro a ha; simp at ha
  · intro _ a ha; simp at ha
  · exact h.to_z
  · intro _ a ha; simp at ha
  · intro _ a ha; simp at ha
  · intro _ a ha; simp at ha
  · intro _ h0; simp at h0

theorem inv_add {c : Cfg} {b : Buf} {H : List Row} (h : Inv c b H) (row : Row) :
    Inv c (b.add row) (H ++ [row]) := by
  have hc := cap_pos c
  have hcfg := h.cfg_eq
  have hpos := h.pos_eq
  have hp : H.length % c.cap < c.cap := Nat.mod_lt _ hc
  have hlen : (H ++ [row]).length = H.length + 1 := by simp
  constructor
  · exact hcfg
  · -- pos
    show (if b.pos + 1 = b.cfg.cap then 0 else b.pos + 1) = _
    rw [hcfg, hpos, hlen, succ_mod_wrap hp, ← succ_mod]
  · -- full
    show (if b.pos + 1 = b.cfg.cap then true else b.full) = _
    rw [hcfg, hpos, h.full_eq, hlen]
    have hdm := Nat.div_add_mod H.length c.cap
    by_cases hw : H.length % c.cap + 1 = c.cap
    · simp only [hw, if_true]
      symm; rw [decide_eq_true_eq]
      have : c.cap * (H.length / c.cap) ≥ 0 := Nat.zero_le _
      omega
    · simp only [hw, if_false]
      by_cases hfull : c.cap ≤ H.length
      · simp [hfull]; omega
      · have hlt : H.length < c.cap := by omega
        rw [Nat.mod_eq_of_lt hlt] at hw
        simp [hfull]; omega
  · show (if b.cfg.memopt then _ else _ : List (List ℕ)).length = _
    split <;> simp [h.l_obs]
  · show (if b.cfg.memopt then _ else _ : List (List ℕ)).length = _
    split <;> simp [h.l_next]
  · simp [Buf.add, h.l_act]
  · simp [Buf.add, h.l_rew]
  · simp [Buf.add, h.l_done]
  · show (if b.cfg.hto then _ else _ : List (List ℤ)).length = _
    split <;> simp [h.l_to]
  · show Window (b.actA.set b.pos _) _ _ _ _
    rw [hpos]; exact push_row (·.act) h.l_act hc h.act_w row
  · show Window (b.rewA.set b.pos _) _ _ _ _
    rw [hpos]; exact push_row (·.rew) h.l_rew hc h.rew_w row
  · show Window (b.doneA.set b.pos _) _ _ _ _
    rw [hpos]; exact push_row (fun t => b2i t.done) h.l_done hc h.done_w row
  · intro hto
    show Window (if b.cfg.hto then _ else _) _ _ _ _
    rw [hcfg, hto, if_pos rfl, hpos]
    exact push_row (fun t => b2i t.timeout) h.l_to hc (h.to_w hto) row
  · intro hto
    show (if b.cfg.hto then _ else _) = _
    rw [hcfg, hto]; simp only [Bool.false_eq_true, if_false]; exact h.to_z hto
  · intro hm
    show Window (if b.cfg.memopt then _ else _) _ _ _ _
    rw [hcfg, hm]; simp only [Bool.false_eq_true, if_false]
    rw [hpos]; exact push_row (·.obs) h.l_obs hc (h.obs_w hm) row
  · intro hm
    show Window (if b.cfg.memopt then _ else _) _ _ _ _
    rw [hcfg, hm]; simp only [Bool.false_eq_true, if_false]
    rw [hpos]; exact push_row (·.next) h.l_next hc (h.next_w hm) row
  · intro hm
    show WindowS (if b.cfg.memopt then _ else _) _ _ _ _
    rw [hcfg, hm, if_pos rfl, hpos, hlen]
    refine windowS_congr (WindowS.push2 h.l_obs hc (h.obs_ws hm) _ _).1 ?_
    intro a _
    rw [getD_append_one]
    split <;> rfl
  · intro hm _
    show (if b.cfg.memopt then _ else _ : List (List ℕ)).getD _ _ = _
    rw [hcfg, hm, if_pos rfl, hpos, hlen]
    rw [(WindowS.push2 h.l_obs hc (h.obs_ws hm) _ _).2]
    simp

theorem inv_run_aux (c : Cfg) (ops : List Op) : ∀ (b : Buf) (H : List Row), Inv c b H →
    Inv c (ops.foldl Buf.step b) (ops.foldl histStep H) := by
  induction ops with
  | nil => intro b H h; exact h
  | cons op rest ih =>
    intro b H h
    cases op with
    | add row => exact ih _ _ (inv_add h row)
    | reset => exact ih _ _ (inv_reset h)

theorem inv_run (c : Cfg) (ops : List Op) : Inv c (run c ops) (histOf ops) :=
  inv_run_aux c ops _ _ (inv_init c)

/-! ### Reading the arrays through the invariant -/

/-- the done flag the property asks for -/
def specDone (c : Cfg) (t : Trans) : Int := b2i (t.done && !(c.hto && t.timeout))

theorem getD_map_nat (f : Trans → ℕ) (hf : f default = 0) (row : Row) (e : ℕ) :
    (row.map f).getD e 0 = f (row.getD e default) := by
  simp only [List.getD_eq_getElem?_getD, List.getElem?_map]
  cases row[e]? <;> simp [hf]

theorem getD_map_int (f : Trans → ℤ) (hf : f default = 0) (row : Row) (e : ℕ) :
    (row.map f).getD e 0 = f (row.getD e default) := by
  simp only [List.getD_eq_getElem?_getD, List.getElem?_map]
  cases row[e]? <;> simp [hf]

theorem cellI_zeros (cap n s e : ℕ) : cellI (zerosI cap n) s e = 0 := by
  unfold cellI zerosI
  simp only [List.getD_eq_getElem?_getD, List.getElem?_replicate]
  split <;> simp [List.getElem?_replicate] <;> split <;> simp

theorem mask_eq (hto d t : Bool) :
    b2i d * (1 - (if hto then b2i t else 0)) = b2i (d && !(hto && t)) := by
  cases hto <;> cases d <;> cases t <;> decide

structure InWin (c : Cfg) (H : List Row) (a : ℕ) : Prop where
  lt : a < H.length
  recent : H.length ≤ a + c.cap
  strict : c.memopt = true → H.length < a + c.cap

theorem get_spec {c : Cfg} {b : Buf} {H : List Row} (h : Inv c b H) {a : ℕ} (hw : InWin c H a) (e : ℕ) :
    (b.get (a % c.cap) e).obs = (cellOf H a e).obs ∧
    (b.get (a % c.cap) e).act = (cellOf H a e).act ∧
    (b.get (a % c.cap) e).rew = (cellOf H a e).rew ∧
    (b.get (a % c.cap) e).done = specDone c (cellOf H a e) ∧
    (c.memopt = false → (b.get (a % c.cap) e).next = (cellOf H a e).next) ∧
    (c.memopt = true → (b.get (a % c.cap) e).next =
      if a + 1 = H.length then (cellOf H a e).next else (cellOf H (a + 1) e).obs) := by
  obtain ⟨ha, hr, hs⟩ := hw
  have hcfg := h.cfg_eq
  refine ⟨?_, ?_, ?_, ?_, ?_, ?_⟩
  · show cellN b.obsA _ _ = _
    unfold cellN cellOf
    cases hm : c.memopt with
    | false => rw [h.obs_w hm a ha hr]; exact getD_map_nat (·.obs) rfl _ _
    | true => rw [h.obs_ws hm a ha (hs hm)]; exact getD_map_nat (·.obs) rfl _ _
  · show cellN b.actA _ _ = _
    unfold cellN cellOf
    rw [h.act_w a ha hr]; exact getD_map_nat (·.act) rfl _ _
  · show cellN b.rewA _ _ = _
    unfold cellN cellOf
    rw [h.rew_w a ha hr]; exact getD_map_nat (·.rew) rfl _ _
  · show cellI b.doneA _ _ * (1 - cellI b.toA _ _) = _
    have hd : cellI b.doneA (a % c.cap) e = b2i (cellOf H a e).done := by
      unfold cellI cellOf
      rw [h.done_w a ha hr]; exact getD_map_int (fun t => b2i t.done) rfl _ _
    have ht : cellI b.toA (a % c.cap) e = if c.hto then b2i (cellOf H a e).timeout else 0 := by
      cases hto : c.hto with
      | true =>
        unfold cellI cellOf
        rw [h.to_w hto a ha hr]; exact getD_map_int (fun t => b2i t.timeout) rfl _ _
      | false => rw [h.to_z hto, cellI_zeros]; rfl
    rw [hd, ht]; exact mask_eq _ _ _
  · intro hm
    show (if b.cfg.memopt then _ else cellN b.nextA _ _) = _
    rw [hcfg, hm]; simp only [Bool.false_eq_true, if_false]
    unfold cellN cellOf
    rw [h.next_w hm a ha hr]; exact getD_map_nat (·.next) rfl _ _
  · intro hm
    show (if b.cfg.memopt then cellN b.obsA ((a % c.cap + 1) % b.cfg.cap) e else _) = _
    rw [hcfg, hm, if_pos rfl, ← succ_mod]
    unfold cellN cellOf
    by_cases hl : a + 1 = H.length
    · rw [if_pos hl, hl, h.obs_last hm (by omega)]
      have : H.length - 1 = a := by omega
      rw [this]; exact getD_map_nat (·.next) rfl _ _
    · rw [if_neg hl, h.obs_ws hm (a + 1) (by omega) (by have := hs hm; omega)]
      exact getD_map_nat (·.obs) rfl _ _

/-! ### Which slots `sample` can draw -/

theorem mem_sampleSlots {b : Buf} {s : ℕ} :
    s ∈ b.sampleSlots ↔ ∃ k, b.drawRange.1 ≤ k ∧ k < b.drawRange.2 ∧ b.slotOfDraw k = s := by
  unfold Buf.sampleSlots
  simp only [List.mem_map, List.mem_range'_1]
  constructor
  · rintro ⟨k, ⟨h1, h2⟩, h3⟩; exact ⟨k, h1, by omega, h3⟩
  · rintro ⟨k, h1, h2, h3⟩; exact ⟨k, ⟨h1, by omega⟩, h3⟩

theorem slot_sound {c : Cfg} {b : Buf} {H : List Row} (h : Inv c b H) {s : ℕ} (hs : s ∈ b.sampleSlots) :
    ∃ a, InWin c H a ∧ a % c.cap = s := by
  have hc := cap_pos c
  obtain ⟨k, h1, h2, h3⟩ := mem_sampleSlots.mp hs
  unfold Buf.drawRange at h1 h2
  unfold Buf.slotOfDraw at h3
  rw [h.cfg_eq, h.full_eq, h.pos_eq] at h1 h2
  rw [h.cfg_eq, h.full_eq, h.pos_eq] at h3
  cases hm : c.memopt <;> by_cases hf : c.cap ≤ H.length <;> simp [hm, hf] at h1 h2 h3
  · -- standard, full
    subst h3
    obtain ⟨a, ha1, ha2, ha3⟩ := exists_in_window hf h2
    exact ⟨a, ⟨ha1, ha2, by simp [hm]⟩, ha3⟩
  · -- standard, not full
    subst h3
    rw [Nat.mod_eq_of_lt (by omega)] at h2
    exact ⟨k, ⟨h2, by omega, by simp [hm]⟩, Nat.mod_eq_of_lt (by omega)⟩
  · -- memory-optimised, full: slot (k + pos) % cap, 1 ≤ k < cap
    refine ⟨H.length - c.cap + k, ⟨by omega, by omega, fun _ => by omega⟩, ?_⟩
    rw [← h3, ← Nat.add_mod_right (H.length - c.cap + k) c.cap]
    have : H.length - c.cap + k + c.cap = k + H.length := by omega
    rw [this]
  · -- memory-optimised, not full
    subst h3
    rw [Nat.mod_eq_of_lt (by omega)] at h2
    exact ⟨k, ⟨h2, by omega, fun _ => by omega⟩, Nat.mod_eq_of_lt (by omega)⟩

theorem slot_complete {c : Cfg} {b : Buf} {H : List Row} (h : Inv c b H) {a : ℕ} (hw : InWin c H a) :
    a % c.cap ∈ b.sampleSlots := by
  have hc := cap_pos c
  obtain ⟨ha, hr, hs⟩ := hw
  rw [mem_sampleSlots]
  unfold Buf.drawRange Buf.slotOfDraw
  rw [h.cfg_eq, h.full_eq, h.pos_eq]
  cases hm : c.memopt <;> by_cases hf : c.cap ≤ H.length <;> simp [hm, hf]
  · exact Nat.mod_lt _ hc
  · rw [Nat.mod_eq_of_lt (by omega), Nat.mod_eq_of_lt (by omega)]; exact ha
  · have hs' := hs hm
    refine ⟨a + c.cap - H.length, by omega, by omega, ?_⟩
    have : a + c.cap - H.length + H.length = a + c.cap := by omega
    rw [this, Nat.add_mod_right]
  · rw [Nat.mod_eq_of_lt (by omega), Nat.mod_eq_of_lt (by omega)]; exact ha

theorem mem_domain {b : Buf} {s e : ℕ} : (s, e) ∈ b.domain ↔ s ∈ b.sampleSlots ∧ e < b.cfg.nEnvs := by
  unfold Buf.domain
  simp only [List.mem_flatMap, List.mem_map, List.mem_range, Prod.mk.injEq]
  constructor
  · rintro ⟨s', hs', e', he', rfl, rfl⟩; exact ⟨hs', he'⟩
  · rintro ⟨hs, he⟩; exact ⟨s, hs, e, he, rfl, rfl⟩

/-! ### size, emptiness, `sample` vs. the domain, well-formed rows -/

theorem size_eq {c : Cfg} {b : Buf} {H : List Row} (h : Inv c b H) : b.size = min H.length c.cap := by
  unfold Buf.size
  rw [h.cfg_eq, h.full_eq, h.pos_eq]
  by_cases hf : c.cap ≤ H.length
  · simp [hf]
  · simp [hf]; rw [Nat.mod_eq_of_lt (by omega)]; omega

theorem range_empty_iff {c : Cfg} {b : Buf} {H : List Row} (h : Inv c b H) :
    ¬ (b.drawRange.1 < b.drawRange.2) ↔ (H.length = 0 ∨ (c.memopt = true ∧ c.cap = 1)) := by
  have hc := cap_pos c
  unfold Buf.drawRange
  rw [h.cfg_eq, h.full_eq, h.pos_eq]
  cases hm : c.memopt <;> by_cases hf : c.cap ≤ H.length
  · simp only [Bool.false_eq_true, if_false, decide_eq_true_eq, hf, if_true, false_and, or_false]; omega
  · have : H.length % c.cap = H.length := Nat.mod_eq_of_lt (by omega)
    simp only [Bool.false_eq_true, if_false, decide_eq_true_eq, hf, this, false_and, or_false]; omega
  · simp only [if_true, decide_eq_true_eq, hf, true_and]; omega
  · have : H.length % c.cap = H.length := Nat.mod_eq_of_lt (by omega)
    simp only [if_true, decide_eq_true_eq, hf, if_false, this, true_and]; omega

theorem sample_some {b : Buf} {draws : List (ℕ × ℕ)} {out : List Sampled} (h : b.sample draws = some out) :
    out = draws.map (fun d => b.get (b.slotOfDraw d.1) d.2) ∧
    ∀ d ∈ draws, (b.slotOfDraw d.1, d.2) ∈ b.domain := by
  unfold Buf.sample at h
  simp only at h
  split at h
  · next hc =>
    obtain ⟨_, hall⟩ := hc
    refine ⟨by simpa using h.symm, ?_⟩
    intro d hd
    have := List.all_eq_true.mp hall d hd
    simp only [Bool.and_eq_true, decide_eq_true_eq] at this
    rw [mem_domain, mem_sampleSlots]
    exact ⟨⟨d.1, this.1.1, this.1.2, rfl⟩, this.2⟩
  · simp at h

theorem wf_fold (n : ℕ) (ops : List Op) : ∀ H, WF n H → ops.all (Op.wf n) = true → WF n (ops.foldl histStep H) := by
  induction ops with
  | nil => intro H h _; exact h
  | cons op rest ih =>
    intro H h hall
    simp only [List.all_cons, Bool.and_eq_true] at hall
    apply ih _ _ hall.2
    cases op with
    | add row =>
      intro r hr
      simp only [histStep, List.mem_append, List.mem_singleton] at hr
      rcases hr with hr | hr
      · exact h r hr
      · subst hr; simpa [Op.wf] using hall.1
    | reset => intro r hr; simp [histStep] at hr

theorem wf_histOf (n : ℕ) (ops : List Op) (h : ops.all (Op.wf n) = true) : WF n (histOf ops) :=
  wf_fold n ops [] (by intro r hr; simp at hr) h

theorem cellOf_getElem {n : ℕ} {H : List Row} (hwf : WF n H) {a e : ℕ} (ha : a < H.length) (he : e < n) :
    ∃ (he' : e < H[a].length), cellOf H a e = H[a][e] := by
  have hl : H[a].length = n := hwf _ (List.getElem_mem ha)
  refine ⟨by omega, ?_⟩
  unfold cellOf
  simp [List.getD_eq_getElem?_getD, ha, hl, he]


/-! ### Example data used by the non-vacuity `example`s of `Props/C03.lean` -/

/-- capacity `7 // 2 = 3`, two environments, 5 adds (wraps), standard variant with timeout handling -/
def exOps : List Op :=
  (List.range 5).map fun a => Op.add [⟨10 * a + 1, 10 * a + 2, 10 * a + 3, 10 * a + 4, a % 2 == 1, a == 3⟩,
                                      ⟨10 * a + 5, 10 * a + 6, 10 * a + 7, 10 * a + 8, a == 2, false⟩]

def exCfg : Cfg := ⟨7, 2, false, true, false⟩

/-- memory-optimised, capacity 3, full after 4 chained adds: two drawable slots, slot `pos` excluded -/
def exMem : Cfg := ⟨3, 1, true, false, false⟩
def exMemOps : List Op :=
  [.add [⟨1, 2, 101, 201, false, false⟩], .add [⟨2, 3, 102, 202, true, false⟩],
   .add [⟨7, 8, 103, 203, false, false⟩], .add [⟨8, 9, 104, 204, false, false⟩]]

end SB3Verif.Lemmas.Replay
