/-
Helper lemmas for property C09 (model: `SB3Verif/Model/SaveLoad.lean`).
-/
import SB3Verif.Model.SaveLoad

namespace SB3Verif.SaveLoad.Lemmas

open SB3Verif.SaveLoad

/-! ### insertion-ordered dictionaries -/

theorem nodupB_iff (l : List String) : nodupB l = true ↔ l.Nodup := by
  induction l with
  | nil => simp [nodupB]
  | cons x xs ih => simp [nodupB, ih, List.nodup_cons]

theorem dictSet_of_not_mem {β : Type} (d : List (String × β)) (k : String) (v : β)
    (h : k ∉ d.map (·.1)) : dictSet d k v = d ++ [(k, v)] := by
  induction d with
  | nil => simp [dictSet]
  | cons a r ih =>
    obtain ⟨k', v'⟩ := a
    simp only [List.map_cons, List.mem_cons, not_or] at h
    have hne : ¬ k' = k := fun e => h.1 e.symm
    simp [dictSet, hne, ih h.2]

theorem dictSet_keys_of_mem {β : Type} (d : List (String × β)) (k : String) (v : β)
    (h : k ∈ d.map (·.1)) : (dictSet d k v).map (·.1) = d.map (·.1) := by
  induction d with
  | nil => simp at h
  | cons a r ih =>
    obtain ⟨k', v'⟩ := a
    by_cases e : k' = k
    · simp [dictSet, e]
    · simp only [List.map_cons, List.mem_cons] at h
      have : k ∈ r.map (·.1) := by
        rcases h with h | h
        · exact absurd h.symm e
        · exact h
      simp [dictSet, e, ih this]

theorem dictSet_keys_nodup {β : Type} (d : List (String × β)) (k : String) (v : β)
    (h : (d.map (·.1)).Nodup) : ((dictSet d k v).map (·.1)).Nodup := by
  by_cases hm : k ∈ d.map (·.1)
  · rw [dictSet_keys_of_mem d k v hm]; exact h
  · rw [dictSet_of_not_mem d k v hm]
    simp only [List.map_append, List.map_cons, List.map_nil]
    exact List.nodup_append.mpr ⟨h, by simp, by
      intro a ha b hb
      simp at hb
      subst hb
      exact fun e => hm (e ▸ ha)⟩

theorem dictGet_dictSet_same {β : Type} (d : List (String × β)) (k : String) (v : β) :
    dictGet (dictSet d k v) k = some v := by
  induction d with
  | nil => simp [dictSet, dictGet]
  | cons a r ih =>
    obtain ⟨k', v'⟩ := a
    by_cases e : k' = k
    · simp [dictSet, dictGet, e]
    · simp [dictSet, dictGet, e, ih]

theorem dictGet_dictSet_other {β : Type} (d : List (String × β)) (k k2 : String) (v : β) (h : k ≠ k2) :
    dictGet (dictSet d k v) k2 = dictGet d k2 := by
  induction d with
  | nil =>
    simp [dictSet, dictGet, h]
  | cons a r ih =>
    obtain ⟨k', v'⟩ := a
    by_cases e : k' = k
    · subst e
      simp [dictSet, dictGet, h]
    · by_cases e2 : k' = k2
      · subst e2
        simp [dictSet, dictGet, e]
      · simp [dictSet, dictGet, e, e2, ih]

theorem dictGet_eq_none_iff {β : Type} (d : List (String × β)) (k : String) :
    dictGet d k = none ↔ k ∉ d.map (·.1) := by
  induction d with
  | nil => simp [dictGet]
  | cons a r ih =>
    obtain ⟨k', v'⟩ := a
    by_cases e : k' = k
    · simp [dictGet, e]
    · have e' : ¬ k = k' := fun h => e h.symm
      simp [dictGet, e, e', ih]

theorem dictUpdate_nil {β : Type} (d : List (String × β)) : dictUpdate d [] = d := rfl

theorem dictUpdate_cons {β : Type} (d : List (String × β)) (kv : String × β) (r : List (String × β)) :
    dictUpdate d (kv :: r) = dictUpdate (dictSet d kv.1 kv.2) r := rfl

/-- assigning items whose keys are new and pairwise different appends them -/
theorem dictUpdate_fresh {β : Type} (d items : List (String × β))
    (h : ((d ++ items).map (·.1)).Nodup) : dictUpdate d items = d ++ items := by
  induction items generalizing d with
  | nil => simp [dictUpdate_nil]
  | cons a r ih =>
    rw [dictUpdate_cons]
    have hk : a.1 ∉ d.map (·.1) := by
      intro hm
      simp only [List.map_append, List.map_cons] at h
      have := (List.nodup_append.mp h).2.2 a.1 hm a.1 (by simp)
      exact this rfl
    rw [dictSet_of_not_mem d a.1 a.2 hk]
    have : ((d ++ [(a.1, a.2)] ++ r).map (·.1)).Nodup := by simpa using h
    rw [ih _ this]
    simp

theorem dictUpdate_nil_fresh {β : Type} (items : List (String × β)) (h : (items.map (·.1)).Nodup) :
    dictUpdate [] items = items := by
  simpa using dictUpdate_fresh [] items (by simpa using h)

/-! ### `json.loads (json.dumps v) = v` for JSON-native values -/

theorem strDict_keys (l : List (String × PyVal)) : strKeys (strDict l) = l.map (·.1) := by
  induction l with
  | nil => rfl
  | cons a r ih => simp_all [strKeys, strDict, strKey?]

mutual
theorem native_rt (E : Ext) : ∀ (v : PyVal), isNative v = true → wfKeys v = true →
    ∃ j, jsonDumps E v = some j ∧ jsonLoads j = v
  | .none, _, _ => ⟨.null, by simp [jsonDumps, jsonLoads]⟩
  | .bool b, _, _ => ⟨.bool b, by simp [jsonDumps, jsonLoads]⟩
  | .int i, _, _ => ⟨.int i, by simp [jsonDumps, jsonLoads]⟩
  | .float b, _, _ => ⟨.float b, by simp [jsonDumps, jsonLoads]⟩
  | .str s, _, _ => ⟨.str s, by simp [jsonDumps, jsonLoads]⟩
  | .list xs, hn, hw => by
    simp only [isNative] at hn
    simp only [wfKeys] at hw
    obtain ⟨js, h1, h2⟩ := native_rt_list E xs hn hw
    exact ⟨.arr js, by simp [jsonDumps, h1], by simp [jsonLoads, h2]⟩
  | .tuple _, hn, _ => by simp [isNative] at hn
  | .obj _ _ _ _, hn, _ => by simp [isNative] at hn
  | .dict kvs, hn, hw => by
    simp only [isNative] at hn
    simp only [wfKeys, Bool.and_eq_true] at hw
    obtain ⟨js, h1, h2⟩ := native_rt_items E kvs hn hw.2
    refine ⟨.obj js, by simp [jsonDumps, h1], ?_⟩
    have hk : ((loadsItems js).map (·.1)).Nodup := by
      rw [← strDict_keys, h2]; exact (nodupB_iff _).mp hw.1
    simp [jsonLoads, dictUpdate_nil_fresh _ hk, h2]
theorem native_rt_list (E : Ext) : ∀ (xs : List PyVal), allNative xs = true → wfKeysList xs = true →
    ∃ js, dumpsList E xs = some js ∧ loadsList js = xs
  | [], _, _ => ⟨[], by simp [dumpsList, loadsList]⟩
  | x :: xs, hn, hw => by
    simp only [allNative, Bool.and_eq_true] at hn
    simp only [wfKeysList, Bool.and_eq_true] at hw
    obtain ⟨j, h1, h2⟩ := native_rt E x hn.1 hw.1
    obtain ⟨js, h3, h4⟩ := native_rt_list E xs hn.2 hw.2
    exact ⟨j :: js, by simp [dumpsList, h1, h3], by simp [loadsList, h2, h4]⟩
theorem native_rt_items (E : Ext) : ∀ (kvs : List (PyVal × PyVal)), allNativeItems kvs = true →
    wfKeysItems kvs = true → ∃ js, dumpsItems E kvs = some js ∧ strDict (loadsItems js) = kvs
  | [], _, _ => ⟨[], by simp [dumpsItems, loadsItems, strDict]⟩
  | (k, v) :: r, hn, hw => by
    simp only [allNativeItems, Bool.and_eq_true] at hn
    simp only [wfKeysItems, Bool.and_eq_true] at hw
    obtain ⟨j, h1, h2⟩ := native_rt E v hn.1.2 hw.1.2
    obtain ⟨js, h3, h4⟩ := native_rt_items E r hn.2 hw.2
    cases k with
    | str s =>
      refine ⟨(s, j) :: js, by simp [dumpsItems, jsonKey, h1, h3], ?_⟩
      simp only [strDict] at h4
      simp [loadsItems, strDict, h2, h4]
    | _ => simp at hn
end
/-! ### string-keyed dictionaries through dumps / loads -/

/-- dump every value of a string-keyed dictionary and load it again -/
def dumpLoad (E : Ext) : List (String × PyVal) → Option (List (String × PyVal))
  | [] => some []
  | (k, v) :: r =>
    match jsonDumps E v, dumpLoad E r with
    | some j, some r' => some ((k, jsonLoads j) :: r')
    | _, _ => none

theorem dumpsItems_strDict (E : Ext) (l : List (String × PyVal)) :
    (dumpsItems E (strDict l)).map loadsItems = dumpLoad E l := by
  induction l with
  | nil => simp [strDict, dumpsItems, dumpLoad, loadsItems]
  | cons a r ih =>
    obtain ⟨k, v⟩ := a
    simp only [strDict, List.map_cons] at ih ⊢
    simp only [dumpsItems, jsonKey, dumpLoad]
    cases h1 : jsonDumps E v <;> cases h2 : dumpsItems E (List.map (fun kv => (PyVal.str kv.1, kv.2)) r) <;>
      simp [h2] at ih <;> simp [← ih, loadsItems]

theorem dumpLoad_keys (E : Ext) (l l' : List (String × PyVal)) (h : dumpLoad E l = some l') :
    l'.map (·.1) = l.map (·.1) := by
  induction l generalizing l' with
  | nil => simp [dumpLoad] at h; simp [h]
  | cons a r ih =>
    obtain ⟨k, v⟩ := a
    simp only [dumpLoad] at h
    cases h1 : jsonDumps E v <;> cases h2 : dumpLoad E r <;> simp [h1, h2] at h
    subst h
    simp [ih _ h2]

theorem dumpLoad_isSome (E : Ext) (l : List (String × PyVal))
    (h : ∀ kv ∈ l, isJsonSerializable E kv.2 = true) : ∃ l', dumpLoad E l = some l' := by
  induction l with
  | nil => exact ⟨[], rfl⟩
  | cons a r ih =>
    obtain ⟨k, v⟩ := a
    obtain ⟨r', hr⟩ := ih (fun kv hkv => h kv (List.mem_cons_of_mem _ hkv))
    have hv := h (k, v) (by simp)
    simp only [isJsonSerializable, Option.isSome_iff_exists] at hv
    obtain ⟨j, hj⟩ := hv
    exact ⟨(k, jsonLoads j) :: r', by simp [dumpLoad, hj, hr]⟩

theorem dumpLoad_get (E : Ext) (l l' : List (String × PyVal)) (h : dumpLoad E l = some l') (k : String) :
    dictGet l' k = (dictGet l k).bind fun v => (jsonDumps E v).map jsonLoads := by
  induction l generalizing l' with
  | nil => simp [dumpLoad] at h; simp [h, dictGet]
  | cons a r ih =>
    obtain ⟨k0, v⟩ := a
    simp only [dumpLoad] at h
    cases h1 : jsonDumps E v <;> cases h2 : dumpLoad E r <;> simp [h1, h2] at h
    subst h
    by_cases e : k0 = k
    · simp [dictGet, e, h1]
    · simp [dictGet, e, ih _ h2]

theorem lookupStr_strDict (l : List (String × PyVal)) (k : String) : lookupStr (strDict l) k = dictGet l k := by
  induction l with
  | nil => rfl
  | cons a r ih =>
    obtain ⟨k0, v⟩ := a
    simp only [strDict, List.map_cons] at ih ⊢
    by_cases e : k0 = k
    · simp [lookupStr, strKey?, dictGet, e]
    · simp [lookupStr, strKey?, dictGet, e, ih]

/-- `json.loads(json.dumps(d))` for a dictionary with pairwise different string keys -/
theorem dumps_loads_strDict (E : Ext) (l : List (String × PyVal)) (hk : (l.map (·.1)).Nodup)
    (hs : ∀ kv ∈ l, isJsonSerializable E kv.2 = true) :
    ∃ j l', jsonDumps E (.dict (strDict l)) = some j ∧ dumpLoad E l = some l' ∧
      jsonLoads j = .dict (strDict l') := by
  obtain ⟨l', hl'⟩ := dumpLoad_isSome E l hs
  have h1 := dumpsItems_strDict E l
  rw [hl'] at h1
  cases h2 : dumpsItems E (strDict l) with
  | none => simp [h2] at h1
  | some items =>
    simp [h2] at h1
    refine ⟨.obj items, l', by simp [jsonDumps, h2], hl', ?_⟩
    have hk' : ((loadsItems items).map (·.1)).Nodup := by
      rw [h1, dumpLoad_keys E l l' hl']; exact hk
    rw [h1] at hk'
    simp [jsonLoads, h1, dictUpdate_nil_fresh _ hk']

/-! ### `data_to_json` -/

theorem mem_dictSet {β : Type} (d : List (String × β)) (k : String) (v : β) (kv : String × β)
    (h : kv ∈ dictSet d k v) : kv ∈ d ∨ kv = (k, v) := by
  induction d with
  | nil => simp [dictSet] at h; exact Or.inr h
  | cons a r ih =>
    obtain ⟨k', v'⟩ := a
    by_cases e : k' = k
    · simp only [dictSet, e, if_true, List.mem_cons] at h
      rcases h with h | h
      · exact Or.inr (by rw [h])
      · exact Or.inl (List.mem_cons_of_mem _ h)
    · simp only [dictSet, e, if_false, List.mem_cons] at h
      rcases h with h | h
      · exact Or.inl (by rw [h]; simp)
      · rcases ih h with h | h
        · exact Or.inl (List.mem_cons_of_mem _ h)
        · exact Or.inr h

/-- an invariant of the values is kept by a sequence of assignments -/
theorem foldl_dictSet_all {α β : Type} (P : β → Prop) (f : α → String) (g : α → β) (items : List α)
    (d : List (String × β)) (hd : ∀ kv ∈ d, P kv.2) (hg : ∀ a ∈ items, P (g a)) :
    ∀ kv ∈ items.foldl (fun acc a => dictSet acc (f a) (g a)) d, P kv.2 := by
  induction items generalizing d with
  | nil => simpa using hd
  | cons a r ih =>
    simp only [List.foldl_cons]
    apply ih
    · intro kv hkv
      rcases mem_dictSet _ _ _ _ hkv with h | h
      · exact hd kv h
      · rw [h]; exact hg a (by simp)
    · exact fun b hb => hg b (List.mem_cons_of_mem _ hb)

theorem foldl_dictSet_nodup {α β : Type} (f : α → String) (g : α → β) (items : List α)
    (d : List (String × β)) (hd : (d.map (·.1)).Nodup) :
    ((items.foldl (fun acc a => dictSet acc (f a) (g a)) d).map (·.1)).Nodup := by
  induction items generalizing d with
  | nil => simpa using hd
  | cons a r ih =>
    simp only [List.foldl_cons]
    exact ih _ (dictSet_keys_nodup _ _ _ hd)

theorem infoValue_serializable (E : Ext) (x : PyVal) : isJsonSerializable E (infoValue E x) = true := by
  unfold infoValue
  split
  · assumption
  · simp [isJsonSerializable, jsonDumps]

theorem pickledEntry_nodup (E : Ext) (v : PyVal) : ((pickledEntry E v).map (·.1)).Nodup := by
  unfold pickledEntry
  apply foldl_dictSet_nodup (fun kx : PyVal × PyVal => keyStr E kx.1) (fun kx => infoValue E kx.2)
  simp

theorem pickledEntry_serializable (E : Ext) (v : PyVal) :
    ∀ kv ∈ pickledEntry E v, isJsonSerializable E kv.2 = true := by
  unfold pickledEntry
  apply foldl_dictSet_all (fun x => isJsonSerializable E x = true)
    (fun kx : PyVal × PyVal => keyStr E kx.1) (fun kx => infoValue E kx.2)
  · intro kv hkv
    simp at hkv
    rcases hkv with h | h <;> simp [h, isJsonSerializable, jsonDumps]
  · exact fun a _ => infoValue_serializable E a.2

theorem storeAttr_serializable (E : Ext) (v : PyVal) : isJsonSerializable E (storeAttr E v) = true := by
  unfold storeAttr
  by_cases h : (isJsonSerializable E v && isNative v) = true
  · simp only [h, if_true]
    simp only [Bool.and_eq_true] at h
    exact h.1
  · simp only [h]
    obtain ⟨j, _, hj, _⟩ := dumps_loads_strDict E (pickledEntry E v) (pickledEntry_nodup E v)
      (pickledEntry_serializable E v)
    simp [isJsonSerializable, hj]

theorem serializableData_nodup (E : Ext) (d : List (String × PyVal)) :
    ((serializableData E d).map (·.1)).Nodup := by
  unfold serializableData
  exact foldl_dictSet_nodup (fun kv : String × PyVal => kv.1) (fun kv => storeAttr E kv.2) d [] (by simp)

theorem serializableData_serializable (E : Ext) (d : List (String × PyVal)) :
    ∀ kv ∈ serializableData E d, isJsonSerializable E kv.2 = true := by
  unfold serializableData
  apply foldl_dictSet_all (fun x => isJsonSerializable E x = true)
    (fun kv : String × PyVal => kv.1) (fun kv => storeAttr E kv.2)
  · simp
  · exact fun a _ => storeAttr_serializable E a.2

/-- `data_to_json` never raises -/
theorem dataToJson_isSome (E : Ext) (d : List (String × PyVal)) : ∃ j, dataToJson E d = some j := by
  obtain ⟨j, _, hj, _⟩ := dumps_loads_strDict E (serializableData E d) (serializableData_nodup E d)
    (serializableData_serializable E d)
  exact ⟨j, hj⟩

/-- with pairwise different attribute names `serializable_data` is the attribute list, value by value -/
theorem serializableData_eq_map (E : Ext) (d : List (String × PyVal)) (h : (d.map (·.1)).Nodup) :
    serializableData E d = d.map fun kv => (kv.1, storeAttr E kv.2) := by
  have : ∀ (acc : List (String × PyVal)), ((acc.map (·.1)) ++ d.map (·.1)).Nodup →
      d.foldl (fun acc kv => dictSet acc kv.1 (storeAttr E kv.2)) acc =
        acc ++ d.map fun kv => (kv.1, storeAttr E kv.2) := by
    induction d with
    | nil => intro acc _; simp
    | cons a r ih =>
      intro acc hn
      simp only [List.foldl_cons, List.map_cons]
      have hk : a.1 ∉ acc.map (·.1) := by
        intro hm
        exact (List.nodup_append.mp hn).2.2 a.1 hm a.1 (by simp) rfl
      rw [dictSet_of_not_mem acc a.1 _ hk]
      have hr : (r.map (·.1)).Nodup := by
        have := (List.nodup_cons.mp h).2
        exact this
      rw [ih hr]
      · simp
      · simpa using hn
  unfold serializableData
  simpa using this [] (by simpa using h)

/-! ### `json_to_data ∘ data_to_json` -/

/-- what the round-trip theorem assumes of one attribute value -/
structure ItemOk (E : Ext) (v : PyVal) : Prop where
  wf : wfKeys v = true
  /-- needed only when the value goes through cloudpickle -/
  pickleOk : (isJsonSerializable E v && isNative v) = false → E.unpickle (E.pickle v) = .ok v
  noKey : ∀ kx ∈ infoItems v, keyStr E kx.1 ≠ ":serialized:"

theorem lookupStr_none (E : Ext) (kvs : List (PyVal × PyVal)) (k : String)
    (h : ∀ kx ∈ kvs, keyStr E kx.1 ≠ k) : lookupStr kvs k = none := by
  induction kvs with
  | nil => rfl
  | cons a r ih =>
    obtain ⟨k0, v0⟩ := a
    have h0 := h (k0, v0) (by simp)
    have hr := ih (fun kx hkx => h kx (List.mem_cons_of_mem _ hkx))
    cases k0 <;> simp_all [lookupStr, strKey?, keyStr]

theorem dictGet_foldl_other {α β : Type} (f : α → String) (g : α → β) (items : List α)
    (d : List (String × β)) (k : String) (h : ∀ a ∈ items, f a ≠ k) :
    dictGet (items.foldl (fun acc a => dictSet acc (f a) (g a)) d) k = dictGet d k := by
  induction items generalizing d with
  | nil => rfl
  | cons a r ih =>
    simp only [List.foldl_cons]
    rw [ih _ (fun b hb => h b (List.mem_cons_of_mem _ hb))]
    exact dictGet_dictSet_other d (f a) k (g a) (h a (by simp))

theorem pickledEntry_serialized (E : Ext) (v : PyVal)
    (h : ∀ kx ∈ infoItems v, keyStr E kx.1 ≠ ":serialized:") :
    dictGet (pickledEntry E v) ":serialized:" = some (.str (E.pickle v)) := by
  unfold pickledEntry
  rw [dictGet_foldl_other (fun kx : PyVal × PyVal => keyStr E kx.1) (fun kx => infoValue E kx.2) _ _ _ h]
  simp [dictGet]

theorem loadItem_native (E : Ext) (v : PyVal)
    (h : ∀ kx ∈ infoItems v, keyStr E kx.1 ≠ ":serialized:") (hn : isNative v = true) :
    loadItem E v = .keep v := by
  cases v with
  | dict kvs =>
    simp only [infoItems] at h
    simp [loadItem, lookupStr_none E kvs ":serialized:" h]
  | tuple _ => simp [isNative] at hn
  | obj _ _ _ _ => simp [isNative] at hn
  | _ => simp [loadItem]

/-- one attribute through `data_to_json`, the JSON text and `json_to_data` -/
theorem codec_item (E : Ext) (v : PyVal) (h : ItemOk E v) :
    ∃ j, jsonDumps E (storeAttr E v) = some j ∧ loadItem E (jsonLoads j) = .keep v := by
  unfold storeAttr
  by_cases hc : (isJsonSerializable E v && isNative v) = true
  · simp only [hc, if_true]
    simp only [Bool.and_eq_true] at hc
    obtain ⟨j, h1, h2⟩ := native_rt E v hc.2 h.wf
    exact ⟨j, h1, by rw [h2]; exact loadItem_native E v h.noKey hc.2⟩
  · simp only [hc]
    obtain ⟨j, l', hj, hl', hload⟩ := dumps_loads_strDict E (pickledEntry E v) (pickledEntry_nodup E v)
      (pickledEntry_serializable E v)
    refine ⟨j, hj, ?_⟩
    rw [hload]
    have hg := dumpLoad_get E _ _ hl' ":serialized:"
    rw [pickledEntry_serialized E v h.noKey] at hg
    simp only [Option.bind_some, jsonDumps, Option.map_some, jsonLoads] at hg
    simp [loadItem, lookupStr_strDict, hg, h.pickleOk (by simpa using hc)]

theorem loadItems_keep (E : Ext) (d : List (String × PyVal)) (hd : ∀ kv ∈ d, ItemOk E kv.2) :
    ∀ (l' acc : List (String × PyVal)),
      dumpLoad E (d.map fun kv => (kv.1, storeAttr E kv.2)) = some l' →
      loadItems E [] (strDict l') acc = some (dictUpdate acc d) := by
  induction d with
  | nil =>
    intro l' acc h
    simp [dumpLoad] at h
    simp [h, strDict, loadItems, dictUpdate_nil]
  | cons a r ih =>
    intro l' acc h
    obtain ⟨k, v⟩ := a
    simp only [List.map_cons, dumpLoad] at h
    obtain ⟨j, hj, hkeep⟩ := codec_item E v (hd (k, v) (by simp))
    rw [hj] at h
    cases hr : dumpLoad E (r.map fun kv => (kv.1, storeAttr E kv.2)) with
    | none => simp [hr] at h
    | some r' =>
      simp [hr] at h
      subst h
      have := ih (fun kv hkv => hd kv (List.mem_cons_of_mem _ hkv)) r' (dictSet acc k v) hr
      simp only [strDict, List.map_cons] at this ⊢
      simp [loadItems, strKey?, dictGet, hkeep, this, dictUpdate_cons]

/-- **Round trip of the attribute codec.** -/
theorem roundTrip_eq (E : Ext) (d : List (String × PyVal)) (hk : (d.map (·.1)).Nodup)
    (hd : ∀ kv ∈ d, ItemOk E kv.2) : roundTrip E [] d = some d := by
  obtain ⟨j, l', hj, hl', hload⟩ := dumps_loads_strDict E (serializableData E d)
    (serializableData_nodup E d) (serializableData_serializable E d)
  have hj' : dataToJson E d = some j := hj
  rw [serializableData_eq_map E d hk] at hl'
  have := loadItems_keep E d hd l' [] hl'
  simp only [roundTrip, hj', jsonToData, hload, this, dictUpdate_nil_fresh d hk]

/-! ### `custom_objects` -/

theorem loadItems_custom (E : Ext) (custom : List (String × PyVal)) (k : String) (c : PyVal)
    (hc : dictGet custom k = some c) :
    ∀ (items : List (PyVal × PyVal)) (acc r : List (String × PyVal)),
      loadItems E custom items acc = some r → (k ∈ strKeys items ∨ dictGet acc k = some c) →
      dictGet r k = some c := by
  intro items
  induction items with
  | nil =>
    intro acc r h hk
    simp only [loadItems, Option.some.injEq] at h
    subst h
    rcases hk with hk | hk
    · simp [strKeys] at hk
    · exact hk
  | cons a rest ih =>
    intro acc r h hk
    obtain ⟨k0, item⟩ := a
    simp only [loadItems] at h
    cases hk0 : strKey? k0 with
    | none => simp [hk0] at h
    | some key =>
      simp only [hk0] at h
      by_cases e : key = k
      · subst e
        simp only [hc] at h
        exact ih _ _ h (Or.inr (dictGet_dictSet_same acc key c))
      · have hk' : k ∈ strKeys rest ∨ dictGet acc k = some c := by
          rcases hk with hk | hk
          · simp only [strKeys, List.filterMap_cons, hk0] at hk
            simp only [List.mem_cons] at hk
            rcases hk with hk | hk
            · exact absurd hk.symm e
            · exact Or.inl hk
          · exact Or.inr hk
        cases hcu : dictGet custom key with
        | some c' =>
          simp only [hcu] at h
          refine ih _ _ h ?_
          rcases hk' with hk' | hk'
          · exact Or.inl hk'
          · exact Or.inr (by rw [dictGet_dictSet_other acc key k c' e]; exact hk')
        | none =>
          simp only [hcu] at h
          cases hl : loadItem E item with
          | keep v =>
            simp only [hl] at h
            refine ih _ _ h ?_
            rcases hk' with hk' | hk'
            · exact Or.inl hk'
            · exact Or.inr (by rw [dictGet_dictSet_other acc key k v e]; exact hk')
          | drop =>
            simp only [hl] at h
            exact ih _ _ h hk'
          | raise => simp [hl] at h

theorem foldl_dictSet_keys (E : Ext) (k : String) (d : List (String × PyVal)) :
    ∀ (acc : List (String × PyVal)), (k ∈ acc.map (·.1) ∨ k ∈ d.map (·.1)) →
      k ∈ (d.foldl (fun acc kv => dictSet acc kv.1 (storeAttr E kv.2)) acc).map (·.1) := by
  induction d with
  | nil => intro acc h; simpa using h
  | cons a r ih =>
    intro acc hk
    simp only [List.foldl_cons]
    apply ih
    by_cases e : a.1 = k
    · left
      by_cases hm : a.1 ∈ acc.map (·.1)
      · rw [dictSet_keys_of_mem _ _ _ hm]; exact e ▸ hm
      · rw [dictSet_of_not_mem _ _ _ hm]; simp [e]
    · rcases hk with hk | hk
      · left
        by_cases hm : a.1 ∈ acc.map (·.1)
        · rw [dictSet_keys_of_mem _ _ _ hm]; exact hk
        · rw [dictSet_of_not_mem _ _ _ hm]; simp only [List.map_append, List.mem_append]; exact Or.inl hk
      · simp only [List.map_cons, List.mem_cons] at hk
        rcases hk with hk | hk
        · exact absurd hk.symm e
        · exact Or.inr hk

theorem serializableData_keys (E : Ext) (d : List (String × PyVal)) (k : String) (h : k ∈ d.map (·.1)) :
    k ∈ (serializableData E d).map (·.1) :=
  foldl_dictSet_keys E k d [] (Or.inr h)

/-- a name listed in `custom_objects` comes back as the caller's object, whatever the file holds -/
theorem roundTrip_custom (E : Ext) (custom d r : List (String × PyVal)) (k : String) (c : PyVal)
    (hc : dictGet custom k = some c) (hk : k ∈ d.map (·.1)) (h : roundTrip E custom d = some r) :
    dictGet r k = some c := by
  obtain ⟨j, l', hj, hl', hload⟩ := dumps_loads_strDict E (serializableData E d)
    (serializableData_nodup E d) (serializableData_serializable E d)
  have hj' : dataToJson E d = some j := hj
  simp only [roundTrip, hj', jsonToData, hload] at h
  refine loadItems_custom E custom k c hc _ _ _ h (Or.inl ?_)
  rw [strDict_keys, dumpLoad_keys E _ _ hl']
  exact serializableData_keys E d k hk

/-! ### more dictionary facts -/

theorem dictGet_filter_key {β : Type} (d : List (String × β)) (q : String → Bool) (k : String) :
    dictGet (d.filter fun kv => q kv.1) k = if q k then dictGet d k else none := by
  induction d with
  | nil => simp [dictGet]
  | cons a r ih =>
    obtain ⟨k0, v⟩ := a
    by_cases hq : q k0 = true
    · by_cases e : k0 = k
      · subst e; simp [List.filter, hq, dictGet]
      · simp [List.filter, hq, dictGet, e, ih]
    · by_cases e : k0 = k
      · subst e
        simp only [Bool.not_eq_true] at hq
        simp [List.filter, hq, ih]
      · simp only [Bool.not_eq_true] at hq
        simp [List.filter, hq, dictGet, e, ih]

theorem filter_keys_nodup {β : Type} (d : List (String × β)) (p : String × β → Bool)
    (h : (d.map (·.1)).Nodup) : ((d.filter p).map (·.1)).Nodup :=
  (List.Sublist.map _ List.filter_sublist).nodup h

theorem dictGet_dictUpdate_not_mem {β : Type} (items d : List (String × β)) (k : String)
    (h : k ∉ items.map (·.1)) : dictGet (dictUpdate d items) k = dictGet d k := by
  induction items generalizing d with
  | nil => rfl
  | cons a r ih =>
    simp only [List.map_cons, List.mem_cons, not_or] at h
    rw [dictUpdate_cons, ih _ h.2]
    exact dictGet_dictSet_other d a.1 k a.2 (fun e => h.1 e.symm)

theorem dictGet_dictUpdate_mem {β : Type} (items d : List (String × β)) (k : String) (v : β)
    (hn : (items.map (·.1)).Nodup) (h : dictGet items k = some v) :
    dictGet (dictUpdate d items) k = some v := by
  induction items generalizing d with
  | nil => simp [dictGet] at h
  | cons a r ih =>
    obtain ⟨k0, v0⟩ := a
    have hn' := List.nodup_cons.mp hn
    rw [dictUpdate_cons]
    by_cases e : k0 = k
    · subst e
      simp only [dictGet, if_true, Option.some.injEq] at h
      subst h
      rw [dictGet_dictUpdate_not_mem r _ k0 hn'.1]
      exact dictGet_dictSet_same d k0 v0
    · simp only [dictGet, e, if_false] at h
      exact ih _ hn'.2 h

theorem dictHas_iff_mem {β : Type} (d : List (String × β)) (k : String) :
    dictHas d k = true ↔ k ∈ d.map (·.1) := by
  induction d with
  | nil => simp [dictHas, dictGet]
  | cons a r ih =>
    obtain ⟨k0, v⟩ := a
    by_cases e : k0 = k
    · simp [dictHas, dictGet, e]
    · have e' : ¬ k = k0 := fun h => e h.symm
      simp only [dictHas] at ih
      simp [dictHas, dictGet, e, e', ih]

theorem dictHas_eq_false_iff {β : Type} (d : List (String × β)) (k : String) :
    dictHas d k = false ↔ k ∉ d.map (·.1) := by
  rw [← dictHas_iff_mem]; simp

/-! ### `save`: the partition -/

theorem mem_saveData (s : Spec) (excl incl : List String) (attrs : List (String × PyVal)) (kv : String × PyVal) :
    kv ∈ saveData s excl incl attrs ↔ kv ∈ attrs ∧ kv.1 ∉ effExclude s excl incl := by
  simp [saveData]

theorem mem_effExclude (s : Spec) (excl incl : List String) (n : String) :
    n ∈ effExclude s excl incl ↔ ((n ∈ excl ∨ n ∈ s.excluded) ∧ n ∉ incl) ∨ n ∈ torchTops s := by
  simp only [effExclude, List.mem_append, List.mem_filter, Bool.not_eq_true', List.contains_eq_mem,
    decide_eq_false_iff_not]

/-! ### `get_parameters` / `set_parameters` -/

theorem dictGet_filterMap_names (t : Torch) (names : List String) (k : String) :
    dictGet (names.filterMap fun n => (dictGet t n).map fun v => (n, v)) k =
      if k ∈ names then dictGet t k else none := by
  induction names with
  | nil => simp [dictGet]
  | cons n r ih =>
    by_cases e : n = k
    · subst e
      cases h : dictGet t n with
      | none => simp [h, ih]
      | some v => simp [h, dictGet]
    · have e' : ¬ k = n := fun h => e h.symm
      cases h : dictGet t n with
      | none => simp [h, ih, e']
      | some v => simp [h, dictGet, e, e', ih]

theorem filterMap_names_keys (t : Torch) (names : List String) (h : ∀ n ∈ names, dictHas t n = true) :
    (names.filterMap fun n => (dictGet t n).map fun v => (n, v)).map (·.1) = names := by
  induction names with
  | nil => rfl
  | cons n r ih =>
    have hn := h n (by simp)
    simp only [dictHas, Option.isSome_iff_exists] at hn
    obtain ⟨v, hv⟩ := hn
    simp [hv, ih (fun m hm => h m (List.mem_cons_of_mem _ hm))]

theorem sameNames_refl (a : List String) : sameNames a a = true := by
  simp [sameNames]

/-! ### `load ∘ save` -/

theorem dictSet_keys_superset {β : Type} (d : List (String × β)) (k k2 : String) (v : β)
    (h : k2 ∈ d.map (·.1)) : k2 ∈ (dictSet d k v).map (·.1) := by
  by_cases hm : k ∈ d.map (·.1)
  · rw [dictSet_keys_of_mem _ _ _ hm]; exact h
  · rw [dictSet_of_not_mem _ _ _ hm]; simp only [List.map_append, List.mem_append]; exact Or.inl h

theorem dictHas_dictUpdate {β : Type} (items d : List (String × β)) (k : String) (h : dictHas d k = true) :
    dictHas (dictUpdate d items) k = true := by
  induction items generalizing d with
  | nil => exact h
  | cons a r ih =>
    rw [dictUpdate_cons]
    apply ih
    rw [dictHas_iff_mem] at h ⊢
    exact dictSet_keys_superset d a.1 k a.2 h

/-- what `load_save` assumes -/
structure LoadOk (E : Ext) (s : Spec) (excl incl : List String) (m : Model) (a : LoadArgs)
    (rebuilt : List String) : Prop where
  namesNodup : (m.attrs.map (·.1)).Nodup
  itemsOk : ∀ kv ∈ saveData s excl incl m.attrs, ItemOk E kv.2
  noCustom : a.custom = []
  obsSpace : dictHas (saveData s excl incl m.attrs) "observation_space" = true
  actSpace : dictHas (saveData s excl incl m.attrs) "action_space" = true
  torchNodup : (s.stateDicts ++ s.torchVars).Nodup
  torchSaved : ∀ n ∈ s.stateDicts ++ s.torchVars, dictHas m.torch n = true
  torchFresh : ∀ n ∈ s.stateDicts ++ s.torchVars, dictHas a.freshTorch n = true
  setupFrame : ∀ attrs n, n ∉ rebuilt → dictGet (a.setup attrs) n = dictGet attrs n

theorem load_save (E : Ext) (s : Spec) (excl incl : List String) (m : Model) (a : LoadArgs)
    (rebuilt : List String) (h : LoadOk E s excl incl m a rebuilt) :
    ∃ ar m', save E s excl incl m = some ar ∧ load E s a ar = some m' ∧
      (∀ n, n ∈ m.attrs.map (·.1) → n ∉ effExclude s excl incl → n ∉ rebuilt → n ∉ a.kwargs.map (·.1) →
        (a.envGiven = true → n ≠ "n_envs") → (a.envGiven = true → a.forceReset = true → n ≠ "_last_obs") →
        dictGet m'.attrs n = dictGet m.attrs n) ∧
      (∀ n ∈ s.stateDicts ++ s.torchVars, dictGet m'.torch n = dictGet m.torch n) := by
  -- the data member
  have hsdn : ((saveData s excl incl m.attrs).map (·.1)).Nodup := filter_keys_nodup _ _ h.namesNodup
  have hrt := roundTrip_eq E (saveData s excl incl m.attrs) hsdn h.itemsOk
  obtain ⟨j, hj⟩ := dataToJson_isSome E (saveData s excl incl m.attrs)
  simp only [roundTrip, hj] at hrt
  -- parameters
  have hsd : ∀ n ∈ s.stateDicts, dictHas m.torch n = true :=
    fun n hn => h.torchSaved n (List.mem_append.mpr (Or.inl hn))
  have hpk := filterMap_names_keys m.torch s.stateDicts hsd
  have hp1 : (getParameters s m.torch).all (fun kv => dictHas a.freshTorch kv.1) = true := by
    rw [List.all_eq_true]
    intro kv hkv
    have : kv.1 ∈ (getParameters s m.torch).map (·.1) := List.mem_map_of_mem hkv
    rw [getParameters, hpk] at this
    exact h.torchFresh kv.1 (List.mem_append.mpr (Or.inl this))
  have hp2 : sameNames ((getParameters s m.torch).map (·.1)) s.stateDicts = true := by
    rw [getParameters, hpk]; exact sameNames_refl _
  have hset : setParameters s a.freshTorch (getParameters s m.torch) true =
      some (dictUpdate a.freshTorch (getParameters s m.torch)) := by
    simp [setParameters, hp1, hp2]
  -- torch variables
  have hvk := filterMap_names_keys m.torch s.torchVars
    (fun n hn => h.torchSaved n (List.mem_append.mpr (Or.inr hn)))
  have hv1 : (s.torchVars.filterMap fun n => (dictGet m.torch n).map fun v => (n, v)).all
      (fun kv => dictHas (dictUpdate a.freshTorch (getParameters s m.torch)) kv.1) = true := by
    rw [List.all_eq_true]
    intro kv hkv
    have : kv.1 ∈ (s.torchVars.filterMap fun n => (dictGet m.torch n).map fun v => (n, v)).map (·.1) :=
      List.mem_map_of_mem hkv
    rw [hvk] at this
    exact dictHas_dictUpdate _ _ _ (h.torchFresh kv.1 (List.mem_append.mpr (Or.inr this)))
  have hsave : save E s excl incl m = some ⟨j, getParameters s m.torch,
      s.torchVars.filterMap fun n => (dictGet m.torch n).map fun v => (n, v)⟩ := by
    simp only [save, hj]
  have hload : load E s a ⟨j, getParameters s m.torch,
      s.torchVars.filterMap fun n => (dictGet m.torch n).map fun v => (n, v)⟩ =
      some ⟨a.setup (dictUpdate (dictUpdate a.fresh
          (if a.envGiven = true then
            dictSet (if (a.envGiven && a.forceReset) = true then
              dictSet (saveData s excl incl m.attrs) "_last_obs" PyVal.none else saveData s excl incl m.attrs)
              "n_envs" (PyVal.int a.numEnvs)
           else (if (a.envGiven && a.forceReset) = true then
              dictSet (saveData s excl incl m.attrs) "_last_obs" PyVal.none else saveData s excl incl m.attrs)))
          a.kwargs),
        dictUpdate (dictUpdate a.freshTorch (getParameters s m.torch))
          (s.torchVars.filterMap fun n => (dictGet m.torch n).map fun v => (n, v))⟩ := by
    simp only [load, h.noCustom, hrt, h.obsSpace, h.actSpace, Bool.and_self, Bool.not_true, hset, hv1]
    rfl
  refine ⟨_, _, hsave, hload, ?_, ?_⟩
  · -- attributes
    intro n hn hex hrb hkw hne hlo
    simp only
    rw [h.setupFrame _ n hrb, dictGet_dictUpdate_not_mem _ _ n hkw]
    have hval : dictGet (saveData s excl incl m.attrs) n = dictGet m.attrs n := by
      rw [saveData, dictGet_filter_key m.attrs (fun k => !(effExclude s excl incl).contains k) n]
      simp [hex]
    obtain ⟨v, hv⟩ : ∃ v, dictGet m.attrs n = some v := by
      have := (dictHas_iff_mem m.attrs n).mpr hn
      simpa [dictHas, Option.isSome_iff_exists] using this
    -- the two assignments `load` makes before `__dict__.update(data)`
    have h1 : dictGet (if (a.envGiven && a.forceReset) = true then dictSet (saveData s excl incl m.attrs) "_last_obs" PyVal.none
        else saveData s excl incl m.attrs) n = some v := by
      split
      · rename_i hc
        simp only [Bool.and_eq_true] at hc
        rw [dictGet_dictSet_other _ _ _ _ (fun e => hlo hc.1 hc.2 e.symm), hval, hv]
      · rw [hval, hv]
    have hn1 : ((if (a.envGiven && a.forceReset) = true then dictSet (saveData s excl incl m.attrs) "_last_obs" PyVal.none
        else saveData s excl incl m.attrs).map (·.1)).Nodup := by
      split
      · exact dictSet_keys_nodup _ _ _ hsdn
      · exact hsdn
    rw [hv]
    apply dictGet_dictUpdate_mem _ _ _ _
    · split
      · exact dictSet_keys_nodup _ _ _ hn1
      · exact hn1
    · split
      · rename_i hc
        rw [dictGet_dictSet_other _ _ _ _ (fun e => hne hc e.symm)]
        exact h1
      · exact h1
  · -- torch members
    intro n hn
    simp only
    have hnd := List.nodup_append.mp h.torchNodup
    rcases List.mem_append.mp hn with hs | hv
    · have hnv : n ∉ (s.torchVars.filterMap fun n => (dictGet m.torch n).map fun v => (n, v)).map (·.1) := by
        rw [hvk]; exact fun hv => hnd.2.2 n hs n hv rfl
      rw [dictGet_dictUpdate_not_mem _ _ n hnv]
      have hg : dictGet (getParameters s m.torch) n = dictGet m.torch n := by
        rw [getParameters, dictGet_filterMap_names]; simp [hs]
      obtain ⟨v, hv⟩ : ∃ v, dictGet m.torch n = some v := by
        simpa [dictHas, Option.isSome_iff_exists] using h.torchSaved n hn
      rw [hv] at hg ⊢
      exact dictGet_dictUpdate_mem _ _ _ _ (by rw [getParameters, hpk]; exact hnd.1) hg
    · have hg : dictGet (s.torchVars.filterMap fun n => (dictGet m.torch n).map fun v => (n, v)) n =
          dictGet m.torch n := by
        rw [dictGet_filterMap_names]; simp [hv]
      obtain ⟨v, hv'⟩ : ∃ v, dictGet m.torch n = some v := by
        simpa [dictHas, Option.isSome_iff_exists] using h.torchSaved n hn
      rw [hv'] at hg ⊢
      exact dictGet_dictUpdate_mem _ _ _ _ (by rw [hvk]; exact hnd.2.1) hg

/-! ### `set_parameters(get_parameters())` -/

theorem dictSet_same_value {β : Type} (d : List (String × β)) (k : String) (v : β)
    (h : dictGet d k = some v) : dictSet d k v = d := by
  induction d with
  | nil => simp [dictGet] at h
  | cons a r ih =>
    obtain ⟨k0, v0⟩ := a
    by_cases e : k0 = k
    · simp only [dictGet, e, if_true, Option.some.injEq] at h
      simp [dictSet, e, h]
    · simp only [dictGet, e, if_false] at h
      simp [dictSet, e, ih h]

theorem dictUpdate_same_values {β : Type} (items d : List (String × β))
    (h : ∀ kv ∈ items, dictGet d kv.1 = some kv.2) : dictUpdate d items = d := by
  induction items with
  | nil => rfl
  | cons a r ih =>
    rw [dictUpdate_cons, dictSet_same_value d a.1 a.2 (h a (by simp))]
    exact ih (fun kv hkv => h kv (List.mem_cons_of_mem _ hkv))

theorem mem_getParameters (s : Spec) (t : Torch) (kv : String × PyVal) (h : kv ∈ getParameters s t) :
    dictGet t kv.1 = some kv.2 := by
  simp only [getParameters, List.mem_filterMap] at h
  obtain ⟨n, _, hn⟩ := h
  cases hg : dictGet t n with
  | none => simp [hg] at hn
  | some v =>
    simp [hg] at hn
    subst hn
    exact hg

theorem set_get_parameters (s : Spec) (t : Torch) (h : ∀ n ∈ s.stateDicts, dictHas t n = true) :
    setParameters s t (getParameters s t) true = some t := by
  have hk := filterMap_names_keys t s.stateDicts h
  have h1 : (getParameters s t).all (fun kv => dictHas t kv.1) = true := by
    rw [List.all_eq_true]
    intro kv hkv
    simp [dictHas, mem_getParameters s t kv hkv]
  have h2 : sameNames ((getParameters s t).map (·.1)) s.stateDicts = true := by
    rw [getParameters, hk]; exact sameNames_refl _
  simp [setParameters, h1, h2, dictUpdate_same_values _ t (mem_getParameters s t)]

/-! ### paths -/

theorem append_ne_self (p q : String) (h : q ≠ "") : p ++ q ≠ p := by
  intro e
  have := congrArg String.length e
  rw [String.length_append] at this
  have hq : q.length ≠ 0 := by
    intro h0
    exact h (String.length_eq_zero_iff.mp h0)
  omega

/-! ### `__getstate__` / `__setstate__` -/

theorem setState_getState (dropped : List String) (attrs rebind : List (String × PyVal))
    (hn : (attrs.map (·.1)).Nodup) (n : String) (h1 : n ∉ dropped) (h2 : n ∉ rebind.map (·.1)) :
    dictGet (setState (getState dropped attrs) rebind) n = dictGet attrs n := by
  unfold setState getState
  rw [dictGet_dictUpdate_not_mem _ _ n h2, dictUpdate_nil_fresh _ (filter_keys_nodup _ _ hn),
    dictGet_filter_key attrs (fun k => !dropped.contains k) n]
  simp [h1]

theorem setState_rebind (state rebind : List (String × PyVal)) (hn : (rebind.map (·.1)).Nodup)
    (n : String) (v : PyVal) (h : dictGet rebind n = some v) :
    dictGet (setState state rebind) n = some v :=
  dictGet_dictUpdate_mem _ _ _ _ hn h

end SB3Verif.SaveLoad.Lemmas
