"""
C03 — Replay buffers return only real, still-stored transitions with correct dones.

Implementation under test: stable_baselines3.common.buffers.ReplayBuffer / DictReplayBuffer
Model: lean/SB3Verif/Model/Replay.lean (driver lean/SB3Verif/Driver/C03.lean)

Every value handed to add() (each observation, next observation, action, reward of each sub-environment) is a
fresh *tag* from one counter, written in the dtype/shape of the field's space, so every sampled field decodes
to the add() call / env column / argument it came from. Two independent detectors:
  * oracle   — the property sentence evaluated on the decoded samples against the harness' own add log;
  * model    — the Lean model is fed the same add/reset calls and must return the same size(), the same
               table of drawable transitions (as a set, and position-wise when the raw draws can be observed).
"""
from __future__ import annotations

from fractions import Fraction as F

import numpy as np

from harness import envs as E
from harness.common import guarded

RULE = (
    "cases from one SplitMix64 stream: ReplayBuffer (Box float32 rank 1/2, Box float64, uint8 image HWC/CHW, Discrete, "
    "MultiDiscrete, MultiBinary observations) and DictReplayBuffer (Box+image+Discrete keys); Box float32/float64, "
    "Discrete (flat and column), MultiDiscrete, MultiBinary actions; buffer_size 1..40, n_envs 1..5 (capacity "
    "max(buffer_size//n_envs,1), non-divisible and n_envs>buffer_size included, capacity 1/2/3 over-weighted); "
    "optimize_memory_usage x handle_timeout_termination incl. the rejected combinations; histories of add / sample / "
    "complete-sample / size / reset with add counts at k*capacity-1, k*capacity, k*capacity+1 and random up to 6x "
    "capacity; every added value a unique tag; done / TimeLimit.truncated patterns incl. truncation, termination, both, "
    "key absent; with and without a VecNormalize (dyadic statistics, with and without clipping) passed to sample(). "
    "Memory-optimised histories are chained (next add starts from the stored next observation unless done). "
    "non-trivial = the history wraps the ring (adds since reset > capacity) and samples afterwards; "
    "distinct = distinct canonical case"
)
STREAMS = {
    "ctor": "constructor accepts/rejects the flag combination like the model",
    "state": "size() (and pos/full when present) after every add/reset == model",
    "table_member": "every decoded sampled transition is a row of the model's table of drawable transitions",
    "table_complete": "a >= 40x|domain| batch hits exactly the model's table (as a set)",
    "sample_exact": "informational (never decides): when the raw np.random.randint draws can be observed, "
                    "sample() == model.sample(draws) position-wise; counted as sample_exact_agree / _mismatch / _unavailable",
    "sample_error": "sample() raises exactly when the model's draw range is empty",
}

ARRAY_OBS = ["box1", "box2", "box64", "image_hwc", "image_chw", "discrete", "multidiscrete", "multibinary"]
ACT_KINDS = ["box", "box64", "discrete", "discrete_col", "multidiscrete", "multibinary"]
TAGFIRST = {"box1", "box2", "box64"}  # flat[0] of the encoding is the tag itself
NORMABLE = TAGFIRST | {"image_hwc", "image_chw"}  # Box spaces: VecNormalize can normalise them
DICT_LEAVES = [("disc", "discrete"), ("img", "image_hwc"), ("vec", "box1")]
BIG = 1 << 22


# ---------------------------------------------------------------------------------------------------------
# encodings
def obs_space_of(kind):
    from gymnasium import spaces

    if kind == "box64":
        return spaces.Box(-float(BIG), float(BIG), (2,), np.float64)
    return E.obs_space(kind)


def enc_obs(tag, kind):
    if kind == "box64":
        return np.array([tag, tag + 0.125], dtype=np.float64)
    return E.encode(tag, kind)


def dec_obs(arr, kind):
    """array -> tag, or None when the array is not the encoding of any tag"""
    try:
        if kind == "box64":
            o = np.asarray(arr, dtype=np.float64).reshape(-1)
            t = int(round(o[0]))
            if o[0] != t or o[1] != t + 0.125:
                return None
            return t
        return int(E.decode(arr, kind))
    except (ValueError, OverflowError, IndexError):
        return None


def act_space_of(kind):
    from gymnasium import spaces

    if kind == "box":
        return spaces.Box(-1.0, 1.0, (2,), np.float32)
    if kind == "box64":
        return spaces.Box(-1.0, 1.0, (3,), np.float64)
    if kind in ("discrete", "discrete_col"):
        return spaces.Discrete(E.TAG_MOD)
    if kind == "multidiscrete":
        return spaces.MultiDiscrete([1024, 1024, 7])
    if kind == "multibinary":
        return spaces.MultiBinary(22)
    raise ValueError(kind)


def enc_act(tag, kind):
    if kind == "box":
        return np.array([tag, -tag], dtype=np.float32)
    if kind == "box64":
        return np.array([tag, tag + 0.5, -tag], dtype=np.float64)
    if kind == "discrete":
        return np.int64(tag)
    if kind == "discrete_col":
        return np.array([tag], dtype=np.int64)
    if kind == "multidiscrete":
        return np.array([tag & 1023, (tag >> 10) & 1023, tag % 7], dtype=np.int64)
    if kind == "multibinary":
        return np.array([(tag >> i) & 1 for i in range(22)], dtype=np.int8)
    raise ValueError(kind)


def dec_act(arr, kind):
    a = np.asarray(arr, dtype=np.float64).reshape(-1)
    try:
        if kind == "box":
            t = int(round(a[0]))
            return t if (len(a) == 2 and a[0] == t and a[1] == -t) else None
        if kind == "box64":
            t = int(round(a[0]))
            return t if (len(a) == 3 and a[0] == t and a[1] == t + 0.5 and a[2] == -t) else None
        if kind in ("discrete", "discrete_col"):
            t = int(round(a[0]))
            return t if (len(a) == 1 and a[0] == t) else None
        if kind == "multidiscrete":
            t = int(a[0]) | (int(a[1]) << 10)
            return t if (len(a) == 3 and t % 7 == int(a[2]) and all(x == int(x) for x in a)) else None
        if kind == "multibinary":
            if len(a) != 22 or any(x not in (0.0, 1.0) for x in a):
                return None
            return sum(int(a[i]) << i for i in range(22))
    except (ValueError, OverflowError, IndexError):
        return None
    return None


def leaves_of(case):
    """[(key or None, kind)] of the observation"""
    if case["variant"] == "dict":
        return list(DICT_LEAVES)
    return [(None, case["obs_kind"])]


def mean_array(kind, m):
    shape = obs_space_of(kind).shape
    n = int(np.prod(shape)) if shape else 1
    return (m + (np.arange(n) % 3)).astype(np.float64).reshape(shape)


def leaf_norm(case, key, kind):
    """(mean array, scale, clip) when sample(env=...) normalises this leaf, else None"""
    nm = case.get("norm")
    if not nm or nm.get("obs") is None or kind not in NORMABLE:
        return None
    if key is not None and key not in nm.get("keys", []):
        return None
    m, s, c = nm["obs"]
    return mean_array(kind, m), F(s[0], s[1]), float(c)


def expected_norm(x, spec):
    mean, s, c = spec
    return np.clip((np.asarray(x, dtype=np.float64) - mean) / float(s), -c, c).astype(np.float32)


def dec_leaf(arr, kind, spec, hints):
    """tag of one (possibly normalised) observation leaf, or None"""
    if spec is None:
        return dec_obs(arr, kind)
    arr = np.asarray(arr)
    shape = obs_space_of(kind).shape
    if arr.shape != shape and arr.size == int(np.prod(shape)):
        arr = arr.reshape(shape)
    for h in hints:
        if h is not None and np.array_equal(arr, expected_norm(enc_obs(h, kind), spec)):
            return h
    mean, s, c = spec
    x = arr.astype(np.float64) * float(s) + mean
    if kind.startswith("image"):
        if np.any(x != np.round(x)) or np.any(x < 0) or np.any(x > 255):
            return None
        x = x.astype(np.uint8)
    t = dec_obs(x, kind)
    if t is not None and np.array_equal(arr, expected_norm(enc_obs(t, kind), spec)):
        return t
    return None


# ---------------------------------------------------------------------------------------------------------
# generation
def gen_sizes(rng, widen):
    style = rng.weighted([("cap1", 2 if not widen else 4), ("cap2", 2 if not widen else 4), ("cap3", 2),
                          ("n_gt_b", 1 if not widen else 3), ("ragged", 4), ("any", 5)])
    n = rng.randint(1, 5)
    if style == "cap1":
        b = rng.randint(1, max(1, 2 * n - 1)) if rng.chance(0.7) else n
    elif style == "cap2":
        b = rng.randint(2 * n, 3 * n - 1)
    elif style == "cap3":
        b = rng.randint(3 * n, 4 * n - 1)
    elif style == "n_gt_b":
        n = rng.randint(2, 5)
        b = rng.randint(1, n - 1)
    elif style == "ragged":
        n = rng.randint(2, 5)
        b = rng.randint(n, 40)
        if b % n == 0:
            b = min(40, b + 1)
    else:
        b = rng.randint(1, 40)
    b = max(1, min(40, b))
    return b, n


def gen_flags(rng):
    """per-env [done, tinfo]; tinfo: 0 = key absent, 1 = TimeLimit.truncated True, 2 = ... False"""
    return rng.weighted([
        ([0, 0], 10), ([0, 2], 3), ([1, 0], 4), ([1, 2], 2), ([1, 1], 5), ([0, 1], 1),
    ])


def gen_ops(rng, cap, n, widen, thorough):
    ops = []
    max_adds = 6 * cap if cap <= 12 or thorough else 3 * cap
    k = rng.randint(0, 5)
    target = rng.weighted([
        (max(0, k * cap - 1), 3), (k * cap, 3), (k * cap + 1, 3), (rng.randint(0, max_adds), 6),
        (rng.randint(0, cap), 2), (cap + 1, 2),
    ])
    target = min(target, max_adds + 1)
    style = rng.weighted([("mixed", 6), ("never_done", 1), ("all_done", 1)])
    p_sample = rng.choice([0.1, 0.25, 0.5])
    p_reset = rng.choice([0.0, 0.0, 0.03, 0.1])
    n_samples = 0
    max_samples = 10 if cap * n <= 40 else 5
    adds = 0
    since = 0
    if rng.chance(0.15):
        ops.append(["sample", rng.randint(1, 4)])  # sampling an empty buffer
        n_samples += 1
    if rng.chance(0.15):
        ops.append(["size"])
    while adds < target:
        if style == "never_done":
            fl = [[0, rng.choice([0, 0, 2])] for _ in range(n)]
        elif style == "all_done":
            fl = [rng.choice([[1, 0], [1, 1], [1, 2]]) for _ in range(n)]
        else:
            fl = [list(gen_flags(rng)) for _ in range(n)]
        ops.append(["add", fl])
        adds += 1
        since += 1
        boundary = since in (cap - 1, cap, cap + 1, 2 * cap, 2 * cap + 1)
        if n_samples < max_samples and (rng.chance(p_sample) or (boundary and rng.chance(0.5))):
            if rng.chance(0.45):
                ops.append(["complete", 0, int(rng.chance(0.7))])
            else:
                ops.append(["sample", rng.randint(1, 12), int(rng.chance(0.7))])
            n_samples += 1
        if rng.chance(0.15):
            ops.append(["size"])
        if rng.chance(0.04):
            ops.append(["pickle"])
        if rng.chance(p_reset):
            ops.append(["reset"])
            since = 0
            if rng.chance(0.5):
                ops.append(rng.choice([["sample", 2], ["size"], ["complete"]]))  # right after reset
    ops.append(["size"])
    ops.append(["complete", 0, int(rng.chance(0.7))])
    if rng.chance(0.3):
        ops.append(["sample", rng.randint(1, 12), int(rng.chance(0.5))])
    if rng.chance(0.3):
        ops.append(["complete", 0, int(rng.chance(0.5))])
    if rng.chance(0.1):
        ops += [["reset"], ["size"], ["sample", 3], ["add", [list(gen_flags(rng)) for _ in range(n)]], ["complete"]]
    return ops


def gen_case(rng, widen, thorough):
    b, n = gen_sizes(rng, widen)
    cap = max(b // n, 1)
    variant = rng.weighted([("array", 7), ("dict", 3)])
    obs_kind = "dict" if variant == "dict" else rng.weighted([(k, 3 if k in ("box1", "discrete") else 1) for k in ARRAY_OBS])
    act_kind = rng.choice(ACT_KINDS)
    flags = rng.weighted([((False, True), 6), ((False, False), 4), ((True, False), 7 if variant == "array" else 1),
                          ((True, True), 1)])
    memopt, hto = flags
    norm = None
    if rng.chance(0.3):
        obs_norm = None
        keys = []
        normable = (variant == "dict") or obs_kind in NORMABLE
        if normable and rng.chance(0.8):
            keys = rng.choice([["vec"], ["vec", "img"], ["img"]]) if variant == "dict" else []
            # clipping makes encodings ambiguous: only used where the compared value is the number itself
            can_clip = (obs_kind in TAGFIRST) or (variant == "dict" and keys == ["vec"])
            obs_norm = [rng.randint(-5, 40), rng.choice([[2, 1], [1, 2], [4, 1], [1, 1]]),
                        rng.choice([BIG, BIG, 64, 300]) if can_clip else BIG]
        rew_norm = [rng.choice([[2, 1], [1, 2], [4, 1]]), rng.choice([BIG, BIG, 16, 100])] if rng.chance(0.8) else None
        norm = {"obs": obs_norm, "keys": keys, "rew": rew_norm}
    return {
        "kind": "buf", "variant": variant, "obs_kind": obs_kind, "act_kind": act_kind,
        "buffer_size": b, "n_envs": n, "memopt": bool(memopt), "hto": bool(hto),
        "chained": bool(memopt) or rng.chance(0.4),
        "done_dtype": rng.choice(["bool", "float32", "int"]),
        "norm": norm, "npseed": rng.randint(0, 2**31 - 1),
        "ops": gen_ops(rng, cap, n, widen, thorough),
    }


def gen_cases(ctx):
    return [gen_case(ctx.rng, ctx.widen, ctx.thorough) for _ in range(ctx.budget(900, 10000))]


def shrink_candidates(case):
    ops = case["ops"]
    # drop trailing / single ops
    if len(ops) > 1:
        for cut in (len(ops) // 2, len(ops) - 1):
            if 0 < cut < len(ops):
                c = dict(case)
                c["ops"] = ops[:cut] + [["complete"]]
                yield c
        for i in range(len(ops)):
            c = dict(case)
            c["ops"] = ops[:i] + ops[i + 1:]
            yield c
    n = case["n_envs"]
    if n > 1:
        c = dict(case)
        c["n_envs"] = n - 1
        c["buffer_size"] = max(1, (case["buffer_size"] // n)) * (n - 1)
        c["ops"] = [[o[0], o[1][:-1]] if o[0] == "add" else o for o in ops]
        yield c
    if case.get("norm"):
        c = dict(case)
        c["norm"] = None
        yield c
    if case["variant"] == "array" and case["obs_kind"] != "box1":
        c = dict(case)
        c["obs_kind"] = "box1"
        yield c
    if case["act_kind"] != "discrete":
        c = dict(case)
        c["act_kind"] = "discrete"
        yield c
    if case["buffer_size"] > case["n_envs"]:
        c = dict(case)
        c["buffer_size"] = case["buffer_size"] - case["n_envs"]
        yield c


# ---------------------------------------------------------------------------------------------------------
# running the implementation
def make_vecnormalize(case):
    import gymnasium as gym
    from stable_baselines3.common.vec_env import DummyVecEnv, VecNormalize

    nm = case["norm"]
    leaves = leaves_of(case)
    if case["variant"] == "dict":
        from gymnasium import spaces

        ospace = spaces.Dict({k: obs_space_of(kd) for k, kd in leaves})
    else:
        ospace = obs_space_of(case["obs_kind"])
    aspace = act_space_of(case["act_kind"])

    class SpaceEnv(gym.Env):
        observation_space = ospace
        action_space = aspace

        def reset(self, *, seed=None, options=None):
            return ospace.sample(), {}

        def step(self, action):
            return ospace.sample(), 0.0, False, False, {}

    venv = DummyVecEnv([SpaceEnv])
    norm_obs = nm["obs"] is not None and any(leaf_norm(case, k, kd) is not None for k, kd in leaves)
    kw = {}
    if case["variant"] == "dict" and norm_obs:
        kw["norm_obs_keys"] = list(nm["keys"])
    vn = VecNormalize(venv, training=False, norm_obs=norm_obs, norm_reward=nm["rew"] is not None,
                      clip_obs=float(nm["obs"][2]) if nm["obs"] else 10.0,
                      clip_reward=float(nm["rew"][1]) if nm["rew"] else 10.0, epsilon=0.0, **kw)
    if norm_obs:
        for k, kd in leaves:
            spec = leaf_norm(case, k, kd)
            if spec is None:
                continue
            rms = vn.obs_rms[k] if k is not None else vn.obs_rms
            rms.mean = spec[0].copy()
            rms.var = np.full(spec[0].shape, float(spec[1] * spec[1]), dtype=np.float64)
    if nm["rew"] is not None:
        s = F(nm["rew"][0][0], nm["rew"][0][1])
        vn.ret_rms.var = np.float64(float(s * s))
    return vn


def make_buffer(case):
    from gymnasium import spaces
    from stable_baselines3.common.buffers import DictReplayBuffer, ReplayBuffer

    aspace = act_space_of(case["act_kind"])
    if case["variant"] == "dict":
        ospace = spaces.Dict({k: obs_space_of(kd) for k, kd in leaves_of(case)})
        cls = DictReplayBuffer
    else:
        ospace = obs_space_of(case["obs_kind"])
        cls = ReplayBuffer
    return cls(case["buffer_size"], ospace, aspace, device="cpu", n_envs=case["n_envs"],
               optimize_memory_usage=case["memopt"], handle_timeout_termination=case["hto"])


class Spy:
    """records np.random.randint calls made while sampling (to learn the raw draws, when the code uses it)"""

    def __enter__(self):
        self.calls = []
        self.orig = np.random.randint

        def fn(*a, **k):
            r = self.orig(*a, **k)
            self.calls.append((a, dict(k), np.array(r).copy()))
            return r

        np.random.randint = fn
        return self

    def __exit__(self, *exc):
        np.random.randint = self.orig
        return False


def to_np(x):
    return x.detach().cpu().numpy() if hasattr(x, "detach") else np.asarray(x)


class Run:
    """executes one case on the real buffer and keeps the harness' own log of what was added"""

    def __init__(self, case):
        self.case = case
        self.n = case["n_envs"]
        self.cap = max(case["buffer_size"] // case["n_envs"], 1)
        self.leaves = leaves_of(case)
        # tags start above 4096: odd values are then not representable in a narrower float (float16)
        self.next_tag = 4097 + case["npseed"] % 1000
        self.hist = []  # adds since the last reset: list of rows; row = list of dict per env
        self.act_index = {}  # act tag -> (a, e) for the adds since the last reset
        self.origin = {}  # every tag ever issued -> (epoch, a, e, field)
        self.epoch = 0
        self.model_ops = []
        self.events = []  # per op: what the implementation did
        self.max_since = 0
        self.sampled_after_wrap = False

    def fresh(self, a, e, field):
        t = self.next_tag
        self.next_tag += 1
        self.origin[t] = (self.epoch, a, e, field)
        return t

    # -- one add ------------------------------------------------------------------------------------
    def build_add(self, flags):
        case, n = self.case, self.n
        a = len(self.hist)
        row = []
        for e in range(n):
            done, tinfo = flags[e]
            prev = self.hist[-1][e] if self.hist else None
            if case["chained"] and prev is not None and not prev["done"]:
                obs = prev["next"]
            else:
                obs = self.fresh(a, e, "obs")
            row.append({"obs": obs, "next": self.fresh(a, e, "next"), "act": self.fresh(a, e, "act"),
                        "rew": self.fresh(a, e, "rew"), "done": bool(done), "timeout": tinfo == 1, "tinfo": tinfo})
        return row

    def arrays_of(self, row):
        case, n = self.case, self.n

        def batch(field):
            if case["variant"] == "dict":
                return {k: np.stack([np.asarray(enc_obs(row[e][field], kd)) for e in range(n)]) for k, kd in self.leaves}
            return np.stack([np.asarray(enc_obs(row[e][field], case["obs_kind"])) for e in range(n)])

        obs, nxt = batch("obs"), batch("next")
        act = np.stack([np.asarray(enc_act(row[e]["act"], case["act_kind"])) for e in range(n)])
        rew = np.array([float(row[e]["rew"]) for e in range(n)], dtype=np.float32)
        dd = case["done_dtype"]
        done = np.array([row[e]["done"] for e in range(n)],
                        dtype=bool if dd == "bool" else np.float32 if dd == "float32" else np.int64)
        infos = []
        for e in range(n):
            ti = row[e]["tinfo"]
            info = {"k": e}
            if ti == 1:
                info["TimeLimit.truncated"] = True
            elif ti == 2:
                info["TimeLimit.truncated"] = False
            infos.append(info)
        return obs, nxt, act, rew, done, infos

    # -- expectation of the property (independent of the Lean model) -----------------------------------
    def expected_pairs(self):
        L = len(self.hist)
        lo = max(0, L - self.cap)
        if self.case["memopt"] and L >= self.cap:
            lo = L - self.cap + 1
        return {(a, e) for a in range(lo, L) for e in range(self.n)}

    # -- decoding a sampled batch -------------------------------------------------------------------
    def flatten(self, smp, B):
        """(B, K) float64 matrix of all fields + slices"""
        case = self.case
        cols, sl = [], {}
        pos = 0

        def put(name, arr):
            nonlocal pos
            a = to_np(arr)
            if a.shape[0] != B:
                raise ShapeError(f"{name}: leading dimension {a.shape[0]} != batch size {B}")
            a2 = a.reshape(B, -1).astype(np.float64)
            cols.append(a2)
            sl[name] = (pos, pos + a2.shape[1], a.shape[1:])
            pos += a2.shape[1]

        for fld, val in (("obs", smp.observations), ("next", smp.next_observations)):
            if case["variant"] == "dict":
                if sorted(val.keys()) != sorted(k for k, _ in self.leaves):
                    raise ShapeError(f"{fld}: keys {sorted(val.keys())}")
                for k, _ in self.leaves:
                    put(f"{fld}.{k}", val[k])
            else:
                put(f"{fld}.", val)
        put("act", smp.actions)
        put("rew", smp.rewards)
        put("done", smp.dones)
        for name, want in (("rew", (1,)), ("done", (1,))):
            if sl[name][2] != want:
                raise ShapeError(f"{name}: shape {sl[name][2]} != {want}")
        return np.concatenate(cols, axis=1), sl

    def decode_unique(self, urow, sl, use_norm):
        case = self.case
        seg = lambda name: urow[sl[name][0]:sl[name][1]].reshape(sl[name][2])  # noqa: E731
        d = {}
        d["act"] = dec_act(seg("act"), "discrete" if case["act_kind"] == "discrete_col" else case["act_kind"])
        where = self.act_index.get(d["act"])
        hints_of = {"obs": [], "next": []}
        if where is not None:
            a, e = where
            t = self.hist[a][e]
            follow = [self.hist[a + 1][e]["obs"]] if a + 1 < len(self.hist) else []
            # candidates tried first when a normalised (possibly clipped) array has to be identified
            hints_of = {"obs": [t["obs"], t["next"]] + follow, "next": [t["next"]] + follow + [t["obs"]]}
        nm = case["norm"] if use_norm else None
        for fld in ("obs", "next"):
            tags = []
            hints = hints_of[fld]
            for k, kd in self.leaves:
                spec = leaf_norm(case, k, kd) if nm else None
                raw = seg(f"{fld}.{k if k is not None else ''}")
                if spec is None:
                    # undo the float64 flattening: the decoders take the stored dtype's values
                    tags.append(dec_obs(raw, kd))
                else:
                    tags.append(dec_leaf(raw.astype(np.float32), kd, spec, hints))
            d[fld] = tags[0] if all(t == tags[0] for t in tags) else None
            d[fld + "_leaves"] = tags
            # value compared with the model
            first = None
            if nm and nm.get("obs") is not None:
                for k, kd in self.leaves:
                    if kd in TAGFIRST and leaf_norm(case, k, kd) is not None:
                        first = F(float(seg(f"{fld}.{k if k is not None else ''}").reshape(-1)[0]))
            d[fld + "_val"] = first if first is not None else (F(d[fld]) if d[fld] is not None else None)
            d[fld + "_first"] = first is not None
        r = float(seg("rew").reshape(-1)[0])
        if nm and nm.get("rew") is not None:
            d["rew"] = None
            d["rew_val"] = F(r)
        else:
            d["rew"] = int(r) if r == int(r) else None
            d["rew_val"] = F(d["rew"]) if d["rew"] is not None else None
        d["rew_raw"] = r
        d["done"] = F(float(seg("done").reshape(-1)[0]))
        return d


class ShapeError(Exception):
    pass


def describe(run, tag):
    if tag is None:
        return "not the encoding of any added value"
    o = run.origin.get(tag)
    if o is None:
        return f"tag {tag}: never issued (zeros filler or corrupted value)"
    ep, a, e, field = o
    when = "since the last reset" if ep == run.epoch else f"before reset #{run.epoch - ep} ago"
    return f"tag {tag}: `{field}` argument of add #{a} env {e} ({when})"


def model_norm(case, use_norm):
    """the `norm` argument of the model's table op, or None"""
    nm = case["norm"] if use_norm else None
    if not nm:
        return None
    obs = None
    if nm.get("obs") is not None and any(kd in TAGFIRST and leaf_norm(case, k, kd) is not None for k, kd in leaves_of(case)):
        m, s, c = nm["obs"]
        obs = [m, s, c]
    rew = [nm["rew"][0], nm["rew"][1]] if nm.get("rew") is not None else None
    if obs is None and rew is None:
        return None
    return {"obs": obs, "rew": rew}


def run_case(ctx, case, viol):
    """runs the case on the implementation; returns (run, events, model_ops); oracle hits go to `viol`"""
    run = Run(case)
    n, cap = run.n, run.cap
    variantsig = {"variant": ("memopt" if case["memopt"] else "standard") + ("-dict" if case["variant"] == "dict" else "")}
    mops = [{"op": "new", "buffer_size": case["buffer_size"], "n_envs": n, "memopt": case["memopt"],
             "hto": case["hto"], "dict": case["variant"] == "dict"}]
    events = []
    should_reject = case["memopt"] and (case["hto"] or case["variant"] == "dict")
    try:
        buf = make_buffer(case)
        events.append({"op": "new", "ok": True})
    except (ValueError, AssertionError) as ex:
        events.append({"op": "new", "ok": False, "exc": type(ex).__name__})
        if not should_reject:
            viol("constructor rejects a supported configuration", {"kind": "ctor", **variantsig}, repr(ex))
        return run, events, mops
    vn = make_vecnormalize(case) if case["norm"] else None
    np.random.seed(case["npseed"])

    def seen(sig, what, detail):
        viol(what, {**variantsig, **sig}, detail)

    for oi, op in enumerate(case["ops"]):
        kind = op[0]
        if kind == "add":
            row = run.build_add(op[1])
            args = run.arrays_of(row)
            buf.add(*args)
            a = len(run.hist)
            run.hist.append(row)
            for e in range(n):
                run.act_index[row[e]["act"]] = (a, e)
            run.max_since = max(run.max_since, len(run.hist))
            mops.append({"op": "add", "row": [[t["obs"], t["next"], t["act"], t["rew"], t["done"], t["timeout"]] for t in row]})
            ev = {"op": "add", "size": int(buf.size())}
            if hasattr(buf, "pos") and hasattr(buf, "full"):
                ev["pos"], ev["full"] = int(buf.pos), bool(buf.full)
            events.append(ev)
            want = min(len(run.hist), cap)
            if ev["size"] != want:
                seen({"kind": "size"}, "size() != min(adds since reset, capacity)",
                     {"op_index": oi, "size": ev["size"], "adds": len(run.hist), "capacity": cap})
        elif kind == "reset":
            buf.reset()
            run.hist = []
            run.act_index = {}
            run.epoch += 1
            mops.append({"op": "reset"})
            ev = {"op": "reset", "size": int(buf.size())}
            if hasattr(buf, "pos") and hasattr(buf, "full"):
                ev["pos"], ev["full"] = int(buf.pos), bool(buf.full)
            events.append(ev)
            if ev["size"] != 0:
                seen({"kind": "size"}, "size() != 0 after reset()", {"op_index": oi, "size": ev["size"]})
        elif kind == "pickle":
            # `save_replay_buffer` / `load_replay_buffer` (a pickle round trip) in the middle of a history: the reloaded
            # buffer continues exactly where the saved one was (no model operation: the model's state is unchanged)
            import pickle

            buf = pickle.loads(pickle.dumps(buf))
            ctx.report.count("op:pickle_round_trip")
        elif kind == "size":
            s = int(buf.size())
            mops.append({"op": "size"})
            events.append({"op": "size", "size": s})
            want = min(len(run.hist), cap)
            if s != want:
                seen({"kind": "size"}, "size() != min(adds since reset, capacity)",
                     {"op_index": oi, "size": s, "adds": len(run.hist), "capacity": cap})
        elif kind in ("sample", "complete"):
            expected = run.expected_pairs()
            use_norm = vn is not None and (len(op) < 3 or op[2])
            if kind == "complete":
                B = max(1, 40 * len(expected))
            else:
                B = op[1]
            if len(run.hist) > cap:
                run.sampled_after_wrap = True
            ev = {"op": kind, "B": B, "use_norm": use_norm, "L": len(run.hist)}
            mo = {"op": "table"}
            mn = model_norm(case, use_norm)
            if mn is not None:
                mo["norm"] = mn
            ev["model_norm"] = mn
            mops.append(mo)
            try:
                with Spy() as spy:
                    smp = buf.sample(B, env=vn) if use_norm else buf.sample(B)
            except Exception as ex:  # noqa: BLE001  (any exception: legitimate only when nothing can be sampled)
                ev["error"] = "empty-range"
                events.append(ev)
                if expected:
                    seen({"kind": "sample_raises"}, "sample() raises although valid transitions are stored",
                         {"op_index": oi, "exc": repr(ex)[:200], "adds": len(run.hist), "capacity": cap})
                continue
            try:
                M, sl = run.flatten(smp, B)
            except ShapeError as ex:
                seen({"kind": "shape"}, "sampled batch has the wrong shape", {"op_index": oi, "why": str(ex)})
                ev["error"] = "shape"
                events.append(ev)
                continue
            U, inv = np.unique(M, axis=0, return_inverse=True)
            inv = np.asarray(inv).reshape(-1)
            dec = [run.decode_unique(U[i], sl, use_norm) for i in range(len(U))]
            ev["rows"] = dec
            ev["inv"] = inv
            # raw draws, when the code draws them with np.random.randint the way the model assumes
            ev["draws"] = None
            if len(spy.calls) == 2:
                (a0, k0, r0), (a1, k1, r1) = spy.calls
                ok = (r0.shape == (B,) and r1.shape == (B,) and len(a0) >= 2 and len(a1) >= 1 and a1[0] == 0
                      and k1.get("high", a1[1] if len(a1) > 1 else None) == n)
                if ok:
                    ev["draws"] = [[int(x), int(y)] for x, y in zip(r0, r1)]
                    mops.append({"op": "sample", "draws": ev["draws"] if B <= 64 else ev["draws"][:64]})
                    ev["draws_sent"] = min(B, 64)
            events.append(ev)
            # ---------------- oracle: the property sentence on the decoded samples -------------------
            L = len(run.hist)
            got_pairs = set()
            for d in dec:
                where = run.act_index.get(d["act"])
                if where is None:
                    seen({"kind": "provenance", "field": "action"},
                         "sampled action is not the action of any add() since the last reset",
                         {"op_index": oi, "action": describe(run, d["act"]), "adds": L, "capacity": cap})
                    continue
                a, e = where
                t = run.hist[a][e]
                got_pairs.add((a, e))
                base = {"op_index": oi, "add": a, "env": e, "adds": L, "capacity": cap}
                if a < L - cap:
                    seen({"kind": "evicted"}, "sampled transition is older than the `capacity` most recent adds", base)
                    continue
                if case["memopt"] and L >= cap and a == L - cap:
                    seen({"kind": "overwritten_slot"},
                         "memory-optimised buffer returned the slot whose observation was overwritten", base)
                    continue
                ok_others = True
                if d["obs"] != t["obs"]:
                    ok_others = False
                    seen({"kind": "field", "field": "observation"},
                         "sampled observation is not the observation added with the sampled action",
                         {**base, "expected": describe(run, t["obs"]), "got": describe(run, d["obs"]),
                          "leaves": d["obs_leaves"]})
                if use_norm and case["norm"].get("rew") is not None:
                    s = F(case["norm"]["rew"][0][0], case["norm"]["rew"][0][1])
                    c = F(case["norm"]["rew"][1])
                    want_r = max(-c, min(c, F(t["rew"]) / s))
                    rew_ok = d["rew_val"] == want_r
                else:
                    rew_ok = d["rew"] == t["rew"]
                if not rew_ok:
                    ok_others = False
                    seen({"kind": "field", "field": "reward"},
                         "sampled reward is not the reward added with the sampled action",
                         {**base, "expected": describe(run, t["rew"]), "got": d["rew_raw"]})
                want_done = 1 if (t["done"] and not (case["hto"] and t["timeout"])) else 0
                if d["done"] != want_done:
                    ok_others = False
                    seen({"kind": "done", "stored_done": t["done"], "timeout": t["timeout"], "hto": case["hto"]},
                         "sampled done flag != (ended an episode and not a handled time-limit truncation)",
                         {**base, "got": float(d["done"]), "expected": want_done})
                if d["next"] != t["next"]:
                    follow = run.hist[a + 1][e]["obs"] if a + 1 < L else None
                    if (case["memopt"] and t["done"] and follow is not None and d["next"] == follow and ok_others):
                        seen({"kind": "field", "field": "next_observation", "cls": "memopt_terminal_successor"},
                             "memory-optimised buffer: next observation of an episode-ending transition is the "
                             "first observation of the following add",
                             {**base, "expected": describe(run, t["next"]), "got": describe(run, d["next"])})
                    else:
                        seen({"kind": "field", "field": "next_observation", "cls": "other"},
                             "sampled next observation is not the next observation added with the sampled action",
                             {**base, "expected": describe(run, t["next"]), "got": describe(run, d["next"]),
                              "leaves": d["next_leaves"]})
            if kind == "complete":
                missing = sorted(expected - got_pairs)
                if missing:
                    seen({"kind": "incomplete"}, "a stored valid transition is never drawn by a 40x|domain| batch",
                         {"op_index": oi, "missing": missing[:6], "n_missing": len(missing), "adds": L, "capacity": cap,
                          "batch": B})
            if not expected:
                seen({"kind": "sample_from_nothing"}, "sample() returns although no valid transition is stored",
                     {"op_index": oi, "adds": L, "capacity": cap})
        else:
            raise ValueError(f"bad op {op}")
    return run, events, mops


# ---------------------------------------------------------------------------------------------------------
def model_row_key(r):
    """model table row [slot, env, obs, next, act, rew, done] -> comparable tuple"""
    def q(x):
        return F(x[0], x[1]) if isinstance(x, list) else F(x)
    return (q(r[2]), q(r[3]), int(r[4]), q(r[5]), F(r[6]))


def impl_row_key(d, mn):
    obs_first = mn is not None and mn.get("obs") is not None
    o = d["obs_val"] if (obs_first or not d["obs_first"]) else None
    nx = d["next_val"] if (obs_first or not d["next_first"]) else None
    return (o, nx, d["act"], d["rew_val"], d["done"])


def compare(ctx, case, events, mops, outs):
    """correspondence: implementation events vs model answers (outs aligned with mops)"""
    rep = ctx.report
    it = iter(zip(mops, outs))

    def nxt():
        return next(it)

    mo, out = nxt()
    ev0 = events[0]
    if out is None:
        return
    m_ok = "error" not in out
    if ev0["ok"] != m_ok:
        rep.disagree("ctor", case, ev0, out)
        return
    rep.agree()
    if not ev0["ok"]:
        return
    cap = max(case["buffer_size"] // case["n_envs"], 1)
    if out.get("cap") != cap:
        rep.disagree("ctor", case, {"cap": cap}, out)
        return
    for ev in events[1:]:
        mo, out = nxt()
        k = ev["op"]
        if k in ("add", "reset", "size"):
            if "error" in out:
                rep.disagree("state", case, ev, out)
                return
            bad = ev["size"] != out["size"]
            if k != "size" and "pos" in ev:
                bad = bad or ev["pos"] != out["pos"] or ev["full"] != out["full"]
            if bad:
                rep.disagree("state", case, ev, out)
                return
            rep.agree()
        else:
            if ev.get("error") == "shape":
                if ev.get("draws") is not None:
                    nxt()
                continue
            if ev.get("error") == "empty-range":
                if out.get("error") != "empty-range":
                    rep.disagree("sample_error", case, {"error": "empty-range", "L": ev["L"]}, {"rows": len(out.get("rows", []))})
                    return
                rep.agree()
                continue
            if "error" in out:
                rep.disagree("sample_error", case, {"rows": len(ev["rows"]), "L": ev["L"]}, out)
                if ev.get("draws") is not None:
                    nxt()
                return
            mn = ev["model_norm"]
            table = {model_row_key(r) for r in out["rows"]}
            got = {impl_row_key(d, mn) for d in ev["rows"]}
            extra = got - table
            if extra:
                rep.disagree("table_member", case, {"rows_not_in_model_table": [str(x) for x in sorted(extra, key=str)[:4]],
                                                    "L": ev["L"]},
                             {"table": [str(x) for x in sorted(table, key=str)[:12]]})
                if ev.get("draws") is not None:
                    nxt()
                return
            rep.agree()
            if k == "complete":
                if got != table:
                    rep.disagree("table_complete", case, {"never_drawn": [str(x) for x in sorted(table - got, key=str)[:4]],
                                                          "B": ev["B"], "L": ev["L"]},
                                 {"table_size": len(table)})
                    if ev.get("draws") is not None:
                        nxt()
                    return
                rep.agree()
            if ev.get("draws") is not None:
                # informational stream: how the code maps raw draws to slots is an implementation choice
                # (any enumeration of the same domain is fine), so a mismatch is counted, never decided on
                mo2, out2 = nxt()
                kk = ev["draws_sent"]
                impl_rows = [impl_row_key(ev["rows"][ev["inv"][i]], None) for i in range(kk)]
                if "error" in out2:
                    same = False
                elif mn is None:
                    same = impl_rows == [(F(r[0]), F(r[1]), int(r[2]), F(r[3]), F(r[4])) for r in out2["rows"]]
                else:
                    # normalised values are compared through the table; here: the action provenance per draw
                    same = [r[2] for r in impl_rows] == [int(r[2]) for r in out2["rows"]]
                if same:
                    rep.agree()
                    rep.count("sample_exact_agree")
                else:
                    rep.count("sample_exact_mismatch")
                    rep.note("sample_exact: raw np.random.randint draws observed but the code maps them to slots "
                             "differently from the model's slotOfDraw (set-level streams decide)")
            else:
                rep.count("sample_exact_unavailable")


KNOWN_SHAPED = ("memopt_terminal_successor",)


def check_cases(ctx, cases):
    rep = ctx.report
    all_ops, plan, pending = [], [], []
    for case in cases:
        seen_sigs = set()
        local = []

        def viol(what, sig, detail=None, _local=local, _seen=seen_sigs):
            key = (what, tuple(sorted((k, str(v)) for k, v in sig.items())))
            rep.count("oracle_hit:" + sig.get("kind", "?") + ("/" + sig["cls"] if "cls" in sig else ""))
            if key in _seen:
                return
            _seen.add(key)
            _local.append((what, sig, detail))

        def go(case=case, viol=viol):
            return run_case(ctx, case, viol)

        r = guarded(ctx, case, go)
        cap = max(case["buffer_size"] // case["n_envs"], 1)
        rep.count("variant:" + case["variant"] + ("+memopt" if case["memopt"] else "") + ("+hto" if case["hto"] else ""))
        rep.count("cap:" + (str(cap) if cap <= 3 else "4-8" if cap <= 8 else "9-40"))
        rep.count("n_envs:%d" % case["n_envs"])
        rep.count("divisible" if case["buffer_size"] % case["n_envs"] == 0 else "non-divisible")
        rep.count("obs:" + case["obs_kind"])
        rep.count("act:" + case["act_kind"])
        rep.count("norm:" + ("none" if not case["norm"] else ("obs" if case["norm"]["obs"] else "") + ("+rew" if case["norm"]["rew"] else "")))
        if r is None:
            rep.case(case, None)
            for what, sig, detail in local:
                pending.append((what, case, sig, detail))
            continue
        run, events, mops = r
        for ev in events:
            rep.count("op:" + ev["op"] + (":" + ev["error"] if ev.get("error") else ""))
        wraps = run.max_since // cap if cap else 0
        rep.count("wraps:" + (str(wraps) if wraps <= 3 else "4+"))
        nontrivial = run.max_since > cap and run.sampled_after_wrap
        rep.case(case, case if nontrivial else None,
                 sample={k: case[k] for k in case if k != "ops"} | {"ops_head": case["ops"][:12], "n_ops": len(case["ops"])})
        for what, sig, detail in local:
            pending.append((what, case, sig, detail))
        plan.append((case, events, len(all_ops), len(mops)))
        all_ops.extend(mops)
    # oracle hits: report new-shaped ones first so that known-finding-shaped ones cannot crowd them out
    pending.sort(key=lambda p: 1 if p[2].get("cls") in KNOWN_SHAPED else 0)
    for what, case, sig, detail in pending:
        rep.violation(what, case, sig, detail)
    outs = ctx.lean.run(all_ops)
    for case, events, i, k in plan:
        o = outs[i:i + k]
        if o and o[0] is None:
            continue
        compare(ctx, case, events, all_ops[i:i + k], o)
