/-
Helper lemmas for C12 (model: `SB3Verif/Model/Learn.lean`).
-/
import SB3Verif.Model.Learn
import Mathlib.Algebra.Order.Field.Rat
import Mathlib.Algebra.Order.Field.Basic
import Mathlib.Tactic.Linarith
import Mathlib.Tactic.Ring

namespace SB3Verif.LearnLemmas

open SB3Verif.Learn

/-! ### progress -/

theorem progressOf_nonneg (n t : ℕ) : 0 ≤ progressOf n t := by
  unfold progressOf
  simp only
  split
  · exact le_refl _
  · rename_i h; exact not_lt.mp h

theorem progressOf_le_one (n t : ℕ) : progressOf n t ≤ 1 := by
  unfold progressOf
  simp only
  split
  · norm_num
  · have : (0 : ℚ) ≤ (n : ℚ) / (t : ℚ) := by positivity
    linarith

theorem progressOf_antitone (n n' t : ℕ) (h : n ≤ n') : progressOf n' t ≤ progressOf n t := by
  have hc : (n : ℚ) ≤ (n' : ℚ) := by exact_mod_cast h
  have ht : (0 : ℚ) ≤ (t : ℚ) := by positivity
  have hd : (n : ℚ) / (t : ℚ) ≤ (n' : ℚ) / (t : ℚ) := div_le_div_of_nonneg_right hc ht
  unfold progressOf
  simp only
  split <;> split <;> linarith

/-- before the target: the un-clamped value `1 - num/total` -/
theorem progressOf_before (n t : ℕ) (h : n ≤ t) (ht : 0 < t) : progressOf n t = 1 - (n : ℚ) / (t : ℚ) := by
  have ht' : (0 : ℚ) < (t : ℚ) := by exact_mod_cast ht
  have hc : (n : ℚ) ≤ (t : ℚ) := by exact_mod_cast h
  have : (n : ℚ) / (t : ℚ) ≤ 1 := (div_le_one ht').mpr hc
  unfold progressOf
  simp only
  split
  · linarith
  · rfl

/-- at or after the target: clamped to `0` -/
theorem progressOf_after (n t : ℕ) (h : t ≤ n) (ht : 0 < t) : progressOf n t = 0 := by
  have ht' : (0 : ℚ) < (t : ℚ) := by exact_mod_cast ht
  have hc : (t : ℚ) ≤ (n : ℚ) := by exact_mod_cast h
  have : 1 ≤ (n : ℚ) / (t : ℚ) := (one_le_div ht').mpr hc
  unfold progressOf
  simp only
  split
  · rfl
  · linarith

/-! ### `run` and `step` unfolded -/

@[simp] theorem run_nil (cfg : Cfg) (s : State) : run cfg s [] = (s, []) := rfl

theorem run_cons (cfg : Cfg) (s : State) (op : Op) (ops : List Op) :
    run cfg s (op :: ops) =
      ((run cfg (step cfg s op).1 ops).1, (step cfg s op).2 ++ (run cfg (step cfg s op).1 ops).2) := rfl

theorem run_append (cfg : Cfg) (s : State) (a b : List Op) :
    run cfg s (a ++ b) =
      ((run cfg (run cfg s a).1 b).1, (run cfg s a).2 ++ (run cfg (run cfg s a).1 b).2) := by
  induction a generalizing s with
  | nil => simp
  | cons op ops ih => simp [run_cons, ih, List.append_assoc]

theorem step_learn (cfg : Cfg) (s : State) (T : ℕ) (r : Bool) (h : s.running = false) :
    step cfg s (.learn T r) =
      ((loopHead (setupLearn s T r)).1,
        .setup (setupLearn s T r).num (setupLearn s T r).total :: (loopHead (setupLearn s T r)).2) := by
  simp [step, applicable, h]

theorem step_env (cfg : Cfg) (s : State) (a : Bool) (d : ℕ) (k : List Bool) (h : s.running = true) :
    step cfg s (.env a d k) = envStep cfg s a d k := by
  simp [step, applicable, h]

theorem step_learn_running (cfg : Cfg) (s : State) (T : ℕ) (r : Bool) (h : s.running = true) :
    step cfg s (.learn T r) = (s, []) := by
  simp [step, applicable, h]

theorem step_env_idle (cfg : Cfg) (s : State) (a : Bool) (d : ℕ) (k : List Bool) (h : s.running = false) :
    step cfg s (.env a d k) = (s, []) := by
  simp [step, applicable, h]

/-! ### the pieces of `envStep` -/

theorem loopHead_cases (s : State) :
    (loopHead s = ({ s with running := true, colSteps := 0, colEps := 0 }, [.rolloutStart s.num s.progress]) ∧
        s.num < s.total) ∨
      (loopHead s = ({ s with running := false }, [.finish s.num false]) ∧ s.total ≤ s.num) := by
  unfold loopHead
  by_cases h : s.num < s.total
  · left; simp [h]
  · right; simp [h]; omega

theorem trainOn_eq (nEnvs : ℕ) (c : OnCfg) (s : State) (kl : List Bool) :
    trainOn nEnvs c s kl =
      ({ s with nUpdates := s.nUpdates + (onTrainCounts nEnvs c kl).2,
                optSteps := s.optSteps + (onTrainCounts nEnvs c kl).1 },
        [.train s.num (onTrainCounts nEnvs c kl).1 0 s.progress (s.nUpdates + (onTrainCounts nEnvs c kl).2)]) := rfl

theorem trainOff_cases (nEnvs : ℕ) (c : OffCfg) (s : State) :
    (trainOff nEnvs c s = (s, []) ∧ ¬ (0 < s.num ∧ c.learningStarts < s.num ∧ 0 < gradStepsOf nEnvs c s.colSteps)) ∨
      (trainOff nEnvs c s =
          ({ s with nUpdates := s.nUpdates + gradStepsOf nEnvs c s.colSteps,
                    optSteps := s.optSteps + gradStepsOf nEnvs c s.colSteps },
            [.train s.num (gradStepsOf nEnvs c s.colSteps)
              (actorSteps c.policyDelay s.nUpdates (gradStepsOf nEnvs c s.colSteps)) s.progress
              (s.nUpdates + gradStepsOf nEnvs c s.colSteps)]) ∧
        0 < s.num ∧ c.learningStarts < s.num ∧ 0 < gradStepsOf nEnvs c s.colSteps) := by
  unfold trainOff
  by_cases h1 : s.num > 0 ∧ s.num > c.learningStarts
  · by_cases h2 : gradStepsOf nEnvs c s.colSteps > 0
    · right; simp [h1, h2]
    · left; simp [h1, h2]
  · left; simp [h1]; omega

theorem envStep_stop (cfg : Cfg) (s : State) (d : ℕ) (k : List Bool) :
    envStep cfg s true d k =
      ({ s with num := s.num + cfg.nEnvs, running := false, stopped := true },
        [.step (s.num + cfg.nEnvs) s.progress, .finish (s.num + cfg.nEnvs) true]) := by
  simp [envStep]

theorem envStep_on_mid (cfg : Cfg) (c : OnCfg) (s : State) (d : ℕ) (k : List Bool) (hk : cfg.kind = .on c)
    (h : s.colSteps + 1 < c.nSteps) :
    envStep cfg s false d k =
      ({ s with num := s.num + cfg.nEnvs, colSteps := s.colSteps + 1 }, [.step (s.num + cfg.nEnvs) s.progress]) := by
  simp [envStep, hk, h]

/-- state just before `train()` at the end of an on-policy rollout -/
def onEndState (cfg : Cfg) (s : State) : State :=
  { s with num := s.num + cfg.nEnvs, colSteps := s.colSteps + 1, progress := progressOf (s.num + cfg.nEnvs) s.total }

theorem envStep_on_end (cfg : Cfg) (c : OnCfg) (s : State) (d : ℕ) (k : List Bool) (hk : cfg.kind = .on c)
    (h : ¬ s.colSteps + 1 < c.nSteps) :
    envStep cfg s false d k =
      ((loopHead (trainOn cfg.nEnvs c (onEndState cfg s) k).1).1,
        [.step (s.num + cfg.nEnvs) s.progress, .rolloutEnd (s.num + cfg.nEnvs) (s.colSteps + 1) s.progress,
          .progress (s.num + cfg.nEnvs) s.total (progressOf (s.num + cfg.nEnvs) s.total)] ++
          (trainOn cfg.nEnvs c (onEndState cfg s) k).2 ++ (loopHead (trainOn cfg.nEnvs c (onEndState cfg s) k).1).2) := by
  simp [envStep, hk, h, onEndState]

/-- state after an off-policy step (`_store_transition`, progress update, episode counters) -/
def offStepState (cfg : Cfg) (s : State) (d : ℕ) : State :=
  { s with num := s.num + cfg.nEnvs, colSteps := s.colSteps + 1, progress := progressOf (s.num + cfg.nEnvs) s.total,
           colEps := s.colEps + d, episodeNum := s.episodeNum + d }

theorem envStep_off_mid (cfg : Cfg) (c : OffCfg) (s : State) (d : ℕ) (k : List Bool) (hk : cfg.kind = .off c)
    (h : shouldCollectMore c (s.colSteps + 1) (s.colEps + d) = true) :
    envStep cfg s false d k =
      (offStepState cfg s d,
        [.step (s.num + cfg.nEnvs) s.progress,
          .progress (s.num + cfg.nEnvs) s.total (progressOf (s.num + cfg.nEnvs) s.total)]) := by
  simp [envStep, hk, h, offStepState]

theorem envStep_off_end (cfg : Cfg) (c : OffCfg) (s : State) (d : ℕ) (k : List Bool) (hk : cfg.kind = .off c)
    (h : shouldCollectMore c (s.colSteps + 1) (s.colEps + d) = false) :
    envStep cfg s false d k =
      ((loopHead (trainOff cfg.nEnvs c (offStepState cfg s d)).1).1,
        [.step (s.num + cfg.nEnvs) s.progress,
          .progress (s.num + cfg.nEnvs) s.total (progressOf (s.num + cfg.nEnvs) s.total),
          .rolloutEnd (s.num + cfg.nEnvs) (s.colSteps + 1) (progressOf (s.num + cfg.nEnvs) s.total)] ++
          (trainOff cfg.nEnvs c (offStepState cfg s d)).2 ++ (loopHead (trainOff cfg.nEnvs c (offStepState cfg s d)).1).2) := by
  simp [envStep, hk, h, offStepState]

/-! ### the possible reactions of `step` -/

/-- what follows the end of a rollout / the set-up: either the next rollout starts or the call ends -/
inductive Tail (n : ℕ) (p : ℚ) (s' : State) : List Ev → Prop
  | start : s'.running = true → s'.colSteps = 0 → Tail n p s' [.rolloutStart n p]
  | fin : s'.running = false → Tail n p s' [.finish n false]

/-- The possible reactions of `step` (events and the clock values the trace predicates talk about). -/
inductive Shape (cfg : Cfg) (s : State) : State → List Ev → Prop
  | skip : Shape cfg s s []
  | learn (s' : State) (tl : List Ev) (T : ℕ) (r : Bool) :
      s.running = false → s'.num = (if r then 0 else s.num) → s'.total = s'.num + T → s'.progress = s.progress →
      Tail s'.num s.progress s' tl → Shape cfg s s' (.setup s'.num s'.total :: tl)
  | stop (s' : State) :
      s'.num = s.num + cfg.nEnvs → s'.total = s.total → s'.progress = s.progress → s'.running = false →
      Shape cfg s s' [.step (s.num + cfg.nEnvs) s.progress, .finish (s.num + cfg.nEnvs) true]
  | onMid (s' : State) (c : OnCfg) :
      cfg.kind = .on c → s'.num = s.num + cfg.nEnvs → s'.total = s.total → s'.progress = s.progress →
      s'.colSteps = s.colSteps + 1 →
      Shape cfg s s' [.step (s.num + cfg.nEnvs) s.progress]
  | onEnd (s' : State) (c : OnCfg) (k opt nu : ℕ) (tl : List Ev) :
      cfg.kind = .on c → s'.num = s.num + cfg.nEnvs → s'.total = s.total → s'.progress = progressOf (s.num + cfg.nEnvs) s.total →
      Tail (s.num + cfg.nEnvs) (progressOf (s.num + cfg.nEnvs) s.total) s' tl → k = s.colSteps + 1 →
      Shape cfg s s'
        ([.step (s.num + cfg.nEnvs) s.progress, .rolloutEnd (s.num + cfg.nEnvs) k s.progress,
          .progress (s.num + cfg.nEnvs) s.total (progressOf (s.num + cfg.nEnvs) s.total),
          .train (s.num + cfg.nEnvs) opt 0 (progressOf (s.num + cfg.nEnvs) s.total) nu] ++ tl)
  | offMid (s' : State) :
      s'.num = s.num + cfg.nEnvs → s'.total = s.total → s'.progress = progressOf (s.num + cfg.nEnvs) s.total →
      s'.colSteps = s.colSteps + 1 →
      Shape cfg s s'
        [.step (s.num + cfg.nEnvs) s.progress, .progress (s.num + cfg.nEnvs) s.total (progressOf (s.num + cfg.nEnvs) s.total)]
  | offEnd (s' : State) (c : OffCfg) (k : ℕ) (tr tl : List Ev) :
      cfg.kind = .off c →
      s'.num = s.num + cfg.nEnvs → s'.total = s.total → s'.progress = progressOf (s.num + cfg.nEnvs) s.total →
      (tr = [] ∨ ∃ g a nu, tr = [.train (s.num + cfg.nEnvs) g a (progressOf (s.num + cfg.nEnvs) s.total) nu] ∧
        c.learningStarts < s.num + cfg.nEnvs ∧ 0 < s.num + cfg.nEnvs) →
      Tail (s.num + cfg.nEnvs) (progressOf (s.num + cfg.nEnvs) s.total) s' tl → k = s.colSteps + 1 →
      Shape cfg s s'
        ([.step (s.num + cfg.nEnvs) s.progress,
          .progress (s.num + cfg.nEnvs) s.total (progressOf (s.num + cfg.nEnvs) s.total),
          .rolloutEnd (s.num + cfg.nEnvs) k (progressOf (s.num + cfg.nEnvs) s.total)] ++ tr ++ tl)

theorem loopHead_tail (s : State) :
    Tail s.num s.progress (loopHead s).1 (loopHead s).2 ∧ (loopHead s).1.num = s.num ∧ (loopHead s).1.total = s.total ∧
      (loopHead s).1.progress = s.progress := by
  rcases loopHead_cases s with ⟨h, _⟩ | ⟨h, _⟩ <;> rw [h] <;> simp <;> constructor <;> rfl

theorem step_shape (cfg : Cfg) (s : State) (op : Op) : Shape cfg s (step cfg s op).1 (step cfg s op).2 := by
  cases op with
  | learn T r =>
    cases h : s.running
    · rw [step_learn _ _ _ _ h]
      obtain ⟨ht, hn, htot, hp⟩ := loopHead_tail (setupLearn s T r)
      have hn' : (setupLearn s T r).num = (if r then 0 else s.num) := by simp [setupLearn]
      have htot' : (setupLearn s T r).total = (setupLearn s T r).num + T := by
        cases r <;> simp [setupLearn, Nat.add_comm]
      have hp' : (setupLearn s T r).progress = s.progress := by simp [setupLearn]
      have := Shape.learn (cfg := cfg) (s := s) (loopHead (setupLearn s T r)).1 (loopHead (setupLearn s T r)).2 T r h
        (by rw [hn, hn']) (by rw [htot, hn, htot']) (by rw [hp, hp']) (by rw [hn, ← hp']; exact ht)
      rw [hn, htot] at this
      exact this
    · rw [step_learn_running _ _ _ _ h]; exact Shape.skip
  | env a d k =>
    cases h : s.running
    · rw [step_env_idle _ _ _ _ _ h]; exact Shape.skip
    · rw [step_env _ _ _ _ _ h]
      cases a with
      | true => rw [envStep_stop]; exact Shape.stop _ rfl rfl rfl rfl
      | false =>
        cases hk : cfg.kind with
        | on c =>
          by_cases hm : s.colSteps + 1 < c.nSteps
          · rw [envStep_on_mid cfg c s d k hk hm]; exact Shape.onMid _ c hk rfl rfl rfl rfl
          · rw [envStep_on_end cfg c s d k hk hm, trainOn_eq]
            obtain ⟨ht, hn, htot, hp⟩ := loopHead_tail
              { onEndState cfg s with
                nUpdates := (onEndState cfg s).nUpdates + (onTrainCounts cfg.nEnvs c k).2,
                optSteps := (onEndState cfg s).optSteps + (onTrainCounts cfg.nEnvs c k).1 }
            exact Shape.onEnd _ c _ _ _ _ hk hn htot hp ht rfl
        | off c =>
          cases hm : shouldCollectMore c (s.colSteps + 1) (s.colEps + d)
          · rw [envStep_off_end cfg c s d k hk hm]
            rcases trainOff_cases cfg.nEnvs c (offStepState cfg s d) with ⟨he, _⟩ | ⟨he, h1, h2, _⟩
            · rw [he]
              obtain ⟨ht, hn, htot, hp⟩ := loopHead_tail (offStepState cfg s d)
              exact Shape.offEnd _ c _ [] _ hk hn htot hp (Or.inl rfl) ht rfl
            · rw [he]
              obtain ⟨ht, hn, htot, hp⟩ := loopHead_tail
                { offStepState cfg s d with
                  nUpdates := (offStepState cfg s d).nUpdates + gradStepsOf cfg.nEnvs c (offStepState cfg s d).colSteps,
                  optSteps := (offStepState cfg s d).optSteps + gradStepsOf cfg.nEnvs c (offStepState cfg s d).colSteps }
              exact Shape.offEnd _ c _ _ _ hk hn htot hp (Or.inr ⟨_, _, _, rfl, h2, h1⟩) ht rfl
          · rw [envStep_off_mid cfg c s d k hk hm]; exact Shape.offMid _ rfl rfl rfl rfl


/-! ### counters move by `n_envs` -/

/-- the counter value an observer of the trace knows after the events `es` -/
def lastNum : ℕ → List Ev → ℕ
  | cur, [] => cur
  | _, .setup num _ :: es => lastNum num es
  | _, .step num _ :: es => lastNum num es
  | cur, .rolloutStart _ _ :: es => lastNum cur es
  | cur, .progress _ _ _ :: es => lastNum cur es
  | cur, .rolloutEnd _ _ _ :: es => lastNum cur es
  | cur, .train _ _ _ _ _ :: es => lastNum cur es
  | cur, .finish _ _ :: es => lastNum cur es

theorem countsOk_append (n cur : ℕ) (a b : List Ev) :
    countsOk n cur (a ++ b) ↔ countsOk n cur a ∧ countsOk n (lastNum cur a) b := by
  induction a generalizing cur with
  | nil => simp [countsOk, lastNum]
  | cons e es ih => cases e <;> simp [countsOk, lastNum, ih, and_assoc]

theorem shape_counts (cfg : Cfg) (s s' : State) (evs : List Ev) (h : Shape cfg s s' evs) :
    countsOk cfg.nEnvs s.num evs ∧ lastNum s.num evs = s'.num := by
  cases h with
  | skip => simp [countsOk, lastNum]
  | learn s' tl T r _ _ _ _ ht => cases ht <;> simp [countsOk, lastNum]
  | stop s' hn => simp [countsOk, lastNum, hn]
  | onMid s' c _ hn => simp [countsOk, lastNum, hn]
  | onEnd s' c k opt nu tl _ hn _ _ ht => cases ht <;> simp [countsOk, lastNum, hn]
  | offMid s' hn => simp [countsOk, lastNum, hn]
  | offEnd s' c k tr tl _ hn _ _ htr ht =>
    rcases htr with rfl | ⟨g, a, nu, rfl, _, _⟩ <;> cases ht <;> simp [countsOk, lastNum, hn]

theorem run_counts (cfg : Cfg) (s : State) (ops : List Op) : countsOk cfg.nEnvs s.num (run cfg s ops).2 := by
  induction ops generalizing s with
  | nil => simp [countsOk]
  | cons op ops ih =>
    rw [run_cons]
    obtain ⟨h1, h2⟩ := shape_counts cfg s _ _ (step_shape cfg s op)
    simp only [countsOk_append]
    exact ⟨h1, by rw [h2]; exact ih _⟩

/-! ### no update before `learning_starts` -/

theorem trains_append (a b : List Ev) : trains (a ++ b) = trains a ++ trains b := by
  induction a with
  | nil => simp [trains]
  | cons e es ih => cases e <;> simp [trains, ih]

theorem shape_trains_off (cfg : Cfg) (c : OffCfg) (hk : cfg.kind = .off c) (s s' : State) (evs : List Ev)
    (h : Shape cfg s s' evs) : ∀ x ∈ trains evs, c.learningStarts < x.1 ∧ 0 < x.1 := by
  cases h with
  | skip => simp [trains]
  | learn s' tl T r _ _ _ _ ht => cases ht <;> simp [trains]
  | stop s' hn => simp [trains]
  | onMid s' c' hk' hn => simp [trains]
  | onEnd s' c' k opt nu tl hk' hn _ _ ht => rw [hk] at hk'; cases hk'
  | offMid s' hn => simp [trains]
  | offEnd s' c' k tr tl hk' hn _ _ htr ht =>
    rw [hk] at hk'; cases hk'
    rcases htr with rfl | ⟨g, a, nu, rfl, h1, h2⟩ <;> cases ht <;> simp [trains, *]

theorem run_trains_off (cfg : Cfg) (c : OffCfg) (hk : cfg.kind = .off c) (s : State) (ops : List Op) :
    ∀ x ∈ trains (run cfg s ops).2, c.learningStarts < x.1 ∧ 0 < x.1 := by
  induction ops generalizing s with
  | nil => simp [trains]
  | cons op ops ih =>
    rw [run_cons]
    simp only [trains_append, List.mem_append]
    rintro x (hx | hx)
    · exact shape_trains_off cfg c hk s _ _ (step_shape cfg s op) x hx
    · exact ih _ x hx

/-! ### every update uses the current progress -/

/-- most recent progress value of the current call known after the events `es` -/
def lastProg : Option ℚ → List Ev → Option ℚ
  | last, [] => last
  | _, .setup _ _ :: es => lastProg none es
  | _, .progress _ _ p :: es => lastProg (some p) es
  | last, .step _ _ :: es => lastProg last es
  | last, .rolloutStart _ _ :: es => lastProg last es
  | last, .rolloutEnd _ _ _ :: es => lastProg last es
  | last, .train _ _ _ _ _ :: es => lastProg last es
  | last, .finish _ _ :: es => lastProg last es

theorem lrOk_append (last : Option ℚ) (a b : List Ev) :
    lrOk last (a ++ b) ↔ lrOk last a ∧ lrOk (lastProg last a) b := by
  induction a generalizing last with
  | nil => simp [lrOk, lastProg]
  | cons e es ih => cases e <;> simp [lrOk, lastProg, ih, and_assoc]

theorem shape_lr (cfg : Cfg) (s s' : State) (evs : List Ev) (h : Shape cfg s s' evs) (last : Option ℚ) :
    lrOk last evs := by
  cases h with
  | skip => simp [lrOk]
  | learn s' tl T r _ _ _ _ ht => cases ht <;> simp [lrOk]
  | stop s' hn => simp [lrOk]
  | onMid s' c _ hn => simp [lrOk]
  | onEnd s' c k opt nu tl _ hn _ _ ht => cases ht <;> simp [lrOk]
  | offMid s' hn => simp [lrOk]
  | offEnd s' c k tr tl _ hn _ _ htr ht =>
    rcases htr with rfl | ⟨g, a, nu, rfl, _, _⟩ <;> cases ht <;> simp [lrOk]

theorem run_lr (cfg : Cfg) (s : State) (ops : List Op) (last : Option ℚ) : lrOk last (run cfg s ops).2 := by
  induction ops generalizing s last with
  | nil => simp [lrOk]
  | cons op ops ih =>
    rw [run_cons, lrOk_append]
    exact ⟨shape_lr cfg s _ _ (step_shape cfg s op) last, ih _ _⟩

/-! ### progress never increases within a call -/

theorem antitoneOk_append (last : Option ℚ) (a b : List Ev) :
    antitoneOk last (a ++ b) ↔ antitoneOk last a ∧ antitoneOk (lastProg last a) b := by
  induction a generalizing last with
  | nil => simp [antitoneOk, lastProg]
  | cons e es ih => cases e <;> simp [antitoneOk, lastProg, ih, and_assoc]

/-- what links the observer's last progress value to the clocks: it was computed from an earlier
counter value and the same target -/
def AntiPre (last : Option ℚ) (s : State) : Prop :=
  ∀ q, last = some q → ∃ n0, n0 ≤ s.num ∧ q = progressOf n0 s.total

theorem shape_antitone (cfg : Cfg) (s s' : State) (evs : List Ev) (h : Shape cfg s s' evs) (last : Option ℚ)
    (hpre : AntiPre last s) : antitoneOk last evs ∧ AntiPre (lastProg last evs) s' := by
  have key : ∀ q, last = some q → progressOf (s.num + cfg.nEnvs) s.total ≤ q := by
    intro q hq
    obtain ⟨n0, hn0, rfl⟩ := hpre q hq
    exact progressOf_antitone _ _ _ (by omega)
  have post : ∀ s' : State, s'.num = s.num + cfg.nEnvs → s'.total = s.total →
      AntiPre (some (progressOf (s.num + cfg.nEnvs) s.total)) s' := by
    intro s' hn ht q hq
    cases hq
    exact ⟨s.num + cfg.nEnvs, by omega, by rw [ht]⟩
  have keep : ∀ s' : State, s'.num = s.num + cfg.nEnvs → s'.total = s.total → AntiPre last s' := by
    intro s' hn ht q hq
    obtain ⟨n0, hn0, rfl⟩ := hpre q hq
    exact ⟨n0, by omega, by rw [ht]⟩
  cases h with
  | skip => simpa [antitoneOk, lastProg] using hpre
  | learn s' tl T r _ _ _ _ ht => cases ht <;> simp [antitoneOk, lastProg, AntiPre]
  | stop s' hn ht => simpa [antitoneOk, lastProg] using keep _ hn ht
  | onMid s' c _ hn ht => simpa [antitoneOk, lastProg] using keep _ hn ht
  | onEnd s' c k opt nu tl _ hn ht _ htl =>
    cases htl <;> simp only [antitoneOk, lastProg, List.cons_append, List.nil_append, and_true] <;>
      exact ⟨key, post _ hn ht⟩
  | offMid s' hn ht =>
    simp only [antitoneOk, lastProg, and_true]
    exact ⟨key, post _ hn ht⟩
  | offEnd s' c k tr tl _ hn ht _ htr htl =>
    rcases htr with rfl | ⟨g, a, nu, rfl, _, _⟩ <;> cases htl <;>
      simp only [antitoneOk, lastProg, List.cons_append, List.nil_append, List.append_nil, and_true] <;>
      exact ⟨key, post _ hn ht⟩

theorem run_antitone (cfg : Cfg) (s : State) (ops : List Op) (last : Option ℚ) (hpre : AntiPre last s) :
    antitoneOk last (run cfg s ops).2 := by
  induction ops generalizing s last with
  | nil => simp [antitoneOk]
  | cons op ops ih =>
    rw [run_cons, antitoneOk_append]
    obtain ⟨h1, h2⟩ := shape_antitone cfg s _ _ (step_shape cfg s op) last hpre
    exact ⟨h1, ih _ _ h2⟩


/-! ### where a call ends (all kinds of rollouts) -/

structure GenInv (cfg : Cfg) (s : State) : Prop where
  run : s.running = true →
    s.start + cfg.nEnvs * s.colSteps ≤ s.num ∧ s.num - cfg.nEnvs * s.colSteps < s.total
  fin : s.running = false → s.stopped = false →
    s.total ≤ s.num ∧
      (s.num = s.start ∨
        (s.start + cfg.nEnvs * s.colSteps ≤ s.num ∧ s.num - cfg.nEnvs * s.colSteps < s.total ∧ rolloutDone cfg s ∧
          s.progress = progressOf s.num s.total))

theorem genInv_init (cfg : Cfg) : GenInv cfg State.init := by
  constructor <;> simp [State.init]

theorem genInv_step (cfg : Cfg) (s : State) (op : Op) (h : GenInv cfg s) : GenInv cfg (step cfg s op).1 := by
  cases op with
  | learn T r =>
    cases hr : s.running
    · rw [step_learn _ _ _ _ hr]
      rcases loopHead_cases (setupLearn s T r) with ⟨he, hlt⟩ | ⟨he, hge⟩ <;> rw [he]
      · constructor
        · intro _; simp [setupLearn] at hlt ⊢; cases r <;> simp_all
        · intro h1; simp at h1
      · constructor
        · intro h1; simp at h1
        · intro _ _; simp [setupLearn] at hge ⊢; cases r <;> simp_all
    · rw [step_learn_running _ _ _ _ hr]; exact h
  | env a d k =>
    cases hr : s.running
    · rw [step_env_idle _ _ _ _ _ hr]; exact h
    · rw [step_env _ _ _ _ _ hr]
      obtain ⟨h1, h2⟩ := h.run hr
      have hmul : cfg.nEnvs * (s.colSteps + 1) = cfg.nEnvs * s.colSteps + cfg.nEnvs := Nat.mul_succ _ _
      cases a with
      | true =>
        rw [envStep_stop]
        constructor <;> simp
      | false =>
        cases hk : cfg.kind with
        | on c =>
          by_cases hm : s.colSteps + 1 < c.nSteps
          · rw [envStep_on_mid cfg c s d k hk hm]
            constructor
            · intro _; simp only; rw [hmul]; omega
            · intro h3; simp [hr] at h3
          · rw [envStep_on_end cfg c s d k hk hm, trainOn_eq]
            rcases loopHead_cases
              { onEndState cfg s with
                nUpdates := (onEndState cfg s).nUpdates + (onTrainCounts cfg.nEnvs c k).2,
                optSteps := (onEndState cfg s).optSteps + (onTrainCounts cfg.nEnvs c k).1 } with ⟨he, hlt⟩ | ⟨he, hge⟩ <;>
              rw [he]
            · constructor
              · intro _; simp [onEndState] at hlt ⊢; omega
              · intro h3; simp at h3
            · constructor
              · intro h3; simp at h3
              · intro _ _
                simp [onEndState] at hge ⊢
                refine ⟨hge, Or.inr ⟨?_, ?_, ?_⟩⟩
                · rw [hmul]; omega
                · rw [hmul]; omega
                · simp [rolloutDone, hk]; omega
        | off c =>
          cases hm : shouldCollectMore c (s.colSteps + 1) (s.colEps + d)
          · rw [envStep_off_end cfg c s d k hk hm]
            have fin_case : ∀ s3 : State, s3.num = s.num + cfg.nEnvs → s3.total = s.total → s3.start = s.start →
                s3.colSteps = s.colSteps + 1 → s3.colEps = s.colEps + d → s3.stopped = s.stopped →
                s3.progress = progressOf (s.num + cfg.nEnvs) s.total →
                GenInv cfg (loopHead s3).1 := by
              intro s3 e1 e2 e3 e4 e5 e6 e7
              rcases loopHead_cases s3 with ⟨he, hlt⟩ | ⟨he, hge⟩ <;> rw [he]
              · constructor
                · intro _; simp; omega
                · intro h3; simp at h3
              · constructor
                · intro h3; simp at h3
                · intro _ _
                  simp only
                  refine ⟨hge, Or.inr ⟨?_, ?_, ?_, ?_⟩⟩
                  · rw [e4, e1, e3, hmul]; omega
                  · rw [e4, e1, e2, hmul]; omega
                  · simp [rolloutDone, hk, e4, e5, hm]
                  · rw [e7, e1, e2]
            rcases trainOff_cases cfg.nEnvs c (offStepState cfg s d) with ⟨he, _⟩ | ⟨he, _⟩ <;> rw [he]
            · exact fin_case _ rfl rfl rfl rfl rfl rfl rfl
            · exact fin_case _ rfl rfl rfl rfl rfl rfl rfl
          · rw [envStep_off_mid cfg c s d k hk hm]
            constructor
            · intro _; simp only [offStepState]; rw [hmul]; omega
            · intro h3; simp [offStepState, hr] at h3

theorem genInv_run (cfg : Cfg) (s : State) (ops : List Op) (h : GenInv cfg s) : GenInv cfg (run cfg s ops).1 := by
  induction ops generalizing s with
  | nil => simpa using h
  | cons op ops ih => rw [run_cons]; exact ih _ (genInv_step cfg s op h)


/-! ### fixed-length rollouts: on-policy -/

structure OnInv (cfg : Cfg) (c : OnCfg) (cnt : Bool) (T start o0 u0 per perU : ℕ) (s : State) : Prop where
  total_eq : s.total = start + T
  start_eq : s.start = start
  run : s.running = true → ∃ i, s.num = start + cfg.nEnvs * c.nSteps * i + cfg.nEnvs * s.colSteps ∧
      cfg.nEnvs * c.nSteps * i < T ∧ s.colSteps < c.nSteps ∧
      (cnt = true → s.optSteps = o0 + per * i ∧ s.nUpdates = u0 + perU * i)
  fin : s.running = false → s.stopped = false → ∃ i, s.num = start + cfg.nEnvs * c.nSteps * i ∧
      T ≤ cfg.nEnvs * c.nSteps * i ∧ (i = 0 ∨ cfg.nEnvs * c.nSteps * (i - 1) < T) ∧
      (cnt = true → s.optSteps = o0 + per * i ∧ s.nUpdates = u0 + perU * i)

theorem onInv_learn (cfg : Cfg) (c : OnCfg) (cnt : Bool) (hL : 0 < c.nSteps) (s0 : State) (h0 : s0.running = false)
    (T : ℕ) (r : Bool) (per perU : ℕ) :
    OnInv cfg c cnt T (if r then 0 else s0.num) s0.optSteps s0.nUpdates per perU (step cfg s0 (.learn T r)).1 := by
  rw [step_learn _ _ _ _ h0]
  have e1 : (setupLearn s0 T r).num = (if r then 0 else s0.num) := by simp [setupLearn]
  have e2 : (setupLearn s0 T r).total = (if r then 0 else s0.num) + T := by cases r <;> simp [setupLearn, Nat.add_comm]
  have e3 : (setupLearn s0 T r).start = (if r then 0 else s0.num) := by simp [setupLearn]
  have e4 : (setupLearn s0 T r).optSteps = s0.optSteps := by simp [setupLearn]
  have e5 : (setupLearn s0 T r).nUpdates = s0.nUpdates := by simp [setupLearn]
  generalize setupLearn s0 T r = s1 at *
  generalize (if r then 0 else s0.num) = st at *
  rcases loopHead_cases s1 with ⟨he, hlt⟩ | ⟨he, hge⟩ <;> rw [he]
  · refine ⟨e2, e3, fun _ => ⟨0, ?_⟩, fun h => by simp at h⟩
    simp only [Nat.mul_zero, Nat.add_zero]
    exact ⟨e1, by omega, hL, fun _ => ⟨e4, e5⟩⟩
  · refine ⟨e2, e3, fun h => by simp at h, fun _ _ => ⟨0, ?_⟩⟩
    simp only [Nat.mul_zero, Nat.add_zero]
    exact ⟨e1, by omega, Or.inl trivial, fun _ => ⟨e4, e5⟩⟩

theorem onInv_env (cfg : Cfg) (c : OnCfg) (cnt : Bool) (hk : cfg.kind = .on c) (T start o0 u0 per perU : ℕ) (s : State)
    (a : Bool) (d : ℕ) (k : List Bool) (hc : cnt = true → onTrainCounts cfg.nEnvs c k = (per, perU))
    (h : OnInv cfg c cnt T start o0 u0 per perU s) :
    OnInv cfg c cnt T start o0 u0 per perU (step cfg s (.env a d k)).1 := by
  cases hr : s.running
  · rw [step_env_idle _ _ _ _ _ hr]; exact h
  · rw [step_env _ _ _ _ _ hr]
    obtain ⟨i, hn, hlt, hcol, hcnt⟩ := h.run hr
    have ht := h.total_eq
    have hs := h.start_eq
    cases a with
    | true =>
      rw [envStep_stop]
      exact ⟨ht, hs, fun h => by simp at h, fun _ h => by simp at h⟩
    | false =>
      by_cases hm : s.colSteps + 1 < c.nSteps
      · rw [envStep_on_mid cfg c s d k hk hm]
        refine ⟨ht, hs, fun _ => ⟨i, ?_⟩, fun h => by simp [hr] at h⟩
        simp only
        refine ⟨?_, hlt, hm, hcnt⟩
        rw [Nat.mul_succ]; omega
      · rw [envStep_on_end cfg c s d k hk hm, trainOn_eq]
        have hfull : cfg.nEnvs * (s.colSteps + 1) = cfg.nEnvs * c.nSteps := by
          rw [show s.colSteps + 1 = c.nSteps by omega]
        have hR : cfg.nEnvs * c.nSteps * (i + 1) = cfg.nEnvs * c.nSteps * i + cfg.nEnvs * c.nSteps := Nat.mul_succ _ _
        have hP : per * (i + 1) = per * i + per := Nat.mul_succ _ _
        have hU : perU * (i + 1) = perU * i + perU := Nat.mul_succ _ _
        rw [Nat.mul_succ] at hfull
        have hcnt' : cnt = true →
            s.optSteps + (onTrainCounts cfg.nEnvs c k).1 = o0 + per * (i + 1) ∧
              s.nUpdates + (onTrainCounts cfg.nEnvs c k).2 = u0 + perU * (i + 1) := by
          intro hb
          obtain ⟨ho, hu⟩ := hcnt hb
          rw [hc hb]; simp only; omega
        rcases loopHead_cases
          { onEndState cfg s with
            nUpdates := (onEndState cfg s).nUpdates + (onTrainCounts cfg.nEnvs c k).2,
            optSteps := (onEndState cfg s).optSteps + (onTrainCounts cfg.nEnvs c k).1 } with ⟨he, hlt'⟩ | ⟨he, hge⟩ <;> rw [he]
        · simp only [onEndState] at hlt' ⊢
          refine ⟨ht, hs, fun _ => ⟨i + 1, ?_⟩, fun h => by simp at h⟩
          simp only [Nat.mul_zero, Nat.add_zero]
          exact ⟨by omega, by omega, by omega, hcnt'⟩
        · simp only [onEndState] at hge ⊢
          refine ⟨ht, hs, fun h => by simp at h, fun _ _ => ⟨i + 1, ?_⟩⟩
          simp only [Nat.add_sub_cancel]
          exact ⟨by omega, by omega, Or.inr hlt, hcnt'⟩

theorem onInv_run (cfg : Cfg) (c : OnCfg) (cnt : Bool) (hk : cfg.kind = .on c) (T start o0 u0 per perU : ℕ) (s1 : State)
    (h1 : OnInv cfg c cnt T start o0 u0 per perU s1) (ins : List Op)
    (hins : ∀ op ∈ ins, ∃ a d k, op = .env a d k ∧ (cnt = true → onTrainCounts cfg.nEnvs c k = (per, perU))) :
    OnInv cfg c cnt T start o0 u0 per perU (run cfg s1 ins).1 := by
  induction ins generalizing s1 with
  | nil => simpa using h1
  | cons op ops ih =>
    obtain ⟨a, d, k, rfl, hc⟩ := hins op (by simp)
    rw [run_cons]
    exact ih _ (onInv_env cfg c cnt hk _ _ _ _ _ _ _ a d k hc h1) (fun op hop => hins op (by simp [hop]))

theorem onInv_call (cfg : Cfg) (c : OnCfg) (cnt : Bool) (hk : cfg.kind = .on c) (hL : 0 < c.nSteps) (s0 : State)
    (h0 : s0.running = false) (T : ℕ) (r : Bool) (per perU : ℕ) (ins : List Op)
    (hins : ∀ op ∈ ins, ∃ a d k, op = .env a d k ∧ (cnt = true → onTrainCounts cfg.nEnvs c k = (per, perU))) :
    OnInv cfg c cnt T (if r then 0 else s0.num) s0.optSteps s0.nUpdates per perU (run cfg s0 (.learn T r :: ins)).1 := by
  rw [run_cons]
  exact onInv_run cfg c cnt hk _ _ _ _ _ _ _ (onInv_learn cfg c cnt hL s0 h0 T r per perU) ins hins

theorem ceil_unique (R T i : ℕ) (hR : 0 < R) (h1 : T ≤ R * i) (h2 : i = 0 ∨ R * (i - 1) < T) : i = ceilDiv T R := by
  unfold ceilDiv
  symm
  apply Nat.div_eq_of_lt_le
  · rcases h2 with rfl | h2
    · simp
    · have : R * i = R * (i - 1) + R := by
        cases i with
        | zero => simp at h1; omega
        | succ j => simp [Nat.mul_succ]
      rw [Nat.mul_comm i R]; omega
  · rw [Nat.succ_mul, Nat.mul_comm i R]; omega


/-! ### fixed-length rollouts: off-policy, `train_freq` in steps -/

/-- rollouts of the call that end at or before `learning_starts`: `⌊(learning_starts - start) / R⌋` -/
def warmupRollouts (cfg : Cfg) (c : OffCfg) (start : ℕ) : ℕ := (c.learningStarts - start) / (cfg.nEnvs * c.freq)

/-- number of the first `i` rollouts that are followed by a `train()` -/
def trained (cfg : Cfg) (c : OffCfg) (start i : ℕ) : ℕ := i - min i (warmupRollouts cfg c start)

structure OffInv (cfg : Cfg) (c : OffCfg) (T start o0 u0 : ℕ) (s : State) : Prop where
  total_eq : s.total = start + T
  start_eq : s.start = start
  run : s.running = true → ∃ i, s.num = start + cfg.nEnvs * c.freq * i + cfg.nEnvs * s.colSteps ∧
      cfg.nEnvs * c.freq * i < T ∧ s.colSteps < c.freq ∧
      s.optSteps = o0 + gradStepsOf cfg.nEnvs c c.freq * trained cfg c start i ∧
      s.nUpdates = u0 + gradStepsOf cfg.nEnvs c c.freq * trained cfg c start i
  fin : s.running = false → s.stopped = false → ∃ i, s.num = start + cfg.nEnvs * c.freq * i ∧
      T ≤ cfg.nEnvs * c.freq * i ∧ (i = 0 ∨ cfg.nEnvs * c.freq * (i - 1) < T) ∧
      s.optSteps = o0 + gradStepsOf cfg.nEnvs c c.freq * trained cfg c start i ∧
      s.nUpdates = u0 + gradStepsOf cfg.nEnvs c c.freq * trained cfg c start i

theorem offInv_learn (cfg : Cfg) (c : OffCfg) (hL : 0 < c.freq) (s0 : State) (h0 : s0.running = false)
    (T : ℕ) (r : Bool) :
    OffInv cfg c T (if r then 0 else s0.num) s0.optSteps s0.nUpdates (step cfg s0 (.learn T r)).1 := by
  rw [step_learn _ _ _ _ h0]
  have e1 : (setupLearn s0 T r).num = (if r then 0 else s0.num) := by simp [setupLearn]
  have e2 : (setupLearn s0 T r).total = (if r then 0 else s0.num) + T := by cases r <;> simp [setupLearn, Nat.add_comm]
  have e3 : (setupLearn s0 T r).start = (if r then 0 else s0.num) := by simp [setupLearn]
  have e4 : (setupLearn s0 T r).optSteps = s0.optSteps := by simp [setupLearn]
  have e5 : (setupLearn s0 T r).nUpdates = s0.nUpdates := by simp [setupLearn]
  generalize setupLearn s0 T r = s1 at *
  generalize (if r then 0 else s0.num) = st at *
  rcases loopHead_cases s1 with ⟨he, hlt⟩ | ⟨he, hge⟩ <;> rw [he]
  · refine ⟨e2, e3, fun _ => ⟨0, ?_⟩, fun h => by simp at h⟩
    simp only [Nat.mul_zero, Nat.add_zero, trained, Nat.zero_sub]
    exact ⟨e1, by omega, hL, e4, e5⟩
  · refine ⟨e2, e3, fun h => by simp at h, fun _ _ => ⟨0, ?_⟩⟩
    simp only [Nat.mul_zero, Nat.add_zero, trained, Nat.zero_sub]
    exact ⟨e1, by omega, Or.inl trivial, e4, e5⟩

theorem offInv_env (cfg : Cfg) (c : OffCfg) (hk : cfg.kind = .off c) (hu : c.unit = .step) (hn : 0 < cfg.nEnvs)
    (T start o0 u0 : ℕ) (s : State) (a : Bool) (d : ℕ) (k : List Bool)
    (h : OffInv cfg c T start o0 u0 s) : OffInv cfg c T start o0 u0 (step cfg s (.env a d k)).1 := by
  cases hr : s.running
  · rw [step_env_idle _ _ _ _ _ hr]; exact h
  · rw [step_env _ _ _ _ _ hr]
    obtain ⟨i, hnum, hlt, hcol, ho, hupd⟩ := h.run hr
    have ht := h.total_eq
    have hs := h.start_eq
    cases a with
    | true =>
      rw [envStep_stop]
      exact ⟨ht, hs, fun h => by simp at h, fun _ h => by simp at h⟩
    | false =>
      have hsc : shouldCollectMore c (s.colSteps + 1) (s.colEps + d) = decide (s.colSteps + 1 < c.freq) := by
        simp [shouldCollectMore, hu]
      by_cases hm : s.colSteps + 1 < c.freq
      · rw [envStep_off_mid cfg c s d k hk (by rw [hsc]; simpa using hm)]
        refine ⟨ht, hs, fun _ => ⟨i, ?_⟩, fun h => by simp [offStepState, hr] at h⟩
        simp only [offStepState]
        refine ⟨?_, hlt, hm, ho, hupd⟩
        rw [Nat.mul_succ]; omega
      · rw [envStep_off_end cfg c s d k hk (by rw [hsc]; simpa using hm)]
        have hcol1 : s.colSteps + 1 = c.freq := by omega
        have hfull : cfg.nEnvs * s.colSteps + cfg.nEnvs = cfg.nEnvs * c.freq := by
          rw [← hcol1, Nat.mul_succ]
        have hR : cfg.nEnvs * c.freq * (i + 1) = cfg.nEnvs * c.freq * i + cfg.nEnvs * c.freq := Nat.mul_succ _ _
        have hRpos : 0 < cfg.nEnvs * c.freq := Nat.mul_pos hn (by omega)
        -- is the rollout that just ended followed by train()?
        have hq : warmupRollouts cfg c start < i + 1 ↔ c.learningStarts < s.num + cfg.nEnvs := by
          unfold warmupRollouts
          rw [Nat.div_lt_iff_lt_mul hRpos, Nat.mul_comm (i + 1)]
          omega
        set g := gradStepsOf cfg.nEnvs c c.freq with hg
        have key : ∀ s3 : State, s3.num = s.num + cfg.nEnvs → s3.total = s.total → s3.start = s.start →
            s3.stopped = s.stopped → s3.optSteps = o0 + g * trained cfg c start (i + 1) →
            s3.nUpdates = u0 + g * trained cfg c start (i + 1) →
            OffInv cfg c T start o0 u0 (loopHead s3).1 := by
          intro s3 e1 e2 e3 e4 e5 e6
          rcases loopHead_cases s3 with ⟨he, hlt'⟩ | ⟨he, hge⟩ <;> rw [he]
          · refine ⟨by simp [e2, ht], by simp [e3, hs], fun _ => ⟨i + 1, ?_⟩, fun h => by simp at h⟩
            simp only [Nat.mul_zero, Nat.add_zero]
            exact ⟨by omega, by omega, by omega, e5, e6⟩
          · refine ⟨by simp [e2, ht], by simp [e3, hs], fun h => by simp at h, fun _ _ => ⟨i + 1, ?_⟩⟩
            simp only [Nat.add_sub_cancel]
            exact ⟨by omega, by omega, Or.inr hlt, e5, e6⟩
        rcases trainOff_cases cfg.nEnvs c (offStepState cfg s d) with ⟨he, hno⟩ | ⟨he, h1, h2, h3⟩ <;> rw [he]
        · -- no train(): either still warming up or gradient_steps = 0
          simp only [offStepState, hcol1] at hno
          have : g * trained cfg c start (i + 1) = g * trained cfg c start i := by
            by_cases hg0 : g = 0
            · simp [hg0]
            · have : ¬ c.learningStarts < s.num + cfg.nEnvs := by
                intro hc; exact hno ⟨by omega, hc, by omega⟩
              have : ¬ warmupRollouts cfg c start < i + 1 := fun hc => this (hq.mp hc)
              have : trained cfg c start (i + 1) = trained cfg c start i := by unfold trained; omega
              rw [this]
          refine key (offStepState cfg s d) rfl rfl rfl rfl ?_ ?_
          · simp only [offStepState]; rw [this]; exact ho
          · simp only [offStepState]; rw [this]; exact hupd
        · simp only [offStepState, hcol1] at h2
          have hw : warmupRollouts cfg c start < i + 1 := hq.mpr h2
          have : trained cfg c start (i + 1) = trained cfg c start i + 1 := by unfold trained; omega
          have hmul : g * trained cfg c start (i + 1) = g * trained cfg c start i + g := by
            rw [this, Nat.mul_succ]
          have hgc : gradStepsOf cfg.nEnvs c (offStepState cfg s d).colSteps = g := by
            simp only [offStepState, hcol1, hg]
          refine key _ rfl rfl rfl rfl ?_ ?_
          · simp only [hgc]; rw [hmul]; simp only [offStepState]; omega
          · simp only [hgc]; rw [hmul]; simp only [offStepState]; omega


theorem offInv_run (cfg : Cfg) (c : OffCfg) (hk : cfg.kind = .off c) (hu : c.unit = .step) (hn : 0 < cfg.nEnvs)
    (T start o0 u0 : ℕ) (s1 : State) (h1 : OffInv cfg c T start o0 u0 s1) (ins : List Op)
    (hins : ∀ op ∈ ins, ∃ a d k, op = .env a d k) : OffInv cfg c T start o0 u0 (run cfg s1 ins).1 := by
  induction ins generalizing s1 with
  | nil => simpa using h1
  | cons op ops ih =>
    obtain ⟨a, d, k, rfl⟩ := hins op (by simp)
    rw [run_cons]
    exact ih _ (offInv_env cfg c hk hu hn _ _ _ _ _ a d k h1) (fun op hop => hins op (by simp [hop]))

theorem offInv_call (cfg : Cfg) (c : OffCfg) (hk : cfg.kind = .off c) (hu : c.unit = .step) (hn : 0 < cfg.nEnvs)
    (hL : 0 < c.freq) (s0 : State) (h0 : s0.running = false) (T : ℕ) (r : Bool) (ins : List Op)
    (hins : ∀ op ∈ ins, ∃ a d k, op = .env a d k) :
    OffInv cfg c T (if r then 0 else s0.num) s0.optSteps s0.nUpdates (run cfg s0 (.learn T r :: ins)).1 := by
  rw [run_cons]
  exact offInv_run cfg c hk hu hn _ _ _ _ _ (offInv_learn cfg c hL s0 h0 T r) ins hins

/-! ### TD3's delayed actor updates -/

theorem actorSteps_closed (d u g : ℕ) (hd : 0 < d) : actorSteps d u g = (u + g) / d - u / d := by
  unfold actorSteps
  rw [if_neg (by omega)]
  induction g with
  | zero => simp
  | succ g ih =>
    rw [List.range_succ, List.filter_append, List.length_append, ih]
    have hmono : u / d ≤ (u + g) / d := Nat.div_le_div_right (by omega)
    have hs : (u + (g + 1)) / d = (u + g) / d + if d ∣ u + g + 1 then 1 else 0 := by
      rw [← Nat.add_assoc]; exact Nat.succ_div
    rw [hs]
    by_cases hdiv : d ∣ u + g + 1
    · have : (u + g + 1) % d = 0 := Nat.mod_eq_zero_of_dvd hdiv
      simp [hdiv, this]; omega
    · have : (u + g + 1) % d ≠ 0 := fun h => hdiv (Nat.dvd_of_mod_eq_zero h)
      simp [hdiv, this]

/-! ### PPO's KL early exit: the first exceeding minibatch ends `train()` before its optimizer step -/

theorem firstTrue_some (l : List Bool) (j : ℕ) (h : firstTrue l = some j) :
    j < l.length ∧ l.getD j false = true ∧ ∀ i, i < j → l.getD i false = false := by
  induction l generalizing j with
  | nil => simp [firstTrue] at h
  | cons b t ih =>
    cases b with
    | true =>
      simp only [firstTrue, Option.some.injEq] at h
      subst h
      simp
    | false =>
      simp only [firstTrue, Option.map_eq_some_iff] at h
      obtain ⟨j', hj', rfl⟩ := h
      obtain ⟨h1, h2, h3⟩ := ih j' hj'
      refine ⟨by simp; omega, by simpa using h2, ?_⟩
      intro i hi
      cases i with
      | zero => simp
      | succ i => simpa using h3 i (by omega)

theorem firstTrue_none (l : List Bool) (h : firstTrue l = none) : ∀ i, l.getD i false = false := by
  induction l with
  | nil => simp
  | cons b t ih =>
    cases b with
    | true => simp [firstTrue] at h
    | false =>
      simp only [firstTrue, Option.map_eq_none_iff] at h
      intro i
      cases i with
      | zero => simp
      | succ i => simpa using ih h i

theorem getD_take (l : List Bool) (n i : ℕ) (h : i < n) : (l.take n).getD i false = l.getD i false := by
  simp [List.getD_eq_getElem?_getD, h]

/-- exact count: `u` optimizer steps, where `u` is the index of the first minibatch (among the `full` ones of the
call) whose KL flag is set, or `full` when none is -/
theorem onTrainCounts_exact (nEnvs : ℕ) (c : OnCfg) (kl : List Bool) (h : c.a2c = false) :
    (onTrainCounts nEnvs c kl).1 ≤ ppoFull nEnvs c ∧
      (∀ i, i < (onTrainCounts nEnvs c kl).1 → kl.getD i false = false) ∧
      ((onTrainCounts nEnvs c kl).1 < ppoFull nEnvs c → kl.getD (onTrainCounts nEnvs c kl).1 false = true) ∧
      ((onTrainCounts nEnvs c kl).1 < ppoFull nEnvs c →
        (onTrainCounts nEnvs c kl).2 = (onTrainCounts nEnvs c kl).1 / nBatches (c.nSteps * nEnvs) c.batch + 1) ∧
      ((onTrainCounts nEnvs c kl).1 = ppoFull nEnvs c → (onTrainCounts nEnvs c kl).2 = c.nEpochs) := by
  unfold onTrainCounts
  simp only [h, Bool.false_eq_true, if_false]
  cases hf : firstTrue (kl.take (ppoFull nEnvs c)) with
  | none =>
    have hn := firstTrue_none _ hf
    refine ⟨Nat.le_refl _, fun i hi => ?_, fun hlt => absurd hlt (Nat.lt_irrefl _), fun hlt => absurd hlt (Nat.lt_irrefl _),
      fun _ => rfl⟩
    have hi' : i < ppoFull nEnvs c := hi
    rw [← getD_take kl (ppoFull nEnvs c) i hi']; exact hn i
  | some j =>
    obtain ⟨h1, h2, h3⟩ := firstTrue_some _ j hf
    have hj : j < ppoFull nEnvs c := by
      have := List.length_take_le (ppoFull nEnvs c) kl
      omega
    refine ⟨Nat.le_of_lt hj, fun i hi => ?_, fun _ => ?_, fun _ => rfl, fun he => absurd he (Nat.ne_of_lt hj)⟩
    · have hi' : i < j := hi
      rw [← getD_take kl (ppoFull nEnvs c) i (by omega)]; exact h3 i hi'
    · show kl.getD j false = true
      rw [← getD_take kl (ppoFull nEnvs c) j hj]; exact h2

theorem onTrainCounts_le (nEnvs : ℕ) (c : OnCfg) (kl : List Bool) (h : c.a2c = false) :
    (onTrainCounts nEnvs c kl).1 ≤ ppoFull nEnvs c ∧ (onTrainCounts nEnvs c kl).2 ≤ c.nEpochs := by
  obtain ⟨h1, _, _, h4, h5⟩ := onTrainCounts_exact nEnvs c kl h
  refine ⟨h1, ?_⟩
  rcases Nat.lt_or_eq_of_le h1 with hlt | heq
  · rw [h4 hlt]
    unfold ppoFull at hlt
    have hnb : 0 < nBatches (c.nSteps * nEnvs) c.batch := by
      rcases Nat.eq_zero_or_pos (nBatches (c.nSteps * nEnvs) c.batch) with h0 | h0
      · rw [h0] at hlt; simp at hlt
      · exact h0
    have := (Nat.div_lt_iff_lt_mul hnb).mpr hlt
    omega
  · rw [h5 heq]

/-! ### the linear schedule (`get_linear_fn`) -/

theorem linearFn_at_one (a b f : ℚ) (hf : 0 < f) : linearFn a b f 1 = a := by
  unfold linearFn
  rw [if_neg (by linarith)]
  simp

theorem linearFn_end (a b f p : ℚ) (h : f < 1 - p) : linearFn a b f p = b := by
  unfold linearFn
  rw [if_pos h]

theorem linearFn_mid (a b f p : ℚ) (h : 1 - p ≤ f) : linearFn a b f p = a + (1 - p) / f * (b - a) := by
  unfold linearFn
  rw [if_neg (by linarith)]
  ring

theorem linearFn_bounds (a b f p : ℚ) (hf : 0 < f) (hp : p ≤ 1) :
    min a b ≤ linearFn a b f p ∧ linearFn a b f p ≤ max a b := by
  by_cases h : f < 1 - p
  · rw [linearFn_end _ _ _ _ h]; exact ⟨min_le_right _ _, le_max_right _ _⟩
  · rw [linearFn_mid _ _ _ _ (by linarith)]
    have h0 : 0 ≤ (1 - p) / f := div_nonneg (by linarith) hf.le
    have h1 : (1 - p) / f ≤ 1 := (div_le_one hf).mpr (by linarith)
    rcases le_total a b with hab | hab
    · rw [min_eq_left hab, max_eq_right hab]
      constructor <;> nlinarith
    · rw [min_eq_right hab, max_eq_left hab]
      constructor <;> nlinarith

/-- with `final ≤ initial` the value never increases when the progress decreases -/
theorem linearFn_mono (a b f p p' : ℚ) (hf : 0 < f) (hab : b ≤ a) (hpp : p' ≤ p) (hp : p ≤ 1) :
    linearFn a b f p' ≤ linearFn a b f p := by
  by_cases h' : f < 1 - p'
  · rw [linearFn_end _ _ _ _ h']
    have := (linearFn_bounds a b f p hf hp).1
    rwa [min_eq_right hab] at this
  · have h : ¬ f < 1 - p := by linarith
    rw [linearFn_mid _ _ _ _ (by linarith), linearFn_mid _ _ _ _ (by linarith)]
    have : (1 - p) / f ≤ (1 - p') / f := div_le_div_of_nonneg_right (by linarith) hf.le
    nlinarith


/-! ### progress is computed from the current clocks and stays in `[0, 1]` -/

/-- counter and target an observer of the trace knows after the events `es` -/
def lastClk : ℕ → ℕ → List Ev → ℕ × ℕ
  | cur, tot, [] => (cur, tot)
  | _, _, .setup num total :: es => lastClk num total es
  | _, tot, .step num _ :: es => lastClk num tot es
  | cur, tot, .rolloutStart _ _ :: es => lastClk cur tot es
  | cur, tot, .progress _ _ _ :: es => lastClk cur tot es
  | cur, tot, .rolloutEnd _ _ _ :: es => lastClk cur tot es
  | cur, tot, .train _ _ _ _ _ :: es => lastClk cur tot es
  | cur, tot, .finish _ _ :: es => lastClk cur tot es

theorem progressOk_append (cur tot : ℕ) (a b : List Ev) :
    progressOk cur tot (a ++ b) ↔
      progressOk cur tot a ∧ progressOk (lastClk cur tot a).1 (lastClk cur tot a).2 b := by
  induction a generalizing cur tot with
  | nil => simp [progressOk, lastClk]
  | cons e es ih => cases e <;> simp [progressOk, lastClk, ih, and_assoc]

theorem shape_progress (cfg : Cfg) (s s' : State) (evs : List Ev) (h : Shape cfg s s' evs) :
    progressOk s.num s.total evs ∧ lastClk s.num s.total evs = (s'.num, s'.total) := by
  cases h with
  | skip => simp [progressOk, lastClk]
  | learn s' tl T r _ _ _ _ ht => cases ht <;> simp [progressOk, lastClk]
  | stop s' hn ht => simp [progressOk, lastClk, hn, ht]
  | onMid s' c _ hn ht => simp [progressOk, lastClk, hn, ht]
  | onEnd s' c k opt nu tl _ hn ht _ htl => cases htl <;> simp [progressOk, lastClk, hn, ht]
  | offMid s' hn ht => simp [progressOk, lastClk, hn, ht]
  | offEnd s' c k tr tl _ hn ht _ htr htl =>
    rcases htr with rfl | ⟨g, a, nu, rfl, _, _⟩ <;> cases htl <;> simp [progressOk, lastClk, hn, ht]

theorem run_progress (cfg : Cfg) (s : State) (ops : List Op) : progressOk s.num s.total (run cfg s ops).2 := by
  induction ops generalizing s with
  | nil => simp [progressOk]
  | cons op ops ih =>
    rw [run_cons, progressOk_append]
    obtain ⟨h1, h2⟩ := shape_progress cfg s _ _ (step_shape cfg s op)
    exact ⟨h1, by rw [h2]; exact ih _⟩

def UnitProg (p : ℚ) : Prop := 0 ≤ p ∧ p ≤ 1

theorem unitProg_of (n t : ℕ) : UnitProg (progressOf n t) := ⟨progressOf_nonneg n t, progressOf_le_one n t⟩

theorem shape_unit (cfg : Cfg) (s s' : State) (evs : List Ev) (h : Shape cfg s s' evs) (hs : UnitProg s.progress) :
    (∀ e ∈ evs, ∀ p, e.prog = some p → UnitProg p) ∧ UnitProg s'.progress := by
  have hu := unitProg_of (s.num + cfg.nEnvs) s.total
  cases h with
  | skip => simpa using hs
  | learn s' tl T r _ _ _ hp ht => cases ht <;> simp [Ev.prog, hp, hs]
  | stop s' hn ht hp => simp [Ev.prog, hp, hs]
  | onMid s' c _ hn ht hp => simp [Ev.prog, hp, hs]
  | onEnd s' c k opt nu tl _ hn ht hp htl => cases htl <;> simp [Ev.prog, hp, hs, hu]
  | offMid s' hn ht hp => simp [Ev.prog, hp, hs, hu]
  | offEnd s' c k tr tl _ hn ht hp htr htl =>
    rcases htr with rfl | ⟨g, a, nu, rfl, _, _⟩ <;> cases htl <;> simp [Ev.prog, hp, hs, hu]

theorem run_unit (cfg : Cfg) (s : State) (ops : List Op) (hs : UnitProg s.progress) :
    (∀ e ∈ (run cfg s ops).2, ∀ p, e.prog = some p → UnitProg p) ∧ UnitProg (run cfg s ops).1.progress := by
  induction ops generalizing s with
  | nil => simpa using hs
  | cons op ops ih =>
    rw [run_cons]
    obtain ⟨h1, h2⟩ := shape_unit cfg s _ _ (step_shape cfg s op) hs
    obtain ⟨h3, h4⟩ := ih _ h2
    refine ⟨?_, h4⟩
    intro e he p hp
    rcases List.mem_append.mp he with he | he
    · exact h1 e he p hp
    · exact h3 e he p hp


/-! ### `rolloutEnd` reports the number of steps of its rollout -/

def lastK : ℕ → List Ev → ℕ
  | k, [] => k
  | _, .rolloutStart _ _ :: es => lastK 0 es
  | k, .step _ _ :: es => lastK (k + 1) es
  | k, .setup _ _ :: es => lastK k es
  | k, .progress _ _ _ :: es => lastK k es
  | k, .rolloutEnd _ _ _ :: es => lastK k es
  | k, .train _ _ _ _ _ :: es => lastK k es
  | k, .finish _ _ :: es => lastK k es

theorem rolloutStepsOk_append (k : ℕ) (a b : List Ev) :
    rolloutStepsOk k (a ++ b) ↔ rolloutStepsOk k a ∧ rolloutStepsOk (lastK k a) b := by
  induction a generalizing k with
  | nil => simp [rolloutStepsOk, lastK]
  | cons e es ih => cases e <;> simp [rolloutStepsOk, lastK, ih, and_assoc]

theorem shape_rolloutSteps (cfg : Cfg) (s s' : State) (evs : List Ev) (h : Shape cfg s s' evs) (k : ℕ)
    (hk : s.running = true → k = s.colSteps) (hrun : ∀ n p, Ev.step n p ∈ evs → s.running = true) :
    rolloutStepsOk k evs ∧ (s'.running = true → lastK k evs = s'.colSteps) := by
  cases h with
  | skip => simpa [rolloutStepsOk, lastK] using hk
  | learn s' tl T r _ _ _ _ ht =>
    cases ht with
    | start h1 h2 => simp [rolloutStepsOk, lastK, h2]
    | fin h1 => simp [rolloutStepsOk, lastK, h1]
  | stop s' _ _ _ hr => simp [rolloutStepsOk, lastK, hr]
  | onMid s' c _ _ _ _ hc =>
    have := hk (hrun _ _ List.mem_cons_self)
    simp [rolloutStepsOk, lastK, hc, this]
  | onEnd s' c k' opt nu tl _ _ _ _ ht hk' =>
    have := hk (hrun _ _ List.mem_cons_self)
    cases ht with
    | start h1 h2 => simp [rolloutStepsOk, lastK, h2, hk', this]
    | fin h1 => simp [rolloutStepsOk, lastK, h1, hk', this]
  | offMid s' _ _ _ hc =>
    have := hk (hrun _ _ List.mem_cons_self)
    simp [rolloutStepsOk, lastK, hc, this]
  | offEnd s' c k' tr tl _ _ _ _ htr ht hk' =>
    have := hk (hrun _ _ List.mem_cons_self)
    rcases htr with rfl | ⟨g, a, nu, rfl, _, _⟩ <;> cases ht with
    | start h1 h2 => simp [rolloutStepsOk, lastK, h2, hk', this]
    | fin h1 => simp [rolloutStepsOk, lastK, h1, hk', this]

theorem step_evs_running (cfg : Cfg) (s : State) (op : Op) :
    ∀ n p, Ev.step n p ∈ (step cfg s op).2 → s.running = true := by
  cases hr : s.running
  · cases op with
    | learn T r =>
      rw [step_learn _ _ _ _ hr]
      rcases loopHead_cases (setupLearn s T r) with ⟨he, _⟩ | ⟨he, _⟩ <;> rw [he] <;> simp
    | env a d k => rw [step_env_idle _ _ _ _ _ hr]; simp
  · simp

theorem run_rolloutSteps (cfg : Cfg) (s : State) (ops : List Op) (k : ℕ) (hk : s.running = true → k = s.colSteps) :
    rolloutStepsOk k (run cfg s ops).2 := by
  induction ops generalizing s k with
  | nil => simp [rolloutStepsOk]
  | cons op ops ih =>
    rw [run_cons, rolloutStepsOk_append]
    obtain ⟨h1, h2⟩ := shape_rolloutSteps cfg s _ _ (step_shape cfg s op) k hk (step_evs_running cfg s op)
    exact ⟨h1, ih _ _ h2⟩


/-! ### frame facts and the per-rollout update contract -/

theorem loopHead_frame (s : State) :
    (loopHead s).1.num = s.num ∧ (loopHead s).1.total = s.total ∧ (loopHead s).1.start = s.start := by
  rcases loopHead_cases s with ⟨h, _⟩ | ⟨h, _⟩ <;> rw [h] <;> simp

theorem trainOff_frame (nEnvs : ℕ) (c : OffCfg) (s : State) :
    (trainOff nEnvs c s).1.num = s.num ∧ (trainOff nEnvs c s).1.total = s.total ∧
      (trainOff nEnvs c s).1.start = s.start := by
  rcases trainOff_cases nEnvs c s with ⟨h, _⟩ | ⟨h, _⟩ <;> rw [h] <;> simp

theorem step_env_clocks (cfg : Cfg) (s : State) (a : Bool) (d : ℕ) (k : List Bool) (h : s.running = true) :
    (step cfg s (.env a d k)).1.num = s.num + cfg.nEnvs ∧ (step cfg s (.env a d k)).1.total = s.total ∧
      (step cfg s (.env a d k)).1.start = s.start := by
  rw [step_env _ _ _ _ _ h]
  cases a with
  | true => simp [envStep_stop]
  | false =>
    cases hk : cfg.kind with
    | on c =>
      by_cases hm : s.colSteps + 1 < c.nSteps
      · simp [envStep_on_mid cfg c s d k hk hm]
      · rw [envStep_on_end cfg c s d k hk hm]
        obtain ⟨h1, h2, h3⟩ := loopHead_frame (trainOn cfg.nEnvs c (onEndState cfg s) k).1
        exact ⟨h1.trans rfl, h2.trans rfl, h3.trans rfl⟩
    | off c =>
      cases hm : shouldCollectMore c (s.colSteps + 1) (s.colEps + d)
      · rw [envStep_off_end cfg c s d k hk hm]
        obtain ⟨h1, h2, h3⟩ := loopHead_frame (trainOff cfg.nEnvs c (offStepState cfg s d)).1
        obtain ⟨g1, g2, g3⟩ := trainOff_frame cfg.nEnvs c (offStepState cfg s d)
        exact ⟨h1.trans g1, h2.trans g2, h3.trans g3⟩
      · simp [envStep_off_mid cfg c s d k hk hm, offStepState]

theorem trains_loopHead (s : State) : trains (loopHead s).2 = [] := by
  rcases loopHead_cases s with ⟨h, _⟩ | ⟨h, _⟩ <;> rw [h] <;> simp [trains]

theorem trains_on_step (cfg : Cfg) (c : OnCfg) (hk : cfg.kind = .on c) (s : State) (hr : s.running = true)
    (d : ℕ) (k : List Bool) :
    trains (step cfg s (.env false d k)).2 =
      if s.colSteps + 1 < c.nSteps then [] else [(s.num + cfg.nEnvs, (onTrainCounts cfg.nEnvs c k).1)] := by
  rw [step_env _ _ _ _ _ hr]
  by_cases hm : s.colSteps + 1 < c.nSteps
  · simp [envStep_on_mid cfg c s d k hk hm, hm, trains]
  · rw [envStep_on_end cfg c s d k hk hm]
    simp only [trains_append, trains_loopHead, hm, if_false, trainOn_eq, onEndState, trains, List.append_nil,
      List.nil_append]

theorem trains_off_step (cfg : Cfg) (c : OffCfg) (hk : cfg.kind = .off c) (s : State) (hr : s.running = true)
    (d : ℕ) (k : List Bool) :
    trains (step cfg s (.env false d k)).2 =
      if shouldCollectMore c (s.colSteps + 1) (s.colEps + d) = false ∧ 0 < s.num + cfg.nEnvs ∧
          c.learningStarts < s.num + cfg.nEnvs ∧ 0 < gradStepsOf cfg.nEnvs c (s.colSteps + 1)
      then [(s.num + cfg.nEnvs, gradStepsOf cfg.nEnvs c (s.colSteps + 1))] else [] := by
  rw [step_env _ _ _ _ _ hr]
  cases hm : shouldCollectMore c (s.colSteps + 1) (s.colEps + d)
  · rw [envStep_off_end cfg c s d k hk hm]
    rcases trainOff_cases cfg.nEnvs c (offStepState cfg s d) with ⟨he, hno⟩ | ⟨he, hyes⟩
    · rw [he]
      simp only [offStepState] at hno
      rw [if_neg (by rintro ⟨_, h⟩; exact hno h)]
      simp [trains_loopHead, trains]
    · rw [he]
      simp only [offStepState] at hyes
      rw [if_pos ⟨rfl, hyes⟩]
      simp [trains_loopHead, trains, offStepState]
  · simp [envStep_off_mid cfg c s d k hk hm, trains]

end SB3Verif.LearnLemmas
