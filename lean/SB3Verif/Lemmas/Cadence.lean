/-
Helper lemmas for C08 (model: `SB3Verif/Model/Cadence.lean`).
-/
import SB3Verif.Model.Cadence
import SB3Verif.Lemmas.Polyak

namespace SB3Verif.Lemmas.Cadence

open SB3Verif.Polyak SB3Verif.Cadence SB3Verif.Lemmas.Polyak

/-! ### event lists -/

theorem gradFlags_append (a b : List Ev) : gradFlags (a ++ b) = gradFlags a ++ gradFlags b := by
  induction a with
  | nil => rfl
  | cons e r ih => cases e <;> simp [gradFlags, ih]

theorem envFlags_append (a b : List Ev) : envFlags (a ++ b) = envFlags a ++ envFlags b := by
  induction a with
  | nil => rfl
  | cons e r ih => cases e <;> simp [envFlags, ih]

theorem gradFlags_map_grad (fs : List Bool) : gradFlags (fs.map Ev.grad) = fs := by
  induction fs with
  | nil => rfl
  | cons f r ih => simp [gradFlags, ih]

theorem envFlags_map_grad (fs : List Bool) : envFlags (fs.map Ev.grad) = [] := by
  induction fs with
  | nil => rfl
  | cons f r ih => simp [envFlags, ih]

/-! ### the loop of `train()` on the counters -/

section ctr
variable {α : Type}

theorem loopCtr_sac (cfg : Cfg α) (h : cfg.algo = .sac) (c : Ctr) (g k : Nat) :
    loopCtr cfg c g k = (c, (List.range k).map fun i => (c.nUpdates + (g + i)) % cfg.interval == 0) := by
  induction k generalizing g with
  | zero => rfl
  | succ k ih =>
    simp only [loopCtr, iterCtr, h, ih (g + 1)]
    rw [List.range_succ_eq_map]
    simp only [List.map_cons, List.map_map, Nat.add_zero]
    congr 2
    apply List.map_congr_left
    intro i _
    simp only [Function.comp]
    congr 3
    omega

theorem loopCtr_td3 (cfg : Cfg α) (h : cfg.algo = .td3) (c : Ctr) (g k : Nat) :
    loopCtr cfg c g k =
      ({ c with nUpdates := c.nUpdates + k },
        (List.range k).map fun i => (c.nUpdates + i + 1) % cfg.delay == 0) := by
  induction k generalizing c g with
  | zero => rfl
  | succ k ih =>
    simp only [loopCtr, iterCtr, h, ih]
    rw [List.range_succ_eq_map]
    simp only [List.map_cons, List.map_map, Nat.add_zero]
    refine Prod.ext ?_ ?_
    · simp only; congr 1; omega
    · simp only
      congr 1
      apply List.map_congr_left
      intro i _
      simp only [Function.comp]
      congr 3
      omega

theorem loopCtr_dqn (cfg : Cfg α) (h : cfg.algo = .dqn) (c : Ctr) (g k : Nat) :
    loopCtr cfg c g k = (c, List.replicate k false) := by
  induction k generalizing g with
  | zero => rfl
  | succ k ih => simp only [loopCtr, iterCtr, h, ih (g + 1), List.replicate_succ]

/-! ### whole histories on the counters -/

theorem ctrRun_sac (cfg : Cfg α) (h : cfg.algo = .sac) (c : Ctr) (ops : List CtrOp) :
    (ctrRun cfg c ops).1 = { c with nUpdates := c.nUpdates + totalGrad ops } ∧
    gradFlags (ctrRun cfg c ops).2 =
      (List.range (totalGrad ops)).map (fun j => (c.nUpdates + j) % cfg.interval == 0) ∧
    envFlags (ctrRun cfg c ops).2 = List.replicate (totalEnv ops) false := by
  induction ops generalizing c with
  | nil => simp [ctrRun, totalGrad, totalEnv, gradFlags, envFlags]
  | cons op ops ih =>
    cases op with
    | envStep =>
      obtain ⟨i1, i2, i3⟩ := ih c
      simp only [ctrRun, ctrStep, onStepCtr, h, totalGrad, totalEnv]
      refine ⟨i1, ?_, ?_⟩
      · simpa [gradFlags] using i2
      · simp only [List.cons_append, List.nil_append, envFlags, i3]
        rw [Nat.add_comm, List.replicate_succ]
    | train G =>
      obtain ⟨i1, i2, i3⟩ := ih { c with nUpdates := c.nUpdates + G }
      simp only [ctrRun, ctrStep, loopCtr_sac cfg h, endTrainCtr, h, totalGrad, totalEnv]
      refine ⟨?_, ?_, ?_⟩
      · rw [i1]; simp only [Ctr.mk.injEq, true_and]; omega
      · rw [gradFlags_append, gradFlags_map_grad, i2, List.range_add, List.map_append, List.map_map]
        congr 1
        · apply List.map_congr_left; intro i _; simp
        · apply List.map_congr_left; intro i _; simp only [Function.comp]; rw [Nat.add_assoc]
      · rw [envFlags_append, envFlags_map_grad, i3]; rfl

theorem ctrRun_td3 (cfg : Cfg α) (h : cfg.algo = .td3) (c : Ctr) (ops : List CtrOp) :
    (ctrRun cfg c ops).1 = { c with nUpdates := c.nUpdates + totalGrad ops } ∧
    gradFlags (ctrRun cfg c ops).2 =
      (List.range (totalGrad ops)).map (fun j => (c.nUpdates + j + 1) % cfg.delay == 0) ∧
    envFlags (ctrRun cfg c ops).2 = List.replicate (totalEnv ops) false := by
  induction ops generalizing c with
  | nil => simp [ctrRun, totalGrad, totalEnv, gradFlags, envFlags]
  | cons op ops ih =>
    cases op with
    | envStep =>
      obtain ⟨i1, i2, i3⟩ := ih c
      simp only [ctrRun, ctrStep, onStepCtr, h, totalGrad, totalEnv]
      refine ⟨i1, ?_, ?_⟩
      · simpa [gradFlags] using i2
      · simp only [List.cons_append, List.nil_append, envFlags, i3]
        rw [Nat.add_comm, List.replicate_succ]
    | train G =>
      obtain ⟨i1, i2, i3⟩ := ih { c with nUpdates := c.nUpdates + G }
      simp only [ctrRun, ctrStep, loopCtr_td3 cfg h, endTrainCtr, h, totalGrad, totalEnv]
      refine ⟨?_, ?_, ?_⟩
      · rw [i1]; simp only [Ctr.mk.injEq, true_and]; omega
      · rw [gradFlags_append, gradFlags_map_grad, i2, List.range_add, List.map_append, List.map_map]
        congr 1
        apply List.map_congr_left; intro i _; simp only [Function.comp]; congr 3; omega
      · rw [envFlags_append, envFlags_map_grad, i3]; rfl

theorem ctrRun_dqn (cfg : Cfg α) (h : cfg.algo = .dqn) (c : Ctr) (ops : List CtrOp) :
    (ctrRun cfg c ops).1 =
      { nCalls := c.nCalls + totalEnv ops, nUpdates := c.nUpdates + totalGrad ops } ∧
    envFlags (ctrRun cfg c ops).2 =
      (List.range (totalEnv ops)).map (fun k => (c.nCalls + k + 1) % dqnEvery cfg == 0) ∧
    gradFlags (ctrRun cfg c ops).2 = List.replicate (totalGrad ops) false := by
  induction ops generalizing c with
  | nil => simp [ctrRun, totalGrad, totalEnv, gradFlags, envFlags]
  | cons op ops ih =>
    cases op with
    | envStep =>
      obtain ⟨i1, i2, i3⟩ := ih { c with nCalls := c.nCalls + 1 }
      simp only [ctrRun, ctrStep, onStepCtr, h, totalGrad, totalEnv]
      refine ⟨?_, ?_, ?_⟩
      · rw [i1]; simp only [Ctr.mk.injEq, and_true]; omega
      · simp only [List.cons_append, List.nil_append, envFlags, i2]
        rw [List.range_add, List.map_append, List.map_map]
        simp only [List.range_one, List.map_cons, List.map_nil, Nat.add_zero, List.cons_append,
          List.nil_append]
        congr 1
        apply List.map_congr_left; intro i _; simp only [Function.comp]; congr 3; omega
      · simpa [gradFlags] using i3
    | train G =>
      obtain ⟨i1, i2, i3⟩ := ih { c with nUpdates := c.nUpdates + G }
      simp only [ctrRun, ctrStep, loopCtr_dqn cfg h, endTrainCtr, h, totalGrad, totalEnv]
      refine ⟨?_, ?_, ?_⟩
      · rw [i1]; simp only [Ctr.mk.injEq, true_and]; omega
      · rw [envFlags_append, envFlags_map_grad, i2]; rfl
      · rw [gradFlags_append, gradFlags_map_grad, i3, List.replicate_append_replicate]

end ctr

/-! ### DQN period arithmetic -/

theorem dqn_period_bounds (I n : Nat) (hn : 0 < n) (hI : n ≤ I) :
    n * max (I / n) 1 ≤ I ∧ I < n * max (I / n) 1 + n := by
  have h1 : 1 ≤ I / n := (Nat.one_le_div_iff hn).mpr hI
  rw [Nat.max_eq_left h1]
  constructor
  · exact Nat.mul_div_le I n
  · have := Nat.lt_mul_div_succ I hn
    rw [Nat.mul_succ] at this
    exact this

theorem dqn_period_small (I n : Nat) (hI : I < n) : n * max (I / n) 1 = n := by
  rw [Nat.div_eq_of_lt hI]; simp

theorem mod_iff_mul_mod (k m n : Nat) (hn : 0 < n) : k % m = 0 ↔ (k * n) % (n * m) = 0 := by
  rw [Nat.mul_comm k n, Nat.mul_mod_mul_left]
  constructor
  · intro h; rw [h]; rfl
  · intro h
    rcases Nat.mul_eq_zero.mp h with h | h
    · omega
    · exact h

/-! ### counters + tensors -/

section store
variable {α : Type} [Add α] [Sub α] [Mul α] [One α]

theorem polyakGroup_frame (τ : α) (on tg : List String) (s s' : Store α)
    (h : polyakGroup τ on tg s = some s') (m : String) (hm : m ∉ tg) : s'.lookup m = s.lookup m := by
  unfold polyakGroup at h
  cases hz : zipStrict on tg with
  | none => rw [hz] at h; simp at h
  | some ps =>
    rw [hz] at h
    obtain ⟨hl, hp⟩ := (zipStrict_eq_some on tg ps).mp hz
    subst hp
    apply polyakPairs_frame τ _ s s' h m
    rw [List.map_snd_zip (by omega)]
    exact hm

theorem polyakGroup_rule (τ : α) (on tg : List String) (s s' : Store α)
    (h : polyakGroup τ on tg s = some s') (hnd : tg.Nodup) (hdis : ∀ o ∈ on, o ∉ tg)
    (i : Nat) (hi : i < on.length) (hi' : i < tg.length) :
    ∃ ov tv nv, s.lookup on[i] = some ov ∧ s.lookup tg[i] = some tv ∧
      polyakTensor τ tv ov = some nv ∧ s'.lookup tg[i] = some nv := by
  unfold polyakGroup at h
  cases hz : zipStrict on tg with
  | none => rw [hz] at h; simp at h
  | some ps =>
    rw [hz] at h
    obtain ⟨hl, hp⟩ := (zipStrict_eq_some on tg ps).mp hz
    subst hp
    apply polyakPairs_rule τ _ s s' h
    · rw [List.map_snd_zip (by omega)]; exact hnd
    · rw [List.map_snd_zip (by omega), List.map_fst_zip (by omega)]; exact hdis
    · have hz : i < (on.zip tg).length := by simp; omega
      have := List.getElem_mem hz
      simpa using this

theorem applyGroups_frame (cfg : Cfg α) (gs : List Group) (s s' : Store α)
    (h : applyGroups cfg gs s = some s') (m : String) (hm : m ∉ allTargets gs) :
    s'.lookup m = s.lookup m := by
  induction gs generalizing s with
  | nil =>
    simp only [applyGroups, Option.some.injEq] at h
    subst h; rfl
  | cons g rest ih =>
    simp only [allTargets, List.flatMap_cons, List.mem_append, not_or] at hm
    simp only [applyGroups] at h
    cases hg : polyakGroup (if g.soft then cfg.tau else 1) g.online g.target s with
    | none => rw [hg] at h; simp at h
    | some s1 =>
      rw [hg] at h
      simp only at h
      rw [ih s1 h hm.2]
      exact polyakGroup_frame _ _ _ s s1 hg m hm.1

theorem applyGroups_rule (cfg : Cfg α) (gs : List Group) (s s' : Store α)
    (h : applyGroups cfg gs s = some s')
    (hnd : (allTargets gs).Nodup) (hdis : ∀ o ∈ allOnline gs, o ∉ allTargets gs)
    (g : Group) (hg : g ∈ gs) (i : Nat) (hi : i < g.online.length) (hi' : i < g.target.length) :
    ∃ ov tv nv, s.lookup g.online[i] = some ov ∧ s.lookup g.target[i] = some tv ∧
      polyakTensor (if g.soft then cfg.tau else 1) tv ov = some nv ∧
      s'.lookup g.target[i] = some nv := by
  induction gs generalizing s with
  | nil => simp at hg
  | cons g0 rest ih =>
    simp only [allTargets, List.flatMap_cons] at hnd
    rw [List.nodup_append] at hnd
    obtain ⟨hnd0, hndr, hcross⟩ := hnd
    simp only [applyGroups] at h
    cases hg0 : polyakGroup (if g0.soft then cfg.tau else 1) g0.online g0.target s with
    | none => rw [hg0] at h; simp at h
    | some s1 =>
      rw [hg0] at h
      simp only at h
      have hdis0 : ∀ o ∈ g0.online, o ∉ g0.target := by
        intro o ho hc
        exact hdis o (by simp [allOnline, ho]) (by simp [allTargets, hc])
      rcases List.mem_cons.mp hg with heq | hin
      · subst heq
        obtain ⟨ov, tv, nv, h1, h2, h3, h4⟩ :=
          polyakGroup_rule _ g.online g.target s s1 hg0 hnd0 hdis0 i hi hi'
        refine ⟨ov, tv, nv, h1, h2, h3, ?_⟩
        rw [applyGroups_frame cfg rest s1 s' h]
        · exact h4
        · intro hc
          exact hcross _ (List.getElem_mem hi') _ hc rfl
      · have hdisr : ∀ o ∈ allOnline rest, o ∉ allTargets rest := by
          intro o ho hc
          exact hdis o (by simp only [allOnline, List.flatMap_cons, List.mem_append]; exact Or.inr ho)
            (by simp only [allTargets, List.flatMap_cons, List.mem_append]; exact Or.inr hc)
        obtain ⟨ov, tv, nv, h1, h2, h3, h4⟩ := ih s1 h hndr hdisr hin
        have hon : g.online[i] ∉ g0.target := by
          intro hc
          refine hdis g.online[i] ?_ (by simp [allTargets, hc])
          simp only [allOnline, List.flatMap_cons, List.mem_append]
          exact Or.inr (List.mem_flatMap.mpr ⟨g, hin, List.getElem_mem hi⟩)
        have htg : g.target[i] ∉ g0.target := by
          intro hc
          exact hcross _ hc _ (List.mem_flatMap.mpr ⟨g, hin, List.getElem_mem hi'⟩) rfl
        rw [polyakGroup_frame _ _ _ s s1 hg0 _ hon] at h1
        rw [polyakGroup_frame _ _ _ s s1 hg0 _ htg] at h2
        exact ⟨ov, tv, nv, h1, h2, h3, h4⟩

/-! the tensors machine takes the same decisions as the counter machine -/

theorem onStep_ctr (cfg : Cfg α) (st st' : St α) (f : Bool) (h : onStep cfg st = some (st', f)) :
    onStepCtr cfg st.ctr = (st'.ctr, f) := by
  unfold onStep at h
  rcases hc : onStepCtr cfg st.ctr with ⟨c', f'⟩
  rw [hc] at h
  simp only at h
  cases f' with
  | true =>
    simp only [if_true] at h
    cases ha : applyGroups cfg cfg.groups st.store with
    | none => rw [ha] at h; simp at h
    | some s' =>
      rw [ha] at h
      simp only [Option.some.injEq, Prod.mk.injEq] at h
      obtain ⟨h1, h2⟩ := h
      subst h1; subst h2; rfl
  | false =>
    simp only [Bool.false_eq_true, if_false, Option.some.injEq, Prod.mk.injEq] at h
    obtain ⟨h1, h2⟩ := h
    subst h1; subst h2; rfl

theorem iterStep_ctr (cfg : Cfg α) (st st' : St α) (g : Nat) (it : Iter α) (f : Bool)
    (h : iterStep cfg st g it = some (st', f)) : iterCtr cfg st.ctr g = (st'.ctr, f) := by
  unfold iterStep at h
  rcases hc : iterCtr cfg st.ctr g with ⟨c', f'⟩
  rw [hc] at h
  simp only at h
  cases f' with
  | true =>
    simp only [if_true] at h
    cases ha : applyGroups cfg cfg.groups (applyWrites it.delayed (applyWrites it.pre st.store)) with
    | none => rw [ha] at h; simp at h
    | some s' =>
      rw [ha] at h
      simp only [Option.some.injEq, Prod.mk.injEq] at h
      obtain ⟨h1, h2⟩ := h
      subst h1; subst h2; rfl
  | false =>
    simp only [Bool.false_eq_true, if_false, Option.some.injEq, Prod.mk.injEq] at h
    obtain ⟨h1, h2⟩ := h
    subst h1; subst h2; rfl

theorem loopStep_ctr (cfg : Cfg α) (st st' : St α) (g : Nat) (its : List (Iter α)) (fs : List Bool)
    (h : loopStep cfg st g its = some (st', fs)) : loopCtr cfg st.ctr g its.length = (st'.ctr, fs) := by
  induction its generalizing st g fs with
  | nil =>
    simp only [loopStep, Option.some.injEq, Prod.mk.injEq] at h
    obtain ⟨h1, h2⟩ := h
    subst h1; subst h2; rfl
  | cons it its ih =>
    simp only [loopStep] at h
    cases h1 : iterStep cfg st g it with
    | none => rw [h1] at h; simp at h
    | some r1 =>
      obtain ⟨st1, f⟩ := r1
      rw [h1] at h
      simp only at h
      cases h2 : loopStep cfg st1 (g + 1) its with
      | none => rw [h2] at h; simp at h
      | some r2 =>
        obtain ⟨st2, fs2⟩ := r2
        rw [h2] at h
        simp only [Option.some.injEq, Prod.mk.injEq] at h
        obtain ⟨e1, e2⟩ := h
        subst e1; subst e2
        simp only [List.length_cons, loopCtr, iterStep_ctr cfg st st1 g it f h1, ih st1 (g + 1) fs2 h2]

theorem step_ctr (cfg : Cfg α) (st st' : St α) (op : Op α) (evs : List Ev)
    (h : step cfg st op = some (st', evs)) : ctrStep cfg st.ctr op.shape = (st'.ctr, evs) := by
  cases op with
  | envStep =>
    simp only [step] at h
    cases h1 : onStep cfg st with
    | none => rw [h1] at h; simp at h
    | some r =>
      obtain ⟨st1, f⟩ := r
      rw [h1] at h
      simp only [Option.some.injEq, Prod.mk.injEq] at h
      obtain ⟨e1, e2⟩ := h
      subst e1; subst e2
      simp only [Op.shape, ctrStep, onStep_ctr cfg st st1 f h1]
  | train iters =>
    simp only [step] at h
    cases h1 : loopStep cfg st 0 iters with
    | none => rw [h1] at h; simp at h
    | some r =>
      obtain ⟨st1, fs⟩ := r
      rw [h1] at h
      simp only [Option.some.injEq, Prod.mk.injEq] at h
      obtain ⟨e1, e2⟩ := h
      subst e1; subst e2
      simp only [Op.shape, ctrStep, loopStep_ctr cfg st st1 0 iters fs h1]

theorem run_ctr (cfg : Cfg α) (st st' : St α) (ops : List (Op α)) (evs : List Ev)
    (h : run cfg st ops = some (st', evs)) : ctrRun cfg st.ctr (ops.map Op.shape) = (st'.ctr, evs) := by
  induction ops generalizing st evs with
  | nil =>
    simp only [run, Option.some.injEq, Prod.mk.injEq] at h
    obtain ⟨h1, h2⟩ := h
    subst h1; subst h2; rfl
  | cons op ops ih =>
    simp only [run] at h
    cases h1 : step cfg st op with
    | none => rw [h1] at h; simp at h
    | some r1 =>
      obtain ⟨st1, e1⟩ := r1
      rw [h1] at h
      simp only at h
      cases h2 : run cfg st1 ops with
      | none => rw [h2] at h; simp at h
      | some r2 =>
        obtain ⟨st2, e2⟩ := r2
        rw [h2] at h
        simp only [Option.some.injEq, Prod.mk.injEq] at h
        obtain ⟨a1, a2⟩ := h
        subst a1; subst a2
        simp only [List.map_cons, ctrRun, step_ctr cfg st st1 op e1 h1, ih st1 e2 h2]

theorem onStep_fired (cfg : Cfg α) (st st' : St α) (h : onStep cfg st = some (st', true)) :
    applyGroups cfg cfg.groups st.store = some st'.store := by
  unfold onStep at h
  rcases hc : onStepCtr cfg st.ctr with ⟨c', f'⟩
  rw [hc] at h
  simp only at h
  cases f' with
  | true =>
    simp only [if_true] at h
    cases ha : applyGroups cfg cfg.groups st.store with
    | none => rw [ha] at h; simp at h
    | some s' =>
      rw [ha] at h
      simp only [Option.some.injEq, Prod.mk.injEq] at h
      obtain ⟨h1, _⟩ := h
      subst h1; rfl
  | false => simp at h

theorem iterStep_fired (cfg : Cfg α) (st st' : St α) (g : Nat) (it : Iter α)
    (h : iterStep cfg st g it = some (st', true)) :
    applyGroups cfg cfg.groups (applyWrites it.delayed (applyWrites it.pre st.store)) = some st'.store := by
  unfold iterStep at h
  rcases hc : iterCtr cfg st.ctr g with ⟨c', f'⟩
  rw [hc] at h
  simp only at h
  cases f' with
  | true =>
    simp only [if_true] at h
    cases ha : applyGroups cfg cfg.groups (applyWrites it.delayed (applyWrites it.pre st.store)) with
    | none => rw [ha] at h; simp at h
    | some s' =>
      rw [ha] at h
      simp only [Option.some.injEq, Prod.mk.injEq] at h
      obtain ⟨h1, _⟩ := h
      subst h1; rfl
  | false => simp at h

theorem iterStep_unfired (cfg : Cfg α) (st st' : St α) (g : Nat) (it : Iter α)
    (h : iterStep cfg st g it = some (st', false)) : st'.store = applyWrites it.pre st.store := by
  unfold iterStep at h
  rcases hc : iterCtr cfg st.ctr g with ⟨c', f'⟩
  rw [hc] at h
  simp only at h
  cases f' with
  | true =>
    simp only [if_true] at h
    cases ha : applyGroups cfg cfg.groups (applyWrites it.delayed (applyWrites it.pre st.store)) with
    | none => rw [ha] at h; simp at h
    | some s' => rw [ha] at h; simp at h
  | false =>
    simp only [Bool.false_eq_true, if_false, Option.some.injEq, Prod.mk.injEq] at h
    obtain ⟨h1, _⟩ := h
    subst h1; rfl

/-! frames: who can change a tensor -/

theorem onStep_frame (cfg : Cfg α) (st st' : St α) (f : Bool) (h : onStep cfg st = some (st', f))
    (n : String) (hn : f = false ∨ n ∉ allTargets cfg.groups) :
    st'.store.lookup n = st.store.lookup n := by
  unfold onStep at h
  rcases hc : onStepCtr cfg st.ctr with ⟨c', f'⟩
  rw [hc] at h
  simp only at h
  cases f' with
  | true =>
    simp only [if_true] at h
    cases ha : applyGroups cfg cfg.groups st.store with
    | none => rw [ha] at h; simp at h
    | some s' =>
      rw [ha] at h
      simp only [Option.some.injEq, Prod.mk.injEq] at h
      obtain ⟨h1, h2⟩ := h
      subst h1; subst h2
      rcases hn with hn | hn
      · cases hn
      · exact applyGroups_frame cfg cfg.groups st.store s' ha n hn
  | false =>
    simp only [Bool.false_eq_true, if_false, Option.some.injEq, Prod.mk.injEq] at h
    obtain ⟨h1, _⟩ := h
    subst h1; rfl

theorem iterStep_frame (cfg : Cfg α) (st st' : St α) (g : Nat) (it : Iter α) (f : Bool)
    (h : iterStep cfg st g it = some (st', f)) (n : String) (hu : it.untouched n)
    (hn : f = false ∨ n ∉ allTargets cfg.groups) :
    st'.store.lookup n = st.store.lookup n := by
  unfold iterStep at h
  rcases hc : iterCtr cfg st.ctr g with ⟨c', f'⟩
  rw [hc] at h
  simp only at h
  cases f' with
  | true =>
    simp only [if_true] at h
    cases ha : applyGroups cfg cfg.groups (applyWrites it.delayed (applyWrites it.pre st.store)) with
    | none => rw [ha] at h; simp at h
    | some s' =>
      rw [ha] at h
      simp only [Option.some.injEq, Prod.mk.injEq] at h
      obtain ⟨h1, h2⟩ := h
      subst h1; subst h2
      rcases hn with hn | hn
      · cases hn
      · simp only
        rw [applyGroups_frame cfg cfg.groups _ s' ha n hn,
          lookup_applyWrites_not_owned it.delayed _ n hu.2,
          lookup_applyWrites_not_owned it.pre _ n hu.1]
  | false =>
    simp only [Bool.false_eq_true, if_false, Option.some.injEq, Prod.mk.injEq] at h
    obtain ⟨h1, _⟩ := h
    subst h1
    exact lookup_applyWrites_not_owned it.pre _ n hu.1

theorem loopStep_frame (cfg : Cfg α) (st st' : St α) (g : Nat) (its : List (Iter α)) (fs : List Bool)
    (h : loopStep cfg st g its = some (st', fs)) (n : String) (hu : ∀ it ∈ its, it.untouched n)
    (hn : (∀ f ∈ fs, f = false) ∨ n ∉ allTargets cfg.groups) :
    st'.store.lookup n = st.store.lookup n := by
  induction its generalizing st g fs with
  | nil =>
    simp only [loopStep, Option.some.injEq, Prod.mk.injEq] at h
    obtain ⟨h1, _⟩ := h
    subst h1; rfl
  | cons it its ih =>
    simp only [loopStep] at h
    cases h1 : iterStep cfg st g it with
    | none => rw [h1] at h; simp at h
    | some r1 =>
      obtain ⟨st1, f⟩ := r1
      rw [h1] at h
      simp only at h
      cases h2 : loopStep cfg st1 (g + 1) its with
      | none => rw [h2] at h; simp at h
      | some r2 =>
        obtain ⟨st2, fs2⟩ := r2
        rw [h2] at h
        simp only [Option.some.injEq, Prod.mk.injEq] at h
        obtain ⟨e1, e2⟩ := h
        subst e1; subst e2
        have hn1 : f = false ∨ n ∉ allTargets cfg.groups := by
          rcases hn with hn | hn
          · exact Or.inl (hn f List.mem_cons_self)
          · exact Or.inr hn
        have hn2 : (∀ f' ∈ fs2, f' = false) ∨ n ∉ allTargets cfg.groups := by
          rcases hn with hn | hn
          · exact Or.inl (fun f' hf' => hn f' (List.mem_cons_of_mem _ hf'))
          · exact Or.inr hn
        rw [ih st1 (g + 1) fs2 h2 (fun it' hit' => hu it' (List.mem_cons_of_mem _ hit')) hn2]
        exact iterStep_frame cfg st st1 g it f h1 n (hu it List.mem_cons_self) hn1

theorem step_frame (cfg : Cfg α) (st st' : St α) (op : Op α) (evs : List Ev)
    (h : step cfg st op = some (st', evs)) (n : String) (hu : op.untouched n)
    (hn : (∀ e ∈ evs, e.fired = false) ∨ n ∉ allTargets cfg.groups) :
    st'.store.lookup n = st.store.lookup n := by
  cases op with
  | envStep =>
    simp only [step] at h
    cases h1 : onStep cfg st with
    | none => rw [h1] at h; simp at h
    | some r =>
      obtain ⟨st1, f⟩ := r
      rw [h1] at h
      simp only [Option.some.injEq, Prod.mk.injEq] at h
      obtain ⟨e1, e2⟩ := h
      subst e1; subst e2
      apply onStep_frame cfg st st1 f h1 n
      rcases hn with hn | hn
      · exact Or.inl (by simpa [Ev.fired] using hn)
      · exact Or.inr hn
  | train iters =>
    simp only [step] at h
    cases h1 : loopStep cfg st 0 iters with
    | none => rw [h1] at h; simp at h
    | some r =>
      obtain ⟨st1, fs⟩ := r
      rw [h1] at h
      simp only [Option.some.injEq, Prod.mk.injEq] at h
      obtain ⟨e1, e2⟩ := h
      subst e1; subst e2
      simp only
      apply loopStep_frame cfg st st1 0 iters fs h1 n hu
      rcases hn with hn | hn
      · left
        intro f hf
        have := hn (Ev.grad f) (List.mem_map_of_mem hf)
        simpa [Ev.fired] using this
      · exact Or.inr hn

theorem run_frame (cfg : Cfg α) (st st' : St α) (ops : List (Op α)) (evs : List Ev)
    (h : run cfg st ops = some (st', evs)) (n : String) (hu : ∀ op ∈ ops, op.untouched n)
    (hn : (∀ e ∈ evs, e.fired = false) ∨ n ∉ allTargets cfg.groups) :
    st'.store.lookup n = st.store.lookup n := by
  induction ops generalizing st evs with
  | nil =>
    simp only [run, Option.some.injEq, Prod.mk.injEq] at h
    obtain ⟨h1, _⟩ := h
    subst h1; rfl
  | cons op ops ih =>
    simp only [run] at h
    cases h1 : step cfg st op with
    | none => rw [h1] at h; simp at h
    | some r1 =>
      obtain ⟨st1, e1⟩ := r1
      rw [h1] at h
      simp only at h
      cases h2 : run cfg st1 ops with
      | none => rw [h2] at h; simp at h
      | some r2 =>
        obtain ⟨st2, e2⟩ := r2
        rw [h2] at h
        simp only [Option.some.injEq, Prod.mk.injEq] at h
        obtain ⟨a1, a2⟩ := h
        subst a1; subst a2
        have hn1 : (∀ e ∈ e1, e.fired = false) ∨ n ∉ allTargets cfg.groups := by
          rcases hn with hn | hn
          · exact Or.inl (fun e he => hn e (List.mem_append_left _ he))
          · exact Or.inr hn
        have hn2 : (∀ e ∈ e2, e.fired = false) ∨ n ∉ allTargets cfg.groups := by
          rcases hn with hn | hn
          · exact Or.inl (fun e he => hn e (List.mem_append_right _ he))
          · exact Or.inr hn
        rw [ih st1 e2 h2 (fun op' hop' => hu op' (List.mem_cons_of_mem _ hop')) hn2]
        exact step_frame cfg st st1 op e1 h1 n (hu op List.mem_cons_self) hn1

end store

/-- the number of `k < K` with `(a + k + 1) % p = 0` is the number of multiples of `p` in `(a, a + K]` -/
theorem count_multiples (a p K : ℕ) :
    ((List.range K).map (fun k => (a + k + 1) % p == 0)).count true = (a + K) / p - a / p := by
  induction K with
  | zero => simp
  | succ K ih =>
    rw [List.range_succ, List.map_append, List.count_append, ih]
    have hmono : a / p ≤ (a + K) / p := Nat.div_le_div_right (by omega)
    have hs : (a + (K + 1)) / p = (a + K) / p + (if p ∣ a + K + 1 then 1 else 0) := by
      rw [← Nat.add_assoc]; exact Nat.succ_div
    rw [hs]
    by_cases hd : p ∣ a + K + 1
    · have hm : (a + K + 1) % p = 0 := Nat.mod_eq_zero_of_dvd hd
      simp [hd, hm]
      omega
    · have hm : (a + K + 1) % p ≠ 0 := fun h => hd (Nat.dvd_of_mod_eq_zero h)
      simp [hd, hm]

end SB3Verif.Lemmas.Cadence
