/-
C10 — Seeded training is reproducible.

Property theorems only (helper lemmas: `SB3Verif/Lemmas/Seeding.lean`).  All statements are about the executable
model `SB3Verif/Model/Seeding.lean`, whose definitions (`traceOK`, `lowRun`, `deliveries`, `segOps`, `run`) the
driver `SB3Verif/Driver/C10.lean` evaluates on the traces measured from the real code.

What is proved (category "other"/partial): a NON-INTERFERENCE statement about the seeding plumbing.  For every
configuration, every length and every data-dependent branch of a training run, the list of values handed out by
the library's draw sites depends on the ambient state of the random generators only through the seed — because
every draw site reads a generator that `set_random_seed` / `action_space.seed` / `env.seed`+`reset` assigned before,
and the state inside the action-noise object of the configuration is re-initialised by `_setup_learn` before its
first use.

What is NOT proved here and is measured by `harness/c10.py` on the real code instead:
* which generator each draw site of the real code reads (the correspondence streams `sites`, `lowness`,
  `delivery`, `measured`) — the theorems are about `libTrace`, the model's list of the library's draw sites;
* that everything else a run computes is a deterministic function of these values (the ambient-poisoning
  differential: bit-identical parameters, optimizer states, buffers and actions);
* "a different seed gives different results": a statement about the PRNGs' values, tested only.  The theorem
  `different_seed_changes_streams` below says only that no stream is shared.
-/
import SB3Verif.Lemmas.Seeding

namespace SB3Verif.C10

open SB3Verif.Seeding SB3Verif.Lemmas.Seeding

/-! ### The analysis is exact -/

/-- **Non-interference.**  If every used draw of a trace reads a generator that was assigned from a seed before
(`traceOK` from no knowledge at all), then the values the draw sites return are the same from ALL ambient
states `g`, `g'` (generator states, positions, pending env seeds). -/
theorem seeded_noninterference (t : List Op) (h : traceOK Low.bot t = true) (g g' : RngState) :
    outputs t g = outputs t g' :=
  (run_unwinding t Low.bot g g' (agree_bot g g') h).1

/-- … and afterwards every generator the analysis marks is in the same state in both runs, so whatever is
appended to the run (a second `learn()`, `predict`) starts from seed-determined generators again. -/
theorem seeded_generators_agree_afterwards (t : List Op) (h : traceOK Low.bot t = true) (g g' : RngState)
    (x : Gen) (hx : (lowRun Low.bot t).gens x = true) : (run t g).1.gens x = (run t g').1.gens x :=
  (run_unwinding t Low.bot g g' (agree_bot g g') h).2.1 x hx

/-- **Converse.**  A trace the analysis rejects contains a draw whose value differs between two ambient states:
one draw site on a generator nobody seeded is enough to lose reproducibility. -/
theorem rejected_trace_depends_on_ambient_state (t : List Op) (h : traceOK Low.bot t = false) :
    ∃ g g' : RngState, outputs t g ≠ outputs t g' :=
  ⟨ambA, ambB, run_differ t Low.bot ambA ambB differ_bot h⟩

/-- The static check decides reproducibility of a trace exactly. -/
theorem traceOK_exact (t : List Op) :
    traceOK Low.bot t = true ↔ ∀ g g' : RngState, outputs t g = outputs t g' := by
  constructor
  · exact fun h g g' => seeded_noninterference t h g g'
  · intro h
    cases hb : traceOK Low.bot t with
    | true => rfl
    | false =>
      obtain ⟨a, b, hab⟩ := rejected_trace_depends_on_ambient_state t hb
      exact absurd (h a b) hab

/-- The run is a function of the trace and the starting state (two runs that start equal stay equal): the
remaining source of difference is the ambient state, which the theorems above and below remove. -/
theorem draw_site_trace_deterministic (t : List Op) (g g' : RngState) (h : g = g') : run t g = run t g' := by
  rw [h]

/-! ### The library's draw sites, for every configuration, length and branch -/

/-- Every draw site of the library reads a generator seeded before its first use: algorithm, number of envs,
gSDE / noise / warm-up / CNN options, how often each sub-environment draws, exploration branches, number and
order of rollouts, training calls and later `env.reset()`s are all arbitrary. -/
theorem library_trace_is_seeded (cfg : Cfg) (resetDraws : List Nat) (evs : List Ev) :
    traceOK Low.bot (libTrace cfg resetDraws evs) = true :=
  (libTrace_ok cfg resetDraws evs).1

/-- **Seeded training is reproducible (plumbing level).**  Whatever the ambient generator states `g`, `g'` of two
processes, a training run with the same configuration (incl. seed) gets the same values at every draw site. -/
theorem library_run_noninterference (cfg : Cfg) (resetDraws : List Nat) (evs : List Ev) (g g' : RngState) :
    outputs (libTrace cfg resetDraws evs) g = outputs (libTrace cfg resetDraws evs) g' :=
  seeded_noninterference _ (library_trace_is_seeded cfg resetDraws evs) g g'

/-- After the run python `random`, NumPy, torch, the action space and every sub-environment's generator are in
a seed-determined state (a second `learn()` or `predict` continues reproducibly). -/
theorem library_final_state_seeded (cfg : Cfg) (resetDraws : List Nat) (evs : List Ev) (g g' : RngState)
    (x : Gen) (hx : inFamily cfg x = true) :
    (run (libTrace cfg resetDraws evs) g).1.gens x = (run (libTrace cfg resetDraws evs) g').1.gens x :=
  seeded_generators_agree_afterwards _ (library_trace_is_seeded cfg resetDraws evs) g g' x
    ((libTrace_ok cfg resetDraws evs).2.1 x hx)

/-- Every value comes from a stream named by the seed: the global generators and the action space from
`seed`, sub-environment `i` from `seed + i`; nothing is read from OS entropy, the observation space or a
sub-environment that does not exist. -/
theorem library_outputs_from_seed (cfg : Cfg) (resetDraws : List Nat) (evs : List Ev) (g : RngState) (d : Draw)
    (hd : d ∈ outputs (libTrace cfg resetDraws evs) g) :
    inFamily cfg d.gen = true ∧ d.origin = famOrigin cfg d.gen :=
  (libTrace_run cfg resetDraws evs g).2.1 d hd

/-- `env.seed(seed)` reaches the sub-environments at the first reset as `seed + i` TOGETHER WITH whatever reset
options are pending there (`set_options` by the env constructor: any per-env pattern of options and empty
entries) — pending options never displace the seed; every later reset passes `None` and no options (the
generators keep running), whatever `_seeds` / `_options` held before the model was built. -/
theorem env_seed_delivery (cfg : Cfg) (resetDraws : List Nat) (evs : List Ev) (g : RngState) :
    deliveries (libTrace cfg resetDraws evs) g =
      (List.range cfg.nEnvs).map (fun i => (some (cfg.seed + i), g.options i)) ::
        List.replicate (resetCount evs) (List.replicate cfg.nEnvs (none, none)) :=
  (libTrace_run cfg resetDraws evs g).2.2

/-- Pending reset options are inert for the random state: the values at the draw sites and the generators after the
run do not depend on them (in particular a sub-env with options pending is re-seeded exactly like one without). -/
theorem pending_options_do_not_matter (cfg : Cfg) (resetDraws : List Nat) (evs : List Ev) (g : RngState)
    (opts : List (Option Nat)) :
    outputs (libTrace cfg resetDraws evs) (g.withOptions opts) = outputs (libTrace cfg resetDraws evs) g :=
  library_run_noninterference cfg resetDraws evs _ _

/-- Sub-environments get pairwise different streams. -/
theorem sub_env_streams_distinct (cfg : Cfg) (i j : Nat) (h : i ≠ j) :
    famOrigin cfg (.env i) ≠ famOrigin cfg (.env j) := by
  simp only [famOrigin, ne_eq, Origin.seed.injEq]
  omega

/-- Changing only the seed changes the stream of every draw site (stream identity, not PRNG values: that the
values differ is tested by run C of the differential).  The state inside the action-noise object is excluded:
it restarts from the same constant under every seed (its increments come from the `np` draws, which are covered). -/
theorem different_seed_changes_streams (cfg cfg' : Cfg) (hs : cfg.seed ≠ cfg'.seed)
    (ds ds' : List Nat) (evs evs' : List Ev) (g g' : RngState) (d d' : Draw)
    (hd : d ∈ outputs (libTrace cfg ds evs) g) (hd' : d' ∈ outputs (libTrace cfg' ds' evs') g')
    (hg : d.gen = d'.gen) (hnoise : d.gen ≠ .noise) : d.origin ≠ d'.origin := by
  obtain ⟨_, h2⟩ := library_outputs_from_seed cfg ds evs g d hd
  obtain ⟨_, h4⟩ := library_outputs_from_seed cfg' ds' evs' g' d' hd'
  rw [hg] at hnoise
  rw [h2, h4, hg]
  cases hd : d'.gen <;> simp only [famOrigin, ne_eq, Origin.seed.injEq] <;> first | omega | (exact absurd hd hnoise)

/-- Remark (true of the code as well): sub-env `i+1` under seed `s` reads the stream of sub-env `i` under seed
`s+1` — "a different seed" shares environment streams with its neighbours, shifted by one env. -/
theorem adjacent_seed_shares_env_stream (cfg : Cfg) (i : Nat) :
    famOrigin cfg (.env (i + 1)) = famOrigin { cfg with seed := cfg.seed + 1 } (.env i) := by
  simp only [famOrigin, Origin.seed.injEq]
  omega

/-! ### What breaks it -/

/-- One additional draw site on a generator outside the seeded family (OS entropy / a fresh `default_rng()`,
the observation space, a generator of an env the VecEnv does not own) after any run of the library: the run is
no longer reproducible. -/
theorem unseeded_site_breaks_it (cfg : Cfg) (resetDraws : List Nat) (evs : List Ev) (x : Gen) (k : Nat)
    (hx : inFamily cfg x = false) :
    ∃ g g' : RngState, outputs (libTrace cfg resetDraws evs ++ [.draw x k]) g ≠
      outputs (libTrace cfg resetDraws evs ++ [.draw x k]) g' := by
  apply rejected_trace_depends_on_ambient_state
  rw [traceOK_append, (libTrace_ok cfg resetDraws evs).1]
  simp [traceOK, opOK, libTrace_outside cfg resetDraws evs x hx]

/-- … whereas a draw whose value is thrown away (`observation_space.sample()` for a shape) is harmless. -/
theorem discarded_draw_is_harmless (cfg : Cfg) (resetDraws : List Nat) (evs : List Ev) (x : Gen) (k : Nat)
    (g g' : RngState) :
    outputs (libTrace cfg resetDraws evs ++ [.discard x k]) g =
      outputs (libTrace cfg resetDraws evs ++ [.discard x k]) g' := by
  apply seeded_noninterference
  rw [traceOK_append, (libTrace_ok cfg resetDraws evs).1]
  rfl

/-- Drawing before seeding (e.g. building the networks before `set_random_seed`) breaks it, whatever follows. -/
theorem draw_before_seeding_breaks_it (x : Gen) (k : Nat) (t : List Op) :
    ∃ g g' : RngState, outputs (.draw x k :: t) g ≠ outputs (.draw x k :: t) g' :=
  rejected_trace_depends_on_ambient_state _ (by simp [traceOK, opOK, Low.bot])

/-- Dropping one of the three global seedings (`random.seed`, `np.random.seed`, `th.manual_seed`) or
`action_space.seed` breaks it as soon as that generator is read. -/
theorem missing_global_seed_breaks_it (x : Gen) (s k : Nat) (seeded : List Gen) (hx : x ∉ seeded) :
    ∃ g g' : RngState, outputs (seeded.map (fun y => Op.seed y s) ++ [.draw x k]) g ≠
      outputs (seeded.map (fun y => Op.seed y s) ++ [.draw x k]) g' := by
  apply rejected_trace_depends_on_ambient_state
  rw [traceOK_append]
  have h1 : ∀ (l : List Gen) (L : Low), traceOK L (l.map (fun y => Op.seed y s)) = true := by
    intro l
    induction l with
    | nil => intro L; rfl
    | cons a l ih => intro L; simp [traceOK, opOK, ih]
  have h2 : ∀ (l : List Gen) (L : Low), x ∉ l → L.gens x = false →
      (lowRun L (l.map (fun y => Op.seed y s))).gens x = false := by
    intro l
    induction l with
    | nil => intro L _ h; exact h
    | cons a l ih =>
      intro L hl h
      simp only [List.mem_cons, not_or] at hl
      simp only [List.map_cons, lowRun]
      apply ih _ hl.2
      by_cases hos : a = .os
      · simp [lowStep, hos, h]
      · simp [lowStep, hos, hl.1, h]
  simp [h1, traceOK, opOK, h2 seeded Low.bot hx rfl]

/-- **State inside objects of the configuration.**  The action-noise object may have been used before (an earlier
run with the very same kwargs that stopped in the middle of an episode): `library_trace_is_seeded` holds because
`_setup_learn` resets it before the first step, for every number of envs.  Without that reset (e.g. resetting
only when `num_envs > 1`) the first Ornstein-Uhlenbeck draw depends on the leftover state: not reproducible. -/
theorem dropping_noise_reset_breaks_it (cfg : Cfg) (resetDraws : List Nat) (k : Nat) :
    ∃ g g' : RngState,
      outputs (construct cfg ++ segOps cfg (.reset resetDraws) ++ [.draw .noise k]) g ≠
      outputs (construct cfg ++ segOps cfg (.reset resetDraws) ++ [.draw .noise k]) g' :=
  rejected_trace_depends_on_ambient_state _
    (traceOK_snoc_draw Low.bot _ .noise k (noReset_noise_unmarked cfg resetDraws))

/-- … and with the reset the noise state is a constant from the first `learn()` on, whatever it held before. -/
theorem action_noise_state_is_reset (cfg : Cfg) (resetDraws : List Nat) (evs : List Ev) (g g' : RngState)
    (h : cfg.noise ≠ .none) :
    (run (libTrace cfg resetDraws evs) g).1.gens .noise = (run (libTrace cfg resetDraws evs) g').1.gens .noise ∧
    ((run (libTrace cfg resetDraws evs) g).1.gens .noise).origin = .const := by
  have hf : inFamily cfg .noise = true := by simpa [inFamily] using h
  exact ⟨library_final_state_seeded cfg resetDraws evs g g' .noise hf,
    (libTrace_run cfg resetDraws evs g).1.1 .noise hf⟩

/-- Dropping `env.seed(seed)`: the sub-environments keep their ambient generators through the reset. -/
theorem missing_env_seed_breaks_it (s n i k : Nat) :
    ∃ g g' : RngState,
      outputs [.seed .py s, .seed .np s, .seed .torch s, .seed .actSpace s, .envReset n, .draw (.env i) k] g ≠
      outputs [.seed .py s, .seed .np s, .seed .torch s, .seed .actSpace s, .envReset n, .draw (.env i) k] g' := by
  apply rejected_trace_depends_on_ambient_state
  simp [traceOK, opOK, lowStep, Low.bot]

/-! ### The hypotheses are satisfiable by non-trivial data -/

/-- a DQN run with two envs: warm-up step, epsilon-greedy step that explores, a training call, a second reset -/
def exampleCfg : Cfg :=
  { algo := .dqn, nEnvs := 2, seed := 7, useSde := false, sdeFreq := 0, useSdeAtWarmup := false, noise := .none,
    learningStarts := 2, cnn := true, envPy := true, envNp := false, initDraws := 40 }

def exampleEvents : List Ev :=
  [.rolloutStart, .step 0 0 false [1, 1], .step 2 1 true [1, 3], .rolloutEnd, .train 2 false false, .reset [2, 2]]

example : traceOK Low.bot (libTrace exampleCfg [2, 2] exampleEvents) = true := by decide

/-- TD3, one env, Ornstein-Uhlenbeck noise, a second `learn()` -/
def exampleCfgOU : Cfg :=
  { exampleCfg with algo := .td3, nEnvs := 1, noise := .ou, learningStarts := 0, cnn := false, envPy := false }

def exampleEventsOU : List Ev :=
  [.rolloutStart, .step 0 0 false [1], .rolloutEnd, .train 1 true false, .learnStart, .reset [2], .step 1 0 false [3]]

example : traceOK Low.bot (libTrace exampleCfgOU [2] exampleEventsOU) = true := by decide

/-- the same run without the two `action_noise.reset()` calls is rejected -/
example : traceOK Low.bot (construct exampleCfgOU ++ segOps exampleCfgOU (.reset [2]) ++
    eventsOps exampleCfgOU [.rolloutStart, .step 0 0 false [1]]) = false := by decide

/-- hypothesis of `action_noise_state_is_reset` -/
example : exampleCfgOU.noise ≠ .none := by decide

example : (outputs (libTrace exampleCfg [2, 2] exampleEvents) (ambientState 3 (some 11))).length = 21 := by decide

example : deliveries (libTrace exampleCfg [2, 2] exampleEvents) (ambientState 3 (some 11)) =
    [[(some 7, none), (some 8, none)], [(none, none), (none, none)]] := by decide

/-- options pending for env 1 only (per-env list with an empty entry): the seeds still arrive -/
example : deliveries (libTrace exampleCfg [2, 2] exampleEvents) ((ambientState 3 (some 11)).withOptions [none, some 5]) =
    [[(some 7, none), (some 8, some 5)], [(none, none), (none, none)]] := by decide

/-- a reset that passes the seed only when no options are pending (not the model's `envReset`) would leave env 1
ambient: the trace in which env 1 is not re-seeded is rejected -/
example : traceOK Low.bot [.seed .np 7, .envSeed 7 1, .envReset 2, .draw (.env 1) 1] = false := by decide

/-- hypothesis of `seeded_noninterference` / `seeded_generators_agree_afterwards` -/
example : traceOK Low.bot [.seed .np 3, .envSeed 3 2, .envReset 2, .draw .np 2, .draw (.env 1) 1] = true ∧
    (lowRun Low.bot [.seed .np 3, .envSeed 3 2, .envReset 2, .draw .np 2, .draw (.env 1) 1]).gens (.env 0) = true := by
  decide

/-- hypothesis of `rejected_trace_depends_on_ambient_state`: the generator of env 2 was never seeded (`n = 2`) -/
example : traceOK Low.bot [.seed .np 3, .envSeed 3 2, .envReset 2, .draw (.env 2) 1] = false := by decide

/-- hypothesis of `unseeded_site_breaks_it` -/
example : inFamily exampleCfg .os = false ∧ inFamily exampleCfg (.env 2) = false ∧
    inFamily exampleCfg .obsSpace = false := by decide

/-- hypothesis of `missing_global_seed_breaks_it`: NumPy's seeding dropped from `set_random_seed` -/
example : Gen.np ∉ [Gen.py, Gen.torch, Gen.actSpace] := by decide

/-- hypothesis of `different_seed_changes_streams` -/
example : exampleCfg.seed ≠ { exampleCfg with seed := 8 }.seed := by decide

example : Gen.np ≠ Gen.noise ∧ Gen.env 1 ≠ Gen.noise := by decide

end SB3Verif.C10
