/-
C09 — Saving then loading reproduces the model.

Property theorems only (helper lemmas are in `SB3Verif/Lemmas/SaveLoad.lean`).
All statements are about the executable model `SB3Verif/Model/SaveLoad.lean`, whose definitions the
driver `SB3Verif/Driver/C09.lean` runs against the real `data_to_json` / `json_to_data`,
`BaseAlgorithm.save` / `load` / `get_parameters` / `set_parameters`, `open_path`, and the pickled
`VecNormalize` / replay buffers.

Externals (`Ext`): cloudpickle (`pickle`/`unpickle`), `str()`, float text. The only thing assumed of
them is stated in each theorem (`unpickle (pickle v) = ok v` for the values that are pickled).
-/
import SB3Verif.Lemmas.SaveLoad

namespace SB3Verif.C09

open SB3Verif.SaveLoad

/-! ### The JSON layer -/

/-- **`json.loads(json.dumps(v)) = v` for every JSON-native value** — `None`, `bool`, `int`, `float`,
`str`, lists of those and dictionaries with string keys, nested to any depth — values and types. -/
theorem json_roundtrip_native (E : Ext) (v : PyVal) (hn : isNative v = true) (hw : wfKeys v = true) :
    (jsonDumps E v).map jsonLoads = some v := by
  obtain ⟨j, h1, h2⟩ := Lemmas.native_rt E v hn hw
  simp [h1, h2]

/-- **`data_to_json` never raises** (F-C09-b repaired): whatever the attributes hold — tuple keys,
objects, nested unserialisable values — the final `json.dumps` succeeds. -/
theorem data_to_json_never_raises (E : Ext) (d : List (String × PyVal)) : (dataToJson E d).isSome = true := by
  obtain ⟨j, hj⟩ := Lemmas.dataToJson_isSome E d
  simp [hj]

/-! ### The attribute codec -/

/-- **Round trip of the attribute dictionary** (F-C09-a repaired: tuples stay tuples, non-string keys keep
their type, numpy scalars, classes and callables are pickled):
`json_to_data(data_to_json(d)) = d` for **every** attribute dictionary with pairwise different string
names whose values are Python values (`wfKeys`), assuming only that cloudpickle gives back what it was
given for the values that are pickled (those that are not JSON-native) — and that no attribute that is a dictionary / object has a
first-level key whose `str()` is `":serialized:"`. That last hypothesis cannot be dropped
(`data_roundtrip_serialized_key_counterexample`): finding K-C09-a. -/
theorem data_roundtrip_partial (E : Ext) (d : List (String × PyVal))
    (hnames : (d.map (·.1)).Nodup)
    (hwf : ∀ kv ∈ d, wfKeys kv.2 = true)
    (hpickle : ∀ kv ∈ d, (isJsonSerializable E kv.2 && isNative kv.2) = false →
      E.unpickle (E.pickle kv.2) = .ok kv.2)
    (hkey : noSerializedKey E d = true) :
    roundTrip E [] d = some d := by
  apply Lemmas.roundTrip_eq E d hnames
  intro kv hkv
  refine ⟨hwf kv hkv, hpickle kv hkv, ?_⟩
  intro kx hkx
  simp only [noSerializedKey, List.all_eq_true] at hkey
  have := hkey kv hkv kx hkx
  simpa using this

/-- **The full statement is false of the code** (for every behaviour of the externals): a JSON-native
dictionary attribute with a key `":serialized:"` is written as it is and read back as if it were a
pickled value — here the attribute silently disappears (with a string value `json_to_data` raises). -/
theorem data_roundtrip_serialized_key_counterexample (E : Ext) :
    roundTrip E [] [("x", .dict [(.str ":serialized:", .int 5)])] = some [] ∧
      roundTrip E [] [("x", .dict [(.str ":serialized:", .int 5)])] ≠
        some [("x", .dict [(.str ":serialized:", .int 5)])] :=
  ⟨rfl, nofun⟩

/-- Same for a pickled dictionary: its first-level item overwrites the `":serialized:"` entry that
holds the pickle. -/
theorem data_roundtrip_serialized_key_pickled_counterexample (E : Ext) :
    roundTrip E [] [("x", .dict [(.str ":serialized:", .int 5), (.str "t", .tuple [])])] = some [] :=
  rfl

/-- A name listed in `custom_objects` comes back as the caller's object whatever the file holds. -/
theorem custom_objects_override (E : Ext) (custom d r : List (String × PyVal)) (k : String) (c : PyVal)
    (hc : dictGet custom k = some c) (hk : k ∈ d.map (·.1)) (h : roundTrip E custom d = some r) :
    dictGet r k = some c :=
  Lemmas.roundTrip_custom E custom d r k c hc hk h

/-! ### The codec before the repairs (documented negative results) -/

/-- before ae37983: a tuple hyper-parameter (`net_arch=(8, 8)`) came back as a list -/
theorem old_codec_tuple_becomes_list (E : Ext) :
    roundTripOld E [("net_arch", .tuple [.int 8, .int 8])] = some [("net_arch", .list [.int 8, .int 8])] :=
  rfl

/-- before ae37983: an integer dictionary key came back as a string -/
theorem old_codec_int_key_becomes_str (E : Ext) :
    roundTripOld E [("x", .dict [(.int 1, .str "a")])] = some [("x", .dict [(.str "1", .str "a")])] :=
  rfl

/-- before ae37983: a numpy float scalar came back as a builtin float -/
theorem old_codec_numpy_scalar_becomes_float (E : Ext) :
    roundTripOld E [("g", .obj "<class 'numpy.float64'>" 0 (some (.float 7)) [])] = some [("g", .float 7)] :=
  rfl

/-- before 38e7f22: a dictionary with a tuple key made `save()` raise `TypeError` -/
theorem old_codec_tuple_key_raises (E : Ext) :
    dataToJsonOld E [("x", .dict [(.tuple [.int 2, .int 3], .str "b")])] = none :=
  rfl

/-- … and the repaired codec round-trips exactly these values. -/
theorem new_codec_roundtrips_old_failures (E : Ext)
    (h1 : E.unpickle (E.pickle (.tuple [.int 8, .int 8])) = .ok (.tuple [.int 8, .int 8]))
    (h2 : E.unpickle (E.pickle (.dict [(.tuple [.int 2, .int 3], .str "b"), (.int 1, .str "a")])) =
      .ok (.dict [(.tuple [.int 2, .int 3], .str "b"), (.int 1, .str "a")]))
    (h3 : E.pyStr (.tuple [.int 2, .int 3]) ≠ ":serialized:") (h4 : E.pyStr (.int 1) ≠ ":serialized:") :
    roundTrip E [] [("net_arch", .tuple [.int 8, .int 8]),
        ("x", .dict [(.tuple [.int 2, .int 3], .str "b"), (.int 1, .str "a")])] =
      some [("net_arch", .tuple [.int 8, .int 8]),
        ("x", .dict [(.tuple [.int 2, .int 3], .str "b"), (.int 1, .str "a")])] := by
  apply data_roundtrip_partial E _ (by decide) (by decide)
  · intro kv hkv
    simp only [List.mem_cons, List.not_mem_nil, or_false] at hkv
    rcases hkv with h | h <;> subst h <;> intro _ <;> assumption
  · simp [noSerializedKey, infoItems, keyStr, h3, h4]

/-! ### `save()`: the attribute partition -/

/-- **Every attribute is accounted for**: it is in `data`; or it holds a member saved through a
state-dict / `th.save`; or it is in the *named* exclusion set `(exclude ∪ defaults) − include`.
Exactly one of the three. -/
theorem save_covers_all (s : Spec) (excl incl : List String) (attrs : List (String × PyVal))
    (kv : String × PyVal) (h : kv ∈ attrs) :
    (kv ∈ saveData s excl incl attrs ∧ kv.1 ∉ torchTops s ∧ ¬ ((kv.1 ∈ excl ∨ kv.1 ∈ s.excluded) ∧ kv.1 ∉ incl)) ∨
    (kv ∉ saveData s excl incl attrs ∧ kv.1 ∈ torchTops s) ∨
    (kv ∉ saveData s excl incl attrs ∧ kv.1 ∉ torchTops s ∧ (kv.1 ∈ excl ∨ kv.1 ∈ s.excluded) ∧ kv.1 ∉ incl) := by
  simp only [Lemmas.mem_saveData, Lemmas.mem_effExclude, h, true_and]
  by_cases ht : kv.1 ∈ torchTops s <;> by_cases hx : ((kv.1 ∈ excl ∨ kv.1 ∈ s.excluded) ∧ kv.1 ∉ incl) <;>
    simp [ht, hx]

/-- **`include` wins** over `exclude` and over the defaults (unless the name holds a torch-saved member). -/
theorem include_wins (s : Spec) (excl incl : List String) (attrs : List (String × PyVal))
    (kv : String × PyVal) (h : kv ∈ attrs) (hi : kv.1 ∈ incl) (ht : kv.1 ∉ torchTops s) :
    kv ∈ saveData s excl incl attrs := by
  simp [Lemmas.mem_saveData, Lemmas.mem_effExclude, h, hi, ht]

/-- **A torch-saved member is never pickled into `data`**, whatever `include` says. -/
theorem torch_members_never_in_data (s : Spec) (excl incl : List String) (attrs : List (String × PyVal))
    (kv : String × PyVal) (ht : kv.1 ∈ torchTops s) : kv ∉ saveData s excl incl attrs := by
  simp [Lemmas.mem_saveData, Lemmas.mem_effExclude, ht]

/-- An excluded name that is not included is not saved. -/
theorem excluded_not_saved (s : Spec) (excl incl : List String) (attrs : List (String × PyVal))
    (kv : String × PyVal) (hx : kv.1 ∈ excl ∨ kv.1 ∈ s.excluded) (hi : kv.1 ∉ incl) :
    kv ∉ saveData s excl incl attrs := by
  simp [Lemmas.mem_saveData, Lemmas.mem_effExclude, hx, hi]

/-- The member lists of the six algorithms name each torch-saved member once
(hypothesis `torchNodup` of `load_save_attrs`). -/
theorem algo_specs_wellformed (a : Algo) : (a.spec.stateDicts ++ a.spec.torchVars).Nodup := by
  cases a with
  | sac b => cases b <;> decide
  | _ => decide

/-- For every algorithm the default exclusions cover the policy and its aliases' top-level names are
either excluded by default or torch-saved: no network object is ever pickled into `data`. -/
theorem algo_specs_exclude_networks (a : Algo) :
    ∀ n ∈ torchTops a.spec, n = "policy" ∨ n ∈ a.spec.excluded ∨ n ∈ ["ent_coef_optimizer", "log_ent_coef", "ent_coef_tensor"] := by
  cases a with
  | sac b => cases b <;> decide
  | _ => decide

/-! ### `load(save(model))` -/

/-- **Every saved attribute comes back**: for a model with pairwise different attribute names, every
attribute `n` that is not in the effective exclusion set, is not re-created by `_setup_model`
(`rebuilt`, any set outside which `_setup_model` leaves attributes alone), is not overridden by a
`load(**kwargs)` argument and is not one of the two attributes `load` resets on purpose when an
environment is passed (`n_envs`; `_last_obs` under `force_reset`) has, in `load(save(m))`, the value it
had in `m`; every state-dict and torch variable has the state it had in `m`. Codec hypotheses as in
`data_roundtrip_partial`, on the saved attributes only. -/
theorem load_save_attrs (E : Ext) (s : Spec) (excl incl : List String) (m : Model) (a : LoadArgs)
    (rebuilt : List String)
    (hnames : (m.attrs.map (·.1)).Nodup)
    (hwf : ∀ kv ∈ saveData s excl incl m.attrs, wfKeys kv.2 = true)
    (hpickle : ∀ kv ∈ saveData s excl incl m.attrs, (isJsonSerializable E kv.2 && isNative kv.2) = false →
      E.unpickle (E.pickle kv.2) = .ok kv.2)
    (hkey : noSerializedKey E (saveData s excl incl m.attrs) = true)
    (hcustom : a.custom = [])
    (hobs : dictHas (saveData s excl incl m.attrs) "observation_space" = true)
    (hact : dictHas (saveData s excl incl m.attrs) "action_space" = true)
    (htn : (s.stateDicts ++ s.torchVars).Nodup)
    (hts : ∀ n ∈ s.stateDicts ++ s.torchVars, dictHas m.torch n = true)
    (htf : ∀ n ∈ s.stateDicts ++ s.torchVars, dictHas a.freshTorch n = true)
    (hsetup : ∀ attrs n, n ∉ rebuilt → dictGet (a.setup attrs) n = dictGet attrs n) :
    ∃ ar m', save E s excl incl m = some ar ∧ load E s a ar = some m' ∧
      (∀ n, n ∈ m.attrs.map (·.1) → n ∉ effExclude s excl incl → n ∉ rebuilt → n ∉ a.kwargs.map (·.1) →
        (a.envGiven = true → n ≠ "n_envs") → (a.envGiven = true → a.forceReset = true → n ≠ "_last_obs") →
        dictGet m'.attrs n = dictGet m.attrs n) ∧
      (∀ n ∈ s.stateDicts ++ s.torchVars, dictGet m'.torch n = dictGet m.torch n) := by
  apply Lemmas.load_save E s excl incl m a rebuilt
  refine ⟨hnames, ?_, hcustom, hobs, hact, htn, hts, htf, hsetup⟩
  intro kv hkv
  refine ⟨hwf kv hkv, hpickle kv hkv, ?_⟩
  intro kx hkx
  simp only [noSerializedKey, List.all_eq_true] at hkey
  simpa using hkey kv hkv kx hkx

/-! ### `get_parameters` / `set_parameters` -/

/-- **`set_parameters(get_parameters())` changes nothing** (and is accepted under `exact_match=True`). -/
theorem set_get_parameters_id (s : Spec) (t : Torch) (h : ∀ n ∈ s.stateDicts, dictHas t n = true) :
    setParameters s t (getParameters s t) true = some t :=
  Lemmas.set_get_parameters s t h

/-- Under `exact_match=True` a parameter dictionary whose names are not exactly the declared ones is
rejected (`ValueError`), so a member missing from the archive cannot go unnoticed. -/
theorem set_parameters_exact_rejects (s : Spec) (t : Torch) (params : List (String × PyVal))
    (h : sameNames (params.map (·.1)) s.stateDicts = false) : setParameters s t params true = none := by
  unfold setParameters
  split
  · rfl
  · simp [h]

/-! ### Paths -/

/-- **`str`, `pathlib.Path` and open files behave alike**: the two path kinds resolve to the same file
for writing and for reading; an open file object is used as it is in both directions. -/
theorem path_kinds_agree (hasSuffix : String → Bool) (fs : FS) (suffix p : String) (h : Nat) :
    writeTarget hasSuffix suffix (.str p) = writeTarget hasSuffix suffix (.pathlib p) ∧
    readTarget fs suffix (.str p) = readTarget fs suffix (.pathlib p) ∧
    writeTarget hasSuffix suffix (.file h) = .handle h ∧ readTarget fs suffix (.file h) = .handle h :=
  ⟨rfl, rfl, rfl, rfl⟩

/-- **Reading the path that was written finds the file that was written** (suffix added on writing is
added on reading), provided no *other* file already carries the suffix-less name. -/
theorem path_read_after_write (hasSuffix : String → Bool) (fs : FS) (suffix p q : String)
    (hw : writeTarget hasSuffix suffix (.str p) = .named q) (hstale : hasSuffix p = true ∨ fs.contains p = false) :
    readTarget (q :: fs) suffix (.str p) = .named q := by
  simp only [writeTarget, Target.named.injEq] at hw
  by_cases hc : (!hasSuffix p && suffix != "") = true
  · simp only [hc, if_true] at hw
    simp only [Bool.and_eq_true, Bool.not_eq_true', bne_iff_ne, ne_eq] at hc
    have hs : fs.contains p = false := by
      rcases hstale with h | h
      · rw [hc.1] at h; exact absurd h (by simp)
      · exact h
    have hne : q ≠ p := by
      rw [← hw, String.append_assoc]
      exact Lemmas.append_ne_self p ("." ++ suffix) (by
        intro e
        have := congrArg String.length e
        simp [String.length_append] at this)
    have hse : (suffix == "") = false := by simpa using hc.2
    have hne' : (p == q) = false := by simpa using fun e => hne e.symm
    simp only [readTarget, List.contains_cons, hne', hs, Bool.or_self, hse, Bool.false_eq_true, if_false, hw]
  · simp only [hc] at hw
    subst hw
    simp [readTarget]

/-- … and the proviso is needed: with a stale file named `model`, `save("model")` writes `model.zip`
but `load("model")` opens `model`. -/
theorem path_stale_file_counterexample :
    writeTarget (fun _ => false) "zip" (.str "model") = .named "model.zip" ∧
      readTarget ["model.zip", "model"] "zip" (.str "model") = .named "model" := by
  decide

/-! ### Objects pickled on their own -/

/-- **`VecNormalize.save/load`, `save_replay_buffer/load_replay_buffer` (HER)**: after
`__getstate__` → pickle → `__setstate__` → `set_venv`/`set_env`, every attribute that is neither dropped
by `__getstate__` nor re-bound afterwards has the value it had. -/
theorem getstate_setstate_roundtrip (dropped : List String) (attrs rebind : List (String × PyVal))
    (hn : (attrs.map (·.1)).Nodup) (n : String) (h1 : n ∉ dropped) (h2 : n ∉ rebind.map (·.1)) :
    dictGet (setState (getState dropped attrs) rebind) n = dictGet attrs n :=
  Lemmas.setState_getState dropped attrs rebind hn n h1 h2

/-- … and a re-bound attribute has the value it was re-bound to (`venv`, `num_envs`, `returns`, `env`). -/
theorem setstate_rebinds (state rebind : List (String × PyVal)) (hn : (rebind.map (·.1)).Nodup)
    (n : String) (v : PyVal) (h : dictGet rebind n = some v) :
    dictGet (setState state rebind) n = some v :=
  Lemmas.setState_rebind state rebind hn n v h

/-! ### Non-vacuity: the hypotheses above are met by concrete non-trivial data -/

/-- an instance of the externals: pickles by constructor, unpickles the two values used below -/
def exE : Ext where
  pickle := fun v => match v with | .tuple _ => "T" | _ => "D"
  unpickle := fun s => if s = "T" then .ok (.tuple [.int 8, .int 8])
    else .ok (.dict [(.tuple [.int 2, .int 3], .str "b"), (.int 1, .str "a")])
  pyStr := fun _ => "<str>"
  floatKey := fun _ => "0.5"

def exAttrs : List (String × PyVal) :=
  [("gamma", .float 4607182418800017408), ("net_arch", .tuple [.int 8, .int 8]),
   ("kw", .dict [(.str "a", .list [.int 1, .none]), (.str "b", .dict [(.str "c", .bool true)])]),
   ("x", .dict [(.tuple [.int 2, .int 3], .str "b"), (.int 1, .str "a")]),
   ("observation_space", .int 0), ("action_space", .int 1)]

example : isNative (.dict [(.str "a", .list [.int 1, .none]), (.str "b", .dict [(.str "c", .bool true)])]) = true ∧
    wfKeys (.dict [(.str "a", .list [.int 1, .none]), (.str "b", .dict [(.str "c", .bool true)])]) = true := by
  decide

example : (exAttrs.map (·.1)).Nodup ∧ (∀ kv ∈ exAttrs, wfKeys kv.2 = true) ∧
    (∀ kv ∈ exAttrs, (isJsonSerializable exE kv.2 && isNative kv.2) = false →
      exE.unpickle (exE.pickle kv.2) = .ok kv.2) ∧ noSerializedKey exE exAttrs = true := by
  refine ⟨by decide, by decide, ?_, by decide⟩
  intro kv hkv
  simp only [exAttrs, List.mem_cons, List.not_mem_nil, or_false] at hkv
  rcases hkv with h | h | h | h | h | h <;> subst h <;> first | (intro _; rfl) | (intro hc; exact absurd hc (by decide))

example : roundTrip exE [] exAttrs = some exAttrs := by
  apply data_roundtrip_partial exE exAttrs (by decide) (by decide) _ (by decide)
  intro kv hkv
  simp only [exAttrs, List.mem_cons, List.not_mem_nil, or_false] at hkv
  rcases hkv with h | h | h | h | h | h <;> subst h <;> first | (intro _; rfl) | (intro hc; exact absurd hc (by decide))

example : (saveData (Algo.sac true).spec ["gamma"] ["replay_buffer"]
    [("gamma", .int 1), ("replay_buffer", .int 2), ("policy", .int 3), ("actor", .int 4), ("tau", .int 5),
     ("log_ent_coef", .int 6), ("env", .int 7)]).map (·.1) = ["replay_buffer", "tau"] := by
  decide

example : sameNames ["policy"] (Algo.dqn.spec.stateDicts) = false := by decide

example : writeTarget (fun p => p == "run.v2") "zip" (.str "a/model") = .named "a/model.zip" ∧
    writeTarget (fun p => p == "run.v2") "zip" (.str "run.v2") = .named "run.v2" := by decide

end SB3Verif.C09
