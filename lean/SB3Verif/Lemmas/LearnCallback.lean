/-
Agreement between the two independently written models of the `learn` loop:

* `SB3Verif.Learn`    (Model/Learn.lean, property C12): reactive machine over inputs `learn` / `env`, event trace `Ev`;
* `SB3Verif.Callback` (Model/Callback.lean, property C13): small-step machine `LS.next` with a program counter that
  *calls* a callback handler `h` and logs `(Call, answer)`.

Translation of the input conventions (stated here once, used by the theorems in `Props/C12C13.lean`):

* configuration: every `Learn.Cfg` is expressible on the other side (`cbCfg`); the update-related fields
  (`gradSteps`, `learningStarts`, `batch`, …) have no counterpart there and are arbitrary;
* episode ends: `Callback` takes a function `dones g` of the global index `g` of the vectorised environment step
  (1-based, persistent over `learn` calls); `Learn` takes the number with each `env` input → the `i`-th `step` call of
  a trace that started with `g0` steps already made becomes `env _ (dones (g0+i)) []`;
* stop requests: `Callback` gets them as the answer of the handler to `step`; `Learn` as the flag of the `env`
  input → `env (!answer) …` (`opsOf`). Because the answers are read off the other machine's own log, the agreement
  holds for EVERY handler (any callback tree), not only for a leaf.
-/
import SB3Verif.Lemmas.Learn
import SB3Verif.Model.Callback

namespace SB3Verif.LearnCallback

open SB3Verif.Learn SB3Verif.LearnLemmas
open SB3Verif.Callback (Call Dones LS Pc RolloutKind)

/-- the `Callback` configuration of a `Learn` configuration -/
def cbCfg (cfg : Learn.Cfg) (dones : Dones) : Callback.Cfg :=
  match cfg.kind with
  | .on c => { nEnvs := cfg.nEnvs, onPolicy := true, kind := .steps c.nSteps, dones := dones }
  | .off c =>
    { nEnvs := cfg.nEnvs, onPolicy := false,
      kind := (match c.unit with | .step => .steps c.freq | .episode => .episodes c.freq), dones := dones }

/-- rollout size parameter (`n_steps` / `train_freq.frequency`) -/
def rolloutParam (cfg : Learn.Cfg) : Nat :=
  match cfg.kind with
  | .on c => c.nSteps
  | .off c => c.freq

/-- callback-visible part of a `Callback` trace: the calls without `update_locals`, answers dropped -/
def projC (t : List (Call × Bool)) : List Call :=
  t.filterMap fun p => match p.1 with
    | .updateLocals _ => none
    | c => some c

/-- callback-visible part of a `Learn` trace -/
def projE (t : List Ev) : List Call :=
  t.filterMap fun e => match e with
    | .setup num _ => some (.trainingStart num)
    | .rolloutStart _ _ => some .rolloutStart
    | .step num _ => some (.step num)
    | .rolloutEnd _ _ _ => some .rolloutEnd
    | .finish _ _ => some .trainingEnd
    | .progress _ _ _ => none
    | .train _ _ _ _ _ => none

/-- number of `step` calls of a trace -/
def nStepCalls : List (Call × Bool) → Nat
  | [] => 0
  | (.step _, _) :: t => nStepCalls t + 1
  | _ :: t => nStepCalls t

/-- the `Learn` inputs that correspond to the `step` calls of a `Callback` trace (`g` environment steps were made
before): stop flag = negated answer, episode ends = `dones` at the global step index -/
def opsOf (dones : Dones) : Nat → List (Call × Bool) → List Op
  | _, [] => []
  | g, (.step _, ok) :: t => .env (!ok) (dones (g + 1)) [] :: opsOf dones (g + 1) t
  | g, (.trainingStart _, _) :: t => opsOf dones g t
  | g, (.rolloutStart, _) :: t => opsOf dones g t
  | g, (.updateLocals _, _) :: t => opsOf dones g t
  | g, (.rolloutEnd, _) :: t => opsOf dones g t
  | g, (.trainingEnd, _) :: t => opsOf dones g t

theorem projC_append (a b : List (Call × Bool)) : projC (a ++ b) = projC a ++ projC b := by
  simp [projC, List.filterMap_append]

theorem projE_append (a b : List Ev) : projE (a ++ b) = projE a ++ projE b := by
  simp [projE, List.filterMap_append]

theorem nStepCalls_append (a b : List (Call × Bool)) : nStepCalls (a ++ b) = nStepCalls a + nStepCalls b := by
  induction a with
  | nil => simp [nStepCalls]
  | cons x xs ih =>
    obtain ⟨c, ok⟩ := x
    cases c <;> simp [nStepCalls, ih]; omega

theorem opsOf_append (dones : Dones) (g : Nat) (a b : List (Call × Bool)) :
    opsOf dones g (a ++ b) = opsOf dones g a ++ opsOf dones (g + nStepCalls a) b := by
  induction a generalizing g with
  | nil => simp [opsOf, nStepCalls]
  | cons x xs ih =>
    obtain ⟨c, ok⟩ := x
    cases c <;> simp [opsOf, nStepCalls, ih, Nat.add_assoc, Nat.add_comm 1]

/-! ### one environment step of `Learn`, seen through the projection -/

/-- "collect more?" after a step, in `Learn`'s terms -/
def moreAfter (cfg : Learn.Cfg) (s : State) (d : Nat) : Bool :=
  match cfg.kind with
  | .on c => decide (s.colSteps + 1 < c.nSteps)
  | .off c => shouldCollectMore c (s.colSteps + 1) (s.colEps + d)

theorem projE_loopHead (s : State) :
    projE (loopHead s).2 = (if s.num < s.total then [Call.rolloutStart] else [Call.trainingEnd]) ∧
      (loopHead s).1.num = s.num ∧ (loopHead s).1.total = s.total ∧
      (loopHead s).1.running = decide (s.num < s.total) ∧
      ((loopHead s).1.running = true → (loopHead s).1.colSteps = 0 ∧ (loopHead s).1.colEps = 0) := by
  rcases loopHead_cases s with ⟨h, hlt⟩ | ⟨h, hge⟩ <;> rw [h]
  · simp [projE, hlt]
  · have : ¬ s.num < s.total := by omega
    simp [projE, this]

theorem projE_trainOff (n : Nat) (c : OffCfg) (s : State) : projE (trainOff n c s).2 = [] := by
  rcases trainOff_cases n c s with ⟨h, _⟩ | ⟨h, _⟩ <;> rw [h] <;> simp [projE]

/-- the step continues the rollout -/
theorem env_mid (cfg : Learn.Cfg) (s : State) (d : Nat) (k : List Bool) (hr : s.running = true)
    (hm : moreAfter cfg s d = true) :
    projE (step cfg s (.env false d k)).2 = [Call.step (s.num + cfg.nEnvs)] ∧
      (step cfg s (.env false d k)).1.running = true ∧
      (step cfg s (.env false d k)).1.num = s.num + cfg.nEnvs ∧
      (step cfg s (.env false d k)).1.total = s.total ∧
      (step cfg s (.env false d k)).1.colSteps = s.colSteps + 1 ∧
      (∀ c, cfg.kind = .off c → (step cfg s (.env false d k)).1.colEps = s.colEps + d) := by
  rw [step_env _ _ _ _ _ hr]
  unfold moreAfter at hm
  cases hk : cfg.kind with
  | on c =>
    rw [hk] at hm
    have hm' : s.colSteps + 1 < c.nSteps := by simpa using hm
    rw [envStep_on_mid cfg c s d k hk hm']
    simp [projE, hr]
  | off c =>
    rw [hk] at hm
    rw [envStep_off_mid cfg c s d k hk hm]
    simp [projE, offStepState, hr]

/-- the step completes the rollout: rollout end, (updates,) then the next rollout starts or the call ends -/
theorem env_end (cfg : Learn.Cfg) (s : State) (d : Nat) (k : List Bool) (hr : s.running = true)
    (hm : moreAfter cfg s d = false) :
    projE (step cfg s (.env false d k)).2 =
        [Call.step (s.num + cfg.nEnvs), Call.rolloutEnd] ++
          (if s.num + cfg.nEnvs < s.total then [Call.rolloutStart] else [Call.trainingEnd]) ∧
      (step cfg s (.env false d k)).1.running = decide (s.num + cfg.nEnvs < s.total) ∧
      (step cfg s (.env false d k)).1.num = s.num + cfg.nEnvs ∧
      (step cfg s (.env false d k)).1.total = s.total ∧
      ((step cfg s (.env false d k)).1.running = true →
        (step cfg s (.env false d k)).1.colSteps = 0 ∧ (step cfg s (.env false d k)).1.colEps = 0) := by
  rw [step_env _ _ _ _ _ hr]
  unfold moreAfter at hm
  cases hk : cfg.kind with
  | on c =>
    rw [hk] at hm
    have hm' : ¬ s.colSteps + 1 < c.nSteps := by simpa using hm
    rw [envStep_on_end cfg c s d k hk hm']
    obtain ⟨h1, h2, h3, h4, h5⟩ := projE_loopHead (trainOn cfg.nEnvs c (onEndState cfg s) k).1
    have hn : (trainOn cfg.nEnvs c (onEndState cfg s) k).1.num = s.num + cfg.nEnvs := rfl
    have ht : (trainOn cfg.nEnvs c (onEndState cfg s) k).1.total = s.total := rfl
    rw [hn, ht] at h1 h4
    rw [hn] at h2
    rw [ht] at h3
    refine ⟨?_, h4, h2, h3, h5⟩
    rw [projE_append, projE_append, h1]
    simp [projE, trainOn_eq]
  | off c =>
    rw [hk] at hm
    rw [envStep_off_end cfg c s d k hk hm]
    obtain ⟨h1, h2, h3, h4, h5⟩ := projE_loopHead (trainOff cfg.nEnvs c (offStepState cfg s d)).1
    obtain ⟨g1, g2, _⟩ := trainOff_frame cfg.nEnvs c (offStepState cfg s d)
    have hn : (trainOff cfg.nEnvs c (offStepState cfg s d)).1.num = s.num + cfg.nEnvs := g1
    have ht : (trainOff cfg.nEnvs c (offStepState cfg s d)).1.total = s.total := g2
    rw [hn, ht] at h1 h4
    rw [hn] at h2
    rw [ht] at h3
    refine ⟨?_, h4, h2, h3, h5⟩
    rw [projE_append, projE_append, h1, projE_trainOff]
    simp [projE]

theorem env_stop (cfg : Learn.Cfg) (s : State) (d : Nat) (k : List Bool) (hr : s.running = true) :
    projE (step cfg s (.env true d k)).2 = [Call.step (s.num + cfg.nEnvs), Call.trainingEnd] ∧
      (step cfg s (.env true d k)).1.running = false ∧
      (step cfg s (.env true d k)).1.num = s.num + cfg.nEnvs ∧
      (step cfg s (.env true d k)).1.total = s.total := by
  rw [step_env _ _ _ _ _ hr, envStep_stop]
  simp [projE]

/-- `more` of the other model, in this model's terms -/
theorem more_eq (cfg : Learn.Cfg) (dones : Dones) (s : State) (d : Nat) (e : Nat)
    (he : ∀ c, cfg.kind = .off c → s.colEps = e) :
    (cbCfg cfg dones).kind.more (s.colSteps + 1) (e + d) = moreAfter cfg s d := by
  unfold cbCfg moreAfter
  cases hk : cfg.kind with
  | on c => simp [RolloutKind.more]
  | off c =>
    have := he c hk
    cases hu : c.unit <;> simp [RolloutKind.more, shouldCollectMore, hu, this]

/-! ### the simulation -/

theorem run_snoc (cfg : Learn.Cfg) (s : State) (a : List Op) (op : Op) :
    run cfg s (a ++ [op]) =
      ((step cfg (run cfg s a).1 op).1, (run cfg s a).2 ++ (step cfg (run cfg s a).1 op).2) := by
  rw [run_append, run_cons]; simp

theorem invoke_eq {σ : Type} (h : σ → Call → σ × Bool) (s : LS σ) (c : Call) :
    s.invoke h c = ({ s with cb := (h s.cb c).1, trace := s.trace ++ [(c, (h s.cb c).2)] }, (h s.cb c).2) := by
  unfold LS.invoke
  rcases hh : h s.cb c with ⟨cb', ok⟩
  rfl

/-- what the other machine still calls before the next point where both machines are in step -/
def tailCalls (num total : Nat) : List Call := if num < total then [.rolloutStart] else [.trainingEnd]

def pending {σ : Type} (ccfg : Callback.Cfg) (s : LS σ) : List Call :=
  match s.pc with
  | .start => []
  | .loopHead => tailCalls s.num s.total
  | .inRollout c e => if ccfg.kind.more c e then [] else .rolloutEnd :: tailCalls s.num s.total
  | .rolloutTail => .rolloutEnd :: tailCalls s.num s.total
  | .finish => [.trainingEnd]
  | .done => []

/-- `Learn` is at (or already past the silent part after) the other machine's program point -/
def stOK {σ : Type} (cfg : Learn.Cfg) (ccfg : Callback.Cfg) (st : State) (s : LS σ) : Prop :=
  let atHead := st.running = decide (s.num < s.total) ∧ (st.running = true → st.colSteps = 0 ∧ st.colEps = 0)
  match s.pc with
  | .start => True
  | .loopHead => atHead
  | .inRollout c e =>
    if ccfg.kind.more c e then
      st.running = true ∧ st.colSteps = c ∧ (∀ oc, cfg.kind = .off oc → st.colEps = e)
    else atHead
  | .rolloutTail => atHead
  | .finish => st.running = false
  | .done => st.running = false

structure Inv {σ : Type} (cfg : Learn.Cfg) (dones : Dones) (st0 : State) (T : Nat) (r : Bool) (g0 : Nat) (s : LS σ) : Prop where
  total_eq : s.total = (if r then 0 else st0.num) + T
  g_eq : s.g = g0 + nStepCalls s.trace
  start : s.pc = .start → s.trace = [] ∧ s.num = (if r then 0 else st0.num)
  main : s.pc ≠ .start →
    projC s.trace ++ pending (cbCfg cfg dones) s = projE (run cfg st0 (.learn T r :: opsOf dones g0 s.trace)).2 ∧
      (run cfg st0 (.learn T r :: opsOf dones g0 s.trace)).1.num = s.num ∧
      (run cfg st0 (.learn T r :: opsOf dones g0 s.trace)).1.total = s.total ∧
      stOK cfg (cbCfg cfg dones) (run cfg st0 (.learn T r :: opsOf dones g0 s.trace)).1 s

theorem cbCfg_nEnvs (cfg : Learn.Cfg) (dones : Dones) : (cbCfg cfg dones).nEnvs = cfg.nEnvs := by
  unfold cbCfg; cases cfg.kind <;> rfl

theorem cbCfg_dones (cfg : Learn.Cfg) (dones : Dones) : (cbCfg cfg dones).dones = dones := by
  unfold cbCfg; cases cfg.kind <;> rfl

theorem more_zero (cfg : Learn.Cfg) (dones : Dones) (hsz : 0 < rolloutParam cfg) : (cbCfg cfg dones).kind.more 0 0 = true := by
  unfold cbCfg rolloutParam at *
  cases hk : cfg.kind with
  | on c => rw [hk] at hsz; simpa [RolloutKind.more] using hsz
  | off c =>
    rw [hk] at hsz
    cases hu : c.unit <;> simpa [RolloutKind.more, hu] using hsz

theorem inv_next {σ : Type} (cfg : Learn.Cfg) (dones : Dones) (hsz : 0 < rolloutParam cfg) (st0 : State)
    (h0 : st0.running = false) (T : Nat) (r : Bool) (g0 : Nat) (h : σ → Call → σ × Bool) (s : LS σ)
    (inv : Inv cfg dones st0 T r g0 s) : Inv cfg dones st0 T r g0 (s.next (cbCfg cfg dones) h) := by
  obtain ⟨htot, hg, hstart, hmain⟩ := inv
  cases hpc : s.pc with
  | start =>
    obtain ⟨htr, hnum⟩ := hstart hpc
    have e : s.next (cbCfg cfg dones) h =
        { s with cb := (h s.cb (.trainingStart s.num)).1,
                 trace := s.trace ++ [(.trainingStart s.num, (h s.cb (.trainingStart s.num)).2)], pc := .loopHead } := by
      simp only [LS.next, hpc, invoke_eq]
    rw [e]
    refine ⟨htot, by simp [hg, nStepCalls_append, nStepCalls], fun hh => by simp at hh, fun _ => ?_⟩
    simp only [htr, List.nil_append, opsOf, run_cons, run_nil, List.append_nil]
    rw [step_learn _ _ _ _ h0]
    obtain ⟨h1, h2, h3, h4, h5⟩ := projE_loopHead (setupLearn st0 T r)
    have en : (setupLearn st0 T r).num = s.num := by rw [hnum]; simp [setupLearn]
    have et : (setupLearn st0 T r).total = s.total := by
      rw [htot]; cases r <;> simp [setupLearn, Nat.add_comm]
    rw [en, et] at h1 h4
    rw [en] at h2
    rw [et] at h3
    refine ⟨?_, h2, h3, ?_⟩
    · simp only [projC, pending, tailCalls, projE, List.filterMap_cons, List.filterMap_nil]
      rw [← projE] ; rw [h1, en]; rfl
    · simp only [stOK]; exact ⟨h4, h5⟩
  | loopHead =>
    obtain ⟨hp, hn, ht, hst⟩ := hmain (by rw [hpc]; simp)
    simp only [pending, hpc, tailCalls] at hp
    simp only [stOK, hpc] at hst
    by_cases hlt : s.num < s.total
    · have e : s.next (cbCfg cfg dones) h =
          { s with cb := (h s.cb .rolloutStart).1,
                   trace := s.trace ++ [(.rolloutStart, (h s.cb .rolloutStart).2)], pc := .inRollout 0 0 } := by
        simp only [LS.next, hpc, invoke_eq, hlt, if_true]
      rw [e]
      refine ⟨htot, by simp [hg, nStepCalls_append, nStepCalls], fun hh => by simp at hh, fun _ => ?_⟩
      simp only [opsOf_append, opsOf, List.append_nil]
      refine ⟨?_, hn, ht, ?_⟩
      · rw [← hp]; simp [projC, pending, more_zero cfg dones hsz, hlt]
      · simp only [stOK, more_zero cfg dones hsz, if_true]
        have hr : (run cfg st0 (.learn T r :: opsOf dones g0 s.trace)).1.running = true := by rw [hst.1]; simpa using hlt
        exact ⟨hr, (hst.2 hr).1, fun _ _ => (hst.2 hr).2⟩
    · have e : s.next (cbCfg cfg dones) h = { s with pc := .finish } := by
        simp only [LS.next, hpc, hlt, if_false]
      rw [e]
      refine ⟨htot, hg, fun hh => by simp at hh, fun _ => ?_⟩
      refine ⟨?_, hn, ht, ?_⟩
      · rw [← hp]; simp [pending, hlt]
      · simp only [stOK]; rw [hst.1]; simpa using hlt
  | rolloutTail =>
    obtain ⟨hp, hn, ht, hst⟩ := hmain (by rw [hpc]; simp)
    simp only [pending, hpc] at hp
    simp only [stOK, hpc] at hst
    have e : ∃ tr', (s.next (cbCfg cfg dones) h).trace = s.trace ++ tr' ∧ projC tr' = [Call.rolloutEnd] ∧
        nStepCalls tr' = 0 ∧ opsOf dones (g0 + nStepCalls s.trace) tr' = [] ∧
        (s.next (cbCfg cfg dones) h).pc = .loopHead ∧ (s.next (cbCfg cfg dones) h).num = s.num ∧
        (s.next (cbCfg cfg dones) h).total = s.total ∧ (s.next (cbCfg cfg dones) h).g = s.g := by
      by_cases hon : (cbCfg cfg dones).onPolicy
      · refine ⟨[(.updateLocals s.g, (h s.cb (.updateLocals s.g)).2),
          (.rolloutEnd, (h (h s.cb (.updateLocals s.g)).1 .rolloutEnd).2)], ?_⟩
        simp [LS.next, hpc, invoke_eq, hon, projC, nStepCalls, opsOf]
      · refine ⟨[(.rolloutEnd, (h s.cb .rolloutEnd).2)], ?_⟩
        simp [LS.next, hpc, invoke_eq, hon, projC, nStepCalls, opsOf]
    obtain ⟨tr', e1, e2, e3, e4, e5, e6, e7, e8⟩ := e
    refine ⟨(by rw [e7]; exact htot), (by rw [e8, e1, nStepCalls_append, e3]; simpa using hg),
      (fun hh => by rw [e5] at hh; cases hh), fun _ => ?_⟩
    rw [e1, opsOf_append, e4, List.append_nil, e6, e7]
    refine ⟨?_, hn, ht, ?_⟩
    · rw [← hp, projC_append, e2]; simp [pending, e5, e6, e7]
    · simp only [stOK, e5, e6, e7]; exact hst
  | finish =>
    obtain ⟨hp, hn, ht, hst⟩ := hmain (by rw [hpc]; simp)
    simp only [pending, hpc] at hp
    simp only [stOK, hpc] at hst
    have e : s.next (cbCfg cfg dones) h =
        { s with cb := (h s.cb .trainingEnd).1,
                 trace := s.trace ++ [(.trainingEnd, (h s.cb .trainingEnd).2)], pc := .done } := by
      simp only [LS.next, hpc, invoke_eq]
    rw [e]
    refine ⟨htot, by simp [hg, nStepCalls_append, nStepCalls], fun hh => by simp at hh, fun _ => ?_⟩
    simp only [opsOf_append, opsOf, List.append_nil]
    refine ⟨?_, hn, ht, ?_⟩
    · rw [← hp]; simp [projC, pending]
    · simpa [stOK] using hst
  | done =>
    have e : s.next (cbCfg cfg dones) h = s := by simp only [LS.next, hpc]
    rw [e]
    exact ⟨htot, hg, hstart, hmain⟩
  | inRollout c e =>
    obtain ⟨hp, hn, ht, hst⟩ := hmain (by rw [hpc]; simp)
    simp only [pending, hpc] at hp
    simp only [stOK, hpc] at hst
    by_cases hmore : (cbCfg cfg dones).kind.more c e = true
    · rw [if_pos hmore] at hp hst
      obtain ⟨hrun, hcol, heps⟩ := hst
      have e1 : ∃ b1 ok, (s.next (cbCfg cfg dones) h).trace =
            s.trace ++ [(.updateLocals (s.g + 1), b1), (.step (s.num + cfg.nEnvs), ok)] ∧
          (s.next (cbCfg cfg dones) h).pc = (bif ok then .inRollout (c + 1) (e + dones (s.g + 1)) else .finish) ∧
          (s.next (cbCfg cfg dones) h).num = s.num + cfg.nEnvs ∧ (s.next (cbCfg cfg dones) h).total = s.total ∧
          (s.next (cbCfg cfg dones) h).g = s.g + 1 := by
        refine ⟨(h s.cb (.updateLocals (s.g + 1))).2,
          (h (h s.cb (.updateLocals (s.g + 1))).1 (.step (s.num + cfg.nEnvs))).2, ?_⟩
        simp only [LS.next, hpc, hmore, if_true, invoke_eq, cbCfg_nEnvs, cbCfg_dones, List.append_assoc,
          List.cons_append, List.nil_append]
        trivial
      obtain ⟨b1, ok, t1, t2, t3, t4, t5⟩ := e1
      have hops : opsOf dones g0 (s.next (cbCfg cfg dones) h).trace =
          opsOf dones g0 s.trace ++ [.env (!ok) (dones (s.g + 1)) []] := by
        rw [t1, opsOf_append, ← hg]; simp [opsOf]
      have hrun' : run cfg st0 (.learn T r :: opsOf dones g0 (s.next (cbCfg cfg dones) h).trace) =
          ((step cfg (run cfg st0 (.learn T r :: opsOf dones g0 s.trace)).1 (.env (!ok) (dones (s.g + 1)) [])).1,
            (run cfg st0 (.learn T r :: opsOf dones g0 s.trace)).2 ++
              (step cfg (run cfg st0 (.learn T r :: opsOf dones g0 s.trace)).1 (.env (!ok) (dones (s.g + 1)) [])).2) := by
        rw [hops, ← List.cons_append, run_snoc]
      refine ⟨(by rw [t4]; exact htot), (by rw [t5, t1, nStepCalls_append]; simp [nStepCalls, hg]; omega),
        (fun hh => by rw [t2] at hh; cases ok <;> cases hh), fun _ => ?_⟩
      rw [hrun']
      simp only [List.append_nil] at hp
      generalize run cfg st0 (.learn T r :: opsOf dones g0 s.trace) = R at *
      have hpc' : projC (s.next (cbCfg cfg dones) h).trace = projC s.trace ++ [Call.step (s.num + cfg.nEnvs)] := by
        rw [t1, projC_append]; simp [projC]
      cases ok with
      | false =>
        obtain ⟨p1, p2, p3, p4⟩ := env_stop cfg R.1 (dones (s.g + 1)) [] hrun
        simp only [Bool.not_false]
        refine ⟨?_, by rw [p3, hn, t3], by rw [p4, ht, t4], ?_⟩
        · rw [projE_append, p1, ← hp, hpc', hn]; simp [pending, t2]
        · simp only [stOK, t2, cond_false]; exact p2
      | true =>
        simp only [Bool.not_true]
        have hme := more_eq cfg dones R.1 (dones (s.g + 1)) e heps
        rw [hcol] at hme
        cases hm : moreAfter cfg R.1 (dones (s.g + 1)) with
        | true =>
          obtain ⟨p1, p2, p3, p4, p5, p6⟩ := env_mid cfg R.1 (dones (s.g + 1)) [] hrun hm
          rw [hm] at hme
          refine ⟨?_, by rw [p3, hn, t3], by rw [p4, ht, t4], ?_⟩
          · rw [projE_append, p1, ← hp, hpc', hn]; simp [pending, t2, hme]
          · simp only [stOK, t2, cond_true, hme, if_true]
            exact ⟨p2, by rw [p5, hcol], fun oc hoc => by rw [p6 oc hoc, heps oc hoc]⟩
        | false =>
          obtain ⟨p1, p2, p3, p4, p5⟩ := env_end cfg R.1 (dones (s.g + 1)) [] hrun hm
          rw [hm] at hme
          refine ⟨?_, by rw [p3, hn, t3], by rw [p4, ht, t4], ?_⟩
          · rw [projE_append, p1, ← hp, hpc', hn, ht]
            simp [pending, t2, hme, tailCalls, t3, t4]
          · simp only [stOK, t2, cond_true, hme, Bool.false_eq_true, if_false, t3, t4]
            rw [hn, ht] at p2
            exact ⟨p2, p5⟩
    · have hmore' : (cbCfg cfg dones).kind.more c e = false := by simpa using hmore
      rw [if_neg hmore] at hp hst
      have e : s.next (cbCfg cfg dones) h = { s with pc := .rolloutTail } := by
        simp only [LS.next, hpc, hmore', Bool.false_eq_true, if_false]
      rw [e]
      refine ⟨htot, hg, fun hh => by simp at hh, fun _ => ⟨?_, hn, ht, ?_⟩⟩
      · rw [← hp]; simp [pending]
      · simpa [stOK] using hst

theorem inv_setup {σ : Type} (cfg : Learn.Cfg) (dones : Dones) (st0 : State) (T : Nat) (r : Bool) (g0 : Nat) (cb : σ) :
    Inv cfg dones st0 T r g0 (LS.setup st0.num g0 cb T r) := by
  refine ⟨?_, by simp [LS.setup, nStepCalls], fun _ => by simp [LS.setup], fun hh => by simp [LS.setup] at hh⟩
  cases r <;> simp [LS.setup, Nat.add_comm]

theorem inv_runN {σ : Type} (cfg : Learn.Cfg) (dones : Dones) (hsz : 0 < rolloutParam cfg) (st0 : State)
    (h0 : st0.running = false) (T : Nat) (r : Bool) (g0 : Nat) (h : σ → Call → σ × Bool) (fuel : Nat) (s : LS σ)
    (inv : Inv cfg dones st0 T r g0 s) : Inv cfg dones st0 T r g0 (LS.runN (cbCfg cfg dones) h fuel s) := by
  induction fuel generalizing s with
  | zero => exact inv
  | succ n ih => exact ih _ (inv_next cfg dones hsz st0 h0 T r g0 h s inv)

/-- a `learn` call of the `Callback` machine -/
structure CallSpec where
  total : Nat
  reset : Bool
  fuel : Nat

/-- Agreement over a sequence of `learn` calls, each machine threading its OWN state: `Callback` continues from its
counter `n`, environment-step count `g` and callback state `cb`; `Learn` from its state `st`. For every call that the
`Callback` machine completes (`pc = done` within its fuel): the callback-visible traces coincide, `Learn` is idle
again, and both end the call with the same counter. -/
def SeqAgree {σ : Type} (cfg : Learn.Cfg) (dones : Dones) (h : σ → Call → σ × Bool) :
    State → Nat → Nat → σ → List CallSpec → Prop
  | _, _, _, _, [] => True
  | st, n, g, cb, c :: cs =>
    let s := LS.runN (cbCfg cfg dones) h c.fuel (LS.setup n g cb c.total c.reset)
    let R := run cfg st (.learn c.total c.reset :: opsOf dones g s.trace)
    s.pc = .done →
      (projC s.trace = projE R.2 ∧ R.1.running = false ∧ R.1.num = s.num) ∧
        SeqAgree cfg dones h R.1 s.num s.g s.cb cs

theorem call_agree {σ : Type} (cfg : Learn.Cfg) (dones : Dones) (hsz : 0 < rolloutParam cfg) (st0 : State)
    (h0 : st0.running = false) (T : Nat) (r : Bool) (g0 : Nat) (h : σ → Call → σ × Bool) (cb : σ) (fuel : Nat) :
    (LS.runN (cbCfg cfg dones) h fuel (LS.setup st0.num g0 cb T r)).pc = .done →
      projC (LS.runN (cbCfg cfg dones) h fuel (LS.setup st0.num g0 cb T r)).trace =
          projE (run cfg st0 (.learn T r ::
            opsOf dones g0 (LS.runN (cbCfg cfg dones) h fuel (LS.setup st0.num g0 cb T r)).trace)).2 ∧
        (run cfg st0 (.learn T r ::
            opsOf dones g0 (LS.runN (cbCfg cfg dones) h fuel (LS.setup st0.num g0 cb T r)).trace)).1.running = false ∧
        (run cfg st0 (.learn T r ::
            opsOf dones g0 (LS.runN (cbCfg cfg dones) h fuel (LS.setup st0.num g0 cb T r)).trace)).1.num =
          (LS.runN (cbCfg cfg dones) h fuel (LS.setup st0.num g0 cb T r)).num ∧
        (run cfg st0 (.learn T r ::
            opsOf dones g0 (LS.runN (cbCfg cfg dones) h fuel (LS.setup st0.num g0 cb T r)).trace)).1.total =
          (LS.runN (cbCfg cfg dones) h fuel (LS.setup st0.num g0 cb T r)).total := by
  intro hd
  have inv := inv_runN cfg dones hsz st0 h0 T r g0 h fuel _ (inv_setup cfg dones st0 T r g0 cb)
  obtain ⟨hp, hn, ht, hst⟩ := inv.main (by rw [hd]; simp)
  simp only [pending, hd, List.append_nil] at hp
  simp only [stOK, hd] at hst
  exact ⟨hp, hst, hn, ht⟩

theorem seq_agree {σ : Type} (cfg : Learn.Cfg) (dones : Dones) (hsz : 0 < rolloutParam cfg) (h : σ → Call → σ × Bool)
    (cs : List CallSpec) (st : State) (n g : Nat) (cb : σ) (h0 : st.running = false) (hn : st.num = n) :
    SeqAgree cfg dones h st n g cb cs := by
  induction cs generalizing st n g cb with
  | nil => trivial
  | cons c cs ih =>
    subst hn
    intro hd
    obtain ⟨a1, a2, a3, _⟩ := call_agree cfg dones hsz st h0 c.total c.reset g h cb c.fuel hd
    exact ⟨⟨a1, a2, a3⟩, ih _ _ _ _ a2 a3⟩

/-- a minimal callback for the examples: counts its `on_step` calls (over all `learn` calls, like `n_calls`) and
answers `False` at the listed counts -/
def stopAt (stops : List Nat) : Nat → Call → Nat × Bool
  | k, .step _ => (k + 1, !(stops.contains (k + 1)))
  | k, _ => (k, true)

end SB3Verif.LearnCallback
