/-
Driver for C10: evaluates the executable model `SB3Verif.Seeding` on what the harness (`/verif/harness/c10.py`)
observed in real training runs.

generators cross as "py" | "np" | "torch" | "actSpace" | "obsSpace" | "os" | "noise" | "env<i>"

ops
  {"op":"predict","cfg":{algo,nEnvs,seed,useSde,sdeFreq,useSdeAtWarmup,noise,learningStarts,cnn,envPy,envNp,initDraws},
   "resetDraws":[k],"options":[tag|null],"events":[ev]}        (options pending when the model is built)
      ev = {"e":"learnStart"} | {"e":"rolloutStart"} | {"e":"step","t":t,"k":k,"draws":[k]} | {"e":"rolloutEnd"} | {"e":"train","n":n,"single":b}
         | {"e":"reset","draws":[k]} | {"e":"idle"}
    → {"ok":traceOK ⊥ (libTrace …), "noninterf":outputs from two ambient states are equal,
       "deliveries":[[[seed|null, options tag|null]]], "segments":[{"must":[g],"may":[g],"low":[g],"pend":[s]}]}
      segment 0 = `construct`, 1 = `firstLearn` (noise reset + first env reset), 2… = one per event; `must` = generators drawn with the
      data-dependent branch not taken, `may` = with it taken; `low`/`pend` = analysis state after the segment
  {"op":"measured","n":n,"options":[tag|null],"segments":[[mop]]}
      mop = {"o":"setOptions","opts":[tag|null]} | {"o":"seed","g":g,"s":s} | {"o":"reset","g":g} | {"o":"envSeed","s":s,"n":n} | {"o":"envReset","n":n} | {"o":"draw","g":g,"k":k}
          | {"o":"discard","g":g,"k":k}
    → {"ok":traceOK ⊥ trace,"firstBad":segment index|null,"noninterf":b,"deliveries":[[[seed|null,tag|null]]],
       "segments":[{"low":[g],"pend":[s]}]}
-/
import SB3Verif.Driver.Proto
import SB3Verif.Model.Seeding

open Lean SB3Verif.Proto SB3Verif.Seeding

def genName : Gen → String
  | .py => "py" | .np => "np" | .torch => "torch" | .actSpace => "actSpace" | .obsSpace => "obsSpace" | .os => "os"
  | .noise => "noise"
  | .env i => s!"env{i}"

def asGen (j : Json) : Except String Gen := do
  let s ← asStr j
  match s with
  | "py" => pure .py
  | "np" => pure .np
  | "torch" => pure .torch
  | "actSpace" => pure .actSpace
  | "obsSpace" => pure .obsSpace
  | "os" => pure .os
  | "noise" => pure .noise
  | _ =>
    if s.startsWith "env" then
      match (s.drop 3).toNat? with
      | some i => pure (.env i)
      | none => throw s!"bad generator {s}"
    else throw s!"bad generator {s}"

def asOptNat (j : Json) : Except String (Option Nat) :=
  match j with
  | .null => pure none
  | _ => do return some (← asNat j)

def asOp (j : Json) : Except String Op := do
  let o ← getStr j "o"
  match o with
  | "seed" => return .seed (← fld j "g" >>= asGen) (← getNat j "s")
  | "reset" => return .reset (← fld j "g" >>= asGen)
  | "setOptions" => return .setOptions (← getList asOptNat j "opts")
  | "envSeed" => return .envSeed (← getNat j "s") (← getNat j "n")
  | "envReset" => return .envReset (← getNat j "n")
  | "draw" => return .draw (← fld j "g" >>= asGen) (← getNat j "k")
  | "discard" => return .discard (← fld j "g" >>= asGen) (← getNat j "k")
  | _ => throw s!"bad model op {o}"

def asCfg (j : Json) : Except String Cfg := do
  let a ← getStr j "algo"
  let algo ← match a with
    | "PPO" => pure Algo.ppo | "A2C" => pure Algo.a2c | "DQN" => pure Algo.dqn
    | "SAC" => pure Algo.sac | "TD3" => pure Algo.td3 | "DDPG" => pure Algo.ddpg
    | _ => throw s!"bad algo {a}"
  let nz ← getStr j "noise"
  let noise ← match nz with
    | "none" => pure Noise.none | "normal" => pure Noise.normal | "ou" => pure Noise.ou
    | _ => throw s!"bad noise {nz}"
  return { algo := algo, nEnvs := ← getNat j "nEnvs", seed := ← getNat j "seed", useSde := ← getBool j "useSde",
           sdeFreq := ← getNat j "sdeFreq", useSdeAtWarmup := ← getBool j "useSdeAtWarmup", noise := noise,
           learningStarts := ← getNat j "learningStarts", cnn := ← getBool j "cnn", envPy := ← getBool j "envPy",
           envNp := ← getBool j "envNp", initDraws := ← getNat j "initDraws" }

/-- an event with the data-dependent branch set to `b` -/
def asEv (b : Bool) (j : Json) : Except String Ev := do
  let e ← getStr j "e"
  match e with
  | "learnStart" => return .learnStart
  | "rolloutStart" => return .rolloutStart
  | "step" => return .step (← getNat j "t") (← getNat j "k") b (← getList asNat j "draws")
  | "rolloutEnd" => return .rolloutEnd
  | "train" => return .train (← getNat j "n") (← getBool j "single") b
  | "reset" => return .reset (← getList asNat j "draws")
  | "idle" => return .idle
  | _ => throw s!"bad event {e}"

def allGens (n : Nat) : List Gen :=
  [.py, .np, .torch, .actSpace, .obsSpace, .os, .noise] ++ (List.range n).map Gen.env

def dedup (l : List Gen) : List Gen := l.foldl (fun acc g => if acc.contains g then acc else acc ++ [g]) []

def gensJ (n : Nat) (l : List Gen) : Json :=
  listJ (fun g => strJ (genName g)) ((allGens n).filter fun g => l.contains g)

def pendName : PendK → String
  | .unknown => "unknown" | .none => "none" | .some => "some"

def lowJ (n : Nat) (L : Low) : List (String × Json) :=
  [("low", listJ (fun g => strJ (genName g)) ((allGens n).filter L.gens)),
   ("pend", listJ (fun i => strJ (pendName (L.pend i))) (List.range n))]

def optJ (o : Option Nat) : Json := match o with | some k => natJ k | none => Json.null

def delivJ (d : List (List (Option Nat × Option Nat))) : Json :=
  listJ (listJ fun o => Json.arr #[optJ o.1, optJ o.2]) d

def stA : RngState := ambientState 1 (some 5)
def stB : RngState := ambientState 2 none

def stepC10 (_ : Unit) (j : Json) : Except String (Unit × Json) := do
  let op ← getStr j "op"
  match op with
  | "predict" =>
    let cfg ← fld j "cfg" >>= asCfg
    let ds ← getList asNat j "resetDraws"
    let opts ← getList asOptNat j "options"
    let evJ ← fld j "events" >>= asList
    let evF ← evJ.mapM (asEv false)
    let evT ← evJ.mapM (asEv true)
    let n := cfg.nEnvs
    let segsF := [construct cfg, firstLearn cfg ds] ++ evF.map (segOps cfg)
    let segsT := [construct cfg, firstLearn cfg ds] ++ evT.map (segOps cfg)
    let traceT := libTrace cfg ds evT
    let rec go (L : Low) (sf st : List (List Op)) (acc : List Json) : List Json :=
      match sf, st with
      | f :: sf', t :: st' =>
        let L' := lowRun L t
        go L' sf' st' (acc ++ [objJ ([("must", gensJ n (dedup (drawnGens f))), ("may", gensJ n (dedup (drawnGens t)))]
                                       ++ lowJ n L')])
      | _, _ => acc
    let segs := go Low.bot segsF segsT []
    return ((), objJ [("ok", boolJ (traceOK Low.bot traceT)),
                      ("noninterf", boolJ (outputs traceT stA == outputs traceT stB)),
                      ("deliveries", delivJ (deliveries traceT (stA.withOptions opts))),
                      ("segments", Json.arr segs.toArray)])
  | "measured" =>
    let n ← getNat j "n"
    let opts ← getList asOptNat j "options"
    let segs ← fld j "segments" >>= asListOf (asListOf asOp)
    let trace := segs.flatten
    let rec goM (L : Low) (ss : List (List Op)) (acc : List Json) : List Json :=
      match ss with
      | s :: ss' =>
        let L' := lowRun L s
        goM L' ss' (acc ++ [objJ (lowJ n L')])
      | [] => acc
    -- segment that contains the first rejected draw
    let rec seg (ss : List (List Op)) (i k : Nat) : Nat :=
      match ss with
      | s :: ss' => if i < s.length then k else seg ss' (i - s.length) (k + 1)
      | [] => k
    let bad : Json := match firstBad Low.bot trace 0 with
      | some i => natJ (seg segs i 0)
      | none => Json.null
    return ((), objJ [("ok", boolJ (traceOK Low.bot trace)), ("firstBad", bad),
                      ("noninterf", boolJ (outputs trace stA == outputs trace stB)),
                      ("deliveries", delivJ (deliveries trace (stA.withOptions opts))),
                      ("segments", Json.arr (goM Low.bot segs []).toArray)])
  | _ => throw s!"bad-op {op}"

def main : IO Unit := SB3Verif.Proto.run stepC10 ()
