/-
C08 — Target networks change only by the Polyak rule, at the configured cadence.

Property theorems only (helper lemmas are in `SB3Verif/Lemmas/Polyak.lean`, `SB3Verif/Lemmas/Cadence.lean`).
All statements are about the executable models `SB3Verif/Model/Polyak.lean` and
`SB3Verif/Model/Cadence.lean`, whose definitions the driver `SB3Verif/Driver/C08.lean` runs against the real
`polyak_update` and real DQN / SAC / TD3 / DDPG training runs.
-/
import SB3Verif.Lemmas.Polyak
import SB3Verif.Lemmas.Cadence

namespace SB3Verif.C08

open SB3Verif.Polyak SB3Verif.Cadence

/-! ### The averaging rule (all parameter values, all `tau`) -/

section algebra
variable {α : Type} [CommRing α]

/-- The two in-place lines `t.mul_(1 - tau); t += tau * o` compute `(1 - tau) * t + tau * o`. -/
theorem polyak_rule (τ t o : α) : polyak1 τ t o = (1 - τ) * t + τ * o :=
  Lemmas.Polyak.polyak1_eq τ t o

/-- `tau = 1` copies the online value (hard update; also how running statistics are copied). -/
theorem polyak_tau_one (t o : α) : polyak1 1 t o = o := Lemmas.Polyak.polyak1_one t o

/-- `tau = 0` leaves the target alone. -/
theorem polyak_tau_zero (t o : α) : polyak1 0 t o = t := Lemmas.Polyak.polyak1_zero t o

/-- `k` updates against a constant online value: `(1-tau)^k * t + (1 - (1-tau)^k) * o`. -/
theorem polyak_iter (τ t o : α) (k : ℕ) :
    (fun x => polyak1 τ x o)^[k] t = (1 - τ) ^ k * t + (1 - (1 - τ) ^ k) * o :=
  Lemmas.Polyak.polyak1_iterate τ t o k

end algebra

/-- **Running statistics are copied**: the call with coefficient `1.0` makes the target tensor equal to the
online tensor, exactly. -/
theorem stats_are_copied {α : Type} [CommRing α] (t o r : List α)
    (h : polyakTensor (1 : α) t o = some r) : r = o :=
  Lemmas.Polyak.polyakTensor_one_copies t o r h

/-- For `tau ∈ [0, 1]` the new target lies between the old target and the online value. -/
theorem polyak_convex {α : Type} [CommRing α] [LinearOrder α] [IsStrictOrderedRing α]
    (τ t o : α) (h0 : 0 ≤ τ) (h1 : τ ≤ 1) :
    min t o ≤ polyak1 τ t o ∧ polyak1 τ t o ≤ max t o :=
  Lemmas.Polyak.polyak1_between τ t o h0 h1

section kernel
variable {α : Type} [Add α] [Sub α] [Mul α] [One α]

/-- `zip_strict`: a different number of online and target tensors is an error, never a truncation. -/
theorem polyak_length_mismatch_errors (τ : α) (params targets : List (List α))
    (h : params.length ≠ targets.length) : polyakUpdate τ params targets = none := by
  unfold polyakUpdate
  rw [(Lemmas.Polyak.zipStrict_eq_none params targets).mpr h]

/-- When the call succeeds, **every** element of **every** target tensor is
`polyak1 tau (old target) (online)`, tensor by tensor, in the order of the two lists. -/
theorem polyak_update_elementwise (τ : α) (params targets r : List (List α))
    (h : polyakUpdate τ params targets = some r) :
    r.length = targets.length ∧
      ∀ i (hp : i < params.length) (ht : i < targets.length) (hr : i < r.length),
        targets[i].length = params[i].length ∧ r[i] = List.zipWith (polyak1 τ) targets[i] params[i] := by
  unfold polyakUpdate at h
  cases hz : zipStrict params targets with
  | none => rw [hz] at h; cases h
  | some ps =>
    rw [hz] at h
    obtain ⟨hl, hps⟩ := (Lemmas.Polyak.zipStrict_eq_some params targets ps).mp hz
    subst hps
    obtain ⟨hlen, hs⟩ := Lemmas.Polyak.polyakAll_spec τ _ r h
    refine ⟨by rw [hlen, List.length_zip, hl, Nat.min_self], ?_⟩
    intro i hp ht hr
    have hi : i < (params.zip targets).length := by rw [List.length_zip]; omega
    have := hs i hi hr
    simpa [List.getElem_zip] using this

/-- One tensor: the call succeeds iff the shapes agree, and then the result is the rule applied element by
element (this is what `nv` is in `update_sets_every_target_by_rule`). -/
theorem polyak_tensor_elementwise (τ : α) (t o r : List α) :
    polyakTensor τ t o = some r ↔ t.length = o.length ∧ r = List.zipWith (polyak1 τ) t o :=
  Lemmas.Polyak.polyakTensor_eq_some τ t o r

/-- A polyak call writes only the tensors passed as targets: in particular **the online network is
untouched** (and so is every other tensor in the process). -/
theorem polyak_online_untouched (τ : α) (online target : List String) (s s' : Store α)
    (h : polyakGroup τ online target s = some s') (m : String) (hm : m ∉ target) :
    s'.lookup m = s.lookup m :=
  Lemmas.Cadence.polyakGroup_frame τ online target s s' h m hm

/-- **What one update does** (all `polyak_update` calls made when the cadence fires, in program order):
if the target tensors are pairwise distinct objects and none of them is also read as an online tensor,
then every target tensor of every group ends as `polyakTensor coef (old target) (old online)` with
`coef = tau` for parameter groups and `coef = 1` (exact copy) for running-statistics groups —
"old" meaning the values just before the first call. -/
theorem update_sets_every_target_by_rule (cfg : Cfg α) (s s' : Store α)
    (h : applyGroups cfg cfg.groups s = some s')
    (hnd : (allTargets cfg.groups).Nodup) (hdis : ∀ o ∈ allOnline cfg.groups, o ∉ allTargets cfg.groups)
    (g : Group) (hg : g ∈ cfg.groups) (i : ℕ) (hi : i < g.online.length) (hi' : i < g.target.length) :
    ∃ ov tv nv, s.lookup g.online[i] = some ov ∧ s.lookup g.target[i] = some tv ∧
      polyakTensor (if g.soft then cfg.tau else 1) tv ov = some nv ∧ s'.lookup g.target[i] = some nv :=
  Lemmas.Cadence.applyGroups_rule cfg cfg.groups s s' h hnd hdis g hg i hi hi'

end kernel

/-- **No optimizer touches a target**: any sequence of optimizer steps / forward passes leaves every tensor
they do not own bit-identical. (That no target tensor is owned by an optimizer is the structural fact
checked on the real `param_groups` by the harness.) -/
theorem no_optimizer_touches_target {α : Type} (ws : List (Write α)) (s : Store α) (t : String)
    (h : ∀ w ∈ ws, t ∉ w.owned) : (applyWrites ws s).lookup t = s.lookup t :=
  Lemmas.Polyak.lookup_applyWrites_not_owned ws s t h


/-! ### Cadence, for every history (any interleaving of environment steps and `train()` calls, any split of
the gradient steps into `train()` calls, any starting counters — i.e. also across `learn()` calls) -/

section cadence
variable {α : Type}

/-- **SAC**: gradient step number `j` (0-based, counted over *all* `train()` calls of the history) updates the
target iff `(n_updates₀ + j) % target_update_interval = 0`; environment steps never do; `_n_updates` ends
as `n_updates₀ +` the number of gradient steps. -/
theorem sac_cadence (cfg : Cfg α) (h : cfg.algo = .sac) (c : Ctr) (ops : List CtrOp) :
    (ctrRun cfg c ops).1 = { c with nUpdates := c.nUpdates + totalGrad ops } ∧
    gradFlags (ctrRun cfg c ops).2 =
      (List.range (totalGrad ops)).map (fun j => (c.nUpdates + j) % cfg.interval == 0) ∧
    envFlags (ctrRun cfg c ops).2 = List.replicate (totalEnv ops) false :=
  Lemmas.Cadence.ctrRun_sac cfg h c ops

/-- **TD3 / DDPG**: gradient step number `j` (0-based over all `train()` calls) updates the targets iff
`(n_updates₀ + j + 1) % policy_delay = 0` (the counter is incremented first); environment steps never do. -/
theorem td3_updates_iff_delayed (cfg : Cfg α) (h : cfg.algo = .td3) (c : Ctr) (ops : List CtrOp) :
    (ctrRun cfg c ops).1 = { c with nUpdates := c.nUpdates + totalGrad ops } ∧
    gradFlags (ctrRun cfg c ops).2 =
      (List.range (totalGrad ops)).map (fun j => (c.nUpdates + j + 1) % cfg.delay == 0) ∧
    envFlags (ctrRun cfg c ops).2 = List.replicate (totalEnv ops) false :=
  Lemmas.Cadence.ctrRun_td3 cfg h c ops

/-- DDPG (`policy_delay = 1`): every gradient step updates the targets. -/
theorem ddpg_updates_every_step (cfg : Cfg α) (h : cfg.algo = .td3) (hd : cfg.delay = 1) (c : Ctr)
    (ops : List CtrOp) : gradFlags (ctrRun cfg c ops).2 = List.replicate (totalGrad ops) true := by
  rw [(Lemmas.Cadence.ctrRun_td3 cfg h c ops).2.1, hd]
  simp only [Nat.mod_one, beq_self_eq_true, List.map_const', List.length_range]

/-- **DQN**: vectorised environment step number `k` (0-based over the whole history, whatever `train()` calls
are interleaved) updates the target iff `(n_calls₀ + k + 1) % max (I / n_envs) 1 = 0`; gradient steps never do. -/
theorem dqn_cadence (cfg : Cfg α) (h : cfg.algo = .dqn) (c : Ctr) (ops : List CtrOp) :
    (ctrRun cfg c ops).1 =
      { nCalls := c.nCalls + totalEnv ops, nUpdates := c.nUpdates + totalGrad ops } ∧
    envFlags (ctrRun cfg c ops).2 =
      (List.range (totalEnv ops)).map (fun k => (c.nCalls + k + 1) % dqnEvery cfg == 0) ∧
    gradFlags (ctrRun cfg c ops).2 = List.replicate (totalGrad ops) false :=
  Lemmas.Cadence.ctrRun_dqn cfg h c ops

/-- **DQN, how many target updates a history contains**: over ANY history of vectorised environment steps and `train()`
calls (any number of `learn()` calls, any `train_freq`, any split), starting with call counter `n_calls₀`, the number of
target-network updates is the number of multiples of `max (I / n_envs) 1` in `(n_calls₀, n_calls₀ + K]`, `K` the number of
vectorised steps: `⌊(n_calls₀ + K) / p⌋ − ⌊n_calls₀ / p⌋`. In particular a run of `K` steps from a fresh model makes
`⌊K / p⌋` updates, and no history can make the target drift more or less often than that. -/
theorem dqn_update_count (cfg : Cfg α) (h : cfg.algo = .dqn) (c : Ctr) (ops : List CtrOp) :
    (envFlags (ctrRun cfg c ops).2).count true =
      (c.nCalls + totalEnv ops) / dqnEvery cfg - c.nCalls / dqnEvery cfg ∧
    (gradFlags (ctrRun cfg c ops).2).count true = 0 := by
  obtain ⟨_, h2, h3⟩ := dqn_cadence cfg h c ops
  rw [h2, h3]
  refine ⟨Lemmas.Cadence.count_multiples _ _ _, ?_⟩
  induction totalGrad ops with
  | zero => rfl
  | succ n ih => simpa [List.replicate_succ] using ih

/-- **TD3 / DDPG, how many delayed (actor + target) updates a history contains**: over any history with `G` gradient steps in
total, starting with `_n_updates = u₀`: `⌊(u₀ + G) / policy_delay⌋ − ⌊u₀ / policy_delay⌋`. -/
theorem td3_update_count (cfg : Cfg α) (h : cfg.algo = .td3) (c : Ctr) (ops : List CtrOp) :
    (gradFlags (ctrRun cfg c ops).2).count true =
      (c.nUpdates + totalGrad ops) / cfg.delay - c.nUpdates / cfg.delay := by
  rw [(td3_updates_iff_delayed cfg h c ops).2.1]
  exact Lemmas.Cadence.count_multiples _ _ _

/-- **SAC, how many target updates a history contains**: the gradient steps are numbered `u₀, u₀ + 1, …` over ALL `train()`
calls and the multiples of `target_update_interval` among the first `G` of them fire:
`⌈(u₀ + G) / I⌉ − ⌈u₀ / I⌉` (written with floor divisions). -/
theorem sac_update_count (cfg : Cfg α) (h : cfg.algo = .sac) (hI : 0 < cfg.interval) (c : Ctr) (ops : List CtrOp) :
    (gradFlags (ctrRun cfg c ops).2).count true =
      (c.nUpdates + cfg.interval - 1 + totalGrad ops) / cfg.interval - (c.nUpdates + cfg.interval - 1) / cfg.interval := by
  rw [(sac_cadence cfg h c ops).2.1, ← Lemmas.Cadence.count_multiples]
  congr 1
  apply List.map_congr_left
  intro j _
  have : c.nUpdates + cfg.interval - 1 + j + 1 = c.nUpdates + j + cfg.interval := by omega
  rw [this, Nat.add_mod_right]

/-- **DQN period in environment steps counted across sub-environments**: `p = n_envs * max (I / n_envs) 1`
is `target_update_interval` rounded down to a whole number of vectorised steps (`p ≤ I < p + n_envs`) when
`n_envs ≤ I`, and one vectorised step (`p = n_envs`) otherwise; and "the call counter is a multiple of
`max (I / n_envs) 1`" is the same as "the number of environment steps `calls * n_envs` is a multiple of `p`". -/
theorem dqn_period (I n : ℕ) (hn : 0 < n) :
    (n ≤ I → n * max (I / n) 1 ≤ I ∧ I < n * max (I / n) 1 + n) ∧
    (I < n → n * max (I / n) 1 = n) ∧
    (∀ calls, calls % max (I / n) 1 = 0 ↔ (calls * n) % (n * max (I / n) 1) = 0) :=
  ⟨Lemmas.Cadence.dqn_period_bounds I n hn, Lemmas.Cadence.dqn_period_small I n,
    fun calls => Lemmas.Cadence.mod_iff_mul_mod calls _ n hn⟩

end cadence

/-! ### Counters and tensors together -/

section full
variable {α : Type} [Add α] [Sub α] [Mul α] [One α]

/-- The full machine (tensors + counters) takes exactly the decisions of the counter machine: the event
list of any successful run is the one the cadence theorems above describe. -/
theorem run_follows_cadence (cfg : Cfg α) (st st' : St α) (ops : List (Op α)) (evs : List Ev)
    (h : run cfg st ops = some (st', evs)) :
    ctrRun cfg st.ctr (ops.map Op.shape) = (st'.ctr, evs) :=
  Lemmas.Cadence.run_ctr cfg st st' ops evs h

/-- **Targets change only at the configured moments**: over any stretch of history in which no update
fired, every tensor that no optimizer owns — every target tensor — is bit-identical at the end. -/
theorem target_changes_only_when_fired (cfg : Cfg α) (st st' : St α) (ops : List (Op α)) (evs : List Ev)
    (h : run cfg st ops = some (st', evs)) (t : String) (hu : ∀ op ∈ ops, op.untouched t)
    (hq : ∀ e ∈ evs, e.fired = false) : st'.store.lookup t = st.store.lookup t :=
  Lemmas.Cadence.run_frame cfg st st' ops evs h t hu (Or.inl hq)

/-- **Updates leave the online networks untouched**: over any history (updates firing or not), a tensor
that is neither a target of the configuration nor owned by an external write of the history keeps its value;
an online tensor changes only through its own optimizer / forward pass. -/
theorem updates_leave_online_untouched (cfg : Cfg α) (st st' : St α) (ops : List (Op α)) (evs : List Ev)
    (h : run cfg st ops = some (st', evs)) (n : String) (hu : ∀ op ∈ ops, op.untouched n)
    (hn : n ∉ allTargets cfg.groups) : st'.store.lookup n = st.store.lookup n :=
  Lemmas.Cadence.run_frame cfg st st' ops evs h n hu (Or.inr hn)

/-- An iteration of `train()` whose cadence test fires ends with the store produced by the
`polyak_update` calls applied to the tensors as the optimizers left them (so
`update_sets_every_target_by_rule` describes every target tensor afterwards). -/
theorem fired_iteration_is_update (cfg : Cfg α) (st st' : St α) (g : ℕ) (it : Iter α)
    (h : iterStep cfg st g it = some (st', true)) :
    applyGroups cfg cfg.groups (applyWrites it.delayed (applyWrites it.pre st.store)) = some st'.store :=
  Lemmas.Cadence.iterStep_fired cfg st st' g it h

/-- Same for DQN's `_on_step`. -/
theorem fired_env_step_is_update (cfg : Cfg α) (st st' : St α) (h : onStep cfg st = some (st', true)) :
    applyGroups cfg cfg.groups st.store = some st'.store :=
  Lemmas.Cadence.onStep_fired cfg st st' h

/-- **TD3: target change ⇔ actor update**: in an iteration that does not fire, the writes inside the
`if` (the actor optimizer step) are not performed either — the store is just `pre` applied. -/
theorem td3_no_actor_update_without_target_update (cfg : Cfg α) (st st' : St α) (g : ℕ) (it : Iter α)
    (h : iterStep cfg st g it = some (st', false)) : st'.store = applyWrites it.pre st.store :=
  Lemmas.Cadence.iterStep_unfired cfg st st' g it h

end full

/-! ### Non-vacuity: the hypotheses above are met by concrete non-trivial data -/

/-- `tau = 1/2` on two tensors -/
example : polyakUpdate (1 / 2 : ℚ) [[1, 2], [3]] [[3, 4], [5]] = some [[2, 3], [4]] := by
  norm_num [polyakUpdate, zipStrict, polyakAll, polyakTensor, polyak1, scaleTarget]

example : polyakUpdate (1 / 2 : ℚ) [[1, 2]] [[3, 4], [5]] = none := by
  simp [polyakUpdate, zipStrict]

example : polyakTensor (1 : ℚ) [3, 4] [7, 9] = some [7, 9] := by
  norm_num [zipStrict, polyakTensor, polyak1, scaleTarget]

example : (0 : ℚ) ≤ 1 / 200 ∧ (1 / 200 : ℚ) ≤ 1 := by norm_num

def exSac : Cfg ℤ :=
  { algo := .sac, nEnvs := 1, interval := 3, delay := 1, tau := 1,
    groups := [⟨["critic.w"], ["critic_target.w"], true⟩, ⟨["critic.rm"], ["critic_target.rm"], false⟩] }

/-- interval 3 and one gradient step per `train()` call: updates at gradient steps 0, 3 (not at every step) -/
example : gradFlags (ctrRun exSac ⟨0, 0⟩
    [.envStep, .train 1, .envStep, .train 1, .envStep, .train 1, .envStep, .train 2]).2 =
    [true, false, false, true, false] := by decide

example : (allTargets exSac.groups).Nodup ∧ ∀ o ∈ allOnline exSac.groups, o ∉ allTargets exSac.groups := by
  decide

def exStore : Store ℤ :=
  [("critic.w", [0, 0]), ("critic_target.w", [0, 0]), ("critic.rm", [0]), ("critic_target.rm", [0])]

def exIter (w r : ℤ) : Iter ℤ :=
  { pre := [⟨["critic.w"], [("critic.w", [w, w + 1]), ("critic_target.w", [99, 99])]⟩,
            ⟨["critic.rm"], [("critic.rm", [r])]⟩], delayed := [] }

/-- a successful run: the optimizer's attempt to hand a value for the target is ignored (not owned), the
target follows the online values only at gradient steps 0 and 3 -/
example : (run exSac ⟨exStore, ⟨0, 0⟩⟩
      [.train [exIter 1 10], .envStep, .train [exIter 2 20, exIter 3 30], .train [exIter 4 40]]).map
        (fun r => (r.1.store, r.2)) =
    some ([("critic.w", [4, 5]), ("critic_target.w", [4, 5]), ("critic.rm", [40]), ("critic_target.rm", [40])],
          [.grad true, .env false, .grad false, .grad false, .grad true]) := by decide

example : ∀ op ∈ [Op.train [exIter 1 10], .envStep, .train [exIter 2 20, exIter 3 30]],
    op.untouched "critic_target.w" := by
  simp [Op.untouched, Iter.untouched, exIter]

def exDqn : Cfg ℤ := { algo := .dqn, nEnvs := 4, interval := 10, delay := 1, tau := 1, groups := [] }

/-- 4 envs, interval 10: every `max (10/4) 1 = 2` calls, i.e. every 8 environment steps -/
example : envFlags (ctrRun exDqn ⟨0, 0⟩ [.envStep, .envStep, .train 3, .envStep, .envStep, .envStep]).2 =
    [false, true, false, true, false] := by decide

def exTd3 : Cfg ℤ := { algo := .td3, nEnvs := 1, interval := 1, delay := 2, tau := 1, groups := [] }

example : gradFlags (ctrRun exTd3 ⟨0, 0⟩ [.train 1, .envStep, .train 1, .train 3]).2 =
    [false, true, false, true, false] := by decide

end SB3Verif.C08
