#!/usr/bin/env python3
"""prints the builder prompt for one property (used by the coordinator to brief a sub-agent)"""
import json, sys
pid = sys.argv[1]
extra = sys.argv[2] if len(sys.argv) > 2 else ""
p = next(json.loads(l) for l in open('/verif/properties.jsonl') if json.loads(l)['id'] == pid)
print(f"""You are building the verification check for ONE property ({pid}) of stable-baselines3 inside an existing framework in /verif.
The technique is fixed: machine-checked proof in Lean 4 about an executable model + a differential correspondence check that ties the model to the real code in /repo + a property oracle used to find failing inputs.

START by reading, in this order:
  1. /verif/BUILDING.md            (mechanics, file ownership, rules — follow it exactly)
  2. /verif/DESIGN.md  §0-§3 and the '### {pid}' section of §4 (the plan for your property: model, theorems, correspondence, oracle)
  3. the worked example C05: /verif/lean/SB3Verif/Model/Rollout.lean, Lemmas/Rollout.lean, Props/C05.lean, Driver/C05.lean, /verif/harness/c05.py, /verif/harness/common.py, /verif/harness/envs.py
  4. the anchored source files of the property in /repo (read-only!)

THE PROPERTY (given and fixed; do not reinterpret it to make it easier):
{json.dumps(p, indent=1)}

IMPORTANT CONTEXT
* /repo already contains 'fix:' commits for the defects listed in DESIGN.md §6 with tags F-C19-a, F-C19-b, F-C12-a, F-C13-a, F-C20-a, F-C09-a, F-C09-b, F-C11-a, F-C08-a (see /verif/known_findings.json and `git -C /repo log --oneline`). Model the code AS IT IS NOW: for those items the full-strength theorem is now the goal (no `_counterexample` needed for the fixed behaviour). Items tagged K-… or F-C02-a in §6 are NOT fixed: for those, follow the finding procedure in BUILDING.md (counterexample theorem + known_findings.json entry with a specific signature).
* DESIGN.md §4 is a plan, not a contract: deliver first a faithful executable model, the 4-8 most important theorems proved for ALL histories/sizes, a driver, and a harness with a strong generator + oracle that runs clean on the unchanged tree and catches realistic mutations. Then extend (more of the code in the model, more theorems, tighter correspondence) as long as you have budget. Quality bar: no false alarms on any seed; no vacuous theorems; no sorry.
* NEVER modify /repo or shared files. Work only in the files BUILDING.md says you own. Use a scratch worktree under /tmp/wt_{pid} for mutation self-tests and remove it when done.
* Several other agents are building other properties in /verif at the same time: do not run `lake clean`, do not touch their files, do not `git commit`.
* Keep quick tier <= 90 s wall (ideally <= 45 s).
{extra}
When done, reply with the final report described at the end of BUILDING.md.""")
