/-
How CPython prints a float whose exact value is the rational `q` (used by the `Rat` instance of the logger model):

* `pyFloatRepr q` — `repr(x)` / `str(x)`: the exact decimal expansion `[-]int.frac`. This *is* the shortest
  round-trip representation whenever the expansion is finite, has at most 15 significant digits and
  `1e-4 ≤ |x| < 1e16`; the harness only sends such values through the exact stream (and checks the claim
  `repr(x) == exact expansion` on the Python side for every value it sends).
* `g3 q`          — `f"{x:<8.3g}"` (`HumanOutputFormat`): correctly rounded (half-even on the exact value) to three
  significant digits, fixed notation for exponents `-4 … 2`, otherwise `d.dde±XX`, trailing zeros removed,
  left-aligned in 8 columns. Exact for every finite float.

Import-free (core `Rat`).
-/
import SB3Verif.Model.Logger

namespace SB3Verif.Logger

open SB3Verif.Csv (Str)

def ratAbs (q : Rat) : Rat := if q < 0 then -q else q

/-- digits of the fractional part `r ∈ [0,1)`, at most `fuel` of them -/
def fracDigits : Nat → Rat → Str
  | 0, _ => []
  | f + 1, r =>
    if r = 0 then []
    else
      let t := r * 10
      let d := t.floor.toNat
      digit d :: fracDigits f (t - (d : Rat))

def pyFloatRepr (q : Rat) : Str :=
  let a := ratAbs q
  let ip := a.floor.toNat
  let fr := fracDigits 60 (a - (ip : Rat))
  (if q < 0 then ['-'] else []) ++ natDigits ip ++ '.' :: (if fr.isEmpty then ['0'] else fr)

/-- for `0 < a < 1`: the number of multiplications by 10 needed to reach `≥ 1` -/
def negExp : Nat → Rat → Nat
  | 0, _ => 0
  | f + 1, a => if a < 1 then negExp f (a * 10) + 1 else 0

/-- round half to even -/
def roundHalfEven (m : Rat) : Nat :=
  let r := m.floor.toNat
  let fr := m - (r : Rat)
  if fr > 1 / 2 then r + 1
  else if fr = 1 / 2 then (if r % 2 = 1 then r + 1 else r)
  else r

def stripZeros (s : Str) : Str := (s.reverse.dropWhile (· = '0')).reverse

/-- three digits `ddd` of `r < 1000`, zero padded -/
def three (r : Nat) : Str := [digit (r / 100), digit (r / 10), digit r]

def padRight (w : Nat) (s : Str) : Str := s ++ List.replicate (w - s.length) ' '

/-- `f"{x:.3g}"` for `x ≠ 0` given as sign and absolute value -/
def g3Abs (a : Rat) : Str :=
  -- decimal exponent `e` with `10^e ≤ a < 10^(e+1)`, as an Int
  let e0 : Int := if a < 1 then - (negExp 400 a : Int) else ((natDigits a.floor.toNat).length : Int) - 1
  -- a / 10^(e0-2)
  let scale (e : Int) : Rat := if e ≤ 2 then a * (10 : Rat) ^ (2 - e).toNat else a / (10 : Rat) ^ (e - 2).toNat
  let r0 := roundHalfEven (scale e0)
  let (r, e) := if r0 ≥ 1000 then (100, e0 + 1) else (r0, e0)
  let ds := three r
  if -4 ≤ e ∧ e < 3 then
    if e ≥ 0 then
      let ip := ds.take (e.toNat + 1)
      let fp := stripZeros (ds.drop (e.toNat + 1))
      if fp.isEmpty then ip else ip ++ '.' :: fp
    else
      let fp := stripZeros (List.replicate ((-e).toNat - 1) '0' ++ ds)
      '0' :: '.' :: fp
  else
    let fp := stripZeros (ds.drop 1)
    let mant := if fp.isEmpty then ds.take 1 else ds.take 1 ++ '.' :: fp
    let ea := e.natAbs
    let ed := if ea < 10 then '0' :: natDigits ea else natDigits ea
    mant ++ 'e' :: (if e < 0 then '-' else '+') :: ed

/-- `f"{x:<8.3g}"` -/
def g3 (q : Rat) : Str :=
  if q = 0 then padRight 8 ['0']
  else padRight 8 ((if q < 0 then ['-'] else []) ++ g3Abs (ratAbs q))

/-- `json.dumps(float)` is `float.__repr__` -/
def ratRender : Render Rat := { csv := pyFloatRepr, human := g3, json := pyFloatRepr }

end SB3Verif.Logger
