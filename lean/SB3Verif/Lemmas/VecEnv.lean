/-
Helper lemmas for C01 (model: `SB3Verif/Model/VecEnv.lean`). Core Lean only.
-/
import SB3Verif.Model.VecEnv

namespace SB3Verif.VecEnvLemmas
open SB3Verif.VecEnv

variable {ω ρ : Type}

/-! dictionaries -/
theorem dictGet_dictSet_self {β : Type} (d : List (String × β)) (k : String) (v : β) :
    dictGet (dictSet d k v) k = some v := by
  induction d with
  | nil => simp [dictSet, dictGet]
  | cons kv rest ih =>
    obtain ⟨k', v'⟩ := kv
    by_cases h : k' = k
    · simp [dictSet, dictGet, h]
    · simp [dictSet, dictGet, h, ih]

theorem dictGet_dictSet_other {β : Type} (d : List (String × β)) (k k2 : String) (v : β) (h : k2 ≠ k) :
    dictGet (dictSet d k v) k2 = dictGet d k2 := by
  induction d with
  | nil => simp [dictSet, dictGet, Ne.symm h]
  | cons kv rest ih =>
    obtain ⟨k', v'⟩ := kv
    by_cases h1 : k' = k
    · subst h1
      simp [dictSet, dictGet, Ne.symm h]
    · by_cases h2 : k' = k2
      · subst h2
        simp [dictSet, dictGet, h]
      · simp [dictSet, dictGet, h1, h2, ih]

/-- keys of a dictionary, in insertion order -/
theorem dictSet_keys_nodup {β : Type} (d : List (String × β)) (k : String) (v : β) (h : (d.map (·.1)).Nodup) :
    ((dictSet d k v).map (·.1)).Nodup := by
  induction d with
  | nil => simp [dictSet]
  | cons kv rest ih =>
    obtain ⟨k', v'⟩ := kv
    by_cases h1 : k' = k
    · subst h1; simpa [dictSet] using h
    · simp only [dictSet, h1, if_false, List.map_cons, List.nodup_cons] at h ⊢
      refine ⟨?_, ih h.2⟩
      intro hm
      apply h.1
      -- membership in keys of dictSet rest
      clear ih h
      induction rest with
      | nil => simp [dictSet] at hm; exact absurd hm h1
      | cons kv2 rest2 ih2 =>
        obtain ⟨k2, v2⟩ := kv2
        by_cases h3 : k2 = k
        · subst h3; simpa [dictSet] using hm
        · simp only [dictSet, h3, if_false, List.map_cons, List.mem_cons] at hm ⊢
          rcases hm with hm | hm
          · exact Or.inl hm
          · exact Or.inr (ih2 hm)




/-- what the single-environment specification answers for slot `i` of a Dummy state -/
def dAbs (s : Dummy ω ρ) (i : Nat) : EnvSpec ω :=
  { idx := i, resetInfo := s.resetInfos.getD i [], seed := (s.seeds[i]?).join, opts := s.options.getD i [] }

def dExp (s : Dummy ω ρ) (i : Nat) (x : StepResp ω ρ) : EnvSpec ω × EnvOut ω ρ :=
  (dAbs s i).apply (EnvOp.step (s.actions.getD i 0) x)

theorem stepEnv_frame (s : Dummy ω ρ) (i : Nat) (x : StepResp ω ρ) :
    (s.stepEnv i x).1.n = s.n ∧ (s.stepEnv i x).1.actions = s.actions ∧ (s.stepEnv i x).1.seeds = s.seeds ∧
    (s.stepEnv i x).1.options = s.options := by
  unfold Dummy.stepEnv
  cases hd : x.raw.done <;> cases hr : x.rst <;> simp [hd]

theorem stepEnv_wf (s : Dummy ω ρ) (h : Dummy.WF s) (i : Nat) (x : StepResp ω ρ) : Dummy.WF (s.stepEnv i x).1 := by
  obtain ⟨h1, h2, h3, h4, h5, h6, h7⟩ := h
  unfold Dummy.stepEnv
  cases hd : x.raw.done <;> cases hr : x.rst <;> constructor <;> simp [*]

theorem stepEnv_other (s : Dummy ω ρ) (i j : Nat) (hij : j ≠ i) (x : StepResp ω ρ) :
    (s.stepEnv i x).1.bufObs[j]? = s.bufObs[j]? ∧ (s.stepEnv i x).1.bufRews[j]? = s.bufRews[j]? ∧
    (s.stepEnv i x).1.bufDones[j]? = s.bufDones[j]? ∧ (s.stepEnv i x).1.bufInfos[j]? = s.bufInfos[j]? ∧
    (s.stepEnv i x).1.resetInfos[j]? = s.resetInfos[j]? := by
  have hne : ¬ i = j := fun h => hij h.symm
  unfold Dummy.stepEnv
  cases hd : x.raw.done <;> cases hr : x.rst <;> simp [hd, hne]

theorem stepEnv_self (s : Dummy ω ρ) (h : Dummy.WF s) (i : Nat) (hi : i < s.n) (x : StepResp ω ρ) :
    (s.stepEnv i x).1.bufObs[i]? = some (dExp s i x).2.obs ∧
    (s.stepEnv i x).1.bufRews[i]? = some (dExp s i x).2.rew ∧
    ((s.stepEnv i x).1.bufDones[i]?) = (dExp s i x).2.done ∧
    ((s.stepEnv i x).1.bufInfos[i]?) = (dExp s i x).2.info ∧
    (s.stepEnv i x).1.resetInfos[i]? = some (dExp s i x).2.resetInfo ∧
    (s.stepEnv i x).2 = (dExp s i x).2.calls ∧
    (dExp s i x).1.resetInfo = (dExp s i x).2.resetInfo := by
  obtain ⟨h1, h2, h3, h4, h5, h6, h7⟩ := h
  have e5 : s.resetInfos[i]? = some (s.resetInfos.getD i []) := by
    simp [List.getD, List.getElem?_eq_getElem (h5 ▸ hi)]
  unfold Dummy.stepEnv dExp dAbs EnvSpec.apply
  cases hd : x.raw.done <;> cases hr : x.rst <;> simp [*]



theorem dAbs_congr (s s' : Dummy ω ρ) (i : Nat) (h1 : s'.resetInfos[i]? = s.resetInfos[i]?)
    (h2 : s'.seeds = s.seeds) (h3 : s'.options = s.options) : dAbs s' i = dAbs s i := by
  simp [dAbs, List.getD, h1, h2, h3]

theorem dExp_congr (s s' : Dummy ω ρ) (i : Nat) (x : StepResp ω ρ) (h1 : s'.resetInfos[i]? = s.resetInfos[i]?)
    (h2 : s'.seeds = s.seeds) (h3 : s'.options = s.options) (h4 : s'.actions = s.actions) :
    dExp s' i x = dExp s i x := by
  simp [dExp, dAbs_congr s s' i h1 h2 h3, h4]

/-- the loop of `step_wait` from index `k`: slots below `k` are untouched, slot `k + j` holds what the
specification computes from `xs[j]` and the slot's own previous reset info -/
theorem stepLoop_spec (xs : List (StepResp ω ρ)) : ∀ (s : Dummy ω ρ) (k : Nat), Dummy.WF s → k + xs.length = s.n →
    Dummy.WF (s.stepLoop k xs).1 ∧ (s.stepLoop k xs).1.n = s.n ∧ (s.stepLoop k xs).1.seeds = s.seeds ∧
    (s.stepLoop k xs).1.options = s.options ∧ (s.stepLoop k xs).1.actions = s.actions ∧
    (s.stepLoop k xs).2.length = xs.length ∧
    (∀ j, j < k →
      (s.stepLoop k xs).1.bufObs[j]? = s.bufObs[j]? ∧ (s.stepLoop k xs).1.bufRews[j]? = s.bufRews[j]? ∧
      (s.stepLoop k xs).1.bufDones[j]? = s.bufDones[j]? ∧ (s.stepLoop k xs).1.bufInfos[j]? = s.bufInfos[j]? ∧
      (s.stepLoop k xs).1.resetInfos[j]? = s.resetInfos[j]?) ∧
    (∀ j (hj : j < xs.length),
      (s.stepLoop k xs).1.bufObs[k + j]? = some (dExp s (k + j) xs[j]).2.obs ∧
      (s.stepLoop k xs).1.bufRews[k + j]? = some (dExp s (k + j) xs[j]).2.rew ∧
      (s.stepLoop k xs).1.bufDones[k + j]? = (dExp s (k + j) xs[j]).2.done ∧
      (s.stepLoop k xs).1.bufInfos[k + j]? = (dExp s (k + j) xs[j]).2.info ∧
      (s.stepLoop k xs).1.resetInfos[k + j]? = some (dExp s (k + j) xs[j]).2.resetInfo ∧
      (s.stepLoop k xs).2[j]? = some (dExp s (k + j) xs[j]).2.calls) := by
  induction xs with
  | nil => intro s k h _; simp [Dummy.stepLoop, h]
  | cons x rest ih =>
    intro s k hwf hlen
    have hk : k < s.n := by simp at hlen; omega
    obtain ⟨fn, fa, fs, fo⟩ := stepEnv_frame s k x
    have hwf1 := stepEnv_wf s hwf k x
    have hlen1 : (k + 1) + rest.length = (s.stepEnv k x).1.n := by simp at hlen; omega
    obtain ⟨iwf, in_, is_, io, ia, il, ilow, ihigh⟩ := ih (s.stepEnv k x).1 (k + 1) hwf1 hlen1
    obtain ⟨s1, s2, s3, s4, s5, s6, _⟩ := stepEnv_self s hwf k hk x
    have hloop : s.stepLoop k (x :: rest) =
        (((s.stepEnv k x).1.stepLoop (k + 1) rest).1, (s.stepEnv k x).2 :: ((s.stepEnv k x).1.stepLoop (k + 1) rest).2) := by
      simp [Dummy.stepLoop]
    rw [hloop]
    refine ⟨iwf, by show _ = s.n; rw [in_, fn], by rw [is_, fs], by rw [io, fo], by rw [ia, fa], by simp [il], ?_, ?_⟩
    · intro j hj
      obtain ⟨l1, l2, l3, l4, l5⟩ := ilow j (by omega)
      obtain ⟨o1, o2, o3, o4, o5⟩ := stepEnv_other s k j (by omega) x
      exact ⟨l1.trans o1, l2.trans o2, l3.trans o3, l4.trans o4, l5.trans o5⟩
    · intro j hj
      cases j with
      | zero =>
        obtain ⟨l1, l2, l3, l4, l5⟩ := ilow k (by omega)
        simp only [Nat.add_zero, List.getElem_cons_zero, List.getElem?_cons_zero]
        exact ⟨l1.trans s1, l2.trans s2, l3.trans s3, l4.trans s4, l5.trans s5, by rw [s6]⟩
      | succ j =>
        have hj' : j < rest.length := by simp at hj; omega
        obtain ⟨h1, h2, h3, h4, h5, h6⟩ := ihigh j hj'
        obtain ⟨_, _, _, _, o5⟩ := stepEnv_other s k (k + 1 + j) (by omega) x
        have hc : dExp (s.stepEnv k x).1 (k + 1 + j) rest[j] = dExp s (k + 1 + j) rest[j] :=
          dExp_congr s _ _ _ o5 fs fo fa
        have e : k + (j + 1) = k + 1 + j := by omega
        simp only [e, List.getElem_cons_succ, List.getElem?_cons_succ]
        rw [hc] at h1 h2 h3 h4 h5 h6
        exact ⟨h1, h2, h3, h4, h5, h6⟩



/-! reset loop -/

theorem resetEnv_frame (s : Dummy ω ρ) (i : Nat) (z : ResetRes ω) :
    (s.resetEnv i z).1.n = s.n ∧ (s.resetEnv i z).1.actions = s.actions ∧ (s.resetEnv i z).1.seeds = s.seeds ∧
    (s.resetEnv i z).1.options = s.options := by
  simp [Dummy.resetEnv]

theorem resetEnv_wf (s : Dummy ω ρ) (h : Dummy.WF s) (i : Nat) (z : ResetRes ω) : Dummy.WF (s.resetEnv i z).1 := by
  obtain ⟨h1, h2, h3, h4, h5, h6, h7⟩ := h
  constructor <;> simp [Dummy.resetEnv, *]

theorem resetEnv_other (s : Dummy ω ρ) (i j : Nat) (hij : j ≠ i) (z : ResetRes ω) :
    (s.resetEnv i z).1.bufObs[j]? = s.bufObs[j]? ∧ (s.resetEnv i z).1.resetInfos[j]? = s.resetInfos[j]? := by
  have hne : ¬ i = j := fun h => hij h.symm
  simp [Dummy.resetEnv, hne]

theorem resetEnv_self (s : Dummy ω ρ) (h : Dummy.WF s) (i : Nat) (hi : i < s.n) (z : ResetRes ω) :
    (s.resetEnv i z).1.bufObs[i]? = some (some z.obs) ∧ (s.resetEnv i z).1.resetInfos[i]? = some z.info ∧
    (s.resetEnv i z).2 = [Call.reset (dAbs s i).seed (maybeOptions (dAbs s i).opts)] := by
  obtain ⟨h1, h2, h3, h4, h5, h6, h7⟩ := h
  have hs : i < s.seeds.length := h6 ▸ hi
  simp [Dummy.resetEnv, dAbs, *, List.getD]

theorem resetLoop_spec (zs : List (ResetRes ω)) : ∀ (s : Dummy ω ρ) (k : Nat), Dummy.WF s → k + zs.length = s.n →
    Dummy.WF (s.resetLoop k zs).1 ∧ (s.resetLoop k zs).1.n = s.n ∧ (s.resetLoop k zs).1.seeds = s.seeds ∧
    (s.resetLoop k zs).1.options = s.options ∧ (s.resetLoop k zs).1.actions = s.actions ∧
    (s.resetLoop k zs).2.length = zs.length ∧
    (∀ j, j < k →
      (s.resetLoop k zs).1.bufObs[j]? = s.bufObs[j]? ∧ (s.resetLoop k zs).1.resetInfos[j]? = s.resetInfos[j]?) ∧
    (∀ j (hj : j < zs.length),
      (s.resetLoop k zs).1.bufObs[k + j]? = some (some zs[j].obs) ∧
      (s.resetLoop k zs).1.resetInfos[k + j]? = some zs[j].info ∧
      (s.resetLoop k zs).2[j]? = some [Call.reset (dAbs s (k + j)).seed (maybeOptions (dAbs s (k + j)).opts)]) := by
  induction zs with
  | nil => intro s k h _; simp [Dummy.resetLoop, h]
  | cons z rest ih =>
    intro s k hwf hlen
    have hk : k < s.n := by simp at hlen; omega
    obtain ⟨fn, fa, fs, fo⟩ := resetEnv_frame s k z
    have hwf1 := resetEnv_wf s hwf k z
    have hlen1 : (k + 1) + rest.length = (s.resetEnv k z).1.n := by simp at hlen; omega
    obtain ⟨iwf, in_, is_, io, ia, il, ilow, ihigh⟩ := ih (s.resetEnv k z).1 (k + 1) hwf1 hlen1
    obtain ⟨s1, s2, s3⟩ := resetEnv_self s hwf k hk z
    have hloop : s.resetLoop k (z :: rest) =
        (((s.resetEnv k z).1.resetLoop (k + 1) rest).1, (s.resetEnv k z).2 :: ((s.resetEnv k z).1.resetLoop (k + 1) rest).2) := by
      simp [Dummy.resetLoop]
    rw [hloop]
    refine ⟨iwf, by show _ = s.n; rw [in_, fn], by rw [is_, fs], by rw [io, fo], by rw [ia, fa], by simp [il], ?_, ?_⟩
    · intro j hj
      obtain ⟨l1, l2⟩ := ilow j (by omega)
      obtain ⟨o1, o2⟩ := resetEnv_other s k j (by omega) z
      exact ⟨l1.trans o1, l2.trans o2⟩
    · intro j hj
      cases j with
      | zero =>
        obtain ⟨l1, l2⟩ := ilow k (by omega)
        simp only [Nat.add_zero, List.getElem_cons_zero, List.getElem?_cons_zero]
        exact ⟨l1.trans s1, l2.trans s2, by rw [s3]⟩
      | succ j =>
        have hj' : j < rest.length := by simp at hj; omega
        obtain ⟨h1, h2, h3⟩ := ihigh j hj'
        obtain ⟨_, o2⟩ := resetEnv_other s k (k + 1 + j) (by omega) z
        have hc : dAbs (s.resetEnv k z).1 (k + 1 + j) = dAbs s (k + 1 + j) := dAbs_congr s _ _ o2 fs fo
        have e : k + (j + 1) = k + 1 + j := by omega
        simp only [e, List.getElem_cons_succ, List.getElem?_cons_succ]
        rw [hc] at h3
        exact ⟨h1, h2, h3⟩



theorem apply_step_state (e : EnvSpec ω) (a : Int) (x : StepResp ω ρ) :
    (e.apply (EnvOp.step a x)).1 = { e with resetInfo := (e.apply (EnvOp.step a x)).2.resetInfo } := by
  unfold EnvSpec.apply
  cases hd : x.raw.done <;> cases hr : x.rst <;> simp [hd, hr]

theorem apply_step_seed (e : EnvSpec ω) (a : Int) (x : StepResp ω ρ) :
    (e.apply (EnvOp.step a x)).2.seed = none := by
  unfold EnvSpec.apply
  cases hd : x.raw.done <;> cases hr : x.rst <;> simp [hd, hr]

theorem dAbs_stepAsync (s : Dummy ω ρ) (acts : List Int) (i : Nat) : dAbs (s.stepAsync acts) i = dAbs s i := rfl

theorem dummy_step_refines (s : Dummy ω ρ) (hwf : s.WF) (acts : List Int) (xs : List (StepResp ω ρ))
    (ha : acts.length = s.n) (hx : xs.length = s.n) (i : Nat) (hi : i < s.n) :
    ((s.stepAsync acts).stepWait xs).2.proj i = ((dAbs s i).apply ((Op.step acts xs).proj i)).2 ∧
    dAbs ((s.stepAsync acts).stepWait xs).1 i = ((dAbs s i).apply ((Op.step acts xs).proj i)).1 := by
  have hwf' : (s.stepAsync acts).WF := ⟨hwf.1, hwf.2, hwf.3, hwf.4, hwf.5, hwf.6, hwf.7⟩
  have hn : (s.stepAsync acts).n = s.n := rfl
  obtain ⟨lwf, ln, ls, lo, la, ll, _, lhigh⟩ := stepLoop_spec xs (s.stepAsync acts) 0 hwf' (by simp [hn, hx])
  have hix : i < xs.length := hx ▸ hi
  have hia : i < acts.length := ha ▸ hi
  obtain ⟨h1, h2, h3, h4, h5, h6⟩ := lhigh i hix
  simp only [Nat.zero_add] at h1 h2 h3 h4 h5 h6
  have hproj : (Op.step acts xs).proj i = EnvOp.step acts[i] xs[i] := by
    simp [Op.proj, List.getElem?_eq_getElem hix, List.getElem?_eq_getElem hia]
  have hexp : dExp (s.stepAsync acts) i xs[i] = (dAbs s i).apply (EnvOp.step acts[i] xs[i]) := by
    unfold dExp
    rw [dAbs_stepAsync]
    simp [Dummy.stepAsync, List.getD, List.getElem?_eq_getElem hia]
  rw [hexp] at h1 h2 h3 h4 h5 h6
  rw [hproj]
  constructor
  · have hs := apply_step_seed (dAbs s i) acts[i] xs[i]
    simp only [Dummy.stepWait, Out.proj, h1, h2, h3, h4, h5, h6, List.getElem?_nil]
    generalize ((dAbs s i).apply (EnvOp.step acts[i] xs[i])).2 = out at hs
    cases out
    simp_all
  · rw [apply_step_state]
    simp only [Dummy.stepWait, dAbs, List.getD, h5, ls, lo, Option.getD]
    rfl



theorem dummy_step_wf (s : Dummy ω ρ) (hwf : s.WF) (acts : List Int) (xs : List (StepResp ω ρ))
    (hx : xs.length = s.n) : ((s.stepAsync acts).stepWait xs).1.WF ∧ ((s.stepAsync acts).stepWait xs).1.n = s.n := by
  have hwf' : (s.stepAsync acts).WF := ⟨hwf.1, hwf.2, hwf.3, hwf.4, hwf.5, hwf.6, hwf.7⟩
  have hn : (s.stepAsync acts).n = s.n := rfl
  obtain ⟨lwf, ln, _⟩ := stepLoop_spec xs (s.stepAsync acts) 0 hwf' (by simp [hn, hx])
  exact ⟨lwf, ln.trans hn⟩

theorem dummy_reset_refines (s : Dummy ω ρ) (hwf : s.WF) (zs : List (ResetRes ω))
    (hz : zs.length = s.n) (i : Nat) (hi : i < s.n) :
    (s.reset zs).2.proj i = ((dAbs s i).apply ((Op.reset zs : Op ω ρ).proj i)).2 ∧
    dAbs (s.reset zs).1 i = ((dAbs s i).apply ((Op.reset zs : Op ω ρ).proj i)).1 := by
  obtain ⟨lwf, ln, ls, lo, la, ll, _, lhigh⟩ := resetLoop_spec zs s 0 hwf (by simp [hz])
  have hiz : i < zs.length := hz ▸ hi
  obtain ⟨h1, h2, h3⟩ := lhigh i hiz
  simp only [Nat.zero_add] at h1 h2 h3
  have hproj : (Op.reset zs : Op ω ρ).proj i = EnvOp.reset zs[i] := by
    simp [Op.proj, List.getElem?_eq_getElem hiz]
  rw [hproj]
  have hi' : i < (s.resetLoop 0 zs).1.n := by rw [ln]; exact hi
  constructor
  · simp [Dummy.reset, Out.proj, h1, h2, h3, EnvSpec.apply]
  · simp [Dummy.reset, dAbs, List.getD, h2, EnvSpec.apply, hi']

theorem dummy_reset_wf (s : Dummy ω ρ) (hwf : s.WF) (zs : List (ResetRes ω)) (hz : zs.length = s.n) :
    (s.reset zs).1.WF ∧ (s.reset zs).1.n = s.n := by
  obtain ⟨lwf, ln, _⟩ := resetLoop_spec zs s 0 hwf (by simp [hz])
  obtain ⟨h1, h2, h3, h4, h5, h6, h7⟩ := lwf
  refine ⟨?_, by simp [Dummy.reset, ln]⟩
  constructor <;> simp [Dummy.reset, *]



theorem workersStep_getElem? (ws : List (Worker ω)) : ∀ (as : List Int) (xs : List (StepResp ω ρ)) (i : Nat),
    (workersStep ws as xs)[i]? =
      match ws[i]?, as[i]?, xs[i]? with
      | some w, some a, some x => some (w.step a x)
      | _, _, _ => none := by
  induction ws with
  | nil => intro as xs i; simp [workersStep]
  | cons w ws ih =>
    intro as xs i
    cases as with
    | nil => simp [workersStep]
    | cons a as =>
      cases xs with
      | nil => simp [workersStep]
      | cons x xs =>
        cases i with
        | zero => simp [workersStep]
        | succ i => simpa [workersStep] using ih as xs i

theorem workersStep_length (ws : List (Worker ω)) : ∀ (as : List Int) (xs : List (StepResp ω ρ)),
    (workersStep ws as xs).length = min ws.length (min as.length xs.length) := by
  induction ws with
  | nil => intro as xs; simp [workersStep]
  | cons w ws ih =>
    intro as xs
    cases as with
    | nil => simp [workersStep]
    | cons a as =>
      cases xs with
      | nil => simp [workersStep]
      | cons x xs => simp [workersStep, ih as xs]

theorem workersReset_getElem? (ws : List (Worker ω)) : ∀ (ss : List (Option Int)) (os : List Opts) (zs : List (ResetRes ω)) (i : Nat),
    (workersReset ws ss os zs)[i]? =
      match ws[i]?, ss[i]?, os[i]?, zs[i]? with
      | some w, some s, some o, some z => some (w.reset s o z)
      | _, _, _, _ => none := by
  induction ws with
  | nil => intro ss os zs i; simp [workersReset]
  | cons w ws ih =>
    intro ss os zs i
    cases ss with
    | nil => simp [workersReset]
    | cons s ss =>
      cases os with
      | nil => simp [workersReset]
      | cons o os =>
        cases zs with
        | nil => simp [workersReset]
        | cons z zs =>
          cases i with
          | zero => simp [workersReset]
          | succ i => simpa [workersReset] using ih ss os zs i

theorem workersReset_length (ws : List (Worker ω)) : ∀ (ss : List (Option Int)) (os : List Opts) (zs : List (ResetRes ω)),
    (workersReset ws ss os zs).length = min ws.length (min ss.length (min os.length zs.length)) := by
  induction ws with
  | nil => intro ss os zs; simp [workersReset]
  | cons w ws ih =>
    intro ss os zs
    cases ss with
    | nil => simp [workersReset]
    | cons s ss =>
      cases os with
      | nil => simp [workersReset]
      | cons o os =>
        cases zs with
        | nil => simp [workersReset]
        | cons z zs => simp [workersReset, ih ss os zs]

theorem worker_step_spec (w : Worker ω) (e : EnvSpec ω) (he : e.resetInfo = w.resetInfo) (a : Int) (x : StepResp ω ρ) :
    (w.step a x).1.resetInfo = (e.apply (EnvOp.step a x)).2.resetInfo ∧
    some (w.step a x).2.1.obs = (e.apply (EnvOp.step a x)).2.obs ∧
    some (w.step a x).2.1.rew = (e.apply (EnvOp.step a x)).2.rew ∧
    some (w.step a x).2.1.done = (e.apply (EnvOp.step a x)).2.done ∧
    some (w.step a x).2.1.info = (e.apply (EnvOp.step a x)).2.info ∧
    (w.step a x).2.1.resetInfo = (e.apply (EnvOp.step a x)).2.resetInfo ∧
    (w.step a x).2.2 = (e.apply (EnvOp.step a x)).2.calls := by
  unfold Worker.step EnvSpec.apply
  cases hd : x.raw.done <;> cases hr : x.rst <;> simp [hd, hr, he]



def pAbs (p : Subproc ω ρ) (i : Nat) : EnvSpec ω :=
  { idx := i, resetInfo := p.resetInfos.getD i [], seed := (p.seeds[i]?).join, opts := p.options.getD i [] }

theorem worker_step_coherent (w : Worker ω) (a : Int) (x : StepResp ω ρ) :
    (w.step a x).1.resetInfo = (w.step a x).2.1.resetInfo := by
  unfold Worker.step
  cases hd : x.raw.done <;> cases hr : x.rst <;> simp [hd]

theorem subproc_step_res (p : Subproc ω ρ) (hwf : p.WF) (acts : List Int) (xs : List (StepResp ω ρ))
    (ha : acts.length = p.n) (hx : xs.length = p.n) (i : Nat) (hi : i < p.n) :
    ∃ (hw : i < p.workers.length) (hia : i < acts.length) (hix : i < xs.length),
      (workersStep p.workers (acts.take p.n) xs)[i]? = some (p.workers[i].step acts[i] xs[i]) ∧
      (pAbs p i).resetInfo = p.workers[i].resetInfo := by
  obtain ⟨h1, h2, h3, h4⟩ := hwf
  have hw : i < p.workers.length := h1 ▸ hi
  have hia : i < acts.length := ha ▸ hi
  have hix : i < xs.length := hx ▸ hi
  refine ⟨hw, hia, hix, ?_, ?_⟩
  · rw [workersStep_getElem?]
    simp [List.getElem?_eq_getElem hw, List.getElem?_eq_getElem hix, hi,
      List.getElem?_eq_getElem hia]
  · simp [pAbs, h2, List.getD, List.getElem?_eq_getElem hw]

theorem subproc_step_refines (p : Subproc ω ρ) (hwf : p.WF) (acts : List Int) (xs : List (StepResp ω ρ))
    (ha : acts.length = p.n) (hx : xs.length = p.n) (i : Nat) (hi : i < p.n) :
    ((p.stepAsync acts).stepWait xs).2.proj i = ((pAbs p i).apply ((Op.step acts xs).proj i)).2 ∧
    pAbs ((p.stepAsync acts).stepWait xs).1 i = ((pAbs p i).apply ((Op.step acts xs).proj i)).1 := by
  obtain ⟨hw, hia, hix, hres, hri⟩ := subproc_step_res p hwf acts xs ha hx i hi
  have hproj : (Op.step acts xs).proj i = EnvOp.step acts[i] xs[i] := by
    simp [Op.proj, List.getElem?_eq_getElem hix, List.getElem?_eq_getElem hia]
  obtain ⟨w1, w2, w3, w4, w5, w6, w7⟩ := worker_step_spec p.workers[i] (pAbs p i) hri acts[i] xs[i]
  rw [hproj]
  have hs := apply_step_seed (pAbs p i) acts[i] xs[i]
  constructor
  · simp only [Subproc.stepWait, Subproc.stepAsync, Out.proj, List.getElem?_map, hres, Option.map_some,
      List.getElem?_nil]
    generalize ((pAbs p i).apply (EnvOp.step acts[i] xs[i])).2 = out at *
    cases out
    simp_all
  · rw [apply_step_state]
    simp only [Subproc.stepWait, Subproc.stepAsync, pAbs, List.getD, List.getElem?_map, hres, Option.map_some,
      Option.getD, w6]

theorem subproc_step_wf (p : Subproc ω ρ) (hwf : p.WF) (acts : List Int) (xs : List (StepResp ω ρ))
    (ha : acts.length = p.n) (hx : xs.length = p.n) :
    ((p.stepAsync acts).stepWait xs).1.WF ∧ ((p.stepAsync acts).stepWait xs).1.n = p.n := by
  obtain ⟨h1, h2, h3, h4⟩ := hwf
  refine ⟨⟨?_, ?_, h3, h4⟩, rfl⟩
  · simp [Subproc.stepWait, Subproc.stepAsync, workersStep_length, h1, ha, hx]
  · simp only [Subproc.stepWait, Subproc.stepAsync, List.map_map]
    apply List.map_congr_left
    intro t ht
    obtain ⟨j, hj, rfl⟩ := List.getElem_of_mem ht
    have := workersStep_getElem? p.workers (acts.take p.n) xs j
    rw [List.getElem?_eq_getElem hj] at this
    split at this
    · injection this with this
      simp [this, worker_step_coherent]
    · exact absurd this (by simp)



theorem subproc_reset_refines (p : Subproc ω ρ) (hwf : p.WF) (zs : List (ResetRes ω))
    (hz : zs.length = p.n) (i : Nat) (hi : i < p.n) :
    (p.reset zs).2.proj i = ((pAbs p i).apply ((Op.reset zs : Op ω ρ).proj i)).2 ∧
    pAbs (p.reset zs).1 i = ((pAbs p i).apply ((Op.reset zs : Op ω ρ).proj i)).1 := by
  obtain ⟨h1, h2, h3, h4⟩ := hwf
  have hw : i < p.workers.length := h1 ▸ hi
  have hs : i < p.seeds.length := h3 ▸ hi
  have ho : i < p.options.length := h4 ▸ hi
  have hiz : i < zs.length := hz ▸ hi
  have hres : (workersReset p.workers p.seeds p.options zs)[i]? =
      some (p.workers[i].reset p.seeds[i] p.options[i] zs[i]) := by
    rw [workersReset_getElem?]
    simp [List.getElem?_eq_getElem hw, List.getElem?_eq_getElem hs, List.getElem?_eq_getElem ho,
      List.getElem?_eq_getElem hiz]
  have hproj : (Op.reset zs : Op ω ρ).proj i = EnvOp.reset zs[i] := by
    simp [Op.proj, List.getElem?_eq_getElem hiz]
  rw [hproj]
  constructor
  · simp [Subproc.reset, Out.proj, List.getElem?_map, hres, EnvSpec.apply, Worker.reset, pAbs, List.getD,
      List.getElem?_eq_getElem hs, List.getElem?_eq_getElem ho]
  · simp [Subproc.reset, pAbs, List.getD, List.getElem?_map, hres, EnvSpec.apply, Worker.reset, hi]

theorem subproc_reset_wf (p : Subproc ω ρ) (hwf : p.WF) (zs : List (ResetRes ω)) (hz : zs.length = p.n) :
    (p.reset zs).1.WF ∧ (p.reset zs).1.n = p.n := by
  obtain ⟨h1, h2, h3, h4⟩ := hwf
  refine ⟨⟨?_, ?_, ?_, ?_⟩, rfl⟩
  · simp [Subproc.reset, workersReset_length, h1, h3, h4, hz]
  · simp only [Subproc.reset, List.map_map]
    apply List.map_congr_left
    intro t ht
    obtain ⟨j, hj, rfl⟩ := List.getElem_of_mem ht
    have := workersReset_getElem? p.workers p.seeds p.options zs j
    rw [List.getElem?_eq_getElem hj] at this
    split at this
    · injection this with this
      simp [this, Worker.reset]
    · exact absurd this (by simp)
  · simp [Subproc.reset]
  · simp [Subproc.reset]



theorem abs_dummy (s : Dummy ω ρ) (i : Nat) : (Vec.dummy s).abs i = dAbs s i := rfl
theorem abs_subproc (p : Subproc ω ρ) (i : Nat) : (Vec.subproc p).abs i = pAbs p i := rfl

theorem seedList_getElem? (n : Nat) (s : Int) (i : Nat) (hi : i < n) : (seedList n s)[i]? = some (some (s + (i : Int))) := by
  simp [seedList, hi]

theorem seedList_length (n : Nat) (s : Int) : (seedList n s).length = n := by simp [seedList]

theorem setOptionsList_length (n : Nat) (o : OptArg) (h : (Op.setOptions o : Op ω ρ).valid n = true) :
    (setOptionsList n o).length = n := by
  cases o <;> simp_all [setOptionsList, Op.valid]

theorem setOptionsList_proj (n : Nat) (o : OptArg) (h : (Op.setOptions o : Op ω ρ).valid n = true) (i : Nat) (hi : i < n) :
    (Op.setOptions o : Op ω ρ).proj i = EnvOp.setOptions ((setOptionsList n o).getD i []) := by
  cases o with
  | none => simp [Op.proj, setOptionsList, List.getD, hi]
  | dict d => simp [Op.proj, setOptionsList, List.getD, hi]
  | list l =>
    have hl : l.length = n := by simpa [Op.valid] using h
    have : i < l.length := hl ▸ hi
    simp [Op.proj, setOptionsList, List.getD, List.getElem?_eq_getElem this]

/-- **one operation**: either implementation, projected to sub-environment `i`, does what the single-environment
specification does; well-formedness is kept -/
theorem applyT_refines (v : Vec ω ρ) (hwf : v.WF) (op : Op ω ρ) (hv : op.valid v.n = true) :
    (v.applyT op).1.WF ∧ (v.applyT op).1.n = v.n ∧
    ∀ i, i < v.n → (v.applyT op).2.proj i = ((v.abs i).apply (op.proj i)).2 ∧
      (v.applyT op).1.abs i = ((v.abs i).apply (op.proj i)).1 := by
  cases op with
  | seed s =>
    cases v with
    | dummy d =>
      refine ⟨⟨hwf.1, hwf.2, hwf.3, hwf.4, hwf.5, seedList_length _ _, hwf.7⟩, rfl, ?_⟩
      intro i hi
      have hi' : i < d.n := hi
      simp [Vec.applyT, Vec.seed, Out.proj, Vec.abs, Vec.resetInfos, Vec.seeds, Vec.options, Op.proj, EnvSpec.apply,
        seedList_getElem? _ _ _ hi', List.getD]
    | subproc p =>
      refine ⟨⟨hwf.1, hwf.2, seedList_length _ _, hwf.4⟩, rfl, ?_⟩
      intro i hi
      have hi' : i < p.n := hi
      simp [Vec.applyT, Vec.seed, Out.proj, Vec.abs, Vec.resetInfos, Vec.seeds, Vec.options, Op.proj, EnvSpec.apply,
        seedList_getElem? _ _ _ hi', List.getD]
  | setOptions o =>
    cases v with
    | dummy d =>
      refine ⟨⟨hwf.1, hwf.2, hwf.3, hwf.4, hwf.5, hwf.6, setOptionsList_length (ρ := ρ) _ _ hv⟩, rfl, ?_⟩
      intro i hi
      rw [setOptionsList_proj (ρ := ρ) _ o hv i hi]
      simp [Vec.applyT, Vec.setOptions, Out.proj, Vec.abs, Vec.resetInfos, Vec.seeds, Vec.options, EnvSpec.apply,
        List.getD, Vec.n]
    | subproc p =>
      refine ⟨⟨hwf.1, hwf.2, hwf.3, setOptionsList_length (ρ := ρ) _ _ hv⟩, rfl, ?_⟩
      intro i hi
      rw [setOptionsList_proj (ρ := ρ) _ o hv i hi]
      simp [Vec.applyT, Vec.setOptions, Out.proj, Vec.abs, Vec.resetInfos, Vec.seeds, Vec.options, EnvSpec.apply,
        List.getD, Vec.n]
  | reset zs =>
    have hz : zs.length = v.n := by simpa [Op.valid] using hv
    cases v with
    | dummy d =>
      obtain ⟨w1, w2⟩ := dummy_reset_wf d hwf zs hz
      refine ⟨w1, w2, fun i hi => ?_⟩
      exact dummy_reset_refines d hwf zs hz i hi
    | subproc p =>
      obtain ⟨w1, w2⟩ := subproc_reset_wf p hwf zs hz
      refine ⟨w1, w2, fun i hi => ?_⟩
      exact subproc_reset_refines p hwf zs hz i hi
  | step acts xs =>
    have hh : acts.length = v.n ∧ xs.length = v.n := by
      simp [Op.valid] at hv; exact ⟨hv.1.1, hv.1.2⟩
    cases v with
    | dummy d =>
      obtain ⟨w1, w2⟩ := dummy_step_wf d hwf acts xs hh.2
      refine ⟨w1, w2, fun i hi => ?_⟩
      exact dummy_step_refines d hwf acts xs hh.1 hh.2 i hi
    | subproc p =>
      obtain ⟨w1, w2⟩ := subproc_step_wf p hwf acts xs hh.1 hh.2
      refine ⟨w1, w2, fun i hi => ?_⟩
      exact subproc_step_refines p hwf acts xs hh.1 hh.2 i hi

theorem init_wf (k : Kind) (n : Nat) : (Vec.init k n : Vec ω ρ).WF := by
  cases k
  · constructor <;> simp [Dummy.init]
  · constructor <;> simp [Subproc.init]

theorem init_n (k : Kind) (n : Nat) : (Vec.init k n : Vec ω ρ).n = n := by cases k <;> rfl

theorem init_abs (k : Kind) (n i : Nat) (hi : i < n) : (Vec.init k n : Vec ω ρ).abs i = EnvSpec.init i := by
  cases k <;> simp [Vec.init, Vec.abs, Vec.resetInfos, Vec.seeds, Vec.options, Dummy.init, Subproc.init, EnvSpec.init, List.getD, hi]

/-- **whole histories** -/
theorem run_refines (ops : List (Op ω ρ)) : ∀ (v : Vec ω ρ), v.WF → (∀ op ∈ ops, op.valid v.n = true) →
    (v.run ops).WF ∧ (v.run ops).n = v.n ∧
    ∀ i, i < v.n → (v.outs ops).map (Out.proj i) = (v.abs i).outs (ops.map (Op.proj i)) ∧
      (v.run ops).abs i = (v.abs i).run (ops.map (Op.proj i)) := by
  induction ops with
  | nil => intro v h _; exact ⟨h, rfl, fun i _ => ⟨rfl, rfl⟩⟩
  | cons op ops ih =>
    intro v hwf hval
    obtain ⟨w1, w2, w3⟩ := applyT_refines v hwf op (hval op (by simp))
    obtain ⟨r1, r2, r3⟩ := ih (v.applyT op).1 w1 (fun o ho => by rw [w2]; exact hval o (by simp [ho]))
    refine ⟨r1, r2.trans w2, fun i hi => ?_⟩
    obtain ⟨a1, a2⟩ := w3 i hi
    obtain ⟨b1, b2⟩ := r3 i (by rw [w2]; exact hi)
    constructor
    · simp only [Vec.outs, List.map_cons, EnvSpec.outs, a1, ← a2, b1]
    · simp only [Vec.run, List.foldl_cons, List.map_cons, EnvSpec.run] at b2 ⊢
      rw [← a2]; exact b2



/-- every output list of a step has one entry per sub-environment -/
theorem step_lengths (v : Vec ω ρ) (hwf : v.WF) (acts : List Int) (xs : List (StepResp ω ρ))
    (hv : (Op.step acts xs).valid v.n = true) :
    (v.step acts xs).2.obs.length = v.n ∧ (v.step acts xs).2.rews.length = v.n ∧
    (v.step acts xs).2.dones.length = v.n ∧ (v.step acts xs).2.infos.length = v.n ∧
    (v.step acts xs).2.resetInfos.length = v.n ∧ (v.step acts xs).2.calls.length = v.n := by
  have hh : acts.length = v.n ∧ xs.length = v.n := by
    simp [Op.valid] at hv; exact ⟨hv.1.1, hv.1.2⟩
  cases v with
  | dummy d =>
    have hwf' : (d.stepAsync acts).WF := ⟨hwf.1, hwf.2, hwf.3, hwf.4, hwf.5, hwf.6, hwf.7⟩
    have hn : (d.stepAsync acts).n = d.n := rfl
    obtain ⟨lwf, ln, _, _, _, ll, _⟩ := stepLoop_spec xs (d.stepAsync acts) 0 hwf' (by simp [hn]; exact hh.2)
    obtain ⟨h1, h2, h3, h4, h5, h6, h7⟩ := lwf
    have e : ((d.stepAsync acts).stepLoop 0 xs).1.n = d.n := ln.trans hn
    simp only [Vec.step, Dummy.stepWait, Vec.n]
    exact ⟨h1.trans e, h2.trans e, h3.trans e, h4.trans e, h5.trans e, ll.trans hh.2⟩
  | subproc p =>
    have h1 := hwf.1
    have ha : acts.length = p.n := hh.1
    have hx : xs.length = p.n := hh.2
    simp [Vec.step, Subproc.stepWait, Subproc.stepAsync, Vec.n, workersStep_length, h1, ha, hx]

theorem reset_lengths (v : Vec ω ρ) (hwf : v.WF) (zs : List (ResetRes ω)) (hz : zs.length = v.n) :
    (v.reset zs).2.obs.length = v.n ∧ (v.reset zs).2.resetInfos.length = v.n ∧ (v.reset zs).2.calls.length = v.n := by
  cases v with
  | dummy d =>
    obtain ⟨lwf, ln, _, _, _, ll, _⟩ := resetLoop_spec zs d 0 hwf (by simp; exact hz)
    obtain ⟨h1, h2, h3, h4, h5, h6, h7⟩ := lwf
    simp only [Vec.reset, Dummy.reset, Vec.n]
    exact ⟨h1.trans ln, h5.trans ln, ll.trans hz⟩
  | subproc p =>
    have hz' : zs.length = p.n := hz
    simp [Vec.reset, Subproc.reset, Vec.n, workersReset_length, hwf.1, hwf.3, hwf.4, hz']

/-! facts about the specification -/

theorem getD_singleton {α : Type} (o : Option (List α)) (c : α) (h : o.getD [] = [c]) : o = some [c] := by
  cases o with
  | none => simp at h
  | some l => simpa using h

theorem proj_obs {o : Out ω ρ} {i : Nat} {x : ω} (h : (o.proj i).obs = some x) (hl : i < o.obs.length) :
    o.obs[i]? = some (some x) := by
  simp only [Out.proj] at h
  rw [List.getElem?_eq_getElem hl] at h ⊢
  cases hh : o.obs[i] <;> simp_all

theorem proj_rew {o : Out ω ρ} {i : Nat} {x : ρ} (h : (o.proj i).rew = some x) (hl : i < o.rews.length) :
    o.rews[i]? = some (some x) := by
  simp only [Out.proj] at h
  rw [List.getElem?_eq_getElem hl] at h ⊢
  cases hh : o.rews[i] <;> simp_all

theorem proj_resetInfo {o : Out ω ρ} {i : Nat} (hl : i < o.resetInfos.length) :
    o.resetInfos[i]? = some (o.proj i).resetInfo := by
  simp [Out.proj, List.getElem?_eq_getElem hl]

theorem proj_calls {o : Out ω ρ} {i : Nat} (hl : i < o.calls.length) :
    o.calls[i]? = some (o.proj i).calls := by
  simp [Out.proj, List.getElem?_eq_getElem hl]

/-- seed carried by the specification across operations that neither seed nor reset -/
theorem run_keeps_seed (ops : List (EnvOp ω ρ)) : ∀ (e : EnvSpec ω),
    (∀ op ∈ ops, (∀ s, op ≠ EnvOp.seed s) ∧ (∀ z, op ≠ EnvOp.reset z)) → (e.run ops).seed = e.seed := by
  induction ops with
  | nil => intro e _; rfl
  | cons op ops ih =>
    intro e h
    have h1 := h op (by simp)
    have : (e.apply op).1.seed = e.seed := by
      cases op with
      | seed s => exact absurd rfl (h1.1 s)
      | reset z => exact absurd rfl (h1.2 z)
      | setOptions o => rfl
      | skip => rfl
      | step a x => rw [apply_step_state]
    simp only [EnvSpec.run, List.foldl_cons]
    exact (ih (e.apply op).1 (fun o ho => h o (by simp [ho]))).trans this

theorem run_keeps_opts (ops : List (EnvOp ω ρ)) : ∀ (e : EnvSpec ω),
    (∀ op ∈ ops, (∀ s, op ≠ EnvOp.setOptions s) ∧ (∀ z, op ≠ EnvOp.reset z)) → (e.run ops).opts = e.opts := by
  induction ops with
  | nil => intro e _; rfl
  | cons op ops ih =>
    intro e h
    have h1 := h op (by simp)
    have : (e.apply op).1.opts = e.opts := by
      cases op with
      | seed s => rfl
      | reset z => exact absurd rfl (h1.2 z)
      | setOptions o => exact absurd rfl (h1.1 o)
      | skip => rfl
      | step a x => rw [apply_step_state]
    simp only [EnvSpec.run, List.foldl_cons]
    exact (ih (e.apply op).1 (fun o ho => h o (by simp [ho]))).trans this

/-- once the pending seed is `none` it stays `none` until the next `seed` -/
theorem run_seed_none (ops : List (EnvOp ω ρ)) : ∀ (e : EnvSpec ω), e.seed = none →
    (∀ op ∈ ops, ∀ s, op ≠ EnvOp.seed s) → (e.run ops).seed = none := by
  induction ops with
  | nil => intro e h _; exact h
  | cons op ops ih =>
    intro e he h
    have h1 := h op (by simp)
    have : (e.apply op).1.seed = none := by
      cases op with
      | seed s => exact absurd rfl (h1 s)
      | reset z => rfl
      | setOptions o => exact he
      | skip => exact he
      | step a x => rw [apply_step_state]; exact he
    simp only [EnvSpec.run, List.foldl_cons]
    exact ih (e.apply op).1 this (fun o ho => h o (by simp [ho]))

theorem run_opts_empty (ops : List (EnvOp ω ρ)) : ∀ (e : EnvSpec ω), e.opts = [] →
    (∀ op ∈ ops, ∀ s, op ≠ EnvOp.setOptions s) → (e.run ops).opts = [] := by
  induction ops with
  | nil => intro e h _; exact h
  | cons op ops ih =>
    intro e he h
    have h1 := h op (by simp)
    have : (e.apply op).1.opts = [] := by
      cases op with
      | seed s => exact he
      | reset z => rfl
      | setOptions o => exact absurd rfl (h1 o)
      | skip => exact he
      | step a x => rw [apply_step_state]; exact he
    simp only [EnvSpec.run, List.foldl_cons]
    exact ih (e.apply op).1 this (fun o ho => h o (by simp [ho]))



theorem proj_not_seed (op : Op ω ρ) (i : Nat) (h : op.isSeed = false) : ∀ s, op.proj i ≠ EnvOp.seed s := by
  intro s
  cases op with
  | seed s' => simp [Op.isSeed] at h
  | setOptions o => cases o <;> simp [Op.proj] <;> split <;> simp
  | reset zs => simp [Op.proj]; split <;> simp
  | step acts xs => simp [Op.proj]; split <;> simp

theorem proj_not_reset (op : Op ω ρ) (i : Nat) (h : op.isReset = false) : ∀ z, op.proj i ≠ EnvOp.reset z := by
  intro z
  cases op with
  | seed s' => simp [Op.proj]
  | setOptions o => cases o <;> simp [Op.proj] <;> split <;> simp
  | reset zs => simp [Op.isReset] at h
  | step acts xs => simp [Op.proj]; split <;> simp

theorem proj_not_setOptions (op : Op ω ρ) (i : Nat) (h : op.isSetOptions = false) :
    ∀ o, op.proj i ≠ EnvOp.setOptions o := by
  intro o
  cases op with
  | seed s' => simp [Op.proj]
  | setOptions o => simp [Op.isSetOptions] at h
  | reset zs => simp [Op.proj]; split <;> simp
  | step acts xs => simp [Op.proj]; split <;> simp

theorem vec_resetInfos_abs (v : Vec ω ρ) (i : Nat) (hi : i < v.resetInfos.length) :
    v.resetInfos[i]? = some (v.abs i).resetInfo := by
  simp [Vec.abs, List.getD, List.getElem?_eq_getElem hi]

theorem wf_resetInfos_length (v : Vec ω ρ) (hwf : v.WF) : v.resetInfos.length = v.n := by
  cases v with
  | dummy d => exact hwf.5
  | subproc p =>
    have h2 : p.resetInfos = p.workers.map (·.resetInfo) := hwf.2
    have h1 : p.workers.length = p.n := hwf.1
    simp [Vec.resetInfos, Vec.n, h2, h1]

theorem wf_seeds_length (v : Vec ω ρ) (hwf : v.WF) : v.seeds.length = v.n := by
  cases v with
  | dummy d => exact hwf.6
  | subproc p => exact hwf.3

theorem wf_options_length (v : Vec ω ρ) (hwf : v.WF) : v.options.length = v.n := by
  cases v with
  | dummy d => exact hwf.7
  | subproc p => exact hwf.4

/-- everything a step returns for sub-environment `i`, in terms of the specification -/
theorem step_at (v : Vec ω ρ) (hwf : v.WF) (acts : List Int) (xs : List (StepResp ω ρ))
    (hv : (Op.step acts xs).valid v.n = true) (i : Nat) (hi : i < v.n) (a : Int) (x : StepResp ω ρ)
    (ha : acts[i]? = some a) (hx : xs[i]? = some x) :
    (v.step acts xs).2.obs[i]? = some ((v.abs i).apply (EnvOp.step a x)).2.obs ∧
    (v.step acts xs).2.rews[i]? = some ((v.abs i).apply (EnvOp.step a x)).2.rew ∧
    (v.step acts xs).2.dones[i]? = ((v.abs i).apply (EnvOp.step a x)).2.done ∧
    (v.step acts xs).2.infos[i]? = ((v.abs i).apply (EnvOp.step a x)).2.info ∧
    (v.step acts xs).2.resetInfos[i]? = some ((v.abs i).apply (EnvOp.step a x)).2.resetInfo ∧
    (v.step acts xs).2.calls[i]? = some ((v.abs i).apply (EnvOp.step a x)).2.calls ∧
    (v.step acts xs).1.resetInfos[i]? = some ((v.abs i).apply (EnvOp.step a x)).2.resetInfo ∧
    (v.step acts xs).1.abs i = ((v.abs i).apply (EnvOp.step a x)).1 := by
  obtain ⟨w1, w2, w3⟩ := applyT_refines v hwf (Op.step acts xs) hv
  obtain ⟨p1, p2⟩ := w3 i hi
  have hproj : (Op.step acts xs).proj i = EnvOp.step a x := by simp [Op.proj, ha, hx]
  rw [hproj] at p1 p2
  obtain ⟨l1, l2, l3, l4, l5, l6⟩ := step_lengths v hwf acts xs hv
  change (v.step acts xs).2.proj i = _ at p1
  change (v.step acts xs).1.abs i = _ at p2
  change (v.step acts xs).1.WF at w1
  change (v.step acts xs).1.n = _ at w2
  have hl' : i < (v.step acts xs).1.resetInfos.length := by
    rw [wf_resetInfos_length _ w1, w2]; exact hi
  refine ⟨?_, ?_, ?_, ?_, ?_, ?_, ?_, p2⟩
  · rw [← p1]; simp [Out.proj, List.getElem?_eq_getElem (l1 ▸ hi)]
  · rw [← p1]; simp [Out.proj, List.getElem?_eq_getElem (l2 ▸ hi)]
  · rw [← p1]; simp [Out.proj]
  · rw [← p1]; simp [Out.proj]
  · rw [← p1]; exact proj_resetInfo (l5 ▸ hi)
  · rw [← p1]; exact proj_calls (l6 ▸ hi)
  · rw [vec_resetInfos_abs _ i hl', p2, apply_step_state]

/-- everything `reset()` returns for sub-environment `i` -/
theorem reset_at (v : Vec ω ρ) (hwf : v.WF) (zs : List (ResetRes ω)) (hz : zs.length = v.n) (i : Nat) (hi : i < v.n)
    (z : ResetRes ω) (hzi : zs[i]? = some z) :
    (v.reset zs).2.obs[i]? = some (some z.obs) ∧
    (v.reset zs).2.resetInfos[i]? = some z.info ∧
    (v.reset zs).2.calls[i]? = some [Call.reset (v.abs i).seed (maybeOptions (v.abs i).opts)] ∧
    (v.reset zs).1.abs i = { idx := i, resetInfo := z.info, seed := none, opts := [] } := by
  have hv : (Op.reset zs : Op ω ρ).valid v.n = true := by simp [Op.valid, hz]
  obtain ⟨w1, w2, w3⟩ := applyT_refines v hwf (Op.reset zs) hv
  obtain ⟨p1, p2⟩ := w3 i hi
  have hproj : (Op.reset zs : Op ω ρ).proj i = EnvOp.reset z := by simp [Op.proj, hzi]
  rw [hproj] at p1 p2
  obtain ⟨l1, l2, l3⟩ := reset_lengths v hwf zs hz
  change (v.reset zs).2.proj i = _ at p1
  change (v.reset zs).1.abs i = _ at p2
  refine ⟨?_, ?_, ?_, ?_⟩
  · have : ((v.reset zs).2.proj i).obs = some z.obs := by rw [p1]; rfl
    exact proj_obs this (l1 ▸ hi)
  · rw [proj_resetInfo (l2 ▸ hi), p1]; rfl
  · rw [proj_calls (l3 ▸ hi), p1]; rfl
  · rw [p2]; simp [EnvSpec.apply, Vec.abs]



/-! the specification's step, field by field -/

theorem spec_step_basic (e : EnvSpec ω) (a : Int) (x : StepResp ω ρ) :
    (e.apply (EnvOp.step a x)).2.done = some x.raw.done ∧ (e.apply (EnvOp.step a x)).2.rew = some x.raw.rew ∧
    (e.apply (EnvOp.step a x)).2.info = some (stepInfo x.raw) := by
  unfold EnvSpec.apply
  cases hd : x.raw.done <;> cases hr : x.rst <;> simp [hd, hr]

theorem spec_step_cont (e : EnvSpec ω) (a : Int) (x : StepResp ω ρ) (h : x.raw.done = false) :
    (e.apply (EnvOp.step a x)).2.obs = some x.raw.obs ∧ (e.apply (EnvOp.step a x)).2.resetInfo = e.resetInfo ∧
    (e.apply (EnvOp.step a x)).2.calls = [Call.step a] := by
  simp [EnvSpec.apply, h]

theorem spec_step_end (e : EnvSpec ω) (a : Int) (x : StepResp ω ρ) (z : ResetRes ω) (h : x.raw.done = true)
    (hr : x.rst = some z) :
    (e.apply (EnvOp.step a x)).2.obs = some z.obs ∧ (e.apply (EnvOp.step a x)).2.resetInfo = z.info ∧
    (e.apply (EnvOp.step a x)).2.calls = [Call.step a, Call.reset none none] := by
  simp [EnvSpec.apply, h, hr]

theorem stepInfo_truncated (r : Raw ω ρ) :
    dictGet (stepInfo r) "TimeLimit.truncated" = some (Val.bool (r.truncated && !r.terminated)) := by
  unfold stepInfo
  split
  · rw [dictGet_dictSet_other _ _ _ _ (by decide), dictGet_dictSet_self]
  · rw [dictGet_dictSet_self]

theorem stepInfo_terminal (r : Raw ω ρ) (h : r.done = true) :
    dictGet (stepInfo r) "terminal_observation" = some (Val.obs r.obs) := by
  simp [stepInfo, h, dictGet_dictSet_self]

theorem stepInfo_no_terminal (r : Raw ω ρ) (h : r.done = false) :
    dictGet (stepInfo r) "terminal_observation" = dictGet r.info "terminal_observation" := by
  simp only [stepInfo, h]
  exact dictGet_dictSet_other _ _ _ _ (by decide)

theorem stepInfo_other (r : Raw ω ρ) (k : String) (h1 : k ≠ "TimeLimit.truncated") (h2 : k ≠ "terminal_observation") :
    dictGet (stepInfo r) k = dictGet r.info k := by
  unfold stepInfo
  split
  · rw [dictGet_dictSet_other _ _ _ _ h2, dictGet_dictSet_other _ _ _ _ h1]
  · rw [dictGet_dictSet_other _ _ _ _ h1]

theorem stepInfo_keys_nodup (r : Raw ω ρ) (h : (r.info.map (·.1)).Nodup) : ((stepInfo r).map (·.1)).Nodup := by
  unfold stepInfo
  split
  · exact dictSet_keys_nodup _ _ _ (dictSet_keys_nodup _ _ _ h)
  · exact dictSet_keys_nodup _ _ _ h

/-! structured observations: layout of the batched observation -/

section Layout
variable {κ α : Type}

theorem init_shape (keys : List κ) (n : Nat) : (ObsBuf.init keys n : ObsBuf κ α).Shape keys n := by
  constructor
  · simp [ObsBuf.init, Function.comp_def]
  · intro kc h
    simp only [ObsBuf.init, List.mem_map] at h
    obtain ⟨k, _, rfl⟩ := h
    simp

theorem save_shape (b : ObsBuf κ α) (keys : List κ) (n : Nat) (h : b.Shape keys n) (i : Nat) (obs : κ → α) :
    (b.save i obs).Shape keys n := by
  obtain ⟨h1, h2⟩ := h
  constructor
  · simp only [ObsBuf.save, List.map_map, Function.comp_def]
    exact h1
  · intro kc hk
    simp only [ObsBuf.save, List.mem_map] at hk
    obtain ⟨kc', hm, rfl⟩ := hk
    simp [h2 kc' hm]

theorem save_row_self (b : ObsBuf κ α) (keys : List κ) (n : Nat) (h : b.Shape keys n) (i : Nat) (hi : i < n)
    (obs : κ → α) : (b.save i obs).row i = ownObs keys obs := by
  obtain ⟨h1, h2⟩ := h
  subst h1
  simp only [ObsBuf.save, ObsBuf.row, ownObs, List.map_map]
  apply List.map_congr_left
  intro kc hm
  have : i < kc.2.length := by rw [h2 kc hm]; exact hi
  simp [this]

theorem save_row_other (b : ObsBuf κ α) (i j : Nat) (hij : j ≠ i) (obs : κ → α) :
    (b.save i obs).row j = b.row j := by
  simp only [ObsBuf.save, ObsBuf.row, List.map_map]
  apply List.map_congr_left
  intro kc _
  have : ¬ i = j := fun h => hij h.symm
  simp [this]

theorem saveAll_rows (l : List (κ → α)) : ∀ (b : ObsBuf κ α) (keys : List κ) (n k : Nat), b.Shape keys n →
    k + l.length ≤ n →
    (b.saveAll k l).Shape keys n ∧ (∀ j, j < k → (b.saveAll k l).row j = b.row j) ∧
    (∀ j (hj : j < l.length), (b.saveAll k l).row (k + j) = ownObs keys l[j]) ∧
    (∀ j, k + l.length ≤ j → (b.saveAll k l).row j = b.row j) := by
  induction l with
  | nil => intro b keys n k h _; exact ⟨h, fun _ _ => rfl, fun _ hj => absurd hj (by simp), fun _ _ => rfl⟩
  | cons o rest ih =>
    intro b keys n k h hlen
    simp only [List.length_cons] at hlen
    obtain ⟨i1, i2, i3, i4⟩ := ih (b.save k o) keys n (k + 1) (save_shape b keys n h k o) (by omega)
    refine ⟨i1, ?_, ?_, ?_⟩
    · intro j hj
      simp only [ObsBuf.saveAll]
      rw [i2 j (by omega), save_row_other b k j (by omega) o]
    · intro j hj
      cases j with
      | zero =>
        simp only [ObsBuf.saveAll, Nat.add_zero, List.getElem_cons_zero]
        rw [i2 k (by omega), save_row_self b keys n h k (by omega) o]
      | succ j =>
        have hj' : j < rest.length := by simp at hj; omega
        have e : k + (j + 1) = k + 1 + j := by omega
        simp only [ObsBuf.saveAll, e, List.getElem_cons_succ]
        exact i3 j hj'
    · intro j hj
      simp only [ObsBuf.saveAll, List.length_cons] at hj ⊢
      rw [i4 j (by omega), save_row_other b k j (by omega) o]

theorem stack_row (keys : List κ) (l : List (κ → α)) (i : Nat) (hi : i < l.length) :
    stackRow (stackObs keys l) i = ownObs keys l[i] := by
  simp only [stackRow, stackObs, ownObs, List.map_map]
  apply List.map_congr_left
  intro k _
  simp [List.getElem?_eq_getElem hi]



end Layout

end SB3Verif.VecEnvLemmas
