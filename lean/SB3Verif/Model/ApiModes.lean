/-
C19 — the mode table: one row per public call of the classes the property names, written from the
code in /repo and MEASURED (not proved) on the real objects by `/verif/harness/c19.py` on every run.

* `apiRows`    — calls described by a full signature (buffers, policies, VecNormalize helpers, the two
                 base VecEnvs);
* `apiLayers`  — VecEnv wrappers, described by what the wrapper itself does to the `actions` argument
                 and to each result of the wrapped VecEnv (`WRes`); `stackRow` composes a base row with
                 any list of layers;
* `compile`    — turns a signature into micro-instructions of the heap machine (most conservative data
                 flow: every result reads every library cell and every argument);
* `caseProgs`  — the caller program of a harness case (base run / twin run with sentinel writes).

Core only (no Mathlib).
-/
import SB3Verif.Model.Ownership

namespace SB3Verif.Ownership

/-! ### rows -/

structure Row where
  cls : String
  call : String
  variant : String := ""
  args : List (String × ArgMode)
  res : List (String × ResMode)
  /-- is the call inside the sentence of property C19 (buffers' add/sample/get, predict(), what VecEnvs and
  wrappers return); `false` for public helpers the sentence does not name -/
  inStatement : Bool := true
  deriving DecidableEq, Repr, Inhabited

def Row.sig (r : Row) : Sig := ⟨r.args.map (·.2), r.res.map (·.2)⟩

/-- what a wrapper does with one result of the VecEnv it wraps -/
inductive WRes
  | new           -- returns a new object built from the inner result (copy, normalised copy, stacked copy)
  | pass          -- returns the inner object itself or a view of it
  | passRetained  -- returns the inner object and keeps a dead reference to it
  | internal      -- returns (a view of) its own live state
  deriving DecidableEq, Repr, Inhabited

structure Layer where
  cls : String
  variant : String := ""
  actions : ArgMode
  resetObs : WRes
  stepObs : WRes
  stepRewards : WRes
  stepDones : WRes
  stepInfos : WRes
  deriving DecidableEq, Repr, Inhabited

def ArgMode.rank : ArgMode → Nat
  | .readOnly => 0
  | .storedByCopy => 1
  | .retainedDead => 2
  | .storedByRef => 3
  | .mutated => 4

def ArgMode.join (a b : ArgMode) : ArgMode := if b.rank ≤ a.rank then a else b

def WRes.apply : WRes → ResMode → ResMode
  | .new, _ => .fresh
  | .pass, m => m
  | .passRetained, .fresh => .freshRetained
  | .passRetained, m => m
  | .internal, _ => .sharesInternal

def Layer.wres (L : Layer) (call name : String) : WRes :=
  if call == "reset" then L.resetObs
  else if name == "obs" then L.stepObs
  else if name == "rewards" then L.stepRewards
  else if name == "dones" then L.stepDones
  else if name == "infos" then L.stepInfos
  else .pass

def applyLayer (call : String) (r : Row) (L : Layer) : Row :=
  { r with
    args := r.args.map (fun p => if p.1 == "actions" then (p.1, p.2.join L.actions) else p),
    res := r.res.map (fun p => (p.1, (L.wres call p.1).apply p.2)) }

/-- a wrapper that neither writes through / keeps alive the actions nor hands out its own state -/
def Layer.clean (L : Layer) : Bool :=
  L.actions.discipline && L.resetObs != .internal && L.stepObs != .internal && L.stepRewards != .internal &&
    L.stepDones != .internal && L.stepInfos != .internal

/-! ### the table -/

def fresh5 : List (String × ResMode) :=
  [("observations", .fresh), ("actions", .fresh), ("next_observations", .fresh), ("dones", .fresh), ("rewards", .fresh)]

def rolloutRes : List (String × ResMode) :=
  [("observations", .fresh), ("actions", .fresh), ("old_values", .fresh), ("old_log_prob", .fresh),
   ("advantages", .fresh), ("returns", .fresh)]

def replayAddArgs (infos : ArgMode) : List (String × ArgMode) :=
  [("obs", .storedByCopy), ("next_obs", .storedByCopy), ("action", .storedByCopy), ("reward", .storedByCopy),
   ("done", .storedByCopy), ("infos", infos)]

def rolloutAddArgs : List (String × ArgMode) :=
  [("obs", .storedByCopy), ("action", .storedByCopy), ("reward", .storedByCopy), ("episode_start", .storedByCopy),
   ("value", .storedByCopy), ("log_prob", .storedByCopy)]

def stepRes : List (String × ResMode) := [("obs", .fresh), ("rewards", .fresh), ("dones", .fresh), ("infos", .fresh)]

/-- `HerReplayBuffer(copy_info_dict=True).add` stores deep copies of the caller's info dicts
(`self.infos[self.pos] = copy.deepcopy(infos)`, repaired finding K-C19-a, commit cb7b2df; before the repair the
dict objects themselves were stored: the shape of `alias_breaks_it_her_infos_by_reference`). -/
def herAddCopyInfo : Row :=
  { cls := "HerReplayBuffer", call := "add", variant := "copy_info_dict", args := replayAddArgs .storedByCopy, res := [] }

/-- the signature that row had before the repair (used only by the converse witness) -/
def herAddCopyInfoOld : Sig := ⟨(replayAddArgs .storedByRef).map (·.2), []⟩

def apiRows : List Row := [
  -- base vectorised environments
  { cls := "DummyVecEnv", call := "reset", args := [], res := [("obs", .fresh)] },
  -- step_async keeps `self.actions = actions` until the next step; read only inside the same step()
  { cls := "DummyVecEnv", call := "step", args := [("actions", .retainedDead)], res := stepRes },
  { cls := "SubprocVecEnv", call := "reset", args := [], res := [("obs", .fresh)] },
  -- every worker message carries (info, last reset_info) pickled together: containers the sub-environment puts in
  -- both are ONE object after unpickling, so `self.reset_infos` (an attribute nothing reads) keeps a dead reference
  -- into the returned infos
  { cls := "SubprocVecEnv", call := "step", args := [("actions", .readOnly)],
    res := [("obs", .fresh), ("rewards", .fresh), ("dones", .fresh), ("infos", .freshRetained)] },
  -- VecNormalize helpers
  { cls := "VecNormalize", call := "get_original_obs", args := [], res := [("obs", .fresh)] },
  { cls := "VecNormalize", call := "get_original_reward", args := [], res := [("reward", .fresh)] },
  { cls := "VecNormalize", call := "normalize_obs", args := [("obs", .readOnly)], res := [("obs", .fresh)] },
  { cls := "VecNormalize", call := "unnormalize_obs", args := [("obs", .readOnly)], res := [("obs", .fresh)] },
  { cls := "VecNormalize", call := "normalize_reward", args := [("reward", .readOnly)], res := [("reward", .fresh)] },
  -- replay buffers
  { cls := "ReplayBuffer", call := "add", args := replayAddArgs .readOnly, res := [] },
  { cls := "ReplayBuffer", call := "sample", args := [], res := fresh5 },
  { cls := "DictReplayBuffer", call := "add", args := replayAddArgs .readOnly, res := [] },
  { cls := "DictReplayBuffer", call := "sample", args := [], res := fresh5 },
  { cls := "HerReplayBuffer", call := "add", args := replayAddArgs .readOnly, res := [] },
  herAddCopyInfo,
  { cls := "HerReplayBuffer", call := "sample", args := [], res := fresh5 },
  -- rollout buffers
  { cls := "RolloutBuffer", call := "add", args := rolloutAddArgs, res := [] },
  { cls := "RolloutBuffer", call := "compute", args := [("last_values", .readOnly), ("dones", .readOnly)], res := [] },
  { cls := "RolloutBuffer", call := "get", args := [], res := rolloutRes },
  { cls := "RolloutBuffer", call := "reset", args := [], res := [] },
  { cls := "DictRolloutBuffer", call := "add", args := rolloutAddArgs, res := [] },
  { cls := "DictRolloutBuffer", call := "compute", args := [("last_values", .readOnly), ("dones", .readOnly)], res := [] },
  { cls := "DictRolloutBuffer", call := "get", args := [], res := rolloutRes },
  { cls := "DictRolloutBuffer", call := "reset", args := [], res := [] },
  -- policies
  { cls := "BasePolicy", call := "predict", args := [("observation", .readOnly)], res := [("actions", .fresh)] },
  { cls := "BasePolicy", call := "obs_to_tensor", variant := "array", args := [("observation", .readOnly)],
    res := [("tensor", .fresh), ("vectorized", .fresh)], inStatement := false },
  { cls := "BasePolicy", call := "obs_to_tensor", variant := "dict", args := [("observation", .readOnly)],
    res := [("tensor", .fresh), ("vectorized", .fresh)], inStatement := false },
  -- the algorithms AS CALLERS of their VecEnv (roles inverted: "arguments" are the objects the outermost wrapper and
  -- VecNormalize's helpers returned to the algorithm). Claimed and measured: the algorithm keeps the latest
  -- observation objects (`_last_obs`, `_last_original_obs`, `_last_episode_starts`) and reads them at the next step,
  -- and never writes into anything it was handed — except on-policy timeout bootstrapping, which adds
  -- gamma*V(terminal) to the returned rewards array in place (rewards are outside the sentence of C19)
  { cls := "OffPolicyAlgorithm", call := "learn",
    args := [("obs", .storedByRef), ("rewards", .readOnly), ("dones", .readOnly), ("infos", .readOnly),
             ("original_obs", .storedByRef), ("original_reward", .readOnly), ("normalized_obs", .storedByRef)],
    res := [], inStatement := false },
  { cls := "OnPolicyAlgorithm", call := "learn",
    args := [("obs", .storedByRef), ("rewards", .mutated), ("dones", .storedByRef), ("infos", .readOnly),
             ("original_obs", .storedByRef), ("original_reward", .readOnly), ("normalized_obs", .storedByRef)],
    res := [], inStatement := false },
  -- image observations are not copied: the tensor is a view of the caller's array (th.as_tensor of a transposed view)
  { cls := "BasePolicy", call := "obs_to_tensor", variant := "image", args := [("observation", .readOnly)],
    res := [("tensor", .sharesArg 0), ("vectorized", .fresh)], inStatement := false }
]

def apiLayers : List Layer := [
  { cls := "VecFrameStack", actions := .readOnly, resetObs := .new, stepObs := .new, stepRewards := .pass,
    stepDones := .pass, stepInfos := .pass },
  -- np.transpose returns a view of the inner array; dict observations are deep-copied first
  { cls := "VecTransposeImage", variant := "array", actions := .readOnly, resetObs := .pass, stepObs := .pass,
    stepRewards := .pass, stepDones := .pass, stepInfos := .pass },
  { cls := "VecTransposeImage", variant := "dict", actions := .readOnly, resetObs := .new, stepObs := .new,
    stepRewards := .pass, stepDones := .pass, stepInfos := .pass },
  { cls := "VecTransposeImage", variant := "skip", actions := .readOnly, resetObs := .pass, stepObs := .pass,
    stepRewards := .pass, stepDones := .pass, stepInfos := .pass },
  { cls := "VecExtractDictObs", actions := .readOnly, resetObs := .pass, stepObs := .pass, stepRewards := .pass,
    stepDones := .pass, stepInfos := .pass },
  { cls := "VecNormalize", actions := .readOnly, resetObs := .new, stepObs := .new, stepRewards := .new,
    stepDones := .pass, stepInfos := .pass },
  { cls := "VecMonitor", actions := .readOnly, resetObs := .pass, stepObs := .pass, stepRewards := .pass,
    stepDones := .pass, stepInfos := .pass },
  -- keeps `_actions` and `_observations` for its warning text only
  { cls := "VecCheckNan", actions := .retainedDead, resetObs := .passRetained, stepObs := .passRetained,
    stepRewards := .pass, stepDones := .pass, stepInfos := .pass }
]

def findRow (cls call variant : String) : Option Row :=
  apiRows.find? (fun r => r.cls == cls && r.call == call && r.variant == variant)

def findLayer (cls variant : String) : Option Layer :=
  apiLayers.find? (fun L => L.cls == cls && L.variant == variant)

def stackRow (base : Row) (layers : List Layer) (call : String) : Row := layers.foldl (applyLayer call) base

/-- rows of the sentence of the property that do not follow the copy discipline -/
def exceptions : List (String × String × String) := []

def Row.key (r : Row) : String × String × String := (r.cls, r.call, r.variant)

/-! ### measured classes (what the harness can observe on real memory) -/

inductive MArg | clean | retained | mutated
  deriving DecidableEq, Repr, Inhabited

inductive MRes | fresh | retained | arg (i : Nat)
  deriving DecidableEq, Repr, Inhabited

def ArgMode.cls : ArgMode → MArg
  | .readOnly | .storedByCopy => .clean
  | .retainedDead | .storedByRef => .retained
  | .mutated => .mutated

def ResMode.cls : ResMode → MRes
  | .fresh => .fresh
  | .freshRetained | .sharesInternal => .retained
  | .sharesArg i => .arg i

def MArg.rank : MArg → Nat
  | .clean => 0
  | .retained => 1
  | .mutated => 2

def MRes.rank : MRes → Nat
  | .fresh => 0
  | .retained => 1
  | .arg _ => 2

/-- the mode the heap machine is run with: the table's mode when the measurement confirms its class,
otherwise the worst mode of the measured class -/
def refineArg (t : ArgMode) (m : MArg) : ArgMode :=
  if t.cls = m then t else
    match m with
    | .clean => .storedByCopy
    | .retained => .storedByRef
    | .mutated => .mutated

def refineRes (t : ResMode) (m : MRes) : ResMode :=
  if t.cls = m then t else
    match m with
    | .fresh => .fresh
    | .retained => .sharesInternal
    | .arg i => .sharesArg i

/-- "equal" | "cleaner" | "worse" : measured class against the table's class -/
def cmpRank (measured table : Nat) : String :=
  if measured = table then "equal" else if measured < table then "cleaner" else "worse"

/-! ### from signatures to heap-machine programs -/

/-- cells 0..7: one per argument position; 8..15: one per result position; 16: call counter -/
def nArgSlots : Nat := 8
def nSlots : Nat := 17
def counterSlot : Nat := 16

/-- every result depends on every library cell and every argument (most conservative data flow) -/
def allSrc (nargs : Nat) : Src :=
  (List.range nSlots).foldl (fun acc k => .add acc (.slot k))
    ((List.range nargs).foldl (fun acc i => .add acc (.arg i)) (.const 1))

def compileArg (i : Nat) : ArgMode → List Instr
  | .readOnly => []
  | .storedByCopy => [.setSlot i (.arg i)]
  | .retainedDead => [.stash i]
  | .storedByRef => [.aliasSlot i i]
  | .mutated => [.writeArg i (.add (.arg i) (.const 1))]

def compileRes (nargs j : Nat) : ResMode → List Instr
  | .fresh => [.retFresh (allSrc nargs)]
  | .freshRetained => [.retFreshStash (allSrc nargs)]
  | .sharesInternal => [.setSlot (nArgSlots + j) (allSrc nargs), .retSlot (nArgSlots + j)]
  | .sharesArg i => [.retArg i]

def compileArgs : Nat → List ArgMode → List Instr
  | _, [] => []
  | i, m :: ms => compileArg i m ++ compileArgs (i + 1) ms

def compileRess (nargs : Nat) : Nat → List ResMode → List Instr
  | _, [] => []
  | j, m :: ms => compileRes nargs j m ++ compileRess nargs (j + 1) ms

def compile (sig : Sig) : List Instr :=
  [.setSlot counterSlot (.add (.slot counterSlot) (.const 1))] ++ compileArgs 0 sig.args ++
    compileRess sig.args.length 0 sig.res

def sentinel : Val := 77

/-- the caller program of a case: for every call the caller creates the arguments, calls, (twin only:
overwrites the arguments and the results of that call). Returns (base, twin, step index of each call in
base, handles of each call). -/
def caseProgs (sigs : List Sig) : List Step × List Step × List Nat × List (List Nat) :=
  let rec go (sigs : List Sig) (h : Nat) (base twin : List Step) (idx : List Nat) (hs : List (List Nat)) :=
    match sigs with
    | [] => (base, twin, idx, hs)
    | sg :: rest =>
      let na := sg.args.length
      let nr := sg.res.length
      let argH := (List.range na).map (· + h)
      let allH := (List.range (na + nr)).map (· + h)
      let news := argH.map (fun (k : Nat) => Step.new (100 + Int.ofNat k))
      let call := Step.call (compile sg) argH
      let writes := allH.map (fun k => Step.write k sentinel)
      go rest (h + na + nr) (base ++ news ++ [call]) (twin ++ news ++ [call] ++ writes)
        (idx ++ [base.length + na]) (hs ++ [allH])
  go sigs 0 [] [] [] []

end SB3Verif.Ownership
