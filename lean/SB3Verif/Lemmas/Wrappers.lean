/-
Helper lemmas for C17 (model: `SB3Verif/Model/Wrappers.lean`).
Core Lean only (no Mathlib needed: lists, `omega`, `simp`).
-/
import SB3Verif.Model.Wrappers

namespace SB3Verif.Lemmas.Wrappers

open SB3Verif.Wrappers

/-! ### `paddedFrames` -/

theorem paddedFrames_eq_drop {α : Type} (n : Nat) (z : α) (ep : List α) :
    paddedFrames n z ep = (List.replicate n z ++ ep).drop ep.length := by
  simp [paddedFrames, List.drop_append, List.drop_replicate]

theorem paddedFrames_length {α : Type} (n : Nat) (z : α) (ep : List α) :
    (paddedFrames n z ep).length = n := by
  simp [paddedFrames]; omega

theorem paddedFrames_nil {α : Type} (n : Nat) (z : α) : paddedFrames n z [] = List.replicate n z := by
  simp [paddedFrames]

theorem paddedFrames_singleton {α : Type} (n : Nat) (hn : 0 < n) (z x : α) :
    paddedFrames n z [x] = List.replicate (n - 1) z ++ [x] := by
  have : 1 - n = 0 := by omega
  simp [paddedFrames, this]

/-- pushing a frame: the oldest frame of the window is dropped, the new one is appended -/
theorem paddedFrames_push {α : Type} (n : Nat) (hn : 0 < n) (z x : α) (ep : List α) :
    paddedFrames n z (ep ++ [x]) = (paddedFrames n z ep).drop 1 ++ [x] := by
  rw [paddedFrames_eq_drop, paddedFrames_eq_drop, List.drop_drop, ← List.append_assoc,
    List.length_append, List.length_singleton]
  rw [List.drop_append_of_le_length]
  simp; omega

theorem paddedFrames_map {α β : Type} (g : α → β) (n : Nat) (z : α) (ep : List α) :
    (paddedFrames n z ep).map g = paddedFrames n (g z) (ep.map g) := by
  simp [paddedFrames, List.map_drop]

theorem paddedFrames_short {α : Type} (n : Nat) (z : α) (ep : List α) (h : ep.length ≤ n) :
    paddedFrames n z ep = List.replicate (n - ep.length) z ++ ep := by
  have : ep.length - n = 0 := by omega
  simp [paddedFrames, this]

theorem paddedFrames_long {α : Type} (n : Nat) (z : α) (ep : List α) (h : n ≤ ep.length) :
    paddedFrames n z ep = ep.drop (ep.length - n) := by
  have : n - ep.length = 0 := by omega
  simp [paddedFrames, this]

theorem mem_paddedFrames {α : Type} (n : Nat) (z : α) (ep : List α) (x : α)
    (hx : x ∈ paddedFrames n z ep) : x = z ∨ x ∈ ep := by
  simp only [paddedFrames, List.mem_append, List.mem_replicate] at hx
  rcases hx with h | h
  · exact Or.inl h.2
  · exact Or.inr (List.mem_of_mem_drop h)

/-! ### lists of frames of equal length -/

theorem flatten_length_uniform (c : Nat) (P : List (List Int)) (h : ∀ f ∈ P, f.length = c) :
    P.flatten.length = P.length * c := by
  induction P with
  | nil => simp
  | cons f rest ih =>
    have hf : f.length = c := h f (by simp)
    have hr := ih (fun g hg => h g (by simp [hg]))
    simp [hf, hr, Nat.succ_mul]; omega

theorem paddedRow_length (n c : Nat) (ep : List (List Int)) (h : ∀ f ∈ ep, f.length = c) :
    (paddedRow n c ep).length = n * c := by
  unfold paddedRow
  rw [flatten_length_uniform c, paddedFrames_length]
  intro f hf
  rcases mem_paddedFrames _ _ _ _ hf with h1 | h1
  · simp [h1]
  · exact h f h1

/-- rolling a window of `n ≥ 1` frames of length `c` by `c` and cutting the last `c` entries leaves the
window without its oldest frame -/
theorem sliceTo_roll (c : Nat) (f : List Int) (rest : List (List Int)) (hf : f.length = c)
    (hr : ∀ g ∈ rest, g.length = c) :
    sliceTo c (roll c (f :: rest).flatten) = rest.flatten := by
  have hlen : rest.flatten.length = rest.length * c := flatten_length_uniform c rest hr
  by_cases hc : c = 0
  · subst hc
    have : rest.flatten = [] := by
      rw [List.flatten_eq_nil_iff]; intro l hl; exact List.eq_nil_of_length_eq_zero (hr l hl)
    simp [sliceTo, this]
  · cases rest with
    | nil =>
      simp [sliceTo, roll, hc, hf]
    | cons g rest' =>
      have hg : g.length = c := hr g (by simp)
      have hmod : c % ((f :: g :: rest').flatten.length) = c := by
        apply Nat.mod_eq_of_lt
        simp [hf, hg]; omega
      have hroll : roll c (f :: g :: rest').flatten = (g :: rest').flatten ++ f := by
        unfold roll
        rw [hmod]
        simp only [List.flatten_cons]
        rw [List.drop_left' hf, List.take_left' hf]
      rw [hroll]
      simp only [sliceTo, hc, if_false, List.length_append, hf]
      rw [Nat.add_sub_cancel, List.take_left' rfl]

theorem roll_length (c : Nat) (l : List Int) : (roll c l).length = l.length := by
  unfold roll
  by_cases h : l.length = 0
  · have : l = [] := List.eq_nil_of_length_eq_zero h
    subst this; simp
  · have : c % l.length < l.length := Nat.mod_lt _ (Nat.pos_of_ne_zero h)
    simp only [List.length_append, List.length_drop, List.length_take]
    omega

/-! ### one `update` / `reset` of a row -/

theorem frames_uniform (n c : Nat) (ep : List (List Int)) (h : ∀ f ∈ ep, f.length = c) :
    ∀ f ∈ paddedFrames n (List.replicate c (0 : Int)) ep, f.length = c := by
  intro f hf
  rcases mem_paddedFrames _ _ _ _ hf with h1 | h1
  · simp [h1]
  · exact h f h1

/-- not done: the new frame joins the current episode -/
theorem updateRow_continue (n c : Nat) (hn : 0 < n) (ep : List (List Int)) (obs : List Int)
    (term : Option (List Int)) (hep : ∀ f ∈ ep, f.length = c) (ho : obs.length = c) :
    updateRow (paddedRow n c ep) obs false term = (paddedRow n c (ep ++ [obs]), term) := by
  have hP := frames_uniform n c ep hep
  have hlen := paddedFrames_length n (List.replicate c (0 : Int)) ep
  unfold updateRow paddedRow
  rw [paddedFrames_push n hn]
  generalize paddedFrames n (List.replicate c (0 : Int)) ep = P at hP hlen
  cases P with
  | nil => simp at hlen; omega
  | cons f rest =>
    have hf : f.length = c := hP f (by simp)
    have hr : ∀ g ∈ rest, g.length = c := fun g hg => hP g (by simp [hg])
    simp only [ho, assignTail, Bool.false_eq_true, if_false]
    rw [sliceTo_roll c f rest hf hr]
    simp

/-- done: the stacked terminal observation is the window of the episode that just ended, completed by the
raw terminal observation; the new window holds zeros and the first observation of the next episode -/
theorem updateRow_done (n c : Nat) (hn : 0 < n) (ep : List (List Int)) (obs : List Int)
    (term : Option (List Int)) (hep : ∀ f ∈ ep, f.length = c) (ho : obs.length = c) :
    updateRow (paddedRow n c ep) obs true term =
      (paddedRow n c [obs], term.map fun t => paddedRow n c (ep ++ [t])) := by
  have hP := frames_uniform n c ep hep
  have hlen := paddedFrames_length n (List.replicate c (0 : Int)) ep
  have hbuf := paddedRow_length n c ep hep
  unfold updateRow
  simp only [ho, if_true]
  congr 1
  · -- the new window
    simp only [assignTail, roll_length, hbuf]
    unfold paddedRow
    rw [paddedFrames_singleton n hn]
    by_cases hc : c = 0
    · subst hc; simp [sliceTo]
    · simp only [sliceTo, hc, if_false, List.length_replicate, List.take_replicate]
      have : min (n * c - c) (n * c) = (n - 1) * c := by
        rw [Nat.sub_mul]; simp
      simp [this]
  · -- the terminal observation
    cases term with
    | none => rfl
    | some t =>
      simp only [Option.map_some]
      congr 1
      unfold paddedRow
      rw [paddedFrames_push n hn]
      generalize paddedFrames n (List.replicate c (0 : Int)) ep = P at hP hlen
      cases P with
      | nil => simp at hlen; omega
      | cons f rest =>
        have hf : f.length = c := hP f (by simp)
        have hr : ∀ g ∈ rest, g.length = c := fun g hg => hP g (by simp [hg])
        rw [sliceTo_roll c f rest hf hr]
        simp

theorem resetRow_spec (n c : Nat) (hn : 0 < n) (buf obs : List Int) (hb : buf.length = n * c)
    (ho : obs.length = c) : resetRow buf obs = paddedRow n c [obs] := by
  unfold resetRow paddedRow assignTail
  rw [paddedFrames_singleton n hn, ho, hb]
  by_cases hc : c = 0
  · subst hc; simp [sliceTo]
  · simp only [sliceTo, hc, if_false, List.length_replicate, List.take_replicate]
    have : min (n * c - c) (n * c) = (n - 1) * c := by
      rw [Nat.sub_mul]; simp
    simp [this]

/-! ### every history of a row -/

theorem rowRun_spec (n c : Nat) (hn : 0 < n) (h : List REv) :
    ∀ (ep : List (List Int)), (∀ f ∈ ep, f.length = c) → (∀ e ∈ h, ∀ f ∈ e.frames, f.length = c) →
      rowRun (paddedRow n c ep) h = paddedRow n c (rowEpisode ep h) ∧
        ∀ f ∈ rowEpisode ep h, f.length = c := by
  induction h with
  | nil => intro ep hep _; exact ⟨rfl, hep⟩
  | cons e rest ih =>
    intro ep hep hh
    have hrest : ∀ e' ∈ rest, ∀ f ∈ e'.frames, f.length = c := fun e' he' => hh e' (by simp [he'])
    cases e with
    | reset o =>
      have ho : o.length = c := hh (.reset o) (by simp) o (by simp [REv.frames])
      simp only [rowRun, rowEpisode]
      rw [resetRow_spec n c hn _ o (paddedRow_length n c ep hep) ho]
      exact ih [o] (by simpa using ho) hrest
    | step o d t =>
      have ho : o.length = c := by
        apply hh (.step o d t) (by simp) o
        cases t <;> simp [REv.frames]
      cases d with
      | false =>
        simp only [rowRun, rowEpisode]
        rw [updateRow_continue n c hn ep o t hep ho]
        refine ih (ep ++ [o]) ?_ hrest
        intro f hf
        rcases List.mem_append.mp hf with h1 | h1
        · exact hep f h1
        · simp at h1; simpa [h1] using ho
      | true =>
        simp only [rowRun, rowEpisode]
        rw [updateRow_done n c hn ep o t hep ho]
        exact ih [o] (by simpa using ho) hrest

/-! ### arrays cut into rows -/

theorem flatMap_range_congr {β : Type} (m : Nat) (F G : Nat → List β) (h : ∀ r, r < m → F r = G r) :
    (List.range m).flatMap F = (List.range m).flatMap G := by
  rw [List.flatMap_def, List.flatMap_def]
  congr 1
  apply List.map_congr_left
  intro r hr
  exact h r (List.mem_range.mp hr)

theorem length_flatMap_uniform (K m : Nat) (F : Nat → List Int) (hF : ∀ r, r < m → (F r).length = K) :
    ((List.range m).flatMap F).length = m * K := by
  induction m with
  | zero => simp
  | succ m ih =>
    rw [List.range_succ, List.flatMap_append, List.length_append, ih (fun r hr => hF r (by omega))]
    simp [hF m (by omega), Nat.succ_mul]

theorem row_flatMap_uniform (K m : Nat) (F : Nat → List Int) (hF : ∀ r, r < m → (F r).length = K)
    (r : Nat) (hr : r < m) : row K r ((List.range m).flatMap F) = F r := by
  induction m with
  | zero => omega
  | succ m ih =>
    have hA := length_flatMap_uniform K m F (fun r hr => hF r (by omega))
    rw [List.range_succ, List.flatMap_append]
    simp only [List.flatMap_cons, List.flatMap_nil, List.append_nil]
    unfold row
    by_cases hlt : r < m
    · have h1 : (r + 1) * K ≤ m * K := Nat.mul_le_mul_right K hlt
      rw [Nat.succ_mul] at h1
      rw [List.drop_append_of_le_length (by omega), List.take_append_of_le_length (by rw [List.length_drop, hA]; omega)]
      exact ih (fun r hr => hF r (by omega)) hlt
    · have : r = m := by omega
      subst this
      rw [List.drop_left' hA]
      exact List.take_of_length_le (by rw [hF r (by omega)]; exact Nat.le_refl _)

theorem prod_dropLast (s : List Nat) : prod s = prod s.dropLast * lastDim s := by
  induction s with
  | nil => simp [prod, lastDim]
  | cons d rest ih =>
    cases rest with
    | nil => simp [prod, lastDim]
    | cons e r =>
      have : lastDim (d :: e :: r) = lastDim (e :: r) := by simp [lastDim, List.getLastD]
      simp only [List.dropLast_cons_cons, prod, this] at ih ⊢
      rw [ih, Nat.mul_assoc]

/-! ### geometry of a frame along the stacking axis -/

/-- row length and number of rows of a frame of shape `shape` along the stacking axis -/
def kOf (first : Bool) (shape : List Nat) : Nat := rowLen first (Arr.zeros shape)
def mOf (first : Bool) (shape : List Nat) : Nat := prod shape / kOf first shape

theorem kOf_first (shape : List Nat) : kOf true shape = prod shape := by simp [kOf, rowLen, Arr.zeros]
theorem kOf_last (shape : List Nat) : kOf false shape = lastDim shape := by simp [kOf, rowLen, Arr.zeros]

theorem geo (first : Bool) (shape : List Nat) (hpos : 0 < prod shape) :
    0 < kOf first shape ∧ prod shape = mOf first shape * kOf first shape := by
  cases first with
  | true =>
    simp only [mOf, kOf_first]
    exact ⟨hpos, by rw [Nat.div_self hpos]; simp⟩
  | false =>
    simp only [mOf, kOf_last]
    have h := prod_dropLast shape
    have hl : 0 < lastDim shape := by
      rcases Nat.eq_zero_or_pos (lastDim shape) with h0 | h0
      · rw [h0] at h; omega
      · exact h0
    refine ⟨hl, ?_⟩
    conv => rhs; rw [h, Nat.mul_div_cancel _ hl]
    exact h

theorem rowLen_frame (first : Bool) (shape : List Nat) (a : Arr) (h : FrameOK shape a) :
    rowLen first a = kOf first shape := by
  cases first with
  | true => simp [rowLen, kOf_first, h.2]
  | false => simp [rowLen, kOf_last, h.1]

theorem lastDim_stackedShape (n : Nat) (shape : List Nat) (hne : shape ≠ []) :
    lastDim (stackedShape n false shape) = lastDim shape * n := by
  rw [← List.dropLast_concat_getLast hne]
  simp [stackedShape, lastDim]

theorem row_length (k r : Nat) (d : List Int) (h : (r + 1) * k ≤ d.length) : (row k r d).length = k := by
  rw [Nat.succ_mul] at h
  simp [row]; omega

theorem row_replicate (k r P : Nat) (h : (r + 1) * k ≤ P) :
    row k r (List.replicate P (0 : Int)) = List.replicate k 0 := by
  rw [Nat.succ_mul] at h
  simp only [row, List.drop_replicate, List.take_replicate]
  congr 1; omega

/-- the stack as rows: row `r` of the window is the padded row stack of the rows `r` of the episode's frames -/
def specData (first : Bool) (n : Nat) (shape : List Nat) (ep : List Arr) : List Int :=
  (List.range (mOf first shape)).flatMap fun r =>
    paddedRow n (kOf first shape) (ep.map fun f => row (kOf first shape) r f.data)

def specArr (first : Bool) (n : Nat) (shape : List Nat) (ep : List Arr) : Arr :=
  ⟨stackedShape n first shape, specData first n shape ep⟩

theorem stackOf_eq_specArr (first : Bool) (n : Nat) (shape : List Nat) (hpos : 0 < prod shape) (ep : List Arr) :
    stackOf first n shape ep = specArr first n shape ep := by
  obtain ⟨hk, hP⟩ := geo first shape hpos
  unfold stackOf concatFrames specArr specData
  simp only [paddedFrames_length]
  congr 1
  have : (Arr.zeros shape).data.length / rowLen first (Arr.zeros shape) = mOf first shape := by
    simp [mOf, kOf, Arr.zeros]
  rw [this]
  apply flatMap_range_congr
  intro r hr
  rw [List.flatMap_def, paddedFrames_map (fun f : Arr => row (rowLen first (Arr.zeros shape)) r f.data)]
  unfold paddedRow
  congr 2
  have h1 : (r + 1) * kOf first shape ≤ prod shape := by
    rw [hP]; exact Nat.mul_le_mul_right _ hr
  exact row_replicate _ r _ h1

theorem rows_uniform (first : Bool) (shape : List Nat) (hpos : 0 < prod shape) (ep : List Arr)
    (hep : ∀ f ∈ ep, FrameOK shape f) (r : Nat) (hr : r < mOf first shape) :
    ∀ x ∈ ep.map (fun f => row (kOf first shape) r f.data), x.length = kOf first shape := by
  obtain ⟨hk, hP⟩ := geo first shape hpos
  intro x hx
  obtain ⟨f, hf, rfl⟩ := List.mem_map.mp hx
  apply row_length
  rw [(hep f hf).2, hP]
  exact Nat.mul_le_mul_right _ hr

theorem specData_length (first : Bool) (n : Nat) (shape : List Nat) (hpos : 0 < prod shape) (ep : List Arr)
    (hep : ∀ f ∈ ep, FrameOK shape f) :
    (specData first n shape ep).length = mOf first shape * (n * kOf first shape) :=
  length_flatMap_uniform _ _ _ fun r hr => paddedRow_length n _ _ (rows_uniform first shape hpos ep hep r hr)

theorem rowLen_buf (first : Bool) (n : Nat) (shape : List Nat) (hne : shape ≠ []) (hpos : 0 < prod shape)
    (d : List Int) (hd : d.length = mOf first shape * (n * kOf first shape)) :
    rowLen first ⟨stackedShape n first shape, d⟩ = n * kOf first shape := by
  cases first with
  | true =>
    have : mOf true shape = 1 := by simp [mOf, kOf_first, Nat.div_self hpos]
    simp [rowLen, hd, this]
  | false =>
    simp only [rowLen, Bool.false_eq_true, if_false, lastDim_stackedShape n shape hne, kOf_last]
    exact Nat.mul_comm _ _

theorem updateArr_spec (first : Bool) (n : Nat) (shape : List Nat) (hn : 0 < n) (hne : shape ≠ [])
    (hpos : 0 < prod shape) (ep : List Arr) (obs : Arr) (done : Bool) (term : Option Arr)
    (hep : ∀ f ∈ ep, FrameOK shape f) (ho : FrameOK shape obs) (ht : ∀ t, term = some t → FrameOK shape t) :
    updateArr first (specArr first n shape ep) obs done term =
      if done then (specArr first n shape [obs], term.map fun t => specArr first n shape (ep ++ [t]))
      else (specArr first n shape (ep ++ [obs]), term) := by
  obtain ⟨hk, hP⟩ := geo first shape hpos
  have hdata := specData_length first n shape hpos ep hep
  have hkb : rowLen first (specArr first n shape ep) = n * kOf first shape :=
    rowLen_buf first n shape hne hpos _ hdata
  have hko : rowLen first obs = kOf first shape := rowLen_frame first shape obs ho
  have hnk : 0 < n * kOf first shape := Nat.mul_pos hn hk
  have hm : (specArr first n shape ep).data.length / (n * kOf first shape) = mOf first shape := by
    show (specData first n shape ep).length / _ = _
    rw [hdata]; exact Nat.mul_div_cancel _ hnk
  have hrow : ∀ r, r < mOf first shape → row (n * kOf first shape) r (specArr first n shape ep).data =
      paddedRow n (kOf first shape) (ep.map fun f => row (kOf first shape) r f.data) := fun r hr =>
    row_flatMap_uniform _ _ _ (fun r hr => paddedRow_length n _ _ (rows_uniform first shape hpos ep hep r hr)) r hr
  have hor : ∀ r, r < mOf first shape → (row (kOf first shape) r obs.data).length = kOf first shape := by
    intro r hr
    apply row_length
    rw [ho.2, hP]; exact Nat.mul_le_mul_right _ hr
  unfold updateArr
  simp only [hkb, hko, hm]
  cases done with
  | false =>
    simp only [Bool.false_eq_true, if_false]
    congr 1
    show Arr.mk _ _ = Arr.mk _ _
    congr 1
    apply flatMap_range_congr
    intro r hr
    rw [hrow r hr, updateRow_continue n _ hn _ _ _ (rows_uniform first shape hpos ep hep r hr) (hor r hr)]
    simp
  | true =>
    simp only [if_true]
    congr 1
    · show Arr.mk _ _ = Arr.mk _ _
      congr 1
      apply flatMap_range_congr
      intro r hr
      rw [hrow r hr, updateRow_done n _ hn _ _ _ (rows_uniform first shape hpos ep hep r hr) (hor r hr)]
      simp
    · cases term with
      | none => rfl
      | some t =>
        simp only [Option.map_some]
        congr 1
        show Arr.mk _ _ = Arr.mk _ _
        congr 1
        apply flatMap_range_congr
        intro r hr
        rw [hrow r hr, updateRow_done n _ hn _ _ _ (rows_uniform first shape hpos ep hep r hr) (hor r hr)]
        simp [rowLen_frame first shape t (ht t rfl)]

theorem resetArr_spec (first : Bool) (n : Nat) (shape : List Nat) (hn : 0 < n) (hne : shape ≠ [])
    (hpos : 0 < prod shape) (ep : List Arr) (obs : Arr)
    (hep : ∀ f ∈ ep, FrameOK shape f) (ho : FrameOK shape obs) :
    resetArr first (specArr first n shape ep) obs = specArr first n shape [obs] := by
  obtain ⟨hk, hP⟩ := geo first shape hpos
  have hdata := specData_length first n shape hpos ep hep
  have hkb : rowLen first (specArr first n shape ep) = n * kOf first shape :=
    rowLen_buf first n shape hne hpos _ hdata
  have hko : rowLen first obs = kOf first shape := rowLen_frame first shape obs ho
  have hnk : 0 < n * kOf first shape := Nat.mul_pos hn hk
  have hm : (specArr first n shape ep).data.length / (n * kOf first shape) = mOf first shape := by
    show (specData first n shape ep).length / _ = _
    rw [hdata]; exact Nat.mul_div_cancel _ hnk
  have hrowlen : ∀ r, r < mOf first shape →
      (row (n * kOf first shape) r (specArr first n shape ep).data).length = n * kOf first shape := by
    intro r hr
    apply row_length
    show _ ≤ (specData first n shape ep).length
    rw [hdata]; exact Nat.mul_le_mul_right _ hr
  have hor : ∀ r, r < mOf first shape → (row (kOf first shape) r obs.data).length = kOf first shape := by
    intro r hr
    apply row_length
    rw [ho.2, hP]; exact Nat.mul_le_mul_right _ hr
  unfold resetArr
  simp only [hkb, hko, hm]
  show Arr.mk _ _ = Arr.mk _ _
  congr 1
  apply flatMap_range_congr
  intro r hr
  rw [resetRow_spec n _ hn _ _ (hrowlen r hr) (hor r hr)]
  simp

theorem prod_append (a b : List Nat) : prod (a ++ b) = prod a * prod b := by
  induction a with
  | nil => simp [prod]
  | cons d r ih => simp [prod, ih, Nat.mul_assoc]

theorem prod_stackedShape (first : Bool) (n : Nat) (shape : List Nat) (hne : shape ≠ []) :
    prod (stackedShape n first shape) = n * prod shape := by
  cases first with
  | true =>
    cases shape with
    | nil => exact absurd rfl hne
    | cons d ds =>
      simp only [stackedShape, if_true, prod]
      rw [Nat.mul_comm d n, Nat.mul_assoc]
  | false =>
    rw [← List.dropLast_concat_getLast hne]
    simp only [stackedShape, Bool.false_eq_true, if_false, List.reverse_append, List.reverse_cons, List.reverse_nil,
      List.nil_append, List.cons_append, List.reverse_reverse, prod_append, prod, Nat.mul_one]
    rw [Nat.mul_comm n, Nat.mul_assoc]

theorem flatMap_const_replicate (m K : Nat) :
    ((List.range m).flatMap fun _ => List.replicate K (0 : Int)) = List.replicate (m * K) 0 := by
  induction m with
  | zero => simp
  | succ m ih =>
    rw [List.range_succ, List.flatMap_append, ih]
    simp [Nat.succ_mul]

/-- the freshly constructed window (all zeros) is the stack of the empty episode -/
theorem zeros_eq_specArr (first : Bool) (n : Nat) (shape : List Nat) (hne : shape ≠ []) (hpos : 0 < prod shape) :
    Arr.zeros (stackedShape n first shape) = specArr first n shape [] := by
  obtain ⟨hk, hP⟩ := geo first shape hpos
  unfold Arr.zeros specArr specData
  congr 1
  rw [prod_stackedShape first n shape hne]
  simp only [List.map_nil, paddedRow, paddedFrames_nil, List.flatten_replicate_replicate]
  rw [flatMap_const_replicate]
  congr 1
  conv => lhs; rw [hP]
  rw [Nat.mul_left_comm]

/-! ### every history of one sub-stack -/

theorem fsRun_spec (first : Bool) (n : Nat) (shape : List Nat) (hn : 0 < n) (hne : shape ≠ [])
    (hpos : 0 < prod shape) (h : List FEv) :
    ∀ (ep : List Arr), (∀ f ∈ ep, FrameOK shape f) → (∀ e ∈ h, EvOK shape e) →
      fsRun first (specArr first n shape ep) h = specArr first n shape (curEpisode ep h) ∧
        ∀ f ∈ curEpisode ep h, FrameOK shape f := by
  induction h with
  | nil => intro ep hep _; exact ⟨rfl, hep⟩
  | cons e rest ih =>
    intro ep hep hh
    have hrest : ∀ e' ∈ rest, EvOK shape e' := fun e' he' => hh e' (by simp [he'])
    cases e with
    | reset o =>
      have ho : FrameOK shape o := hh (.reset o) (by simp) o (by simp [FEv.frames])
      simp only [fsRun, curEpisode]
      rw [resetArr_spec first n shape hn hne hpos ep o hep ho]
      exact ih [o] (by simpa using ho) hrest
    | step o d t =>
      have ho : FrameOK shape o := by
        apply hh (.step o d t) (by simp) o
        cases t <;> simp [FEv.frames]
      have ht : ∀ t', t = some t' → FrameOK shape t' := by
        intro t' h'
        subst h'
        exact hh (.step o d (some t')) (by simp) t' (by simp [FEv.frames])
      cases d with
      | false =>
        simp only [fsRun, curEpisode]
        rw [updateArr_spec first n shape hn hne hpos ep o false t hep ho ht]
        simp only [Bool.false_eq_true, if_false]
        refine ih (ep ++ [o]) ?_ hrest
        intro f hf
        rcases List.mem_append.mp hf with h1 | h1
        · exact hep f h1
        · simp at h1; simpa [h1] using ho
      | true =>
        simp only [fsRun, curEpisode]
        rw [updateArr_spec first n shape hn hne hpos ep o true t hep ho ht]
        simp only [if_true]
        exact ih [o] (by simpa using ho) hrest

/-! ### pass-through -/

theorem WS_step_passthrough (w : WS) (r : Rec) :
    (w.step r).2.rew = r.rew ∧ (w.step r).2.done = r.done ∧
      (w.step r).2.info.truncated = r.info.truncated ∧ (w.step r).2.info.payload = r.info.payload := by
  cases w with
  | frameStack firsts bufs => simp [WS.step]
  | transpose keys => simp [WS.step]
  | extract key => simp [WS.step]
  | monitor ret len =>
    simp only [WS.step]
    split <;> simp
  | checkNan => simp [WS.step]

theorem stackStep_passthrough (ws : List WS) :
    ∀ r : Rec, (stackStep ws r).2.rew = r.rew ∧ (stackStep ws r).2.done = r.done ∧
      (stackStep ws r).2.info.truncated = r.info.truncated ∧ (stackStep ws r).2.info.payload = r.info.payload := by
  induction ws with
  | nil => intro r; simp [stackStep]
  | cons w ws ih =>
    intro r
    obtain ⟨h1, h2, h3, h4⟩ := WS_step_passthrough w r
    obtain ⟨g1, g2, g3, g4⟩ := ih (w.step r).2
    simp only [stackStep]
    exact ⟨g1.trans h1, g2.trans h2, g3.trans h3, g4.trans h4⟩

/-- the `episode` entry is written by `VecMonitor` only, and only when the episode ends -/
theorem WS_step_episode (w : WS) (r : Rec) (hd : r.done = false) :
    (w.step r).2.info.episode = r.info.episode := by
  cases w with
  | frameStack firsts bufs => simp [WS.step]
  | transpose keys => simp [WS.step]
  | extract key => simp [WS.step]
  | monitor ret len => simp [WS.step, hd]
  | checkNan => simp [WS.step]

/-! ### the terminal observation gets the transformation of ordinary observations -/

theorem row_length_eq (k r : Nat) (d : List Int) : (row k r d).length = min k (d.length - r * k) := by
  simp [row]

theorem sliceTo_length (c : Nat) (l : List Int) :
    (sliceTo c l).length = if c = 0 then 0 else l.length - c := by
  unfold sliceTo
  split <;> simp

theorem length_flatMap_congr (m : Nat) (F G : Nat → List Int) (h : ∀ r, r < m → (F r).length = (G r).length) :
    ((List.range m).flatMap F).length = ((List.range m).flatMap G).length := by
  induction m with
  | zero => simp
  | succ m ih =>
    rw [List.range_succ, List.flatMap_append, List.flatMap_append, List.length_append, List.length_append,
      ih (fun r hr => h r (by omega))]
    simp [h m (by omega)]

theorem rowLen_congr (first : Bool) (o t : Arr) (hs : o.shape = t.shape) (hl : o.data.length = t.data.length) :
    rowLen first o = rowLen first t := by
  cases first <;> simp [rowLen, hs, hl]

theorem updateRow_terminal_alike (b orow trow : List Int) (h : orow.length = trow.length) :
    (updateRow b orow true (some trow)).2 = some (updateRow b trow false none).1 := by
  simp [updateRow, assignTail, h]

theorem updateArr_terminal_alike (first : Bool) (buf o t : Arr) (hs : o.shape = t.shape)
    (hl : o.data.length = t.data.length) :
    (updateArr first buf o true (some t)).2 = some (updateArr first buf t false none).1 := by
  have hk := rowLen_congr first o t hs hl
  unfold updateArr
  simp only [if_true, Option.map_some, hk]
  congr 2
  apply flatMap_range_congr
  intro r _
  rw [updateRow_terminal_alike _ _ _ (by rw [row_length_eq, row_length_eq, hl])]
  rfl

theorem updateArr_fst_indep (first : Bool) (buf o : Arr) (done : Bool) (t t' : Option Arr) :
    (updateArr first buf o done t).1 = (updateArr first buf o done t').1 := by
  simp [updateArr, updateRow]

theorem updateArr_fst_shape (first : Bool) (buf o : Arr) (done : Bool) (t : Option Arr) :
    (updateArr first buf o done t).1.shape = buf.shape := rfl

/-- shape and size of the returned window do not depend on `done` nor on the values -/
theorem updateArr_fst_length (first : Bool) (buf o t : Arr) (hs : o.shape = t.shape)
    (hl : o.data.length = t.data.length) (d d' : Bool) (x x' : Option Arr) :
    (updateArr first buf o d x).1.data.length = (updateArr first buf t d' x').1.data.length := by
  have hk := rowLen_congr first o t hs hl
  unfold updateArr
  simp only [hk]
  apply length_flatMap_congr
  intro r _
  have : (row (rowLen first t) r o.data).length = (row (rowLen first t) r t.data).length := by
    rw [row_length_eq, row_length_eq, hl]
  simp only [updateRow, assignTail, List.length_append, sliceTo_length, this]
  cases d <;> cases d' <;> simp [roll_length]

/-! ### observations as key/array lists -/

theorem getKey_of_mem : ∀ (t : Obs), KeysNodup t → ∀ kv ∈ t, getKey kv.1 t = kv.2 := by
  intro t
  induction t with
  | nil => intro _ kv h; simp at h
  | cons hd rest ih =>
    intro hnd kv hkv
    obtain ⟨k', v⟩ := hd
    simp only [KeysNodup, List.map_cons, List.nodup_cons] at hnd
    rcases List.mem_cons.mp hkv with h | h
    · subst h; simp [getKey]
    · have hne : kv.1 ≠ k' := by
        intro he
        exact hnd.1 (he ▸ List.mem_map_of_mem (f := (·.1)) h)
      have := ih hnd.2 kv h
      simp only [getKey, List.lookup_cons] at this ⊢
      have hb : (kv.1 == k') = false := by simpa using hne
      rw [hb]; exact this

theorem obsSig_length (o t : Obs) (h : obsSig o = obsSig t) : o.length = t.length := by
  have := congrArg List.length h
  simpa [obsSig] using this

theorem obsSig_getElem (o t : Obs) (h : obsSig o = obsSig t) (i : Nat) (hi : i < o.length) (hi' : i < t.length) :
    o[i].1 = t[i].1 ∧ o[i].2.shape = t[i].2.shape ∧ o[i].2.data.length = t[i].2.data.length := by
  have h1 : (obsSig o)[i]'(by simpa [obsSig] using hi) = (obsSig t)[i]'(by simpa [obsSig] using hi') := by
    simp [h]
  simp only [obsSig, List.getElem_map, Prod.mk.injEq] at h1
  exact h1

theorem obsSig_keys (o t : Obs) (h : obsSig o = obsSig t) : o.map (·.1) = t.map (·.1) := by
  have := congrArg (List.map (·.1)) h
  simpa [obsSig, List.map_map, Function.comp_def] using this

/-- frame stacking: the stacked terminal observation is what the stack would have returned for the terminal
observation as an ordinary observation -/
theorem fsUpdate_terminal_alike (firsts : List (String × Bool)) (bufs o t : Obs)
    (hs : obsSig o = obsSig t) (hnd : KeysNodup t) :
    (fsUpdate firsts bufs o true (some t)).2 = some (fsUpdate firsts bufs t false none).1 := by
  simp only [fsUpdate, if_true, Option.map_some]
  congr 1
  apply List.ext_getElem
  · simpa using obsSig_length o t hs
  · intro i h1 h2
    simp only [List.length_map] at h1 h2
    obtain ⟨hk, hsh, hlen⟩ := obsSig_getElem o t hs i h1 h2
    have hg : getKey o[i].1 t = t[i].2 := by
      rw [hk]; exact getKey_of_mem t hnd t[i] (List.getElem_mem h2)
    simp only [List.getElem_map, hg]
    rw [updateArr_terminal_alike _ _ _ _ hsh hlen]
    simp [hk]

theorem fsUpdate_fst_sig (firsts : List (String × Bool)) (bufs o t : Obs) (hs : obsSig o = obsSig t)
    (d d' : Bool) (x x' : Option Obs) :
    obsSig (fsUpdate firsts bufs o d x).1 = obsSig (fsUpdate firsts bufs t d' x').1 := by
  simp only [fsUpdate, obsSig, List.map_map]
  apply List.ext_getElem
  · simpa using obsSig_length o t hs
  · intro i h1 h2
    simp only [List.length_map] at h1 h2
    obtain ⟨hk, hsh, hlen⟩ := obsSig_getElem o t hs i h1 h2
    simp only [List.getElem_map, Function.comp, Prod.mk.injEq]
    refine ⟨hk, ?_, ?_⟩
    · simp [updateArr_fst_shape, hk]
    · rw [hk]; exact updateArr_fst_length _ _ _ _ hsh hlen _ _ _ _

theorem fsUpdate_fst_keys (firsts : List (String × Bool)) (bufs o : Obs) (d : Bool) (x : Option Obs) :
    (fsUpdate firsts bufs o d x).1.map (·.1) = o.map (·.1) := by
  simp [fsUpdate, List.map_map, Function.comp]

theorem fsUpdate_fst_indep (firsts : List (String × Bool)) (bufs o : Obs) (d : Bool) (x x' : Option Obs) :
    (fsUpdate firsts bufs o d x).1 = (fsUpdate firsts bufs o d x').1 := by
  simp only [fsUpdate]
  apply List.map_congr_left
  intro kv _
  rw [updateArr_fst_indep]

theorem transposeHWC_sig (a b : Arr) (hs : a.shape = b.shape) (hl : a.data.length = b.data.length) :
    (transposeHWC a).shape = (transposeHWC b).shape ∧
      (transposeHWC a).data.length = (transposeHWC b).data.length := by
  unfold transposeHWC
  rw [hs]
  split
  · simp [List.length_flatMap]
  · exact ⟨hs, hl⟩

theorem transposeObs_keys (keys : List String) (o : Obs) : (transposeObs keys o).map (·.1) = o.map (·.1) := by
  simp only [transposeObs, List.map_map]
  apply List.map_congr_left
  intro kv _
  simp only [Function.comp]
  split <;> rfl

theorem transposeObs_sig (keys : List String) (o t : Obs) (hs : obsSig o = obsSig t) :
    obsSig (transposeObs keys o) = obsSig (transposeObs keys t) := by
  simp only [transposeObs, obsSig, List.map_map]
  apply List.ext_getElem
  · simpa using obsSig_length o t hs
  · intro i h1 h2
    simp only [List.length_map] at h1 h2
    obtain ⟨hk, hsh, hlen⟩ := obsSig_getElem o t hs i h1 h2
    obtain ⟨g1, g2⟩ := transposeHWC_sig _ _ hsh hlen
    simp only [List.getElem_map, Function.comp, hk]
    split <;> simp [hk, hsh, hlen, g1, g2]

theorem getKey_sig (k : String) : ∀ (o t : Obs), obsSig o = obsSig t →
    (getKey k o).shape = (getKey k t).shape ∧ (getKey k o).data.length = (getKey k t).data.length := by
  intro o
  induction o with
  | nil =>
    intro t h
    cases t with
    | nil => simp
    | cons _ _ => simp [obsSig] at h
  | cons hd ro ih =>
    intro t h
    cases t with
    | nil => simp [obsSig] at h
    | cons hd' rt =>
      obtain ⟨k1, a⟩ := hd
      obtain ⟨k2, b⟩ := hd'
      simp only [obsSig, List.map_cons, List.cons.injEq, Prod.mk.injEq] at h
      obtain ⟨⟨hk, hsh, hlen⟩, hrest⟩ := h
      subst hk
      simp only [getKey, List.lookup_cons]
      cases hb : (k == k1) with
      | true => exact ⟨hsh, hlen⟩
      | false => exact ih rt hrest

theorem extractObs_sig (key : String) (o t : Obs) (hs : obsSig o = obsSig t) :
    obsSig (extractObs key o) = obsSig (extractObs key t) := by
  obtain ⟨h1, h2⟩ := getKey_sig key o t hs
  simp [extractObs, obsSig, h1, h2]

/-- an ordinary step returns `obsFn` of the observation -/
theorem WS_step_obs_ordinary (w : WS) (r : Rec) (hd : r.done = false) : (w.step r).2.obs = w.obsFn r.obs := by
  cases w with
  | frameStack firsts bufs =>
    simp only [WS.step, WS.obsFn, hd]
    exact fsUpdate_fst_indep _ _ _ _ _ _
  | transpose keys => simp [WS.step, WS.obsFn]
  | extract key => simp [WS.step, WS.obsFn]
  | monitor ret len => simp [WS.step, WS.obsFn, hd]
  | checkNan => simp [WS.step, WS.obsFn]

theorem WS_step_terminal_alike (w : WS) (r : Rec) (t : Obs) (hd : r.done = true)
    (ht : r.info.terminal = some t) (hs : obsSig r.obs = obsSig t) (hnd : KeysNodup t) :
    (w.step r).2.info.terminal = some (w.obsFn t) ∧ obsSig (w.step r).2.obs = obsSig (w.obsFn t) ∧
      KeysNodup (w.obsFn t) := by
  cases w with
  | frameStack firsts bufs =>
    simp only [WS.step, WS.obsFn, hd, ht]
    refine ⟨fsUpdate_terminal_alike firsts bufs r.obs t hs hnd, fsUpdate_fst_sig firsts bufs r.obs t hs _ _ _ _, ?_⟩
    simp only [KeysNodup, fsUpdate_fst_keys]; exact hnd
  | transpose keys =>
    simp only [WS.step, WS.obsFn, hd, ht, if_true, Option.map_some]
    refine ⟨trivial, transposeObs_sig keys _ _ hs, ?_⟩
    simp only [KeysNodup, transposeObs_keys]; exact hnd
  | extract key =>
    simp only [WS.step, WS.obsFn, ht, Option.map_some]
    exact ⟨trivial, extractObs_sig key _ _ hs, by simp [KeysNodup, extractObs]⟩
  | monitor ret len => simp [WS.step, WS.obsFn, hd, ht, hs, hnd]
  | checkNan => simp [WS.step, WS.obsFn, ht, hs, hnd]

theorem WS_step_terminal_none (w : WS) (r : Rec) (ht : r.info.terminal = none) :
    (w.step r).2.info.terminal = none := by
  cases w with
  | frameStack firsts bufs => simp only [WS.step, fsUpdate, ht]; simp
  | transpose keys => simp [WS.step, ht]
  | extract key => simp [WS.step, ht]
  | monitor ret len => simp only [WS.step]; split <;> simp [ht]
  | checkNan => simp [WS.step, ht]

theorem stackStep_obs_ordinary (ws : List WS) :
    ∀ r : Rec, r.done = false → (stackStep ws r).2.obs = stackObsFn ws r.obs := by
  induction ws with
  | nil => intro r _; rfl
  | cons w ws ih =>
    intro r hd
    have hd' : (w.step r).2.done = false := (WS_step_passthrough w r).2.1.trans hd
    simp only [stackStep, stackObsFn]
    rw [ih _ hd', WS_step_obs_ordinary w r hd]

theorem stackStep_terminal_alike (ws : List WS) :
    ∀ (r : Rec) (t : Obs), r.done = true → r.info.terminal = some t → obsSig r.obs = obsSig t → KeysNodup t →
      (stackStep ws r).2.info.terminal = some (stackObsFn ws t) := by
  induction ws with
  | nil => intro r t _ ht _ _; simpa [stackStep, stackObsFn] using ht
  | cons w ws ih =>
    intro r t hd ht hs hnd
    have hd' : (w.step r).2.done = true := (WS_step_passthrough w r).2.1.trans hd
    obtain ⟨h1, h2, h3⟩ := WS_step_terminal_alike w r t hd ht hs hnd
    simp only [stackStep, stackObsFn]
    exact ih _ _ hd' h1 h2 h3

theorem stackStep_terminal_none (ws : List WS) :
    ∀ r : Rec, r.info.terminal = none → (stackStep ws r).2.info.terminal = none := by
  induction ws with
  | nil => intro r h; simpa [stackStep] using h
  | cons w ws ih =>
    intro r h
    simp only [stackStep]
    exact ih _ (WS_step_terminal_none w r h)

/-! ### membership of the stack in the declared bounds -/

theorem mem_row (k r : Nat) (d : List Int) (x : Int) (h : x ∈ row k r d) : x ∈ d :=
  List.mem_of_mem_drop (List.mem_of_mem_take h)

/-- every entry of a stack is a padding zero or an entry of a frame of the episode -/
theorem mem_stackOf_data (first : Bool) (n : Nat) (shape : List Nat) (ep : List Arr) (x : Int)
    (hx : x ∈ (stackOf first n shape ep).data) : x = 0 ∨ ∃ f ∈ ep, x ∈ f.data := by
  simp only [stackOf, concatFrames, List.mem_flatMap] at hx
  obtain ⟨r, _, f, hf, hxr⟩ := hx
  have hxf := mem_row _ _ _ _ hxr
  rcases mem_paddedFrames _ _ _ _ hf with h | h
  · left
    rw [h] at hxf
    simp only [Arr.zeros, List.mem_replicate] at hxf
    exact hxf.2
  · exact Or.inr ⟨f, h, hxf⟩

theorem stackOf_shape (first : Bool) (n : Nat) (shape : List Nat) (ep : List Arr) :
    (stackOf first n shape ep).shape = stackedShape n first shape := by
  simp [stackOf, concatFrames, paddedFrames_length]

theorem stackOf_length (first : Bool) (n : Nat) (shape : List Nat) (hpos : 0 < prod shape) (ep : List Arr)
    (hep : ∀ f ∈ ep, FrameOK shape f) : (stackOf first n shape ep).data.length = n * prod shape := by
  obtain ⟨_, hP⟩ := geo first shape hpos
  rw [stackOf_eq_specArr first n shape hpos]
  show (specData first n shape ep).length = _
  rw [specData_length first n shape hpos ep hep]
  conv => rhs; rw [hP]
  rw [Nat.mul_left_comm]

theorem row_replicate' (k r P : Nat) (v : Int) (h : (r + 1) * k ≤ P) :
    row k r (List.replicate P v) = List.replicate k v := by
  rw [Nat.succ_mul] at h
  simp only [row, List.drop_replicate, List.take_replicate]
  congr 1; omega

theorem flatMap_replicate_const (P n : Nat) (v : Int) :
    (List.replicate P v).flatMap (fun x => List.replicate n x) = List.replicate (P * n) v := by
  induction P with
  | zero => simp
  | succ P ih => simp [List.replicate_succ, ih, Nat.succ_mul, Nat.add_comm]

theorem flatMap_const_replicate' (m K : Nat) (v : Int) :
    ((List.range m).flatMap fun _ => List.replicate K v) = List.replicate (m * K) v := by
  induction m with
  | zero => simp
  | succ m ih =>
    rw [List.range_succ, List.flatMap_append, ih]
    simp [Nat.succ_mul]

/-- tiling a constant bound gives the constant bound of the stacked shape -/
theorem tileAxis_replicate (n : Nat) (first : Bool) (shape : List Nat) (hpos : 0 < prod shape) (v : Int) :
    tileAxis n first shape (List.replicate (prod shape) v) = List.replicate (n * prod shape) v := by
  obtain ⟨_, hP⟩ := geo first shape hpos
  have hk : rowLen first (Arr.zeros shape) = kOf first shape := rfl
  have hz : (Arr.zeros shape).data.length / kOf first shape = mOf first shape := by
    simp [mOf, Arr.zeros]
  simp only [tileAxis, concatFrames, hk, hz]
  have : ∀ r, r < mOf first shape →
      ((List.replicate n (⟨shape, List.replicate (prod shape) v⟩ : Arr)).flatMap fun f =>
        row (kOf first shape) r f.data) = List.replicate (n * kOf first shape) v := by
    intro r hr
    have h1 : (r + 1) * kOf first shape ≤ prod shape := by
      conv => rhs; rw [hP]
      exact Nat.mul_le_mul_right _ hr
    rw [List.flatMap_def, List.map_replicate, row_replicate' _ _ _ _ h1]
    simp
  rw [flatMap_range_congr _ _ _ this, flatMap_const_replicate']
  congr 1
  conv => rhs; rw [hP]
  rw [Nat.mul_left_comm]

theorem withinBounds_replicate (N : Nat) (lo hi : Int) (data : List Int) (hl : data.length = N)
    (h : ∀ x ∈ data, lo ≤ x ∧ x ≤ hi) :
    withinBounds (List.replicate N lo) (List.replicate N hi) data = true := by
  simp only [withinBounds, List.length_replicate, hl, beq_self_eq_true, Bool.true_and, List.all_eq_true]
  intro p hp
  obtain ⟨hx, hlh⟩ := List.of_mem_zip hp
  obtain ⟨h1, h2⟩ := List.of_mem_zip hlh
  rw [List.mem_replicate] at h1 h2
  have := h p.1 hx
  simp [h1.2, h2.2, this.1, this.2]

/-! ### per-coordinate bounds of a stack -/

/-- coordinate-wise `low ≤ data ≤ high` on lists of equal length -/
def WB : List Int → List Int → List Int → Prop
  | [], [], [] => True
  | l :: ls, h :: hs, d :: ds => l ≤ d ∧ d ≤ h ∧ WB ls hs ds
  | _, _, _ => False

theorem WB_length : ∀ (l h d : List Int), WB l h d → d.length = l.length ∧ d.length = h.length
  | [], [], [], _ => ⟨rfl, rfl⟩
  | l :: ls, h :: hs, d :: ds, hw => by
    obtain ⟨h1, h2⟩ := WB_length ls hs ds hw.2.2
    exact ⟨by simp [h1], by simp [h2]⟩
  | [], [], _ :: _, hw => hw.elim
  | [], _ :: _, _, hw => hw.elim
  | _ :: _, [], _, hw => hw.elim
  | _ :: _, _ :: _, [], hw => hw.elim

theorem withinBounds_iff_WB : ∀ (l h d : List Int), withinBounds l h d = true ↔ WB l h d
  | [], [], [] => by simp [withinBounds, WB]
  | l :: ls, h :: hs, d :: ds => by
    have ih := withinBounds_iff_WB ls hs ds
    simp only [withinBounds, List.length_cons, Bool.and_eq_true, beq_iff_eq, List.zip_cons_cons, List.all_cons,
      decide_eq_true_eq, WB, Nat.add_right_cancel_iff] at ih ⊢
    constructor
    · rintro ⟨⟨h1, h2⟩, ⟨h3, h4⟩, h5⟩
      exact ⟨h3, h4, ih.mp ⟨⟨h1, h2⟩, h5⟩⟩
    · rintro ⟨h3, h4, h5⟩
      obtain ⟨⟨h1, h2⟩, h6⟩ := ih.mpr h5
      exact ⟨⟨h1, h2⟩, ⟨h3, h4⟩, h6⟩
  | [], [], _ :: _ => by simp [withinBounds, WB]
  | [], _ :: _, d => by cases d <;> simp [withinBounds, WB]
  | _ :: _, [], d => by cases d <;> simp [withinBounds, WB]
  | _ :: _, _ :: _, [] => by simp [withinBounds, WB]

theorem WB_append : ∀ (l1 h1 d1 l2 h2 d2 : List Int), WB l1 h1 d1 → WB l2 h2 d2 →
    WB (l1 ++ l2) (h1 ++ h2) (d1 ++ d2)
  | [], [], [], _, _, _, _, h => by simpa using h
  | l :: ls, h :: hs, d :: ds, l2, h2, d2, hw, hw2 => by
    simp only [List.cons_append, WB]
    exact ⟨hw.1, hw.2.1, WB_append ls hs ds l2 h2 d2 hw.2.2 hw2⟩
  | [], [], _ :: _, _, _, _, hw, _ => hw.elim
  | [], _ :: _, _, _, _, _, hw, _ => hw.elim
  | _ :: _, [], _, _, _, _, hw, _ => hw.elim
  | _ :: _, _ :: _, [], _, _, _, hw, _ => hw.elim

theorem WB_drop : ∀ (k : Nat) (l h d : List Int), WB l h d → WB (l.drop k) (h.drop k) (d.drop k)
  | 0, _, _, _, hw => by simpa using hw
  | _ + 1, [], [], [], _ => by simp [WB]
  | k + 1, l :: ls, h :: hs, d :: ds, hw => by
    simp only [List.drop_succ_cons]
    exact WB_drop k ls hs ds hw.2.2
  | _ + 1, [], [], _ :: _, hw => hw.elim
  | _ + 1, [], _ :: _, _, hw => hw.elim
  | _ + 1, _ :: _, [], _, hw => hw.elim
  | _ + 1, _ :: _, _ :: _, [], hw => hw.elim

theorem WB_take : ∀ (k : Nat) (l h d : List Int), WB l h d → WB (l.take k) (h.take k) (d.take k)
  | 0, _, _, _, _ => by simp [WB]
  | _ + 1, [], [], [], _ => by simp [WB]
  | k + 1, l :: ls, h :: hs, d :: ds, hw => by
    simp only [List.take_succ_cons, WB]
    exact ⟨hw.1, hw.2.1, WB_take k ls hs ds hw.2.2⟩
  | _ + 1, [], [], _ :: _, hw => hw.elim
  | _ + 1, [], _ :: _, _, hw => hw.elim
  | _ + 1, _ :: _, [], _, hw => hw.elim
  | _ + 1, _ :: _, _ :: _, [], hw => hw.elim

theorem WB_row (k r : Nat) (l h d : List Int) (hw : WB l h d) : WB (row k r l) (row k r h) (row k r d) :=
  WB_take k _ _ _ (WB_drop (r * k) _ _ _ hw)

theorem WB_flatMap_range (m : Nat) (L H D : Nat → List Int) (hw : ∀ r, r < m → WB (L r) (H r) (D r)) :
    WB ((List.range m).flatMap L) ((List.range m).flatMap H) ((List.range m).flatMap D) := by
  induction m with
  | zero => simp [WB]
  | succ m ih =>
    simp only [List.range_succ, List.flatMap_append, List.flatMap_cons, List.flatMap_nil, List.append_nil]
    exact WB_append _ _ _ _ _ _ (ih fun r hr => hw r (by omega)) (hw m (by omega))

/-- `n` frames, each inside `[lowA, highA]`, against `n` copies of the bound arrays -/
theorem WB_flatMap_frames (g : Arr → List Int) (lowA highA : Arr) :
    ∀ (frames : List Arr), (∀ f ∈ frames, WB (g lowA) (g highA) (g f)) →
      WB ((List.replicate frames.length lowA).flatMap g) ((List.replicate frames.length highA).flatMap g)
        (frames.flatMap g)
  | [], _ => by simp [WB]
  | f :: rest, hw => by
    simp only [List.length_cons, List.replicate_succ, List.flatMap_cons]
    exact WB_append _ _ _ _ _ _ (hw f (by simp))
      (WB_flatMap_frames g lowA highA rest fun f' hf' => hw f' (by simp [hf']))

/-- the stack of frames that are inside a Box's (per-coordinate) bounds is inside the tiled bounds, provided the
zero frame is inside the bounds too -/
theorem stack_within_bounds (first : Bool) (n : Nat) (b : Box) (ep : List Arr)
    (hz : b.contains (Arr.zeros b.shape) = true) (hep : ∀ f ∈ ep, b.contains f = true) :
    (stackedBox n first b).contains (stackOf first n b.shape ep) = true := by
  have hwz : WB b.low b.high (Arr.zeros b.shape).data := by
    simp only [Box.contains, Bool.and_eq_true] at hz
    exact (withinBounds_iff_WB _ _ _).mp hz.2
  have hwf : ∀ f ∈ paddedFrames n (Arr.zeros b.shape) ep, WB b.low b.high f.data := by
    intro f hf
    rcases mem_paddedFrames _ _ _ _ hf with h | h
    · rw [h]; exact hwz
    · have := hep f h
      simp only [Box.contains, Bool.and_eq_true] at this
      exact (withinBounds_iff_WB _ _ _).mp this.2
  have hlen := paddedFrames_length n (Arr.zeros b.shape) ep
  simp only [Box.contains, stackedBox, stackOf_shape, beq_self_eq_true, Bool.true_and]
  rw [withinBounds_iff_WB]
  simp only [tileAxis, stackOf, concatFrames]
  apply WB_flatMap_range
  intro r _
  have := WB_flatMap_frames (fun f : Arr => row (rowLen first (Arr.zeros b.shape)) r f.data) ⟨b.shape, b.low⟩
    ⟨b.shape, b.high⟩ (paddedFrames n (Arr.zeros b.shape) ep) (fun f hf => WB_row _ _ _ _ _ (hwf f hf))
  rw [hlen] at this
  exact this

/-! ### transposition -/

theorem getD_row (k r p : Nat) (d : List Int) (hp : p < k) : (row k r d).getD p 0 = d.getD (r * k + p) 0 := by
  simp only [row, List.getD_eq_getElem?_getD, List.getElem?_take, hp, if_true, List.getElem?_drop]

theorem getD_flatMap_uniform (K m : Nat) (F : Nat → List Int) (hF : ∀ r, r < m → (F r).length = K)
    (r p : Nat) (hr : r < m) (hp : p < K) :
    ((List.range m).flatMap F).getD (r * K + p) 0 = (F r).getD p 0 := by
  rw [← getD_row K r p _ hp, row_flatMap_uniform K m F hF r hr]

theorem transposeHWC_index (h w c : Nat) (d : List Int) (i j k : Nat) (hi : i < h) (hj : j < w) (hk : k < c) :
    (transposeHWC ⟨[h, w, c], d⟩).data.getD ((k * h + i) * w + j) 0 = d.getD ((i * w + j) * c + k) 0 := by
  have hp : i * w + j < h * w := by
    have : (i + 1) * w ≤ h * w := Nat.mul_le_mul_right w hi
    rw [Nat.succ_mul] at this
    omega
  have hidx : (k * h + i) * w + j = k * (h * w) + (i * w + j) := by
    rw [Nat.add_mul, Nat.mul_assoc, Nat.add_assoc]
  simp only [transposeHWC]
  rw [hidx, getD_flatMap_uniform (h * w) c _ (by intro r _; simp) k (i * w + j) hk hp]
  simp [List.getD_eq_getElem?_getD, hp]

theorem transposeHWC_shape (h w c : Nat) (d : List Int) : (transposeHWC ⟨[h, w, c], d⟩).shape = [c, h, w] := rfl

/-! ### Dict observations: one sub-stack per key -/

theorem getKey_map (o : Obs) (hnd : KeysNodup o) (G : String × Arr → Arr) (kv : String × Arr) (hkv : kv ∈ o) :
    getKey kv.1 (o.map fun kv => (kv.1, G kv)) = G kv := by
  have hnd' : KeysNodup (o.map fun kv => (kv.1, G kv)) := by
    simpa [KeysNodup, List.map_map, Function.comp_def] using hnd
  exact getKey_of_mem _ hnd' (kv.1, G kv) (List.mem_map.mpr ⟨kv, hkv, rfl⟩)

theorem fsUpdate_keywise (firsts : List (String × Bool)) (bufs obs : Obs) (done : Bool) (term : Option Obs)
    (hnd : KeysNodup obs) (kv : String × Arr) (hkv : kv ∈ obs) :
    getKey kv.1 (fsUpdate firsts bufs obs done term).1 =
      (updateArr (firstOf firsts kv.1) (getKey kv.1 bufs) kv.2 done (term.map (getKey kv.1))).1 := by
  simp only [fsUpdate]
  exact getKey_map obs hnd _ kv hkv

theorem fsUpdate_keywise_terminal (firsts : List (String × Bool)) (bufs obs t : Obs)
    (hnd : KeysNodup obs) (kv : String × Arr) (hkv : kv ∈ obs) :
    ((fsUpdate firsts bufs obs true (some t)).2.map (getKey kv.1)) =
      (updateArr (firstOf firsts kv.1) (getKey kv.1 bufs) kv.2 true (some (getKey kv.1 t))).2 := by
  simp only [fsUpdate, if_true, Option.map_some]
  rw [getKey_map obs hnd _ kv hkv]
  simp [updateArr]

theorem fsReset_keywise (firsts : List (String × Bool)) (bufs obs : Obs)
    (hnd : KeysNodup obs) (kv : String × Arr) (hkv : kv ∈ obs) :
    getKey kv.1 (fsReset firsts bufs obs) = resetArr (firstOf firsts kv.1) (getKey kv.1 bufs) kv.2 := by
  simp only [fsReset]
  exact getKey_map obs hnd _ kv hkv

/-! ### shapes of what a wrapper returns -/

/-- size of the returned window depends only on shapes and sizes of window and observation -/
theorem updateArr_fst_length' (first : Bool) (buf buf' o t : Arr) (hbs : buf.shape = buf'.shape)
    (hbl : buf.data.length = buf'.data.length) (hs : o.shape = t.shape)
    (hl : o.data.length = t.data.length) (d d' : Bool) (x x' : Option Arr) :
    (updateArr first buf o d x).1.data.length = (updateArr first buf' t d' x').1.data.length := by
  have hk := rowLen_congr first o t hs hl
  have hkb := rowLen_congr first buf buf' hbs hbl
  unfold updateArr
  simp only [hk, hkb, hbl]
  apply length_flatMap_congr
  intro r _
  have h1 : (row (rowLen first t) r o.data).length = (row (rowLen first t) r t.data).length := by
    rw [row_length_eq, row_length_eq, hl]
  have h2 : (row (rowLen first buf') r buf.data).length = (row (rowLen first buf') r buf'.data).length := by
    rw [row_length_eq, row_length_eq, hbl]
  simp only [updateRow, assignTail, List.length_append, sliceTo_length, h1]
  cases d <;> cases d' <;> simp [roll_length, h2]

theorem resetArr_length' (first : Bool) (buf buf' o t : Arr) (hbs : buf.shape = buf'.shape)
    (hbl : buf.data.length = buf'.data.length) (hs : o.shape = t.shape)
    (hl : o.data.length = t.data.length) :
    (resetArr first buf o).data.length = (resetArr first buf' t).data.length := by
  have hk := rowLen_congr first o t hs hl
  have hkb := rowLen_congr first buf buf' hbs hbl
  unfold resetArr
  simp only [hk, hkb, hbl]
  apply length_flatMap_congr
  intro r _
  have h1 : (row (rowLen first t) r o.data).length = (row (rowLen first t) r t.data).length := by
    rw [row_length_eq, row_length_eq, hl]
  have h2 : (row (rowLen first buf') r buf.data).length = (row (rowLen first buf') r buf'.data).length := by
    rw [row_length_eq, row_length_eq, hbl]
  simp only [resetRow, assignTail, List.length_append, sliceTo_length, h1, List.length_replicate, h2]

theorem specArr_length (first : Bool) (n : Nat) (shape : List Nat) (hpos : 0 < prod shape) (ep : List Arr)
    (hep : ∀ f ∈ ep, FrameOK shape f) : (specArr first n shape ep).data.length = n * prod shape := by
  obtain ⟨_, hP⟩ := geo first shape hpos
  show (specData first n shape ep).length = _
  rw [specData_length first n shape hpos ep hep]
  conv => rhs; rw [hP]
  rw [Nat.mul_left_comm]

/-- a window of the right shape and size stays so under `update`, whatever it holds -/
theorem updateArr_fst_sig (first : Bool) (n : Nat) (shape : List Nat) (hn : 0 < n) (hne : shape ≠ [])
    (hpos : 0 < prod shape) (buf o : Arr) (hbs : buf.shape = stackedShape n first shape)
    (hbl : buf.data.length = n * prod shape) (ho : FrameOK shape o) (d : Bool) (x : Option Arr) :
    (updateArr first buf o d x).1.shape = stackedShape n first shape ∧
      (updateArr first buf o d x).1.data.length = n * prod shape := by
  refine ⟨hbs, ?_⟩
  rw [updateArr_fst_length' first buf (specArr first n shape []) o o hbs
    (by rw [hbl, specArr_length first n shape hpos [] (by simp)]) rfl rfl d false x none,
    updateArr_spec first n shape hn hne hpos [] o false none (by simp) ho (by simp)]
  simp only [Bool.false_eq_true, if_false]
  exact specArr_length first n shape hpos _ (by simpa using ho)

theorem resetArr_sig (first : Bool) (n : Nat) (shape : List Nat) (hn : 0 < n) (hne : shape ≠ [])
    (hpos : 0 < prod shape) (buf o : Arr) (hbs : buf.shape = stackedShape n first shape)
    (hbl : buf.data.length = n * prod shape) (ho : FrameOK shape o) :
    (resetArr first buf o).shape = stackedShape n first shape ∧
      (resetArr first buf o).data.length = n * prod shape := by
  refine ⟨hbs, ?_⟩
  rw [resetArr_length' first buf (specArr first n shape []) o o hbs
    (by rw [hbl, specArr_length first n shape hpos [] (by simp)]) rfl rfl,
    resetArr_spec first n shape hn hne hpos [] o (by simp) ho]
  exact specArr_length first n shape hpos _ (by simpa using ho)

abbrev Sig := List (String × List Nat × Nat)

/-- keys distinct, rank ≥ 1, no empty dimension, the recorded size is the shape's -/
def SigOK (sg : Sig) : Prop :=
  (sg.map (·.1)).Nodup ∧ ∀ e ∈ sg, e.2.1 ≠ [] ∧ 0 < prod e.2.1 ∧ e.2.2 = prod e.2.1

def tshape : List Nat → List Nat
  | [h, w, c] => [c, h, w]
  | s => s

/-- `w` is a state of a wrapper that turns observations of signature `sg` into observations of signature `sg'` -/
def WSInv (sg : Sig) (w : WS) (sg' : Sig) : Prop :=
  match w with
  | .frameStack firsts bufs =>
    ∃ n, 0 < n ∧ sg' = sg.map (fun e => (e.1, stackedShape n (firstOf firsts e.1) e.2.1, n * e.2.2)) ∧
      obsSig bufs = sg'
  | .transpose keys =>
    (∀ e ∈ sg, keys.contains e.1 = true → e.2.1.length = 3) ∧
      sg' = sg.map fun e => if keys.contains e.1 then (e.1, tshape e.2.1, e.2.2) else e
  | .extract key => ∃ e, sg.lookup key = some e ∧ sg' = [("", e)]
  | .monitor _ _ => sg' = sg
  | .checkNan => sg' = sg

theorem obsSig_getElem' (o : Obs) (sg : Sig) (h : obsSig o = sg) (i : Nat) (hi : i < o.length) (hi' : i < sg.length) :
    o[i].1 = sg[i].1 ∧ o[i].2.shape = sg[i].2.1 ∧ o[i].2.data.length = sg[i].2.2 := by
  subst h
  simp [obsSig]

theorem obsSig_len (o : Obs) (sg : Sig) (h : obsSig o = sg) : o.length = sg.length := by
  subst h; simp [obsSig]

theorem keysNodup_of_sig (o : Obs) (sg : Sig) (h : obsSig o = sg) (hnd : (sg.map (·.1)).Nodup) : KeysNodup o := by
  subst h
  simpa [KeysNodup, obsSig, List.map_map, Function.comp_def] using hnd

theorem fs_sig (firsts : List (String × Bool)) (n : Nat) (hn : 0 < n) (sg : Sig) (hsg : SigOK sg) (bufs o : Obs)
    (hb : obsSig bufs = sg.map (fun e => (e.1, stackedShape n (firstOf firsts e.1) e.2.1, n * e.2.2)))
    (ho : obsSig o = sg) (d : Bool) (x : Option Obs) :
    obsSig (fsUpdate firsts bufs o d x).1 =
      sg.map (fun e => (e.1, stackedShape n (firstOf firsts e.1) e.2.1, n * e.2.2)) := by
  have hlo := obsSig_len o sg ho
  have hlb := obsSig_len bufs _ hb
  simp only [List.length_map] at hlb
  have hndb : KeysNodup bufs := keysNodup_of_sig bufs _ hb (by
    simpa [List.map_map, Function.comp_def] using hsg.1)
  simp only [fsUpdate, obsSig, List.map_map]
  apply List.ext_getElem
  · simp [hlo]
  · intro i h1 h2
    simp only [List.length_map] at h1 h2
    obtain ⟨hk, hsh, hlen⟩ := obsSig_getElem' o sg ho i h1 h2
    obtain ⟨hkb, hshb, hlenb⟩ := obsSig_getElem' bufs _ hb i (by omega) (by simpa using h2)
    simp only [List.getElem_map] at hkb hshb hlenb
    obtain ⟨hne, hpos, hsz⟩ := hsg.2 sg[i] (List.getElem_mem h2)
    have hg : getKey o[i].1 bufs = bufs[i].2 := by
      rw [hk, ← hkb]; exact getKey_of_mem bufs hndb bufs[i] (List.getElem_mem _)
    have hfo : FrameOK sg[i].2.1 o[i].2 := ⟨hsh, by rw [hlen, hsz]⟩
    obtain ⟨g1, g2⟩ := updateArr_fst_sig (firstOf firsts o[i].1) n sg[i].2.1 hn hne hpos (getKey o[i].1 bufs) o[i].2
      (by rw [hg, hshb, hk]) (by rw [hg, hlenb, hsz]) hfo d (x.map (getKey o[i].1))
    simp only [List.getElem_map, Function.comp, Prod.mk.injEq]
    exact ⟨hk, by rw [g1, hk], by rw [g2, hsz]⟩

theorem fsReset_sig (firsts : List (String × Bool)) (n : Nat) (hn : 0 < n) (sg : Sig) (hsg : SigOK sg) (bufs o : Obs)
    (hb : obsSig bufs = sg.map (fun e => (e.1, stackedShape n (firstOf firsts e.1) e.2.1, n * e.2.2)))
    (ho : obsSig o = sg) :
    obsSig (fsReset firsts bufs o) =
      sg.map (fun e => (e.1, stackedShape n (firstOf firsts e.1) e.2.1, n * e.2.2)) := by
  have hlo := obsSig_len o sg ho
  have hlb := obsSig_len bufs _ hb
  simp only [List.length_map] at hlb
  have hndb : KeysNodup bufs := keysNodup_of_sig bufs _ hb (by
    simpa [List.map_map, Function.comp_def] using hsg.1)
  simp only [fsReset, obsSig, List.map_map]
  apply List.ext_getElem
  · simp [hlo]
  · intro i h1 h2
    simp only [List.length_map] at h1 h2
    obtain ⟨hk, hsh, hlen⟩ := obsSig_getElem' o sg ho i h1 h2
    obtain ⟨hkb, hshb, hlenb⟩ := obsSig_getElem' bufs _ hb i (by omega) (by simpa using h2)
    simp only [List.getElem_map] at hkb hshb hlenb
    obtain ⟨hne, hpos, hsz⟩ := hsg.2 sg[i] (List.getElem_mem h2)
    have hg : getKey o[i].1 bufs = bufs[i].2 := by
      rw [hk, ← hkb]; exact getKey_of_mem bufs hndb bufs[i] (List.getElem_mem _)
    have hfo : FrameOK sg[i].2.1 o[i].2 := ⟨hsh, by rw [hlen, hsz]⟩
    obtain ⟨g1, g2⟩ := resetArr_sig (firstOf firsts o[i].1) n sg[i].2.1 hn hne hpos (getKey o[i].1 bufs) o[i].2
      (by rw [hg, hshb, hk]) (by rw [hg, hlenb, hsz]) hfo
    simp only [List.getElem_map, Function.comp, Prod.mk.injEq]
    exact ⟨hk, by rw [g1, hk], by rw [g2, hsz]⟩

theorem length_flatMap_map_const (c M : Nat) (g : Nat → Nat → Int) :
    ((List.range c).flatMap fun ch => (List.range M).map fun p => g ch p).length = c * M := by
  rw [length_flatMap_uniform M c _ (by intro r _; simp)]

theorem transposeHWC_sig3 (a : Arr) (h3 : a.shape.length = 3) (hl : a.data.length = prod a.shape) :
    (transposeHWC a).shape = tshape a.shape ∧ (transposeHWC a).data.length = prod a.shape := by
  obtain ⟨shape, data⟩ := a
  simp only at h3 hl ⊢
  match shape, h3 with
  | [h, w, c], _ =>
    simp only [transposeHWC, tshape, true_and]
    rw [length_flatMap_map_const]
    simp only [prod, Nat.mul_one]
    rw [Nat.mul_comm c, Nat.mul_assoc]

theorem prod_tshape (s : List Nat) : prod (tshape s) = prod s := by
  unfold tshape
  split
  · simp only [prod, Nat.mul_one]
    rename_i h w c
    rw [Nat.mul_comm c, Nat.mul_assoc]
  · rfl

theorem tshape_ne_nil (s : List Nat) (h : s ≠ []) : tshape s ≠ [] := by
  unfold tshape
  split
  · simp
  · exact h

theorem transposeObs_sig' (keys : List String) (sg : Sig) (hsg : SigOK sg)
    (h3 : ∀ e ∈ sg, keys.contains e.1 = true → e.2.1.length = 3) (o : Obs) (ho : obsSig o = sg) :
    obsSig (transposeObs keys o) = sg.map fun e => if keys.contains e.1 then (e.1, tshape e.2.1, e.2.2) else e := by
  have hlo := obsSig_len o sg ho
  simp only [transposeObs, obsSig, List.map_map]
  apply List.ext_getElem
  · simp [hlo]
  · intro i h1 h2
    simp only [List.length_map] at h1 h2
    obtain ⟨hk, hsh, hlen⟩ := obsSig_getElem' o sg ho i h1 h2
    obtain ⟨_, _, hsz⟩ := hsg.2 sg[i] (List.getElem_mem h2)
    simp only [List.getElem_map, Function.comp, hk]
    by_cases hc : keys.contains sg[i].1 = true
    · obtain ⟨g1, g2⟩ := transposeHWC_sig3 o[i].2 (by rw [hsh]; exact h3 _ (List.getElem_mem h2) hc)
        (by rw [hlen, hsz, hsh])
      simp only [hc, if_true, Prod.mk.injEq, true_and]
      exact ⟨by rw [g1, hsh], by rw [g2, hsh, hsz]⟩
    · simp only [hc, Bool.false_eq_true, if_false]
      exact Prod.ext hk (Prod.ext hsh hlen)

theorem getKey_sig' (key : String) : ∀ (o : Obs) (sg : Sig), obsSig o = sg → ∀ e, sg.lookup key = some e →
    (getKey key o).shape = e.1 ∧ (getKey key o).data.length = e.2 := by
  intro o
  induction o with
  | nil => intro sg h e he; subst h; simp [obsSig] at he
  | cons hd ro ih =>
    intro sg h e he
    obtain ⟨k1, a⟩ := hd
    subst h
    simp only [obsSig, List.map_cons, List.lookup_cons] at he
    simp only [getKey, List.lookup_cons]
    cases hb : (key == k1) with
    | true =>
      rw [hb] at he
      simp only [Option.some.injEq] at he
      subst he
      simp
    | false =>
      rw [hb] at he
      exact ih _ rfl e he

theorem extractObs_sig' (key : String) (sg : Sig) (o : Obs) (ho : obsSig o = sg) (e : List Nat × Nat)
    (he : sg.lookup key = some e) : obsSig (extractObs key o) = [("", e)] := by
  obtain ⟨h1, h2⟩ := getKey_sig' key o sg ho e he
  simp [extractObs, obsSig, h1, h2]

/-! ### invariants of one wrapper -/

theorem WS_step_inv (sg sg' : Sig) (w : WS) (hw : WSInv sg w sg') (hsg : SigOK sg) (r : Rec)
    (ho : obsSig r.obs = sg) (ht : ∀ t, r.info.terminal = some t → obsSig t = sg)
    (hc : r.done = false → r.info.terminal = none) :
    WSInv sg (w.step r).1 sg' ∧ obsSig (w.step r).2.obs = sg' ∧
      (∀ t', (w.step r).2.info.terminal = some t' → obsSig t' = sg') := by
  cases w with
  | frameStack firsts bufs =>
    obtain ⟨n, hn, hsg', hb⟩ := hw
    subst hsg'
    have hout := fs_sig firsts n hn sg hsg bufs r.obs hb ho r.done r.info.terminal
    refine ⟨⟨n, hn, rfl, hout⟩, hout, ?_⟩
    intro t' ht'
    simp only [WS.step] at ht'
    cases hd : r.done with
    | false => simp [fsUpdate, hd, hc hd] at ht'
    | true =>
      cases hterm : r.info.terminal with
      | none => simp [fsUpdate, hterm] at ht'
      | some t =>
        have hst := ht t hterm
        have hnd : KeysNodup t := keysNodup_of_sig t sg hst hsg.1
        rw [hd, hterm, fsUpdate_terminal_alike firsts bufs r.obs t (ho.trans hst.symm) hnd] at ht'
        simp only [Option.some.injEq] at ht'
        subst ht'
        exact fs_sig firsts n hn sg hsg bufs t hb hst false none
  | transpose keys =>
    obtain ⟨h3, hsg'⟩ := hw
    subst hsg'
    refine ⟨⟨h3, rfl⟩, transposeObs_sig' keys sg hsg h3 r.obs ho, ?_⟩
    intro t' ht'
    simp only [WS.step] at ht'
    cases hd : r.done with
    | false => simp [hd, hc hd] at ht'
    | true =>
      cases hterm : r.info.terminal with
      | none => simp [hterm] at ht'
      | some t =>
        simp only [hd, hterm, if_true, Option.map_some, Option.some.injEq] at ht'
        subst ht'
        exact transposeObs_sig' keys sg hsg h3 t (ht t hterm)
  | extract key =>
    obtain ⟨e, he, hsg'⟩ := hw
    subst hsg'
    refine ⟨⟨e, he, rfl⟩, extractObs_sig' key sg r.obs ho e he, ?_⟩
    intro t' ht'
    simp only [WS.step] at ht'
    cases hterm : r.info.terminal with
    | none => simp [hterm] at ht'
    | some t =>
      simp only [hterm, Option.map_some, Option.some.injEq] at ht'
      subst ht'
      exact extractObs_sig' key sg t (ht t hterm) e he
  | monitor ret len =>
    have hw' : sg' = sg := hw
    subst hw'
    simp only [WS.step]
    split
    · exact ⟨rfl, ho, fun t' h' => ht t' h'⟩
    · exact ⟨rfl, ho, fun t' h' => ht t' h'⟩
  | checkNan =>
    have hw' : sg' = sg := hw
    subst hw'
    exact ⟨rfl, ho, fun t' h' => ht t' h'⟩

theorem WS_reset_inv (sg sg' : Sig) (w : WS) (hw : WSInv sg w sg') (hsg : SigOK sg) (o : Obs)
    (ho : obsSig o = sg) : WSInv sg (w.reset o).1 sg' ∧ obsSig (w.reset o).2 = sg' := by
  cases w with
  | frameStack firsts bufs =>
    obtain ⟨n, hn, hsg', hb⟩ := hw
    subst hsg'
    have hout := fsReset_sig firsts n hn sg hsg bufs o hb ho
    exact ⟨⟨n, hn, rfl, hout⟩, hout⟩
  | transpose keys =>
    obtain ⟨h3, hsg'⟩ := hw
    subst hsg'
    exact ⟨⟨h3, rfl⟩, transposeObs_sig' keys sg hsg h3 o ho⟩
  | extract key =>
    obtain ⟨e, he, hsg'⟩ := hw
    subst hsg'
    exact ⟨⟨e, he, rfl⟩, extractObs_sig' key sg o ho e he⟩
  | monitor ret len =>
    have hw' : sg' = sg := hw
    subst hw'
    exact ⟨rfl, ho⟩
  | checkNan =>
    have hw' : sg' = sg := hw
    subst hw'
    exact ⟨rfl, ho⟩

/-! ### the constructors establish the invariants -/

theorem eq_of_key_eq {β : Type} : ∀ (l : List (String × β)), (l.map (·.1)).Nodup → ∀ a ∈ l, ∀ b ∈ l,
    a.1 = b.1 → a = b := by
  intro l
  induction l with
  | nil => intro _ a ha; simp at ha
  | cons hd rest ih =>
    intro hnd a ha b hb hab
    simp only [List.map_cons, List.nodup_cons] at hnd
    rcases List.mem_cons.mp ha with h1 | h1 <;> rcases List.mem_cons.mp hb with h2 | h2
    · rw [h1, h2]
    · exfalso; apply hnd.1; rw [← h1, hab]; exact List.mem_map_of_mem (f := (·.1)) h2
    · exfalso; apply hnd.1; rw [← h2, ← hab]; exact List.mem_map_of_mem (f := (·.1)) h1
    · exact ih hnd.2 a h1 b h2 hab

theorem stackedShape_ne_nil (n : Nat) (first : Bool) (s : List Nat) (h : s ≠ []) : stackedShape n first s ≠ [] := by
  cases first with
  | true =>
    cases s with
    | nil => exact absurd rfl h
    | cons d ds => simp [stackedShape]
  | false =>
    rw [← List.dropLast_concat_getLast h]
    simp [stackedShape]

theorem spaceSig_keys (sp : Space) : (spaceSig sp).map (·.1) = sp.subs.map (·.1) := by
  simp [spaceSig, List.map_map, Function.comp_def]

theorem lookup_spaceSig (key : String) : ∀ (subs : List (String × Box)) (b : Box), subs.lookup key = some b →
    (subs.map fun kb => (kb.1, kb.2.shape, prod kb.2.shape)).lookup key = some (b.shape, prod b.shape) := by
  intro subs
  induction subs with
  | nil => intro b h; simp at h
  | cons hd rest ih =>
    intro b h
    obtain ⟨k1, b1⟩ := hd
    simp only [List.lookup_cons, List.map_cons] at h ⊢
    cases hb : (key == k1) with
    | true => rw [hb] at h; simp only [Option.some.injEq] at h; subst h; rfl
    | false => rw [hb] at h; exact ih b h

theorem mem_of_lookup {β : Type} (key : String) : ∀ (l : List (String × β)) (b : β), l.lookup key = some b →
    ∃ k, (k, b) ∈ l := by
  intro l
  induction l with
  | nil => intro b h; simp at h
  | cons hd rest ih =>
    intro b h
    obtain ⟨k1, b1⟩ := hd
    simp only [List.lookup_cons] at h
    cases hb : (key == k1) with
    | true => rw [hb] at h; simp only [Option.some.injEq] at h; subst h; exact ⟨k1, by simp⟩
    | false =>
      rw [hb] at h
      obtain ⟨k, hk⟩ := ih b h
      exact ⟨k, by simp [hk]⟩

theorem transposeBox_shape (b : Box) : (transposeBox b).shape = tshape b.shape := by
  obtain ⟨shape, low, high, dtype⟩ := b
  match shape with
  | [] => rfl
  | [_] => rfl
  | [_, _] => rfl
  | [_, _, _] => rfl
  | _ :: _ :: _ :: _ :: _ => rfl

theorem build_inv (cfg : WCfg) (sp sp' : Space) (w : WS) (hb : cfg.build sp = .ok (w, sp'))
    (hsg : SigOK (spaceSig sp)) : WSInv (spaceSig sp) w (spaceSig sp') ∧ SigOK (spaceSig sp') := by
  have hmem : ∀ kb ∈ sp.subs, kb.2.shape ≠ [] ∧ 0 < prod kb.2.shape := by
    intro kb hkb
    obtain ⟨h1, h2, _⟩ := hsg.2 (kb.1, kb.2.shape, prod kb.2.shape) (by
      simp only [spaceSig, List.mem_map]; exact ⟨kb, hkb, rfl⟩)
    exact ⟨h1, h2⟩
  have hnd : (sp.subs.map (·.1)).Nodup := by rw [← spaceSig_keys]; exact hsg.1
  cases cfg with
  | frameStack n spec =>
    simp only [WCfg.build] at hb
    split at hb
    · cases hb
    · rename_i hn0
      split at hb
      · cases hb
      · split at hb
        · cases hb
        · split at hb
          · cases hb
          · simp only [Except.ok.injEq, Prod.mk.injEq] at hb
            obtain ⟨hw, hsp'⟩ := hb
            subst hw hsp'
            have hn : 0 < n := Nat.pos_of_ne_zero hn0
            have hsig : spaceSig { sp with subs := sp.subs.map fun kb =>
                  (kb.1, stackedBox n (firstOf (sp.subs.map fun kb =>
                    (kb.1, computeFirst kb.2 ((orderFor? spec kb.1).getD .auto))) kb.1) kb.2) } =
                (spaceSig sp).map (fun e => (e.1, stackedShape n (firstOf (sp.subs.map fun kb =>
                    (kb.1, computeFirst kb.2 ((orderFor? spec kb.1).getD .auto))) e.1) e.2.1, n * e.2.2)) := by
              simp only [spaceSig, List.map_map]
              apply List.map_congr_left
              intro kb hkb
              simp only [Function.comp, stackedBox, Prod.mk.injEq, true_and]
              exact prod_stackedShape _ n kb.2.shape (hmem kb hkb).1
            refine ⟨⟨n, hn, hsig, ?_⟩, ?_⟩
            · rw [hsig]
              simp only [obsSig, spaceSig, List.map_map]
              apply List.map_congr_left
              intro kb hkb
              simp only [Function.comp, Arr.zeros, List.length_replicate, Prod.mk.injEq, true_and]
              exact prod_stackedShape _ n kb.2.shape (hmem kb hkb).1
            · constructor
              · rw [spaceSig_keys]; simpa [List.map_map, Function.comp_def] using hnd
              · intro e he
                simp only [spaceSig, List.map_map, List.mem_map, Function.comp] at he
                obtain ⟨kb, hkb, rfl⟩ := he
                simp only [stackedBox]
                refine ⟨stackedShape_ne_nil _ _ _ (hmem kb hkb).1, ?_, trivial⟩
                rw [prod_stackedShape _ n kb.2.shape (hmem kb hkb).1]
                exact Nat.mul_pos hn (hmem kb hkb).2
  | transpose skip =>
    simp only [WCfg.build] at hb
    split at hb
    · cases hb
    · split at hb
      · simp only [Except.ok.injEq, Prod.mk.injEq] at hb
        obtain ⟨hw, hsp'⟩ := hb
        subst hw hsp'
        exact ⟨⟨by intro e _ h; simp at h, by simp⟩, hsg⟩
      · split at hb
        · cases hb
        · simp only [Except.ok.injEq, Prod.mk.injEq] at hb
          obtain ⟨hw, hsp'⟩ := hb
          subst hw hsp'
          have h3 : ∀ kb ∈ sp.subs,
              ((sp.subs.filter fun kb => kb.2.isImage).map (·.1)).contains kb.1 = true → kb.2.shape.length = 3 := by
            intro kb hkb hc
            simp only [List.contains_iff_mem, List.mem_map, List.mem_filter] at hc
            obtain ⟨kb', ⟨hkb', himg⟩, hk⟩ := hc
            have := eq_of_key_eq sp.subs hnd kb' hkb' kb hkb hk
            subst this
            simp only [Box.isImage, Bool.and_eq_true, beq_iff_eq] at himg
            exact himg.1.1.1
          have hsig : spaceSig { sp with subs := sp.subs.map fun kb =>
                if ((sp.subs.filter fun kb => kb.2.isImage).map (·.1)).contains kb.1
                then (kb.1, transposeBox kb.2) else kb } =
              (spaceSig sp).map fun e =>
                if ((sp.subs.filter fun kb => kb.2.isImage).map (·.1)).contains e.1
                then (e.1, tshape e.2.1, e.2.2) else e := by
            simp only [spaceSig, List.map_map]
            apply List.map_congr_left
            intro kb _
            simp only [Function.comp]
            split
            · simp [transposeBox_shape, prod_tshape]
            · rfl
          refine ⟨⟨?_, hsig⟩, ?_⟩
          · intro e he hc
            simp only [spaceSig, List.mem_map] at he
            obtain ⟨kb, hkb, rfl⟩ := he
            exact h3 kb hkb hc
          · rw [hsig]
            constructor
            · have : ((spaceSig sp).map fun e =>
                  if ((sp.subs.filter fun kb => kb.2.isImage).map (·.1)).contains e.1
                  then (e.1, tshape e.2.1, e.2.2) else e).map (·.1) = (spaceSig sp).map (·.1) := by
                simp only [List.map_map]
                apply List.map_congr_left
                intro e _
                simp only [Function.comp]
                split <;> rfl
              rw [this]; exact hsg.1
            · intro e he
              simp only [List.mem_map] at he
              obtain ⟨e0, he0, rfl⟩ := he
              obtain ⟨g1, g2, g3⟩ := hsg.2 e0 he0
              split
              · exact ⟨tshape_ne_nil _ g1, by rw [prod_tshape]; exact g2, by rw [prod_tshape]; exact g3⟩
              · exact ⟨g1, g2, g3⟩
  | extract key =>
    simp only [WCfg.build] at hb
    split at hb
    · cases hb
    · split at hb
      · cases hb
      · rename_i b hlook
        simp only [Except.ok.injEq, Prod.mk.injEq] at hb
        obtain ⟨hw, hsp'⟩ := hb
        subst hw hsp'
        refine ⟨⟨(b.shape, prod b.shape), lookup_spaceSig key sp.subs b hlook, rfl⟩, ?_⟩
        obtain ⟨k, hk⟩ := mem_of_lookup key sp.subs b hlook
        constructor
        · simp [spaceSig]
        · intro e he
          simp only [spaceSig, List.map_cons, List.map_nil, List.mem_singleton] at he
          subst he
          exact ⟨(hmem (k, b) hk).1, (hmem (k, b) hk).2, rfl⟩
  | monitor =>
    simp only [WCfg.build, Except.ok.injEq, Prod.mk.injEq] at hb
    obtain ⟨hw, hsp'⟩ := hb
    subst hw hsp'
    exact ⟨rfl, hsg⟩
  | checkNan =>
    simp only [WCfg.build, Except.ok.injEq, Prod.mk.injEq] at hb
    obtain ⟨hw, hsp'⟩ := hb
    subst hw hsp'
    exact ⟨rfl, hsg⟩

/-! ### stacks of wrappers and histories -/

def StackInv : Sig → List WS → Sig → Prop
  | sg, [], sg' => sg' = sg
  | sg, w :: ws, sg' => ∃ mid, WSInv sg w mid ∧ SigOK mid ∧ StackInv mid ws sg'

theorem buildStack_inv (cfgs : List WCfg) : ∀ (sp sp' : Space) (ws : List WS),
    buildStack cfgs sp = .ok (ws, sp') → SigOK (spaceSig sp) → StackInv (spaceSig sp) ws (spaceSig sp') := by
  induction cfgs with
  | nil =>
    intro sp sp' ws hb _
    simp only [buildStack, Except.ok.injEq, Prod.mk.injEq] at hb
    obtain ⟨h1, h2⟩ := hb
    subst h1 h2
    rfl
  | cons c cs ih =>
    intro sp sp' ws hb hsg
    simp only [buildStack] at hb
    split at hb
    · cases hb
    · rename_i w mid hbuild
      split at hb
      · cases hb
      · rename_i ws' sp'' hrest
        simp only [Except.ok.injEq, Prod.mk.injEq] at hb
        obtain ⟨h1, h2⟩ := hb
        subst h1 h2
        obtain ⟨g1, g2⟩ := build_inv c sp mid w hbuild hsg
        exact ⟨spaceSig mid, g1, g2, ih mid _ ws' hrest g2⟩

theorem stackStep_inv (ws : List WS) : ∀ (sg sg' : Sig), StackInv sg ws sg' → SigOK sg → ∀ (r : Rec),
    obsSig r.obs = sg → (∀ t, r.info.terminal = some t → obsSig t = sg) →
    (r.done = false → r.info.terminal = none) →
      StackInv sg (stackStep ws r).1 sg' ∧ obsSig (stackStep ws r).2.obs = sg' ∧
        (∀ t', (stackStep ws r).2.info.terminal = some t' → obsSig t' = sg') := by
  induction ws with
  | nil =>
    intro sg sg' hinv _ r ho ht _
    have : sg' = sg := hinv
    subst this
    exact ⟨rfl, ho, ht⟩
  | cons w ws ih =>
    intro sg sg' hinv hsg r ho ht hc
    obtain ⟨mid, hw, hmid, hrest⟩ := hinv
    obtain ⟨g1, g2, g3⟩ := WS_step_inv sg mid w hw hsg r ho ht hc
    have hc' : (w.step r).2.done = false → (w.step r).2.info.terminal = none := by
      intro hd
      rw [(WS_step_passthrough w r).2.1] at hd
      exact WS_step_terminal_none w r (hc hd)
    obtain ⟨k1, k2, k3⟩ := ih mid sg' hrest hmid (w.step r).2 g2 g3 hc'
    simp only [stackStep]
    exact ⟨⟨mid, g1, hmid, k1⟩, k2, k3⟩

theorem stackReset_inv (ws : List WS) : ∀ (sg sg' : Sig), StackInv sg ws sg' → SigOK sg → ∀ (o : Obs),
    obsSig o = sg → StackInv sg (stackReset ws o).1 sg' ∧ obsSig (stackReset ws o).2 = sg' := by
  induction ws with
  | nil =>
    intro sg sg' hinv _ o ho
    have : sg' = sg := hinv
    subst this
    exact ⟨rfl, ho⟩
  | cons w ws ih =>
    intro sg sg' hinv hsg o ho
    obtain ⟨mid, hw, hmid, hrest⟩ := hinv
    obtain ⟨g1, g2⟩ := WS_reset_inv sg mid w hw hsg o ho
    obtain ⟨k1, k2⟩ := ih mid sg' hrest hmid (w.reset o).2 g2
    simp only [stackReset]
    exact ⟨⟨mid, g1, hmid, k1⟩, k2⟩

theorem stackOutputs_sig (ops : List Op) : ∀ (sg sg' : Sig) (ws : List WS), StackInv sg ws sg' → SigOK sg →
    (∀ op ∈ ops, match op with
      | .reset o => obsSig o = sg
      | .step r => obsSig r.obs = sg ∧ (∀ t, r.info.terminal = some t → obsSig t = sg) ∧
          (r.done = false → r.info.terminal = none)) →
    ∀ o ∈ stackOutputs ws ops, obsSig o = sg' := by
  induction ops with
  | nil => intro _ _ _ _ _ _ o ho; simp [stackOutputs] at ho
  | cons op rest ih =>
    intro sg sg' ws hinv hsg hops o ho
    have hrest : ∀ op' ∈ rest, _ := fun op' h => hops op' (List.mem_cons_of_mem _ h)
    cases op with
    | reset o0 =>
      have h0 := hops (.reset o0) (by simp)
      obtain ⟨g1, g2⟩ := stackReset_inv ws sg sg' hinv hsg o0 h0
      simp only [stackOutputs, List.mem_cons] at ho
      rcases ho with h | h
      · rw [h]; exact g2
      · exact ih sg sg' _ g1 hsg hrest o h
    | step r =>
      obtain ⟨h1, h2, h3⟩ := hops (.step r) (by simp)
      obtain ⟨g1, g2, g3⟩ := stackStep_inv ws sg sg' hinv hsg r h1 h2 h3
      simp only [stackOutputs, List.mem_cons, List.mem_append, Option.mem_toList] at ho
      rcases ho with h | h | h
      · rw [h]; exact g2
      · exact g3 o h
      · exact ih sg sg' _ g1 hsg hrest o h

/-! ### `concatFrames` is `np.concatenate` (index characterisation) -/

theorem getD_flatMap_list {α : Type} (C : Nat) (g : α → List Int) : ∀ (fs : List α) (_hg : ∀ f ∈ fs, (g f).length = C)
    (i c : Nat) (hi : i < fs.length) (_hc : c < C),
    (fs.flatMap g).getD (i * C + c) 0 = (g fs[i]).getD c 0 := by
  intro fs
  induction fs with
  | nil => intro _ i c hi; simp at hi
  | cons f rest ih =>
    intro hg i c hi hc
    have hf : (g f).length = C := hg f (by simp)
    simp only [List.flatMap_cons]
    cases i with
    | zero =>
      simp only [Nat.zero_mul, Nat.zero_add, List.getElem_cons_zero, List.getD_eq_getElem?_getD]
      rw [List.getElem?_append_left (by omega)]
    | succ j =>
      have hidx : (j + 1) * C + c = (g f).length + (j * C + c) := by rw [hf, Nat.succ_mul]; omega
      simp only [List.getElem_cons_succ, List.getD_eq_getElem?_getD] at *
      rw [hidx, List.getElem?_append_right (by omega), Nat.add_sub_cancel_left]
      exact ih (fun f' hf' => hg f' (by simp [hf'])) j c (by simpa using hi) hc

/-- stacking on the first axis: in C order the frames' data one after the other -/
theorem concatFrames_first_data (shape : List Nat) (hpos : 0 < prod shape) (fs : List Arr)
    (hfs : ∀ f ∈ fs, FrameOK shape f) :
    (concatFrames true shape fs).data = fs.flatMap (·.data) := by
  have hk : rowLen true (Arr.zeros shape) = prod shape := kOf_first shape
  have hz : (Arr.zeros shape).data.length = prod shape := by simp [Arr.zeros]
  simp only [concatFrames, hk, hz, Nat.div_self hpos, List.range_one, List.flatMap_cons, List.flatMap_nil,
    List.append_nil]
  rw [List.flatMap_def, List.flatMap_def]
  congr 1
  apply List.map_congr_left
  intro f hf
  simp only [row, Nat.zero_mul, List.drop_zero]
  exact List.take_of_length_le (by rw [(hfs f hf).2]; exact Nat.le_refl _)

/-- stacking on the last axis: entry `c` of row `r` of frame `i` lands at column `i*C + c` of row `r` -/
theorem concatFrames_last_index (shape : List Nat) (hpos : 0 < prod shape) (fs : List Arr)
    (hfs : ∀ f ∈ fs, FrameOK shape f) (r i c : Nat) (hr : r < prod shape / lastDim shape) (hi : i < fs.length)
    (hc : c < lastDim shape) :
    (concatFrames false shape fs).data.getD ((r * fs.length + i) * lastDim shape + c) 0 =
      fs[i].data.getD (r * lastDim shape + c) 0 := by
  obtain ⟨hk, hP⟩ := geo false shape hpos
  rw [kOf_last] at hk hP
  simp only [mOf, kOf_last] at hP
  have hk' : rowLen false (Arr.zeros shape) = lastDim shape := kOf_last shape
  have hz : (Arr.zeros shape).data.length = prod shape := by simp [Arr.zeros]
  have hrow : ∀ f ∈ fs, ∀ r', r' < prod shape / lastDim shape → (row (lastDim shape) r' f.data).length = lastDim shape := by
    intro f hf r' hr'
    apply row_length
    rw [(hfs f hf).2]
    conv => rhs; rw [hP]
    exact Nat.mul_le_mul_right _ hr'
  simp only [concatFrames, hk', hz]
  have hidx : (r * fs.length + i) * lastDim shape + c = r * (fs.length * lastDim shape) + (i * lastDim shape + c) := by
    rw [Nat.add_mul, Nat.mul_assoc, Nat.add_assoc]
  have hic : i * lastDim shape + c < fs.length * lastDim shape := by
    have : (i + 1) * lastDim shape ≤ fs.length * lastDim shape := Nat.mul_le_mul_right _ hi
    rw [Nat.succ_mul] at this
    omega
  rw [hidx, getD_flatMap_uniform (fs.length * lastDim shape) _ _ ?_ r _ hr hic]
  · rw [getD_flatMap_list (lastDim shape) (fun f : Arr => row (lastDim shape) r f.data) fs
      (fun f hf => hrow f hf r hr) i c hi hc]
    exact getD_row _ _ _ _ hc
  · intro r' hr'
    rw [List.flatMap_def]
    rw [flatten_length_uniform (lastDim shape)]
    · simp
    · intro x hx
      obtain ⟨f, hf, rfl⟩ := List.mem_map.mp hx
      exact hrow f hf r' hr'

/-! ### Dict observations over whole histories -/

theorem mem_getKey (k : String) : ∀ (o : Obs), k ∈ o.map (·.1) → (k, getKey k o) ∈ o := by
  intro o
  induction o with
  | nil => intro h; simp at h
  | cons hd rest ih =>
    intro h
    obtain ⟨k1, a⟩ := hd
    simp only [getKey, List.lookup_cons]
    cases hb : (k == k1) with
    | true =>
      have : k = k1 := by simpa using hb
      subst this
      simp
    | false =>
      have hne : k ≠ k1 := by simpa using hb
      simp only [List.map_cons, List.mem_cons] at h
      rcases h with h | h
      · exact absurd h hne
      · exact List.mem_cons_of_mem _ (ih h)

theorem fsRunObs_keywise (firsts : List (String × Bool)) (k : String) (ops : List Op) :
    ∀ (bufs : Obs), (∀ op ∈ ops, KeysNodup op.obs ∧ k ∈ op.obs.map (·.1)) →
      getKey k (fsRunObs firsts bufs ops) = fsRun (firstOf firsts k) (getKey k bufs) (ops.map (Op.proj k)) := by
  induction ops with
  | nil => intro bufs _; rfl
  | cons op rest ih =>
    intro bufs h
    have hrest : ∀ op' ∈ rest, _ := fun op' h' => h op' (List.mem_cons_of_mem _ h')
    obtain ⟨hnd, hk⟩ := h op (by simp)
    cases op with
    | reset o =>
      simp only [Op.obs] at hnd hk
      simp only [fsRunObs, List.map_cons, Op.proj, fsRun]
      rw [ih _ hrest, fsReset_keywise firsts bufs o hnd (k, getKey k o) (mem_getKey k o hk)]
    | step r =>
      simp only [Op.obs] at hnd hk
      simp only [fsRunObs, List.map_cons, Op.proj, fsRun]
      rw [ih _ hrest, fsUpdate_keywise firsts bufs r.obs r.done r.info.terminal hnd (k, getKey k r.obs)
        (mem_getKey k r.obs hk)]

theorem sigOK_of_spaceOK (sp : Space) (h : SpaceOK sp) : SigOK (spaceSig sp) := by
  constructor
  · rw [spaceSig_keys]; exact h.1
  · intro e he
    simp only [spaceSig, List.mem_map] at he
    obtain ⟨kb, hkb, rfl⟩ := he
    exact ⟨(h.2 kb hkb).1, (h.2 kb hkb).2, rfl⟩

theorem obsHasShape_iff (sp : Space) (o : Obs) : obsHasShape sp o = true ↔ obsSig o = spaceSig sp := by
  simp only [obsHasShape, Bool.and_eq_true, beq_iff_eq, List.all_eq_true, Arr.wf, shapesOfObs, shapesOfSpace,
    obsSig, spaceSig]
  generalize sp.subs = subs
  induction o generalizing subs with
  | nil => cases subs <;> simp
  | cons hd rest ih =>
    cases subs with
    | nil => simp
    | cons kb subs' =>
      have := ih subs'
      simp only [List.map_cons, List.cons.injEq, Prod.mk.injEq, List.mem_cons, forall_eq_or_imp] at this ⊢
      constructor
      · rintro ⟨⟨⟨h1, h2⟩, h3⟩, h4, h5⟩
        exact ⟨⟨h1, h2, by rw [h4, h2]⟩, this.mp ⟨h3, h5⟩⟩
      · rintro ⟨⟨h1, h2, h3⟩, h4⟩
        obtain ⟨g1, g2⟩ := this.mpr h4
        exact ⟨⟨⟨h1, h2⟩, g1⟩, by rw [h3, h2], g2⟩

/-! ### where the entries of returned arrays come from -/

theorem mem_roll (c : Nat) (l : List Int) (x : Int) (h : x ∈ roll c l) : x ∈ l := by
  simp only [roll, List.mem_append] at h
  rcases h with h | h
  · exact List.mem_of_mem_drop h
  · exact List.mem_of_mem_take h

theorem mem_sliceTo (c : Nat) (l : List Int) (x : Int) (h : x ∈ sliceTo c l) : x ∈ l := by
  unfold sliceTo at h
  split at h
  · simp at h
  · exact List.mem_of_mem_take h

theorem mem_updateRow_fst (b o : List Int) (d : Bool) (t : Option (List Int)) (x : Int)
    (h : x ∈ (updateRow b o d t).1) : x ∈ b ∨ x = 0 ∨ x ∈ o := by
  simp only [updateRow, assignTail, List.mem_append] at h
  rcases h with h | h
  · have := mem_sliceTo _ _ _ h
    cases d with
    | false => exact Or.inl (mem_roll _ _ _ (by simpa using this))
    | true =>
      simp only [if_true, List.mem_replicate] at this
      exact Or.inr (Or.inl this.2)
  · exact Or.inr (Or.inr h)

theorem mem_updateArr_fst (first : Bool) (buf o : Arr) (d : Bool) (t : Option Arr) (x : Int)
    (h : x ∈ (updateArr first buf o d t).1.data) : x ∈ buf.data ∨ x = 0 ∨ x ∈ o.data := by
  simp only [updateArr, List.mem_flatMap] at h
  obtain ⟨r, _, hx⟩ := h
  rcases mem_updateRow_fst _ _ _ _ _ hx with h1 | h1 | h1
  · exact Or.inl (mem_row _ _ _ _ h1)
  · exact Or.inr (Or.inl h1)
  · exact Or.inr (Or.inr (mem_row _ _ _ _ h1))

theorem mem_resetArr (first : Bool) (buf o : Arr) (x : Int) (h : x ∈ (resetArr first buf o).data) :
    x = 0 ∨ x ∈ o.data := by
  simp only [resetArr, List.mem_flatMap, resetRow, assignTail, List.mem_append] at h
  obtain ⟨r, _, hx | hx⟩ := h
  · have := mem_sliceTo _ _ _ hx
    simp only [List.mem_replicate] at this
    exact Or.inl this.2
  · exact Or.inr (mem_row _ _ _ _ hx)

theorem mem_transposeHWC (a : Arr) (x : Int) (h : x ∈ (transposeHWC a).data) : x = 0 ∨ x ∈ a.data := by
  unfold transposeHWC at h
  split at h
  · simp only [List.mem_flatMap, List.mem_map] at h
    obtain ⟨ch, _, p, _, rfl⟩ := h
    simp only [List.getD_eq_getElem?_getD]
    cases hget : a.data[p * _ + ch]? with
    | none => left; simp
    | some v => right; simp only [Option.getD_some]; exact List.mem_of_getElem? hget
  · exact Or.inr h

/-! ### per-key scalar bounds along a stack of wrappers -/

abbrev BSig := List (String × Int × Int)

/-- same keys as `bs` (position by position) and every entry of key `i` inside `[bs[i].lo, bs[i].hi]` -/
def ObsB (bs : BSig) (o : Obs) : Prop :=
  o.length = bs.length ∧ ∀ i (h1 : i < o.length) (h2 : i < bs.length),
    o[i].1 = bs[i].1 ∧ ∀ x ∈ o[i].2.data, bs[i].2.1 ≤ x ∧ x ≤ bs[i].2.2

def ZeroIn (bs : BSig) : Prop := ∀ e ∈ bs, e.2.1 ≤ 0 ∧ 0 ≤ e.2.2

theorem obsB_keys (bs : BSig) (o : Obs) (h : ObsB bs o) : o.map (·.1) = bs.map (·.1) := by
  apply List.ext_getElem
  · simp [h.1]
  · intro i h1 h2
    simp only [List.length_map] at h1 h2
    simp only [List.getElem_map]
    exact (h.2 i h1 h2).1

theorem obsB_nodup (bs : BSig) (o : Obs) (h : ObsB bs o) (hnd : (bs.map (·.1)).Nodup) : KeysNodup o := by
  unfold KeysNodup; rw [obsB_keys bs o h]; exact hnd

theorem fs_bounds (firsts : List (String × Bool)) (bs : BSig) (hz : ZeroIn bs) (hnd : (bs.map (·.1)).Nodup)
    (bufs o : Obs) (hb : ObsB bs bufs) (ho : ObsB bs o) (d : Bool) (x : Option Obs) :
    ObsB bs (fsUpdate firsts bufs o d x).1 := by
  have hndb := obsB_nodup bs bufs hb hnd
  refine ⟨by simp [fsUpdate, ho.1], ?_⟩
  intro i h1 h2
  simp only [fsUpdate, List.length_map] at h1
  obtain ⟨hk, hin⟩ := ho.2 i h1 h2
  obtain ⟨hkb, hinb⟩ := hb.2 i (by rw [hb.1]; exact h2) h2
  have hg : getKey o[i].1 bufs = (bufs[i]'(by rw [hb.1]; exact h2)).2 := by
    rw [hk, ← hkb]; exact getKey_of_mem bufs hndb _ (List.getElem_mem _)
  simp only [fsUpdate, List.getElem_map]
  refine ⟨hk, ?_⟩
  intro y hy
  rcases mem_updateArr_fst _ _ _ _ _ _ hy with h | h | h
  · rw [hg] at h; exact hinb y h
  · subst h; exact hz bs[i] (List.getElem_mem h2)
  · exact hin y h

theorem fsReset_bounds (firsts : List (String × Bool)) (bs : BSig) (hz : ZeroIn bs)
    (bufs o : Obs) (ho : ObsB bs o) : ObsB bs (fsReset firsts bufs o) := by
  refine ⟨by simp [fsReset, ho.1], ?_⟩
  intro i h1 h2
  simp only [fsReset, List.length_map] at h1
  obtain ⟨hk, hin⟩ := ho.2 i h1 h2
  simp only [fsReset, List.getElem_map]
  refine ⟨hk, ?_⟩
  intro y hy
  rcases mem_resetArr _ _ _ _ hy with h | h
  · subst h; exact hz bs[i] (List.getElem_mem h2)
  · exact hin y h

theorem transposeObs_bounds (keys : List String) (bs : BSig) (hz : ZeroIn bs) (o : Obs) (ho : ObsB bs o) :
    ObsB bs (transposeObs keys o) := by
  refine ⟨by simp [transposeObs, ho.1], ?_⟩
  intro i h1 h2
  simp only [transposeObs, List.length_map] at h1
  obtain ⟨hk, hin⟩ := ho.2 i h1 h2
  simp only [transposeObs, List.getElem_map]
  split
  · refine ⟨hk, ?_⟩
    intro y hy
    rcases mem_transposeHWC _ _ hy with h | h
    · subst h; exact hz bs[i] (List.getElem_mem h2)
    · exact hin y h
  · exact ⟨hk, hin⟩

theorem getKey_bounds (key : String) : ∀ (o : Obs) (bs : BSig), ObsB bs o → ∀ e, bs.lookup key = some e →
    ∀ x ∈ (getKey key o).data, e.1 ≤ x ∧ x ≤ e.2 := by
  intro o
  induction o with
  | nil =>
    intro bs h e he
    have : bs = [] := List.eq_nil_of_length_eq_zero (by simpa using h.1.symm)
    subst this
    simp at he
  | cons hd ro ih =>
    intro bs h e he
    cases bs with
    | nil => simp at he
    | cons b0 rb =>
      obtain ⟨k1, a⟩ := hd
      obtain ⟨k2, lo, hi⟩ := b0
      have h0 := h.2 0 (by simp) (by simp)
      simp only [List.getElem_cons_zero] at h0
      obtain ⟨hk, hin⟩ := h0
      subst hk
      simp only [List.lookup_cons] at he
      simp only [getKey, List.lookup_cons]
      cases hb : (key == k1) with
      | true =>
        rw [hb] at he
        simp only [Option.some.injEq] at he
        subst he
        exact hin
      | false =>
        rw [hb] at he
        have hrest : ObsB rb ro := by
          refine ⟨by simpa using h.1, ?_⟩
          intro i h1 h2
          have := h.2 (i + 1) (by simpa using h1) (by simpa using h2)
          simpa using this
        exact ih rb hrest e he

theorem extractObs_bounds (key : String) (bs : BSig) (o : Obs) (ho : ObsB bs o) (e : Int × Int)
    (he : bs.lookup key = some e) : ObsB [("", e)] (extractObs key o) := by
  refine ⟨rfl, ?_⟩
  intro i h1 _
  have : i = 0 := by simpa [extractObs] using h1
  subst this
  exact ⟨rfl, getKey_bounds key o bs ho e he⟩

def WSInvB (bs : BSig) (w : WS) (bs' : BSig) : Prop :=
  match w with
  | .frameStack _ bufs => bs' = bs ∧ ObsB bs bufs
  | .transpose _ => bs' = bs
  | .extract key => ∃ e, bs.lookup key = some e ∧ bs' = [("", e)]
  | .monitor _ _ => bs' = bs
  | .checkNan => bs' = bs

theorem WS_step_invB (bs bs' : BSig) (w : WS) (hw : WSInvB bs w bs') (hz : ZeroIn bs)
    (hnd : (bs.map (·.1)).Nodup) (r : Rec) (ho : ObsB bs r.obs) (ht : ∀ t, r.info.terminal = some t → ObsB bs t)
    (hs : ∀ t, r.info.terminal = some t → obsSig r.obs = obsSig t)
    (hc : r.done = false → r.info.terminal = none) :
    WSInvB bs (w.step r).1 bs' ∧ ObsB bs' (w.step r).2.obs ∧
      (∀ t', (w.step r).2.info.terminal = some t' → ObsB bs' t') := by
  cases w with
  | frameStack firsts bufs =>
    obtain ⟨hbs, hb⟩ := hw
    subst hbs
    have hout := fs_bounds firsts bs' hz hnd bufs r.obs hb ho r.done r.info.terminal
    refine ⟨⟨rfl, hout⟩, hout, ?_⟩
    intro t' ht'
    simp only [WS.step] at ht'
    cases hd : r.done with
    | false => simp [fsUpdate, hd, hc hd] at ht'
    | true =>
      cases hterm : r.info.terminal with
      | none => simp [fsUpdate, hterm] at ht'
      | some t =>
        have hbt := ht t hterm
        rw [hd, hterm, fsUpdate_terminal_alike firsts bufs r.obs t (hs t hterm) (obsB_nodup bs' t hbt hnd)] at ht'
        simp only [Option.some.injEq] at ht'
        subst ht'
        exact fs_bounds firsts bs' hz hnd bufs t hb hbt false none
  | transpose keys =>
    have hbs : bs' = bs := hw
    subst hbs
    refine ⟨rfl, transposeObs_bounds keys bs' hz r.obs ho, ?_⟩
    intro t' ht'
    simp only [WS.step] at ht'
    cases hd : r.done with
    | false => simp [hd, hc hd] at ht'
    | true =>
      cases hterm : r.info.terminal with
      | none => simp [hterm] at ht'
      | some t =>
        simp only [hd, hterm, if_true, Option.map_some, Option.some.injEq] at ht'
        subst ht'
        exact transposeObs_bounds keys bs' hz t (ht t hterm)
  | extract key =>
    obtain ⟨e, he, hbs⟩ := hw
    subst hbs
    refine ⟨⟨e, he, rfl⟩, extractObs_bounds key bs r.obs ho e he, ?_⟩
    intro t' ht'
    simp only [WS.step] at ht'
    cases hterm : r.info.terminal with
    | none => simp [hterm] at ht'
    | some t =>
      simp only [hterm, Option.map_some, Option.some.injEq] at ht'
      subst ht'
      exact extractObs_bounds key bs t (ht t hterm) e he
  | monitor ret len =>
    have hbs : bs' = bs := hw
    subst hbs
    simp only [WS.step]
    split
    · exact ⟨rfl, ho, fun t' h' => ht t' h'⟩
    · exact ⟨rfl, ho, fun t' h' => ht t' h'⟩
  | checkNan =>
    have hbs : bs' = bs := hw
    subst hbs
    exact ⟨rfl, ho, fun t' h' => ht t' h'⟩

theorem WS_reset_invB (bs bs' : BSig) (w : WS) (hw : WSInvB bs w bs') (hz : ZeroIn bs) (o : Obs)
    (ho : ObsB bs o) : WSInvB bs (w.reset o).1 bs' ∧ ObsB bs' (w.reset o).2 := by
  cases w with
  | frameStack firsts bufs =>
    obtain ⟨hbs, _⟩ := hw
    subst hbs
    have hout := fsReset_bounds firsts bs' hz bufs o ho
    exact ⟨⟨rfl, hout⟩, hout⟩
  | transpose keys =>
    have hbs : bs' = bs := hw
    subst hbs
    exact ⟨rfl, transposeObs_bounds keys bs' hz o ho⟩
  | extract key =>
    obtain ⟨e, he, hbs⟩ := hw
    subst hbs
    exact ⟨⟨e, he, rfl⟩, extractObs_bounds key bs o ho e he⟩
  | monitor ret len =>
    have hbs : bs' = bs := hw
    subst hbs
    exact ⟨rfl, ho⟩
  | checkNan =>
    have hbs : bs' = bs := hw
    subst hbs
    exact ⟨rfl, ho⟩

/-- the space's boxes have the scalar bounds listed in `bs` (position by position) -/
def SpaceB (sp : Space) (bs : BSig) : Prop :=
  sp.subs.length = bs.length ∧ ∀ i (h1 : i < sp.subs.length) (h2 : i < bs.length),
    sp.subs[i].1 = bs[i].1 ∧ sp.subs[i].2.low = List.replicate (prod sp.subs[i].2.shape) bs[i].2.1 ∧
      sp.subs[i].2.high = List.replicate (prod sp.subs[i].2.shape) bs[i].2.2

theorem spaceB_keys (sp : Space) (bs : BSig) (h : SpaceB sp bs) : bs.map (·.1) = sp.subs.map (·.1) := by
  apply List.ext_getElem
  · simp [h.1]
  · intro i h1 h2
    simp only [List.length_map] at h1 h2
    simp only [List.getElem_map]
    exact (h.2 i h2 h1).1.symm

theorem withinBounds_replicate_mem (N : Nat) (lo hi : Int) (data : List Int)
    (h : withinBounds (List.replicate N lo) (List.replicate N hi) data = true) :
    data.length = N ∧ ∀ x ∈ data, lo ≤ x ∧ x ≤ hi := by
  simp only [withinBounds, List.length_replicate, Bool.and_eq_true, beq_iff_eq, List.all_eq_true] at h
  obtain ⟨⟨hl, _⟩, hall⟩ := h
  refine ⟨hl, ?_⟩
  intro x hx
  obtain ⟨j, hj, rfl⟩ := List.getElem_of_mem hx
  have hmem : (data[j], (lo, hi)) ∈ List.zip data (List.zip (List.replicate N lo) (List.replicate N hi)) := by
    rw [List.mem_iff_getElem]
    refine ⟨j, by simp [hl]; omega, ?_⟩
    simp
  have := hall _ hmem
  simpa using this

theorem contains_of_sig_bounds (sp : Space) (bs : BSig) (o : Obs) (hs : obsSig o = spaceSig sp)
    (hB : SpaceB sp bs) (ho : ObsB bs o) : sp.contains o = true := by
  have hlen : o.length = sp.subs.length := by simpa [spaceSig] using obsSig_len o _ hs
  simp only [Space.contains, Bool.and_eq_true, beq_iff_eq, List.all_eq_true]
  constructor
  · have := congrArg (List.map (·.1)) hs
    simpa [obsSig, spaceSig, List.map_map, Function.comp_def] using this
  · intro p hp
    obtain ⟨i, hi, rfl⟩ := List.getElem_of_mem hp
    simp only [List.length_zip] at hi
    have h1 : i < sp.subs.length := by omega
    have h2 : i < o.length := by omega
    have h3 : i < bs.length := by rw [← hB.1]; exact h1
    simp only [List.getElem_zip]
    obtain ⟨_, hsh, hl⟩ := obsSig_getElem' o _ hs i h2 (by simpa [spaceSig] using h1)
    simp only [spaceSig, List.getElem_map] at hsh hl
    obtain ⟨_, hlow, hhigh⟩ := hB.2 i h1 h3
    obtain ⟨_, hin⟩ := ho.2 i h2 h3
    simp only [Box.contains, Bool.and_eq_true, beq_iff_eq]
    refine ⟨hsh, ?_⟩
    rw [hlow, hhigh]
    exact withinBounds_replicate _ _ _ _ hl hin

theorem obsB_of_contains (sp : Space) (bs : BSig) (o : Obs) (hB : SpaceB sp bs) (hc : sp.contains o = true) :
    ObsB bs o := by
  simp only [Space.contains, Bool.and_eq_true, beq_iff_eq, List.all_eq_true] at hc
  obtain ⟨hkeys, hall⟩ := hc
  have hlen : o.length = sp.subs.length := by simpa using congrArg List.length hkeys
  refine ⟨by rw [hlen, hB.1], ?_⟩
  intro i h1 h2
  have h3 : i < sp.subs.length := by rw [hB.1]; exact h2
  obtain ⟨hk, hlow, hhigh⟩ := hB.2 i h3 h2
  have hki : o[i].1 = sp.subs[i].1 := by
    have := congrArg (fun l => l[i]?) hkeys
    simpa [h1, h3] using this
  refine ⟨hki.trans hk, ?_⟩
  have hmem : (sp.subs[i], o[i]) ∈ List.zip sp.subs o := by
    rw [List.mem_iff_getElem]
    exact ⟨i, by simp; omega, by simp⟩
  have := hall _ hmem
  simp only [Box.contains, Bool.and_eq_true, beq_iff_eq] at this
  rw [hlow, hhigh] at this
  exact (withinBounds_replicate_mem _ _ _ _ this.2).2

theorem lookup_spaceB (key : String) : ∀ (subs : List (String × Box)) (bs : BSig),
    subs.length = bs.length →
    (∀ i (h1 : i < subs.length) (h2 : i < bs.length), subs[i].1 = bs[i].1 ∧
      subs[i].2.low = List.replicate (prod subs[i].2.shape) bs[i].2.1 ∧
      subs[i].2.high = List.replicate (prod subs[i].2.shape) bs[i].2.2) →
    ∀ b, subs.lookup key = some b → ∃ e, bs.lookup key = some e ∧
      b.low = List.replicate (prod b.shape) e.1 ∧ b.high = List.replicate (prod b.shape) e.2 := by
  intro subs
  induction subs with
  | nil => intro bs _ _ b h; simp at h
  | cons hd rest ih =>
    intro bs hlen hall b h
    cases bs with
    | nil => simp at hlen
    | cons e0 rb =>
      obtain ⟨k1, b1⟩ := hd
      obtain ⟨k2, lo, hi⟩ := e0
      have h0 := hall 0 (by simp) (by simp)
      simp only [List.getElem_cons_zero] at h0
      obtain ⟨hk, hlow, hhigh⟩ := h0
      subst hk
      simp only [List.lookup_cons] at h ⊢
      cases hb : (key == k1) with
      | true =>
        rw [hb] at h
        simp only [Option.some.injEq] at h
        subst h
        exact ⟨(lo, hi), rfl, hlow, hhigh⟩
      | false =>
        rw [hb] at h
        refine ih rb (by simpa using hlen) ?_ b h
        intro i h1 h2
        have := hall (i + 1) (by simpa using h1) (by simpa using h2)
        simpa using this

theorem mem_of_lookup_b (key : String) : ∀ (bs : BSig) (e : Int × Int), bs.lookup key = some e → ∃ k, (k, e) ∈ bs :=
  fun bs e h => mem_of_lookup key bs e h

theorem replicate_all_eq (P : Nat) (hP : 0 < P) (v w : Int) (h : (List.replicate P v).all (· == w) = true) : v = w := by
  cases P with
  | zero => omega
  | succ P => simp [List.replicate_succ] at h; exact h.1

theorem build_invB (cfg : WCfg) (sp sp' : Space) (w : WS) (hb : cfg.build sp = .ok (w, sp'))
    (hsg : SigOK (spaceSig sp)) (bs : BSig) (hB : SpaceB sp bs) (hz : ZeroIn bs) :
    ∃ bs', WSInvB bs w bs' ∧ SpaceB sp' bs' ∧ ZeroIn bs' := by
  have hmem : ∀ kb ∈ sp.subs, kb.2.shape ≠ [] ∧ 0 < prod kb.2.shape := by
    intro kb hkb
    obtain ⟨h1, h2, _⟩ := hsg.2 (kb.1, kb.2.shape, prod kb.2.shape) (by
      simp only [spaceSig, List.mem_map]; exact ⟨kb, hkb, rfl⟩)
    exact ⟨h1, h2⟩
  have hnd : (sp.subs.map (·.1)).Nodup := by rw [← spaceSig_keys]; exact hsg.1
  cases cfg with
  | frameStack n spec =>
    simp only [WCfg.build] at hb
    split at hb
    · cases hb
    · split at hb
      · cases hb
      · split at hb
        · cases hb
        · split at hb
          · cases hb
          · simp only [Except.ok.injEq, Prod.mk.injEq] at hb
            obtain ⟨hw, hsp'⟩ := hb
            subst hw hsp'
            refine ⟨bs, ⟨rfl, ?_⟩, ?_, hz⟩
            · refine ⟨by simp [hB.1], ?_⟩
              intro i h1 h2
              simp only [List.length_map] at h1
              simp only [List.getElem_map]
              refine ⟨(hB.2 i h1 h2).1, ?_⟩
              intro x hx
              simp only [Arr.zeros, List.mem_replicate] at hx
              rw [hx.2]
              exact hz bs[i] (List.getElem_mem h2)
            · refine ⟨by simp [hB.1], ?_⟩
              intro i h1 h2
              simp only [List.length_map] at h1
              obtain ⟨hk, hlow, hhigh⟩ := hB.2 i h1 h2
              obtain ⟨hne, hpos⟩ := hmem sp.subs[i] (List.getElem_mem h1)
              simp only [List.getElem_map, stackedBox]
              refine ⟨hk, ?_, ?_⟩
              · rw [hlow, tileAxis_replicate n _ _ hpos, prod_stackedShape _ n _ hne]
              · rw [hhigh, tileAxis_replicate n _ _ hpos, prod_stackedShape _ n _ hne]
  | transpose skip =>
    simp only [WCfg.build] at hb
    split at hb
    · cases hb
    · split at hb
      · simp only [Except.ok.injEq, Prod.mk.injEq] at hb
        obtain ⟨hw, hsp'⟩ := hb
        subst hw hsp'
        exact ⟨bs, rfl, hB, hz⟩
      · split at hb
        · cases hb
        · simp only [Except.ok.injEq, Prod.mk.injEq] at hb
          obtain ⟨hw, hsp'⟩ := hb
          subst hw hsp'
          refine ⟨bs, rfl, ?_, hz⟩
          refine ⟨by simp [hB.1], ?_⟩
          intro i h1 h2
          simp only [List.length_map] at h1
          obtain ⟨hk, hlow, hhigh⟩ := hB.2 i h1 h2
          obtain ⟨hne, hpos⟩ := hmem sp.subs[i] (List.getElem_mem h1)
          simp only [List.getElem_map]
          split
          · rename_i hc
            simp only [List.contains_iff_mem, List.mem_map, List.mem_filter] at hc
            obtain ⟨kb', ⟨hkb', himg⟩, hk'⟩ := hc
            have := eq_of_key_eq sp.subs hnd kb' hkb' sp.subs[i] (List.getElem_mem h1) hk'
            subst this
            simp only [Box.isImage, Bool.and_eq_true, beq_iff_eq] at himg
            obtain ⟨⟨⟨h3, _⟩, hl0⟩, hh255⟩ := himg
            have hlo : bs[i].2.1 = 0 := by
              rw [hlow] at hl0; exact replicate_all_eq _ hpos _ _ hl0
            have hhi : bs[i].2.2 = 255 := by
              rw [hhigh] at hh255; exact replicate_all_eq _ hpos _ _ hh255
            refine ⟨hk, ?_, ?_⟩
            · generalize sp.subs[i].2 = b at h3 ⊢
              obtain ⟨shape, low, high, dtype⟩ := b
              simp only at h3
              match shape, h3 with
              | [h, w, c], _ => simp [transposeBox, prod, hlo, Nat.mul_assoc]
            · generalize sp.subs[i].2 = b at h3 ⊢
              obtain ⟨shape, low, high, dtype⟩ := b
              simp only at h3
              match shape, h3 with
              | [h, w, c], _ => simp [transposeBox, prod, hhi, Nat.mul_assoc]
          · exact ⟨hk, hlow, hhigh⟩
  | extract key =>
    simp only [WCfg.build] at hb
    split at hb
    · cases hb
    · split at hb
      · cases hb
      · rename_i b hlook
        simp only [Except.ok.injEq, Prod.mk.injEq] at hb
        obtain ⟨hw, hsp'⟩ := hb
        subst hw hsp'
        obtain ⟨e, he, hlow, hhigh⟩ := lookup_spaceB key sp.subs bs hB.1 hB.2 b hlook
        refine ⟨[("", e)], ⟨e, he, rfl⟩, ?_, ?_⟩
        · refine ⟨rfl, ?_⟩
          intro i h1 _
          have : i = 0 := by simpa using h1
          subst this
          exact ⟨rfl, hlow, hhigh⟩
        · intro e' he'
          simp only [List.mem_singleton] at he'
          subst he'
          obtain ⟨k, hk⟩ := mem_of_lookup_b key bs e he
          exact hz (k, e) hk
  | monitor =>
    simp only [WCfg.build, Except.ok.injEq, Prod.mk.injEq] at hb
    obtain ⟨hw, hsp'⟩ := hb
    subst hw hsp'
    exact ⟨bs, rfl, hB, hz⟩
  | checkNan =>
    simp only [WCfg.build, Except.ok.injEq, Prod.mk.injEq] at hb
    obtain ⟨hw, hsp'⟩ := hb
    subst hw hsp'
    exact ⟨bs, rfl, hB, hz⟩

/-- shapes and bounds together, along a stack -/
def StackInv2 : Sig → BSig → List WS → Sig → BSig → Prop
  | sg, bs, [], sg', bs' => sg' = sg ∧ bs' = bs
  | sg, bs, w :: ws, sg', bs' =>
    ∃ mid midb, WSInv sg w mid ∧ SigOK mid ∧ WSInvB bs w midb ∧ ZeroIn midb ∧ (midb.map (·.1)).Nodup ∧
      StackInv2 mid midb ws sg' bs'

theorem buildStack_inv2 (cfgs : List WCfg) : ∀ (sp sp' : Space) (ws : List WS) (bs : BSig),
    buildStack cfgs sp = .ok (ws, sp') → SigOK (spaceSig sp) → SpaceB sp bs → ZeroIn bs →
      ∃ bs', StackInv2 (spaceSig sp) bs ws (spaceSig sp') bs' ∧ SpaceB sp' bs' := by
  induction cfgs with
  | nil =>
    intro sp sp' ws bs hb _ hB _
    simp only [buildStack, Except.ok.injEq, Prod.mk.injEq] at hb
    obtain ⟨h1, h2⟩ := hb
    subst h1 h2
    exact ⟨bs, ⟨rfl, rfl⟩, hB⟩
  | cons c cs ih =>
    intro sp sp' ws bs hb hsg hB hz
    simp only [buildStack] at hb
    split at hb
    · cases hb
    · rename_i w mid hbuild
      split at hb
      · cases hb
      · rename_i ws' sp'' hrest
        simp only [Except.ok.injEq, Prod.mk.injEq] at hb
        obtain ⟨h1, h2⟩ := hb
        subst h1 h2
        obtain ⟨g1, g2⟩ := build_inv c sp mid w hbuild hsg
        obtain ⟨midb, k1, k2, k3⟩ := build_invB c sp mid w hbuild hsg bs hB hz
        obtain ⟨bs', j1, j2⟩ := ih mid _ ws' midb hrest g2 k2 k3
        have hndm : (midb.map (·.1)).Nodup := by
          rw [spaceB_keys mid midb k2, ← spaceSig_keys]; exact g2.1
        exact ⟨bs', ⟨spaceSig mid, midb, g1, g2, k1, k3, hndm, j1⟩, j2⟩

theorem stackStep_inv2 (ws : List WS) : ∀ (sg : Sig) (bs : BSig) (sg' : Sig) (bs' : BSig),
    StackInv2 sg bs ws sg' bs' → SigOK sg → ZeroIn bs → (bs.map (·.1)).Nodup → ∀ (r : Rec),
    obsSig r.obs = sg → (∀ t, r.info.terminal = some t → obsSig t = sg) →
    (r.done = false → r.info.terminal = none) →
    ObsB bs r.obs → (∀ t, r.info.terminal = some t → ObsB bs t) →
      StackInv2 sg bs (stackStep ws r).1 sg' bs' ∧
        (obsSig (stackStep ws r).2.obs = sg' ∧ ObsB bs' (stackStep ws r).2.obs) ∧
        (∀ t', (stackStep ws r).2.info.terminal = some t' → obsSig t' = sg' ∧ ObsB bs' t') := by
  induction ws with
  | nil =>
    intro sg bs sg' bs' hinv _ _ _ r ho ht _ hbo hbt
    obtain ⟨h1, h2⟩ := hinv
    subst h1 h2
    exact ⟨⟨rfl, rfl⟩, ⟨ho, hbo⟩, fun t' h' => ⟨ht t' h', hbt t' h'⟩⟩
  | cons w ws ih =>
    intro sg bs sg' bs' hinv hsg hz hnd r ho ht hc hbo hbt
    obtain ⟨mid, midb, hw, hmid, hwb, hzm, hndm, hrest⟩ := hinv
    obtain ⟨g1, g2, g3⟩ := WS_step_inv sg mid w hw hsg r ho ht hc
    obtain ⟨b1, b2, b3⟩ := WS_step_invB bs midb w hwb hz hnd r hbo hbt
      (fun t h' => ho.trans (ht t h').symm) hc
    have hc' : (w.step r).2.done = false → (w.step r).2.info.terminal = none := by
      intro hd
      rw [(WS_step_passthrough w r).2.1] at hd
      exact WS_step_terminal_none w r (hc hd)
    obtain ⟨k1, k2, k3⟩ := ih mid midb sg' bs' hrest hmid hzm hndm (w.step r).2 g2 g3 hc' b2 b3
    simp only [stackStep]
    exact ⟨⟨mid, midb, g1, hmid, b1, hzm, hndm, k1⟩, k2, k3⟩

theorem stackReset_inv2 (ws : List WS) : ∀ (sg : Sig) (bs : BSig) (sg' : Sig) (bs' : BSig),
    StackInv2 sg bs ws sg' bs' → SigOK sg → ZeroIn bs → ∀ (o : Obs), obsSig o = sg → ObsB bs o →
      StackInv2 sg bs (stackReset ws o).1 sg' bs' ∧ obsSig (stackReset ws o).2 = sg' ∧
        ObsB bs' (stackReset ws o).2 := by
  induction ws with
  | nil =>
    intro sg bs sg' bs' hinv _ _ o ho hbo
    obtain ⟨h1, h2⟩ := hinv
    subst h1 h2
    exact ⟨⟨rfl, rfl⟩, ho, hbo⟩
  | cons w ws ih =>
    intro sg bs sg' bs' hinv hsg hz o ho hbo
    obtain ⟨mid, midb, hw, hmid, hwb, hzm, hndm, hrest⟩ := hinv
    obtain ⟨g1, g2⟩ := WS_reset_inv sg mid w hw hsg o ho
    obtain ⟨b1, b2⟩ := WS_reset_invB bs midb w hwb hz o hbo
    obtain ⟨k1, k2, k3⟩ := ih mid midb sg' bs' hrest hmid hzm (w.reset o).2 g2 b2
    simp only [stackReset]
    exact ⟨⟨mid, midb, g1, hmid, b1, hzm, hndm, k1⟩, k2, k3⟩

theorem stackOutputs_inv2 (ops : List Op) : ∀ (sg : Sig) (bs : BSig) (sg' : Sig) (bs' : BSig) (ws : List WS),
    StackInv2 sg bs ws sg' bs' → SigOK sg → ZeroIn bs → (bs.map (·.1)).Nodup →
    (∀ op ∈ ops, match op with
      | .reset o => obsSig o = sg ∧ ObsB bs o
      | .step r => obsSig r.obs = sg ∧ (∀ t, r.info.terminal = some t → obsSig t = sg) ∧
          (r.done = false → r.info.terminal = none) ∧ ObsB bs r.obs ∧
          (∀ t, r.info.terminal = some t → ObsB bs t)) →
    ∀ o ∈ stackOutputs ws ops, obsSig o = sg' ∧ ObsB bs' o := by
  induction ops with
  | nil => intro _ _ _ _ _ _ _ _ _ _ o ho; simp [stackOutputs] at ho
  | cons op rest ih =>
    intro sg bs sg' bs' ws hinv hsg hz hnd hops o ho
    have hrest : ∀ op' ∈ rest, _ := fun op' h => hops op' (List.mem_cons_of_mem _ h)
    cases op with
    | reset o0 =>
      obtain ⟨h0, h0b⟩ := hops (.reset o0) (by simp)
      obtain ⟨g1, g2, g3⟩ := stackReset_inv2 ws sg bs sg' bs' hinv hsg hz o0 h0 h0b
      simp only [stackOutputs, List.mem_cons] at ho
      rcases ho with h | h
      · rw [h]; exact ⟨g2, g3⟩
      · exact ih sg bs sg' bs' _ g1 hsg hz hnd hrest o h
    | step r =>
      obtain ⟨h1, h2, h3, h4, h5⟩ := hops (.step r) (by simp)
      obtain ⟨g1, g2, g3⟩ := stackStep_inv2 ws sg bs sg' bs' hinv hsg hz hnd r h1 h2 h3 h4 h5
      simp only [stackOutputs, List.mem_cons, List.mem_append, Option.mem_toList] at ho
      rcases ho with h | h | h
      · rw [h]; exact g2
      · exact g3 o h
      · exact ih sg bs sg' bs' _ g1 hsg hz hnd hrest o h

theorem exists_bsig : ∀ (subs : List (String × Box)),
    (∀ kb ∈ subs, ∃ lo hi : Int, lo ≤ 0 ∧ 0 ≤ hi ∧
      kb.2.low = List.replicate (prod kb.2.shape) lo ∧ kb.2.high = List.replicate (prod kb.2.shape) hi) →
    ∃ bs : BSig, ZeroIn bs ∧ subs.length = bs.length ∧ ∀ i (h1 : i < subs.length) (h2 : i < bs.length),
      subs[i].1 = bs[i].1 ∧ subs[i].2.low = List.replicate (prod subs[i].2.shape) bs[i].2.1 ∧
        subs[i].2.high = List.replicate (prod subs[i].2.shape) bs[i].2.2 := by
  intro subs
  induction subs with
  | nil => intro _; exact ⟨[], by intro e he; simp at he, rfl, by intro i h1; simp at h1⟩
  | cons kb rest ih =>
    intro h
    obtain ⟨lo, hi, hlo, hhi, hlow, hhigh⟩ := h kb (by simp)
    obtain ⟨bs, hz, hlen, hall⟩ := ih (fun kb' hkb' => h kb' (by simp [hkb']))
    refine ⟨(kb.1, lo, hi) :: bs, ?_, by simp [hlen], ?_⟩
    · intro e he
      rcases List.mem_cons.mp he with h1 | h1
      · subst h1; exact ⟨hlo, hhi⟩
      · exact hz e h1
    · intro i h1 h2
      cases i with
      | zero => exact ⟨rfl, hlow, hhigh⟩
      | succ j =>
        simp only [List.getElem_cons_succ]
        exact hall j (by simpa using h1) (by simpa using h2)

theorem stack_contains (cfgs : List WCfg) (sp sp' : Space) (ws : List WS)
    (hb : buildStack cfgs sp = .ok (ws, sp')) (hsp : SpaceOK sp) (hsc : ScalarBounds sp) (ops : List Op)
    (hops : ∀ op ∈ ops, OpOK sp op ∧ OpIn sp op) : ∀ o ∈ stackOutputs ws ops, sp'.contains o = true := by
  have hsg := sigOK_of_spaceOK sp hsp
  obtain ⟨bs, hz, hlen, hall⟩ := exists_bsig sp.subs hsc
  have hB : SpaceB sp bs := ⟨hlen, hall⟩
  have hnd : (bs.map (·.1)).Nodup := by rw [spaceB_keys sp bs hB]; exact hsp.1
  obtain ⟨bs', hinv, hB'⟩ := buildStack_inv2 cfgs sp sp' ws bs hb hsg hB hz
  intro o ho
  obtain ⟨g1, g2⟩ := stackOutputs_inv2 ops (spaceSig sp) bs (spaceSig sp') bs' ws hinv hsg hz hnd (by
    intro op hop
    obtain ⟨h1, h2⟩ := hops op hop
    cases op with
    | reset o0 => exact ⟨h1, obsB_of_contains sp bs o0 hB h2⟩
    | step r =>
      obtain ⟨a1, a2, a3⟩ := h1
      obtain ⟨c1, c2⟩ := h2
      exact ⟨a1, a2, a3, obsB_of_contains sp bs r.obs hB c1, fun t ht => obsB_of_contains sp bs t hB (c2 t ht)⟩) o ho
  exact contains_of_sig_bounds sp' bs' o g1 hB' g2

/-! ### a step that ends the episode returns what `reset()` of the stack would return -/

theorem updateArr_done_eq_resetArr (first : Bool) (buf o : Arr) (t : Option Arr) :
    (updateArr first buf o true t).1 = resetArr first buf o := by
  simp only [updateArr, resetArr, updateRow, resetRow, if_true, roll_length]

theorem fsUpdate_done_eq_fsReset (firsts : List (String × Bool)) (bufs o : Obs) (t : Option Obs) :
    (fsUpdate firsts bufs o true t).1 = fsReset firsts bufs o := by
  simp only [fsUpdate, fsReset]
  apply List.map_congr_left
  intro kv _
  rw [updateArr_done_eq_resetArr]

theorem WS_step_done_obs (w : WS) (r : Rec) (hd : r.done = true) : (w.step r).2.obs = (w.reset r.obs).2 := by
  cases w with
  | frameStack firsts bufs =>
    simp only [WS.step, WS.reset, hd]
    exact fsUpdate_done_eq_fsReset _ _ _ _
  | transpose keys => rfl
  | extract key => rfl
  | monitor ret len => simp [WS.step, WS.reset, hd]
  | checkNan => rfl

theorem stackStep_done_obs (ws : List WS) : ∀ r : Rec, r.done = true →
    (stackStep ws r).2.obs = (stackReset ws r.obs).2 := by
  induction ws with
  | nil => intro r _; rfl
  | cons w ws ih =>
    intro r hd
    have hd' : (w.step r).2.done = true := (WS_step_passthrough w r).2.1.trans hd
    simp only [stackStep, stackReset]
    rw [ih _ hd', WS_step_done_obs w r hd]

end SB3Verif.Lemmas.Wrappers
