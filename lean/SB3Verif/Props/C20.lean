/-
C20 — Logger outputs are complete and re-readable.

Property theorems only (helper lemmas are in `SB3Verif/Lemmas/{Csv,Logger}.lean`). All statements are about the
executable models `SB3Verif/Model/{Logger,Csv}.lean`, whose definitions the driver `SB3Verif/Driver/C20.lean`
runs against the real `Logger`, `CSVOutputFormat`, `JSONOutputFormat`, `HumanOutputFormat`, `read_csv`, `read_json`.

Vocabulary: a *history* is a `List (Op α)` of `record / recordMean / dump`; `snapshots p ops` lists the pending set
at every `dump` of the history (that is what every output format receives) and the pending set left at the end.
-/
import SB3Verif.Lemmas.LoggerText

namespace SB3Verif.C20

open SB3Verif.Logger SB3Verif.Logger.Lemmas
open SB3Verif.Csv (Str Cell)

/-! ### The pending dictionaries -/

section pending
variable {α : Type} [Field α] [CharZero α]

/-- **record_mean reports the arithmetic mean.** In any dump-free stretch of a history in which `k` was not pending
at the start and is never `record`ed, whatever is done to other keys in between (and `record_mean(k, None)` calls):
once at least one value was given, the pending value of `k` is `(Σ values) / (number of values)` and its counter is
the number of values. (Any field of characteristic 0: ℚ, ℝ, …) -/
theorem record_mean_is_mean (k : Str) (seg : List (Op α)) (p p' : Pending α) (l : List (Pending α × List Str))
    (hseg : ∀ op ∈ seg, op.isDump = false ∧ op.isRecordOf k = false) (hfresh : find? k p = none)
    (hrun : snapshots p seg = some (l, p')) (hne : meanVals k seg ≠ []) :
    ∃ e, find? k p' = some e ∧ e.val = Val.flt ((meanVals k seg).sum / ((meanVals k seg).length : α))
      ∧ e.count = (meanVals k seg).length := by
  have h := meanState_snapshots k seg p p' l [] hseg (by simpa [MeanState] using hfresh) hrun
  simp only [List.nil_append] at h
  cases hv : meanVals k seg with
  | nil => exact absurd hv hne
  | cons v vs => simpa [MeanState, hv] using h

end pending

section pending'
variable {α : Type} [Add α] [Mul α] [Div α] [NatCast α] [IntCast α]

/-- **The last `record` wins**: after `… record k v ex …` followed by operations that neither dump nor touch `k`,
the pending value of `k` is `v` with exclusions `ex` — whatever happened before (dumps included). -/
theorem record_last_wins (k : Str) (v : Val α) (ex : List Str) (before after : List (Op α)) (p p' : Pending α)
    (l : List (Pending α × List Str))
    (hafter : ∀ op ∈ after, op.isDump = false ∧ op.touches k = false)
    (hrun : snapshots p (before ++ Op.record k v ex :: after) = some (l, p')) :
    ∃ e, find? k p' = some e ∧ e.val = v ∧ e.excl = ex := by
  rw [snapshots_append] at hrun
  cases h1 : snapshots p before with
  | none => simp [h1] at hrun
  | some r1 =>
    obtain ⟨l1, q⟩ := r1
    simp only [h1, Option.bind_some, snapshots] at hrun
    cases h2 : snapshots (record k v ex q) after with
    | none => simp [h2] at hrun
    | some r2 =>
      obtain ⟨l2, q'⟩ := r2
      simp only [h2, Option.map_some, Option.some.injEq, Prod.mk.injEq] at hrun
      obtain ⟨_, rfl⟩ := hrun
      have := (find?_snapshots_of_not_touches after _ _ _ k hafter h2).1
      rw [this, find?_record_self]
      exact ⟨_, rfl, rfl, rfl⟩

/-- **dump hands over the pending set and empties it**: the first snapshot of `dump :: rest` is exactly the pending
set, and what follows is computed from the empty set. -/
theorem dump_clears (p : Pending α) (order : List Str) (rest : List (Op α)) :
    snapshots p (Op.dump order :: rest)
      = (snapshots ([] : Pending α) rest).map (fun r => ((p, order) :: r.1, r.2)) := by
  simp only [snapshots]
  cases snapshots ([] : Pending α) rest with
  | none => rfl
  | some r => rfl

/-- **Pending = recorded since the last dump**: after a dump-free stretch that started with an empty pending set
(the state right after a `dump`, or a new logger), a key is pending iff some `record` / `record_mean(·, not None)`
of the stretch named it. -/
theorem pending_keys_exact (k : Str) (seg : List (Op α)) (p' : Pending α) (l : List (Pending α × List Str))
    (hseg : ∀ op ∈ seg, op.isDump = false) (hrun : snapshots ([] : Pending α) seg = some (l, p')) :
    (find? k p').isSome ↔ ∃ op ∈ seg, op.touches k = true := by
  have h1 := keysOf_snapshots seg [] p' l k hseg hrun
  have h2 : k ∈ keysOf p' ↔ ∃ op ∈ seg, op.touches k = true := by simpa [keysOf] using h1
  rw [← h2]
  cases h : find? k p' with
  | none => simpa using (find?_eq_none_iff k p').mp h
  | some e =>
    simp only [Option.isSome_some, true_iff]
    by_contra hn
    rw [(find?_eq_none_iff k p').mpr hn] at h
    exact absurd h (by simp)

/-- The pending set is a dictionary: keys stay distinct, in every snapshot of every history. -/
theorem pending_keys_distinct (ops : List (Op α)) (p' : Pending α) (l : List (Pending α × List Str))
    (hrun : snapshots ([] : Pending α) ops = some (l, p')) :
    (keysOf p').Nodup ∧ ∀ sn ∈ l, (keysOf sn.1).Nodup :=
  nodup_snapshots ops [] p' l (by simp [keysOf]) hrun

end pending'

/-! ### Exclusion -/

/-- **`filter_excluded_keys`**: a key/value pair reaches format `fmt` iff it is pending (recorded since the last
dump) and `fmt` is not among the formats the key was excluded for. -/
theorem exclusion_filter {α : Type} (fmt k : Str) (v : Val α) (p : Pending α) :
    (k, v) ∈ visible fmt p ↔ ∃ e ∈ p, e.key = k ∧ e.val = v ∧ fmt ∉ e.excl := by
  simp only [visible, List.mem_map, List.mem_filter, Bool.not_eq_true', List.contains_eq_mem,
    decide_eq_false_iff_not, Prod.mk.injEq]
  constructor
  · rintro ⟨e, ⟨he, hx⟩, hk, hv⟩; exact ⟨e, he, hk, hv, hx⟩
  · rintro ⟨e, he, hk, hv, hx⟩; exact ⟨e, ⟨he, hx⟩, hk, hv⟩

/-- the human format applies ONE test to both of its outputs: a key is shown iff neither `"stdout"` nor `"log"`
is among its exclusions -/
theorem human_exclusion_partial {α : Type} (e : Entry α) (p : Pending α) :
    e ∈ humanVisible p ↔ e ∈ p ∧ STDOUT ∉ e.excl ∧ LOG ∉ e.excl := by
  simp [humanVisible, List.mem_filter]

/-- …so a key excluded **only** for `"stdout"` is also missing from the `log` output (and vice versa): the
per-format reading of the property ("appears in each configured output not excluded for it") is false of the code
for the two human outputs. Recorded as finding K-C20-c. -/
theorem human_exclusion_counterexample :
    let e : Entry Rat := { key := ['a'], val := .int 1, count := 0, excl := [STDOUT] }
    LOG ∉ e.excl ∧ e ∉ humanVisible [e] := by
  decide

/-! ### CSV -/

/-- **One row round-trips, for all strings**: whatever characters the string cells contain (quotes, commas, line
breaks, `#`), the reader returns exactly the cells that were written — provided the row is not one the reader takes
for a blank line (a single empty cell). -/
theorem csv_row_roundtrip (cells : List Cell) (hok : ∀ c ∈ cells, Csv.cellOk c = true)
    (hvis : Csv.rowVisible cells = true) :
    Csv.parse (Csv.rowBytes cells) = some [cells] :=
  Csv.Lemmas.parse_rowBytes cells hok hvis

/-- **The whole file round-trips, for every history of dumps**: any key sets per dump (appearing, disappearing,
re-appearing), any order in which new keys are appended, string cells with any characters — line breaks before a
header rewrite included (F-C20-a, fixed) — the reader returns the column list and, row by row, the recorded cell of
every column and `missing` elsewhere. Hypothesis `rowsVisible`: no dump wrote an entirely empty row into a file with
fewer than two columns (see `csv_blank_row_counterexample`). -/
theorem csv_table_roundtrip_partial (ws : List (List (Str × Cell) × List Str)) (f : Csv.File)
    (hrun : Csv.runWrites Csv.File.empty ws = some f) (hok : ∀ w ∈ ws, Csv.kvsOk w.1 = true)
    (hvis : Csv.rowsVisible Csv.File.empty ws = true) (hne : ws ≠ []) :
    Csv.readCsv f.data = some ⟨f.keys, ws.map (fun w => f.keys.map (fun k => Csv.lookup k w.1))⟩ := by
  have := Csv.Lemmas.readCsv_runWrites ws f hrun hok hvis hne
  simpa [Csv.Lemmas.tableRows, List.map_map, Function.comp_def] using this

/-- Sufficient for `rowsVisible`: every dump has at least one value for the CSV format. -/
theorem csv_table_roundtrip_values (ws : List (List (Str × Cell) × List Str)) (f : Csv.File)
    (hrun : Csv.runWrites Csv.File.empty ws = some f)
    (hok : ∀ w ∈ ws, Csv.kvsOk w.1 = true ∧ ∃ kc ∈ w.1, kc.2 ≠ Cell.missing) (hne : ws ≠ []) :
    Csv.readCsv f.data = some ⟨f.keys, ws.map (fun w => f.keys.map (fun k => Csv.lookup k w.1))⟩ :=
  csv_table_roundtrip_partial ws f hrun (fun w hw => (hok w hw).1) (rowsVisible_of_values ws _ hok) hne

/-- **F-C20-a as a theorem** (it was a counterexample before the fix `ba5962a`): a string with ANY characters —
line breaks, quotes, commas — written in one dump survives the header rewrite forced by a new key in the next. -/
theorem header_rewrite_keeps_linebreaks (s t : Str) (ht : Csv.tokClean t = true) (f : Csv.File)
    (hrun : Csv.runWrites Csv.File.empty [([(['a'], .str s)], [['a']]), ([(['b'], .num t)], [['b']])] = some f) :
    Csv.readCsv f.data = some ⟨[['a'], ['b']], [[.str s, .missing], [.missing, .num t]]⟩ := by
  have h := csv_table_roundtrip_values _ f hrun (by
    intro w hw
    simp only [List.mem_cons, List.mem_nil_iff, or_false] at hw
    rcases hw with rfl | rfl
    · exact ⟨by simp [Csv.kvsOk, Csv.cellOk]; decide, _, List.mem_singleton.mpr rfl, by simp⟩
    · exact ⟨by simp [Csv.kvsOk, Csv.cellOk, ht]; decide, _, List.mem_singleton.mpr rfl, by simp⟩) (by simp)
  -- the column list is `a, b`
  have hkeys : f.keys = [['a'], ['b']] := by
    simp only [Csv.runWrites] at hrun
    cases h1 : Csv.File.empty.write [(['a'], Cell.str s)] [['a']] with
    | none => simp [h1] at hrun
    | some f1 =>
      simp only [h1] at hrun
      cases h2 : f1.write [(['b'], Cell.num t)] [['b']] with
      | none => simp [h2] at hrun
      | some f2 =>
        simp only [h2, Option.some.injEq] at hrun
        subst hrun
        rw [(Csv.Lemmas.write_keys h2).2, (Csv.Lemmas.write_keys h1).2]
        rfl
  rw [h, hkeys]
  simp [Csv.lookup]

/-- **The full statement is false of the code** when a dump has no value for the CSV format while the file has at
most one column: the row is written as an empty line, which the reader skips — three dumps `{a:1}, {}, {a:3}` read
back as two rows. Recorded as finding K-C20-a. -/
theorem csv_blank_row_counterexample :
    let ws : List (List (Str × Cell) × List Str) :=
      [([(['a'], .num ['1'])], [['a']]), ([], []), ([(['a'], .num ['3'])], [])]
    ∃ f, Csv.runWrites Csv.File.empty ws = some f ∧ f.data = "a\n1\n\n3\n".toList ∧
      Csv.readCsv f.data = some ⟨[['a']], [[.num ['1']], [.num ['3']]]⟩ := by
  refine ⟨⟨[['a']], "a\n1\n\n3\n".toList, 7⟩, ?_, ?_, ?_⟩ <;> decide

/-! ### End to end: the logger, its CSV file, the reader -/

section e2e
variable {α : Type} [Add α] [Mul α] [Div α] [NatCast α] [IntCast α]

/-- **For every history of record / record_mean / dump** run on a logger with a CSV output (and any other
outputs): if keys are clean identifiers and numbers print as clean tokens, the file read back has one row per dump,
and in row `i`, column `k`, the value pending for `k` at dump `i` if it was not excluded for `"csv"`, `missing`
otherwise — provided no dump was entirely empty for CSV while the file had fewer than two columns. -/
theorem logger_csv_end_to_end (R : Render α) (hR : ∀ x, Csv.tokClean (R.csv x) = true) (cfg : Config)
    (hcsv : cfg.csv = true) (ops : List (Op α)) (s' : Sys α)
    (hrun : Sys.run R cfg Sys.init ops = .ok s')
    (hkeys : ∀ op ∈ ops, ∀ k, op.key? = some k → Csv.tokClean k = true) :
    ∃ snaps, snapshots ([] : Pending α) ops = some (snaps, s'.pending) ∧
      (snaps ≠ [] →
        Csv.rowsVisible Csv.File.empty (snaps.map (fun sn => (csvRow R sn.1, sn.2))) = true →
        Csv.readCsv s'.csv.data
          = some ⟨s'.csv.keys, snaps.map (fun sn => s'.csv.keys.map (fun k => csvCellOf R sn.1 k))⟩) := by
  obtain ⟨snaps, hsn, hc, _, _⟩ := run_decompose R cfg ops Sys.init s' hrun
  refine ⟨snaps, hsn, ?_⟩
  intro hne hvis
  have hnd := nodup_snapshots ops [] s'.pending snaps (by simp [keysOf]) hsn
  have hcl := keys_snapshots (fun k => Csv.tokClean k = true) ops [] s'.pending snaps (by simp [keysOf]) hkeys hsn
  have hok : ∀ w ∈ snaps.map (fun sn => (csvRow R sn.1, sn.2)), Csv.kvsOk w.1 = true := by
    intro w hw
    obtain ⟨sn, hsn', rfl⟩ := List.mem_map.mp hw
    exact kvsOk_csvRow R hR sn.1 ⟨hnd.2 sn hsn', hcl.2 sn hsn'⟩
  have := csv_table_roundtrip_partial _ s'.csv (hc hcsv) hok hvis (by simpa using hne)
  rw [this]
  simp only [List.map_map, Function.comp_def]
  congr 2
  apply List.map_congr_left
  intro sn hsn'
  apply List.map_congr_left
  intro k _
  exact lookup_csvRow R sn.1 (hnd.2 sn hsn') k

end e2e

/-! ### JSON -/

/-- **The JSON file round-trips**: whatever the strings contain (quotes, backslashes, line breaks, …) and whatever
the key sets, reading the lines back gives, row by row and in order, the keys and values that were written. -/
theorem json_rows_roundtrip (rows : List (List (Str × JVal))) (hok : ∀ r ∈ rows, ∀ kv ∈ r, jvalOk kv.2 = true) :
    readJson (rows.map jsonLine).flatten = some rows :=
  readJson_lines rows hok

section e2ejson
variable {α : Type} [Add α] [Mul α] [Div α] [NatCast α] [IntCast α]

/-- **For every history** run on a logger with a JSON output: the file read back has one row per dump, holding
exactly the pending keys not excluded for `"json"`, in recording order, with their values. -/
theorem logger_json_end_to_end (R : Render α) (hR : ∀ x, jtokClean (R.json x) = true) (cfg : Config)
    (hjson : cfg.json = true) (ops : List (Op α)) (s' : Sys α)
    (hrun : Sys.run R cfg Sys.init ops = .ok s') :
    ∃ snaps, snapshots ([] : Pending α) ops = some (snaps, s'.pending) ∧
      readJson s'.json = some (snaps.map (fun sn => jsonRow R sn.1)) := by
  obtain ⟨snaps, hsn, _, hj, _⟩ := run_decompose R cfg ops Sys.init s' hrun
  refine ⟨snaps, hsn, ?_⟩
  have := hj hjson
  simp only [Sys.init, List.nil_append] at this
  rw [this]
  have := json_rows_roundtrip (snaps.map (fun sn => jsonRow R sn.1)) (by
    intro r hr
    obtain ⟨sn, _, rfl⟩ := List.mem_map.mp hr
    exact jvalOk_jsonRow R hR sn.1)
  simpa [List.map_map, Function.comp_def] using this

end e2ejson

/-- a pair is in the JSON row iff the key is pending and not excluded for `"json"` -/
theorem json_row_complete {α : Type} (R : Render α) (p : Pending α) (k : Str) (j : JVal) :
    (k, j) ∈ jsonRow R p ↔ ∃ e ∈ p, e.key = k ∧ e.val.jval R = j ∧ JSON ∉ e.excl := by
  simp only [jsonRow, List.mem_map, Prod.mk.injEq]
  constructor
  · rintro ⟨⟨k', v⟩, hkv, hk, hj⟩
    obtain ⟨e, he, hek, hev, hex⟩ := (exclusion_filter JSON k' v p).mp hkv
    exact ⟨e, he, by rw [hek]; exact hk, by rw [hev]; exact hj, hex⟩
  · rintro ⟨e, he, hk, hj, hex⟩
    exact ⟨(e.key, e.val), (exclusion_filter JSON e.key e.val p).mpr ⟨e, he, rfl, rfl, hex⟩, hk, hj⟩


/-! ### Human-readable table -/

/-- **Every recorded, not excluded key appears in the table with its value**: for keys that are non-empty and do
not start with `/`, if the write succeeds (no `ValueError` for two keys truncated alike), the text contains the line
`| <key> … | <value> … |` where the key is shown as `name` indented under its `tag/` line or as is, and key and value
are truncated to `max_length`. -/
theorem human_table_contains {α : Type} (R : Render α) (maxLen : Nat) (p : Pending α) (text : Str)
    (hk : ∀ e ∈ p, keyShapeOk e.key) (hw : humanWrite R maxLen p = some text)
    (e : Entry α) (he : e ∈ p) (h1 : STDOUT ∉ e.excl) (h2 : LOG ∉ e.excl) :
    ∃ kw vw, humanLine kw vw (truncate maxLen (shownKey e.key)) (truncate maxLen (e.val.humanStr R)) <:+: text :=
  humanWrite_contains R maxLen p text hk hw e he h1 h2

section e2ehuman
variable {α : Type} [Add α] [Mul α] [Div α] [NatCast α] [IntCast α]

/-- …and for every history, the text of every dump is part of the human output (nothing is rewritten). -/
theorem logger_human_end_to_end (R : Render α) (cfg : Config) (hh : cfg.human = true) (ops : List (Op α)) (s' : Sys α)
    (hrun : Sys.run R cfg Sys.init ops = .ok s') :
    ∃ snaps, snapshots ([] : Pending α) ops = some (snaps, s'.pending) ∧
      ∃ ts, List.Forall₂ (fun sn t => humanWrite R cfg.maxLen sn.1 = some t) snaps ts ∧ s'.human = ts.flatten := by
  obtain ⟨snaps, hsn, _, _, hhum⟩ := run_decompose R cfg ops Sys.init s' hrun
  obtain ⟨ts, hts, hst⟩ := hhum hh
  exact ⟨snaps, hsn, ts, hts, by simpa [Sys.init] using hst⟩

end e2ehuman

/-! ### The driver's number printing meets the hypotheses -/

/-- the `Rat` instance the driver runs (`str(float)` as exact decimal expansion) prints clean tokens, so the
end-to-end theorems apply to it without further assumptions -/
theorem ratRender_clean (q : Rat) :
    Csv.tokClean (ratRender.csv q) = true ∧ jtokClean (ratRender.json q) = true :=
  ⟨pyFloatRepr_clean q, pyFloatRepr_jtokClean q⟩

/-! ### Non-vacuity: the hypotheses are met by non-trivial data -/

/-- a history with a string holding a line break and a quote, a late key (header rewrite), an exclusion and a mean -/
def exOps : List (Op Rat) :=
  [.record ['a'] (.str ['x', '\n', '"', 'y']) [[]], .recordMean ['m'] (some 3) [[]], .recordMean ['m'] (some 6) [[]],
   .dump [['a'], ['m']],
   .record ['b'] (.int 3) [CSV], .record ['c'] (.int 7) [[]], .dump [['c']]]

def exRender : Render Rat := ⟨fun _ => ['1'], fun _ => ['1'], fun _ => ['1']⟩

example : ∃ s', Sys.run exRender ⟨true, true, true, 36⟩ Sys.init exOps = .ok s' ∧
    s'.csv.data = "a,m,c\n\"x\n\"\"y\",1,\n,,7\n".toList ∧
    Csv.rowsVisible Csv.File.empty [(csvRow exRender [⟨['a'], .str ['x', '\n', '"', 'y'], 0, [[]]⟩, ⟨['m'], .flt (9/2), 2, [[]]⟩], [['a'], ['m']]),
      (csvRow exRender [⟨['b'], .int 3, 0, [CSV]⟩, ⟨['c'], .int 7, 0, [[]]⟩], [['c']])] = true := by
  refine ⟨_, rfl, ?_, ?_⟩ <;> decide

example : ∀ op ∈ exOps, ∀ k, op.key? = some k → Csv.tokClean k = true := by decide

example : Csv.kvsOk [(['a'], .str ['x', '\n', '"']), (['k', '/', 'b'], .num ['1', '.', '5'])] = true := by decide

example : Csv.rowVisible [.missing, .missing] = true ∧ Csv.rowVisible [.str []] = true ∧ Csv.rowVisible [.missing] = false := by
  decide

example : meanVals ['m'] exOps = [3, 6] := by decide

example : keyShapeOk ['a', '/', 'b'] ∧ keyShapeOk ['l', 'r'] := by
  refine ⟨⟨by simp, by decide⟩, ⟨by simp, by decide⟩⟩

example : jvalOk (.num ['-', '1', '.', '5', 'e', '+', '0', '3']) = true ∧ jvalOk (.str ['"', '\\', '\n']) = true := by decide

/-- two keys truncated alike: the human format refuses (the `ValueError` of the code) -/
example : humanWrite exRender 5 [⟨['a', 'b', 'c', 'd', 'e', 'f', '1'], .int 1, 0, [[]]⟩, ⟨['a', 'b', 'c', 'd', 'e', 'f', '2'], .int 2, 0, [[]]⟩] = none := by
  decide

end SB3Verif.C20
