"""
C05 — GAE advantages/returns match their definition; minibatches partition the rollout.

Implementation under test: stable_baselines3.common.buffers.RolloutBuffer / DictRolloutBuffer
Model: lean/SB3Verif/Model/Rollout.lean (driver lean/SB3Verif/Driver/C05.lean)
"""
from __future__ import annotations

from fractions import Fraction as F

import numpy as np

from harness.common import canon, ratj, unratj, guarded

RULE = (
    "cases from one SplitMix64 stream: (gae_exact) T<=6, n<=4, gamma/lambda dyadic, small integer rewards/values, "
    "random episode-start and final-done patterns, kept only when every float32 intermediate of the backward loop is "
    "exactly representable so implementation and Rat model must agree bit for bit; (gae_float) random float32 inputs, "
    "T<=24, n<=6, compared with the exact Rat model at 1e-4 relative; (get) tagged rollouts, T<=9, n<=5, batch sizes "
    "None / dividing / non-dividing / larger than the rollout, 1-3 passes, array and Dict observations; every case may be "
    "preceded by 0-2 earlier rollouts (reset / fill / compute / optional pass of get) on the SAME buffer object. "
    "non-trivial = gae case with a mid-rollout episode boundary in one env and a non-done last step in another (or the "
    "same) env, or get case whose batch size does not divide T*n; distinct = distinct canonical case"
)
STREAMS = {
    "gae_exact": "advantages/returns of the real buffer == Rat model, exactly",
    "gae_float": "advantages/returns of the real buffer ~ Rat model (1e-4 rel, float32 rounding)",
    "get_batches": "(step, env) provenance of every yielded minibatch == model's slices of the same permutation",
    "buf_full": "full flag / error after k adds == model",
}

GAMMAS = [F(1), F(1, 2), F(3, 4), F(1, 4)]
LAMS = [F(1), F(1, 2), F(3, 4), F(0)]


def f32_ok(q: F) -> bool:
    return F(float(np.float32(float(q)))) == q


def exact_ok(case) -> bool:
    """every intermediate of the float32 backward loop is representable -> float32 arithmetic is exact"""
    g, l = unratj(case["gamma"]), unratj(case["lam"])
    T, n = case["T"], case["n"]
    gl = g * l
    if F(float(g) * float(l)) != gl:
        return False
    for e in range(n):
        last = F(0)
        for t in reversed(range(T)):
            if t == T - 1:
                nnt = 1 - F(case["dones"][e])
                nv = F(case["last_values"][e])
            else:
                nnt = 1 - F(case["starts"][t + 1][e])
                nv = F(case["values"][t + 1][e])
            a = g * nv
            b = a * nnt
            c = F(case["rewards"][t][e]) + b
            d = c - F(case["values"][t][e])
            x = gl * nnt
            y = x * last
            z = d + y
            if not all(f32_ok(v) for v in (a, b, c, d, x, y, z)):
                return False
            last = z
            if not f32_ok(z + F(case["values"][t][e])):
                return False
    return True


def gen_prelude(rng, T, n):
    """0-2 earlier rollouts run on the SAME buffer object before the checked one (reset / fill / compute / maybe a
    pass of get): the result of a rollout must not depend on what the buffer held before."""
    k = rng.weighted([(0, 4), (1, 4), (2, 2)])
    out = []
    for _ in range(k):
        out.append({
            "rewards": [[rng.randint(-4, 4) for _ in range(n)] for _ in range(T)],
            "values": [[rng.randint(-4, 4) for _ in range(n)] for _ in range(T)],
            "starts": [[int(rng.chance(0.3)) for _ in range(n)] for _ in range(T)],
            "last_values": [rng.randint(-4, 4) for _ in range(n)],
            "dones": [int(rng.chance(0.3)) for _ in range(n)],
            "get": rng.choice([None, 0, 1, 3]),
        })
    return out


def gen_gae_exact(rng, widen):
    while True:
        T = rng.randint(1, 6)
        n = rng.randint(1, 4)
        if widen and rng.chance(0.3):
            T = 1
        g, l = rng.choice(GAMMAS), rng.choice(LAMS)
        pat = rng.choice(["rand", "rand", "never", "all"])

        def flag():
            if pat == "never":
                return 0
            if pat == "all":
                return 1
            return int(rng.chance(0.3))

        case = {
            "kind": "gae_exact",
            "T": T,
            "n": n,
            "prelude": gen_prelude(rng, T, n),
            "dict": rng.chance(0.3),
            "gamma": ratj(g),
            "lam": ratj(l),
            "rewards": [[rng.randint(-4, 4) for _ in range(n)] for _ in range(T)],
            "values": [[rng.randint(-4, 4) for _ in range(n)] for _ in range(T)],
            "starts": [[flag() for _ in range(n)] for _ in range(T)],
            "last_values": [rng.randint(-4, 4) for _ in range(n)],
            "dones": [flag() for _ in range(n)],
            "recompute": rng.weighted([(0, 6), (1, 3), (2, 1)]),
        }
        if exact_ok(case):
            return case


def gen_gae_float(rng, widen):
    T = rng.randint(1, 24)
    n = rng.randint(1, 6)

    def f():
        return float(np.float32((rng.random() - 0.5) * 8))

    return {
        "kind": "gae_float",
        "T": T,
        "n": n,
        "prelude": gen_prelude(rng, T, n),
        "dict": rng.chance(0.3),
        "gamma": float(rng.choice([0.99, 0.9, 0.5, 1.0, 0.999])),
        "lam": float(rng.choice([0.95, 1.0, 0.9, 0.0, 0.5])),
        "rewards": [[f() for _ in range(n)] for _ in range(T)],
        "values": [[f() for _ in range(n)] for _ in range(T)],
        "starts": [[int(rng.chance(0.25)) for _ in range(n)] for _ in range(T)],
        "last_values": [f() for _ in range(n)],
        "dones": [int(rng.chance(0.3)) for _ in range(n)],
        "recompute": rng.weighted([(0, 6), (1, 3), (2, 1)]),
    }


def gen_get(rng, widen):
    T = rng.randint(1, 9)
    n = rng.randint(1, 5)
    N = T * n
    b = rng.weighted(
        [(None, 2), (N, 1), (1, 1), (rng.randint(1, N), 4), (N + rng.randint(1, 5), 1), (max(1, N - 1), 1)]
    )
    return {"kind": "get", "T": T, "n": n, "batch": b, "dict": rng.chance(0.4), "passes": rng.randint(1, 3), "overlap": rng.chance(0.35),
            "npseed": rng.randint(0, 2**31 - 1), "prelude": gen_prelude(rng, T, n)}


def gen_buf(rng, widen):
    T = rng.randint(1, 6)
    return {"kind": "buf", "T": T, "n": rng.randint(1, 3), "adds": rng.randint(0, T + 1)}


def gen_cases(ctx):
    rng = ctx.rng
    cases = []
    for _ in range(ctx.budget(240, 4000)):
        cases.append(gen_gae_exact(rng, ctx.widen))
    for _ in range(ctx.budget(80, 1500)):
        cases.append(gen_gae_float(rng, ctx.widen))
    for _ in range(ctx.budget(160, 3000)):
        cases.append(gen_get(rng, ctx.widen))
    for _ in range(ctx.budget(20, 200)):
        cases.append(gen_buf(rng, ctx.widen))
    return cases


def shrink_candidates(case):
    k = case.get("kind")
    if case.get("recompute"):
        yield dict(case, recompute=case["recompute"] - 1)
    if case.get("prelude"):
        for i in range(len(case["prelude"])):
            c = dict(case)
            c["prelude"] = [p for j, p in enumerate(case["prelude"]) if j != i]
            yield c
    if k in ("gae_exact", "gae_float"):
        T, n = case["T"], case["n"]
        if T > 1:
            for t in (0, T - 1):
                c = dict(case)
                c["T"] = T - 1
                for f in ("rewards", "values", "starts"):
                    c[f] = [r for i, r in enumerate(case[f]) if i != t]
                c["prelude"] = [dict(p, **{f: [r for i, r in enumerate(p[f]) if i != t] for f in ("rewards", "values", "starts")})
                                for p in case.get("prelude") or []]
                yield c
        if n > 1:
            for e in range(n):
                c = dict(case)
                c["n"] = n - 1
                for f in ("rewards", "values", "starts"):
                    c[f] = [[x for j, x in enumerate(r) if j != e] for r in case[f]]
                for f in ("last_values", "dones"):
                    c[f] = [x for j, x in enumerate(case[f]) if j != e]
                c["prelude"] = [dict(p, **{f: [[x for j, x in enumerate(r) if j != e] for r in p[f]] for f in ("rewards", "values", "starts")},
                                     **{f: [x for j, x in enumerate(p[f]) if j != e] for f in ("last_values", "dones")})
                                for p in case.get("prelude") or []]
                yield c
    elif k == "get":
        for f in ("T", "n", "passes"):
            if case[f] > 1:
                c = dict(case)
                c[f] = case[f] - 1
                c["prelude"] = []
                yield c
        if case.get("dict"):
            c = dict(case)
            c["dict"] = False
            yield c


# ---------------------------------------------------------------------------------------------
def make_buffer(T, n, is_dict, gamma, lam):
    from gymnasium import spaces
    from stable_baselines3.common.buffers import DictRolloutBuffer, RolloutBuffer

    act = spaces.Box(-1e9, 1e9, (2,), np.float32)
    if is_dict:
        obs = spaces.Dict({"a": spaces.Box(-1e9, 1e9, (2,), np.float32), "b": spaces.Box(-1e9, 1e9, (1, 2), np.float32)})
        return DictRolloutBuffer(T, obs, act, device="cpu", gae_lambda=lam, gamma=gamma, n_envs=n)
    obs = spaces.Box(-1e9, 1e9, (3,), np.float32)
    return RolloutBuffer(T, obs, act, device="cpu", gae_lambda=lam, gamma=gamma, n_envs=n)


def tag(t, e, T):
    return float(e * 64 + t + 1)


def fill(buf, case, rewards, values, starts, is_dict, tagged):
    import torch as th

    T, n = case["T"], case["n"]
    for t in range(T):
        tg = np.array([tag(t, e, T) for e in range(n)], dtype=np.float32)
        if is_dict:
            obs = {"a": np.stack([tg, tg + 0.5], axis=1), "b": np.stack([tg, tg + 0.25], axis=1).reshape(n, 1, 2)}
        else:
            obs = np.stack([tg, tg + 0.5, -tg], axis=1)
        action = np.stack([tg, -tg], axis=1)
        buf.add(
            obs,
            action,
            np.array(rewards[t], dtype=np.float32),
            np.array(starts[t], dtype=np.float32),
            th.tensor(values[t], dtype=th.float32) if not tagged else th.tensor(tg),
            th.tensor(-tg) if tagged else th.zeros(n),
        )


def run_prelude(buf, case):
    import torch as th

    for pre in case.get("prelude") or []:
        fill(buf, case, pre["rewards"], pre["values"], pre["starts"], case["dict"], tagged=False)
        buf.compute_returns_and_advantage(th.tensor(pre["last_values"], dtype=th.float32), np.array(pre["dones"], dtype=bool))
        if pre.get("get") is not None:
            for _ in buf.get(pre["get"] or None):
                pass
        buf.reset()


def oracle_adv(case, g, l, to):
    """the definition: sum_l (g*l)^l * prod nnt * delta, cut at boundaries; computed with `to` numbers"""
    T, n = case["T"], case["n"]
    adv = [[None] * n for _ in range(T)]
    for e in range(n):
        nnt, nv = [], []
        for t in range(T):
            if t == T - 1:
                nnt.append(1 - to(case["dones"][e]))
                nv.append(to(case["last_values"][e]))
            else:
                nnt.append(1 - to(case["starts"][t + 1][e]))
                nv.append(to(case["values"][t + 1][e]))
        delta = [to(case["rewards"][t][e]) + g * nv[t] * nnt[t] - to(case["values"][t][e]) for t in range(T)]
        for t in range(T):
            s = to(0)
            w = to(1)
            for k in range(T - t):
                s = s + w * delta[t + k]
                w = w * g * l * nnt[t + k]
                if nnt[t + k] == 0:
                    break
            adv[t][e] = s
    return adv


def nontrivial_gae(case):
    T, n = case["T"], case["n"]
    mid = any(case["starts"][t][e] for t in range(1, T) for e in range(n))
    notdone = any(d == 0 for d in case["dones"])
    return mid and notdone


def run_gae(ctx, case):
    import torch as th

    exact = case["kind"] == "gae_exact"
    T, n = case["T"], case["n"]
    if exact:
        gq, lq = unratj(case["gamma"]), unratj(case["lam"])
    else:
        gq, lq = F(case["gamma"]), F(case["lam"])
    buf = make_buffer(T, n, case["dict"], float(gq), float(lq))
    run_prelude(buf, case)
    fill(buf, case, case["rewards"], case["values"], case["starts"], case["dict"], tagged=False)
    # the result is a function of the stored rollout and of THIS call's arguments: earlier calls on the same filled
    # buffer (other last values / final dones: re-bootstrapping) must leave no trace (seeded change C05-h)
    for k in range(case.get("recompute", 0)):
        lv = [-float(x) - 1 - k for x in case["last_values"]][::-1]
        dn = [1 - int(d) for d in case["dones"]][::-1]
        buf.compute_returns_and_advantage(th.tensor(lv, dtype=th.float32), np.array(dn, dtype=bool))
    buf.compute_returns_and_advantage(th.tensor(case["last_values"], dtype=th.float32), np.array(case["dones"], dtype=bool))
    adv = np.array(buf.advantages, dtype=np.float64).reshape(T, n)
    ret = np.array(buf.returns, dtype=np.float64).reshape(T, n)
    op = {
        "op": "gae", "gamma": ratj(gq), "lam": ratj(lq), "n": n,
        "rewards": [[ratj(F(x)) for x in r] for r in case["rewards"]],
        "values": [[ratj(F(x)) for x in r] for r in case["values"]],
        "starts": [[ratj(F(x)) for x in r] for r in case["starts"]],
        "last_values": [ratj(F(x)) for x in case["last_values"]],
        "dones": [ratj(F(x)) for x in case["dones"]],
    }
    return {"adv": adv, "ret": ret, "op": op, "gq": gq, "lq": lq}


def cmp_gae(ctx, case, r, mout):
    rep = ctx.report
    exact = case["kind"] == "gae_exact"
    T, n = case["T"], case["n"]
    adv, ret = r["adv"], r["ret"]
    # --- oracle: the definition, evaluated independently of the Lean model ---------------
    if exact:
        o_adv = oracle_adv(case, r["gq"], r["lq"], F)
        for t in range(T):
            for e in range(n):
                if F(float(adv[t][e])) != o_adv[t][e]:
                    rep.violation("advantage differs from the GAE definition", case,
                                  {"kind": "gae", "t": t, "e": e, "exact": True},
                                  {"impl": float(adv[t][e]), "definition": str(o_adv[t][e])})
                    return
                if F(float(ret[t][e])) != o_adv[t][e] + F(case["values"][t][e]):
                    rep.violation("return differs from advantage + value", case, {"kind": "ret", "t": t, "e": e},
                                  {"impl": float(ret[t][e])})
                    return
    else:
        o_adv = oracle_adv(case, float(r["gq"]), float(r["lq"]), float)
        for t in range(T):
            for e in range(n):
                tol = 1e-4 * max(1.0, abs(o_adv[t][e])) + 1e-4
                if abs(adv[t][e] - o_adv[t][e]) > tol:
                    rep.violation("advantage differs from the GAE definition", case,
                                  {"kind": "gae", "t": t, "e": e, "exact": False},
                                  {"impl": float(adv[t][e]), "definition": o_adv[t][e]})
                    return
                if abs(ret[t][e] - (o_adv[t][e] + case["values"][t][e])) > tol:
                    rep.violation("return differs from advantage + value", case, {"kind": "ret", "t": t, "e": e})
                    return
    # --- correspondence with the Lean model ------------------------------------------------
    if mout is None:
        return
    if "error" in mout:
        rep.disagree(case["kind"], case, "ok", mout)
        return
    m_adv = [[unratj(x) for x in row] for row in mout["adv"]]
    m_ret = [[unratj(x) for x in row] for row in mout["ret"]]
    for t in range(T):
        for e in range(n):
            if exact:
                ok = F(float(adv[t][e])) == m_adv[t][e] and F(float(ret[t][e])) == m_ret[t][e]
            else:
                tol = 1e-4 * max(1.0, abs(float(m_adv[t][e]))) + 1e-4
                ok = abs(adv[t][e] - float(m_adv[t][e])) <= tol and abs(ret[t][e] - float(m_ret[t][e])) <= tol
            if not ok:
                rep.disagree(case["kind"], case, {"adv": adv[t][e], "ret": ret[t][e], "t": t, "e": e},
                             {"adv": str(m_adv[t][e]), "ret": str(m_ret[t][e])})
                return
    rep.agree()


def decode_tag(x, T):
    v = int(round(float(x))) - 1
    return (v % 64, v // 64)


def run_get(ctx, case):
    """returns list of passes; each pass = list of batches; each batch = list of per-sample dict field->(t,e)"""
    T, n = case["T"], case["n"]
    buf = make_buffer(T, n, case["dict"], 0.0, 1.0)
    run_prelude(buf, case)
    # gamma = 0  =>  advantage = reward - value, return = reward: choose reward = 3*tag, value = tag
    rewards = [[3 * tag(t, e, T) for e in range(n)] for t in range(T)]
    starts = [[0] * n for _ in range(T)]
    fill(buf, case, rewards, None, starts, case["dict"], tagged=True)
    import torch as th

    buf.compute_returns_and_advantage(th.zeros(n), np.zeros(n, dtype=bool))
    np.random.seed(case["npseed"])
    captured = []
    orig = np.random.permutation

    def spy(x):
        p = orig(x)
        captured.append(np.array(p).tolist())
        return p

    np.random.permutation = spy
    passes = []
    try:
        # passes are lazy generators: with "overlap" the first pass is started, one minibatch is taken, then the other
        # passes run to completion, then the first pass is finished — every pass must still be a partition (C05-j)
        gens = [buf.get(case["batch"]) for _ in range(case["passes"])]
        order = []   # (pass index, sample)
        if case.get("overlap") and case["passes"] >= 2:
            first = next(gens[0], None)
            if first is not None:
                order.append((0, first))
            for pi in range(1, case["passes"]):
                order += [(pi, smp) for smp in gens[pi]]
            order += [(0, smp) for smp in gens[0]]
        else:
            for pi in range(case["passes"]):
                order += [(pi, smp) for smp in gens[pi]]
        per_pass = [[] for _ in range(case["passes"])]
        for pi, smp in order:
            per_pass[pi].append(smp)
        for pi in range(case["passes"]):
            batches = []
            for s in per_pass[pi]:
                B = len(s.actions)
                rows = []
                for i in range(B):
                    f = {}
                    if case["dict"]:
                        oa = s.observations["a"][i].numpy()
                        ob = s.observations["b"][i].numpy().reshape(-1)
                        f["obs.a0"] = decode_tag(oa[0], T)
                        f["obs.a1"] = decode_tag(oa[1] - 0.5, T)
                        f["obs.b0"] = decode_tag(ob[0], T)
                        f["obs.b1"] = decode_tag(ob[1] - 0.25, T)
                    else:
                        o = s.observations[i].numpy()
                        f["obs0"] = decode_tag(o[0], T)
                        f["obs1"] = decode_tag(o[1] - 0.5, T)
                        f["obs2"] = decode_tag(-o[2], T)
                    a = s.actions[i].numpy()
                    f["act0"] = decode_tag(a[0], T)
                    f["act1"] = decode_tag(-a[1], T)
                    f["value"] = decode_tag(s.old_values[i].item(), T)
                    f["logp"] = decode_tag(-s.old_log_prob[i].item(), T)
                    f["adv"] = decode_tag(s.advantages[i].item() / 2.0, T)
                    f["ret"] = decode_tag(s.returns[i].item() / 3.0, T)
                    rows.append(f)
                batches.append(rows)
            passes.append(batches)
    finally:
        np.random.permutation = orig
    return {"passes": passes, "captured": captured}


def cmp_get(ctx, case, r, mouts):
    rep = ctx.report
    T, n = case["T"], case["n"]
    N = T * n
    b = case["batch"] if case["batch"] is not None else N
    ops = []
    for pi, batches in enumerate(r["passes"]):
        flat = []
        for bi, rows in enumerate(batches):
            for f in rows:
                vals = set(f.values())
                if len(vals) != 1:
                    rep.violation("fields of one sample come from different (step, env) slots", case,
                                  {"kind": "align", "dict": case["dict"]}, {"fields": {k: list(v) for k, v in f.items()}})
                    return
                flat.append(next(iter(vals)))
        want = sorted((t, e) for t in range(T) for e in range(n))
        if sorted(flat) != want:
            rep.violation("a pass over the rollout buffer does not yield every (step, env) exactly once", case,
                          {"kind": "partition", "pass": pi}, {"yielded": len(flat), "expected": N,
                                                              "distinct": len(set(flat))})
            return
        sizes = [len(rows) for rows in batches]
        exp_sizes = [b] * (N // b) + ([N % b] if N % b else [])
        if sizes != exp_sizes:
            rep.violation("minibatch sizes are not batch_size (last one: the remainder)", case,
                          {"kind": "sizes"}, {"sizes": sizes, "expected": exp_sizes})
            return
    # correspondence: the model slices the same permutation
    if mouts is None:
        return
    for pi, batches in enumerate(r["passes"]):
        mo = mouts[pi]
        if mo is None:
            continue
        impl = [[list(next(iter(f.values()))) for f in rows] for rows in batches]
        if "error" in mo or mo["batches"] != impl:
            rep.disagree("get_batches", case, impl, mo)
            return
    if r["captured"]:
        rep.count("permutation_call_seen")
    rep.agree()


def get_ops(case, r):
    T, n = case["T"], case["n"]
    ops = []
    for batches in r["passes"]:
        perm = []
        for rows in batches:
            for f in rows:
                t, e = f["act0"]
                perm.append(e * T + t)
        ops.append({"op": "get", "T": T, "n": n, "perm": perm, "batch": case["batch"]})
    return ops


def run_buf(ctx, case):
    import torch as th

    T, n = case["T"], case["n"]
    buf = make_buffer(T, n, False, 0.9, 0.9)
    err = None
    try:
        for t in range(case["adds"]):
            buf.add(np.zeros((n, 3), np.float32), np.zeros((n, 2), np.float32), np.zeros(n), np.zeros(n),
                    th.zeros(n), th.zeros(n))
    except IndexError:
        err = "add-past-end"
    return {"full": bool(buf.full), "pos": int(buf.pos), "err": err}


def check_cases(ctx, cases):
    rep = ctx.report
    ops, plan = [], []
    for case in cases:
        k = case["kind"]
        rep.count(f"kind:{k}")
        if k in ("gae_exact", "gae_float"):
            r = guarded(ctx, case, lambda: run_gae(ctx, case))
            nt = nontrivial_gae(case)
            rep.case(case, case if nt else None)
            rep.count(f"T={case['T']}")
            rep.count(f"prelude_rollouts={len(case.get('prelude') or [])}")
            if k in ("gae_exact", "gae_float"):
                rep.count(f"earlier_compute_calls_on_same_rollout={case.get('recompute', 0)}")
            rep.count("dict" if case["dict"] else "array")
            if r is None:
                continue
            plan.append((case, r, len(ops), 1))
            ops.append(r["op"])
        elif k == "get":
            r = guarded(ctx, case, lambda: run_get(ctx, case))
            N = case["T"] * case["n"]
            nt = case["batch"] is not None and N % case["batch"] != 0
            rep.case(case, case if nt else None)
            rep.count("batch:" + ("none" if case["batch"] is None else "divides" if N % case["batch"] == 0 else "ragged"))
            if r is None:
                continue
            o = get_ops(case, r)
            plan.append((case, r, len(ops), len(o)))
            ops.extend(o)
        elif k == "buf":
            r = guarded(ctx, case, lambda: run_buf(ctx, case))
            rep.case(case, None)
            if r is None:
                continue
            plan.append((case, r, len(ops), 1))
            ops.append({"op": "buf", "T": case["T"], "n": case["n"], "adds": case["adds"]})
    outs = ctx.lean.run(ops)
    for case, r, i, k in plan:
        kind = case["kind"]
        if kind in ("gae_exact", "gae_float"):
            cmp_gae(ctx, case, r, outs[i])
        elif kind == "get":
            cmp_get(ctx, case, r, outs[i:i + k] if outs[i] is not None else None)
        else:
            mo = outs[i]
            if r["err"] is None and case["adds"] <= case["T"]:
                if r["full"] != (case["adds"] == case["T"]):
                    rep.violation("full flag wrong after adds", case, {"kind": "full"})
            if mo is None:
                continue
            impl = {"error": r["err"]} if r["err"] else {"full": r["full"], "pos": r["pos"]}
            if impl != mo:
                rep.disagree("buf_full", case, impl, mo)
            else:
                rep.agree()
