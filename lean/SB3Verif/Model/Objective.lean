/-
Model for C07: the *published objective* of each algorithm's `train()` as a function of the network
outputs of one minibatch, and the analytic cotangents (∂ loss / ∂ output, per sample) that the
correspondence harness back-propagates through the real networks with `torch.autograd.grad`.

One source text, two instances.  Every formula is written once against the core arithmetic classes
(`Add Sub Mul Div Neg`) plus the small operation class `OScalar` (literals, `exp`, `sqrt`, a Boolean `≤`).
The class is instantiated

* here at core `Float` (IEEE double) — this is what `Driver/C07.lean` executes, and
* in `Lemmas/Objective.lean` at `ℝ` (`Real.exp`, `Real.sqrt`, noncomputable) — this is what the theorems of
  `Props/C07.lean` are about (the cotangents are the derivatives of the losses).

What is modelled (file:line of /repo at the pinned commit)

* `ppoAdv`, `a2cAdv`, `normAdv`         advantage normalisation `(A - mean A) / (std₍n-1₎ A + 1e-8)`
                                        (ppo.py:222-224 guarded by `len > 1`, a2c.py:155-156 unguarded)
* `ratio`, `surr`, `ppoPolicyLoss`      PPO clipped surrogate (ppo.py:227-232)
* `valuePred`, `valueLoss`              value loss, optionally clipped around the old value (ppo.py:239-249, a2c.py:162)
* `entropyLoss`                         `-mean(entropy)` or `-mean(-log_prob)` (ppo.py:252-257, a2c.py:165-169)
* `ppoLoss`, `a2cLoss`                  `policy_loss + ent_coef * entropy_loss + vf_coef * value_loss`
* `tdTarget`, `dqnLoss`, `smoothL1`     DQN: `r + (1 - d) * γ * max_a Q'(s', a)`, Huber loss β = 1 (dqn.py:196-211)
* `sacTarget`, `sacCriticLoss`, `sacActorLoss`, `sacAlphaLoss`
                                        SAC (sac.py:217-272)
* `td3NextAction`, `td3Target`, `td3CriticLoss`, `td3ActorLoss`, `td3ActorDue`
                                        TD3 / DDPG (td3.py:166-196)
* `clipCoef`, `clipGradNorm`            `torch.nn.utils.clip_grad_norm_` (`g * min(1, max_norm / (‖g‖ + 1e-6))`)
* `progressRemaining`, `lrAt`           `_update_current_progress_remaining`, schedules handed to `_update_learning_rate`

External (parameters of the model): the network outputs themselves (log-probabilities, values, entropies,
Q-values, target-network outputs, the actor's actions), the drawn batch and the drawn noise.  The chain rule
through the networks is PyTorch autograd (trusted base).  Import-free (core only).
-/

namespace SB3Verif.Objective

/-- The operations the formulas need beyond `+ - * / neg`. -/
class OScalar (α : Type) where
  ofNat : Nat → α
  exp : α → α
  sqrt : α → α
  /-- Boolean `a ≤ b` (`decide` at ℝ, IEEE comparison at `Float`) -/
  le : α → α → Bool

open OScalar

section generic
variable {α : Type} [Add α] [Sub α] [Mul α] [Div α] [Neg α] [OScalar α]

/-! ### small helpers -/

def zero : α := ofNat 0
def one : α := ofNat 1
def two : α := ofNat 2
/-- `0.5` -/
def half : α := ofNat 1 / ofNat 2
/-- `1e-8` (advantage normalisation) -/
def eps8 : α := ofNat 1 / ofNat 100000000
/-- `1e-6` (`clip_grad_norm_`) -/
def eps6 : α := ofNat 1 / ofNat 1000000

/-- `tensor.sum()` -/
def sum (l : List α) : α := l.foldr (· + ·) (ofNat 0)

/-- `mean_i f(sample_i)` — `tensor.mean()` of an element-wise expression of the batch -/
def meanMap {σ : Type} (f : σ → α) (S : List σ) : α := sum (S.map f) / ofNat S.length

def mean (l : List α) : α := meanMap (fun x => x) l

def max' (a b : α) : α := if le a b then b else a
def min' (a b : α) : α := if le a b then a else b
def abs' (x : α) : α := if le (ofNat 0) x then x else -x

/-- `th.clamp(x, lo, hi)` = `min(max(x, lo), hi)` -/
def clamp (lo hi x : α) : α := min' (max' x lo) hi

def sq (x : α) : α := x * x

/-- `0 + x₀ + x₁ + …` over a non-empty list, first element as the seed -/
def maxList : List α → α
  | [] => ofNat 0
  | x :: xs => xs.foldl max' x

def minList : List α → α
  | [] => ofNat 0
  | x :: xs => xs.foldl min' x

/-- index of the first minimal element (the critic that receives the cotangent of `min`) -/
def argminFrom (best : α) (bi : Nat) : List α → Nat → Nat
  | [], _ => bi
  | x :: xs, i => if le best x then argminFrom best bi xs (i + 1) else argminFrom x i xs (i + 1)

def argminFirst : List α → Nat
  | [] => 0
  | x :: xs => argminFrom x 0 xs 1

/-! ### advantage normalisation -/

/-- `advantages.std()` squared: unbiased (n-1) variance, as `torch.Tensor.std` -/
def varUnbiased (l : List α) : α :=
  sum (l.map fun a => sq (a - mean l)) / ofNat (l.length - 1)

def stdUnbiased (l : List α) : α := sqrt (varUnbiased l)

/-- `(advantages - advantages.mean()) / (advantages.std() + 1e-8)` -/
def normAdv (l : List α) : List α :=
  l.map fun a => (a - mean l) / (stdUnbiased l + eps8)

/-- PPO: `if self.normalize_advantage and len(advantages) > 1` -/
def ppoAdv (normalize : Bool) (l : List α) : List α :=
  if normalize && decide (1 < l.length) then normAdv l else l

/-- A2C: `if self.normalize_advantage` (no length guard) -/
def a2cAdv (normalize : Bool) (l : List α) : List α :=
  if normalize then normAdv l else l

/-! ### PPO / A2C -/

/-- One sample of an on-policy minibatch.  `logp`, `value`, `entropy` are network outputs
(`policy.evaluate_actions`); the rest is rollout data (constants of the objective). -/
structure PGSample (α : Type) where
  adv : α
  oldLogp : α
  oldValue : α
  ret : α
  logp : α
  value : α
  entropy : α

structure PGConfig (α : Type) where
  /-- `clip_range(progress)` -/
  clip : α
  /-- `clip_range_vf(progress)` or `None` -/
  clipVf : Option α
  entCoef : α
  vfCoef : α
  /-- `entropy is not None` (false only for distributions without closed-form entropy) -/
  hasEntropy : Bool

/-- `ratio = th.exp(log_prob - old_log_prob)` -/
def ratio (logp oldLogp : α) : α := exp (logp - oldLogp)

/-- `th.min(advantages * ratio, advantages * th.clamp(ratio, 1 - ε, 1 + ε))` for one sample -/
def surr (ε A r : α) : α := min' (A * r) (A * clamp (one - ε) (one + ε) r)

def surrTerm (ε : α) (s : PGSample α) : α := surr ε s.adv (ratio s.logp s.oldLogp)

/-- derivative of the per-sample clipped surrogate w.r.t. `logp` (zero in the clipped branch) -/
def surrGrad (ε A oldLogp logp : α) : α :=
  let r := ratio logp oldLogp
  if le (A * r) (A * clamp (one - ε) (one + ε) r) then A * r else zero

/-- `policy_loss = -th.min(policy_loss_1, policy_loss_2).mean()` -/
def ppoPolicyLoss (ε : α) (S : List (PGSample α)) : α := -(meanMap (surrTerm ε) S)

/-- `values_pred`: `values` or `old_values + clamp(values - old_values, -c, c)` -/
def valuePred (cv : Option α) (s : PGSample α) : α :=
  match cv with
  | none => s.value
  | some c => s.oldValue + clamp (-c) c (s.value - s.oldValue)

/-- derivative of `valuePred` w.r.t. `value` -/
def valuePredGrad (cv : Option α) (s : PGSample α) : α :=
  match cv with
  | none => one
  | some c => if le (-c) (s.value - s.oldValue) && le (s.value - s.oldValue) c then one else zero

def valueTerm (cv : Option α) (s : PGSample α) : α := sq (s.ret - valuePred cv s)

/-- `F.mse_loss(rollout_data.returns, values_pred)` -/
def valueLoss (cv : Option α) (S : List (PGSample α)) : α := meanMap (valueTerm cv) S

/-- `-th.mean(entropy)`, or `-th.mean(-log_prob)` when the distribution has no closed-form entropy -/
def entropyLoss (hasEntropy : Bool) (S : List (PGSample α)) : α :=
  if hasEntropy then -(meanMap (fun s => s.entropy) S) else -(meanMap (fun s => -s.logp) S)

/-- `loss = policy_loss + self.ent_coef * entropy_loss + self.vf_coef * value_loss` -/
def ppoLoss (c : PGConfig α) (S : List (PGSample α)) : α :=
  ppoPolicyLoss c.clip S + c.entCoef * entropyLoss c.hasEntropy S + c.vfCoef * valueLoss c.clipVf S

/-- `policy_loss = -(advantages * log_prob).mean()` -/
def a2cPolicyLoss (S : List (PGSample α)) : α := -(meanMap (fun s => s.adv * s.logp) S)

def a2cLoss (c : PGConfig α) (S : List (PGSample α)) : α :=
  a2cPolicyLoss S + c.entCoef * entropyLoss c.hasEntropy S + c.vfCoef * valueLoss none S

/-- cotangent of the entropy term w.r.t. `logp` (only when there is no closed-form entropy) -/
def entLogpCot (c : PGConfig α) (B : Nat) : α :=
  c.entCoef * (if c.hasEntropy then zero else one / ofNat B)

/-- ∂ ppoLoss / ∂ logp_j -/
def ppoCotLogp (c : PGConfig α) (S : List (PGSample α)) : List α :=
  S.map fun s => -(surrGrad c.clip s.adv s.oldLogp s.logp / ofNat S.length) + entLogpCot c S.length

/-- ∂ a2cLoss / ∂ logp_j -/
def a2cCotLogp (c : PGConfig α) (S : List (PGSample α)) : List α :=
  S.map fun s => -(s.adv / ofNat S.length) + entLogpCot c S.length

/-- ∂ loss / ∂ value_j (both algorithms; A2C has `clipVf = none`) -/
def valueCot (vfCoef : α) (cv : Option α) (S : List (PGSample α)) : List α :=
  S.map fun s => vfCoef * (-(two * (s.ret - valuePred cv s) * valuePredGrad cv s) / ofNat S.length)

/-- ∂ loss / ∂ entropy_j -/
def entropyCot (c : PGConfig α) (S : List (PGSample α)) : List α :=
  S.map fun _ => c.entCoef * (if c.hasEntropy then -(one / ofNat S.length) else zero)

/-- which branch of the clipped surrogate a sample is in:
0 inside the clip range, 1 above and clipped (zero gradient), 2 above and passed through,
3 below and clipped, 4 below and passed through -/
def surrBranch (ε : α) (s : PGSample α) : Nat :=
  let r := ratio s.logp s.oldLogp
  let pass := le (s.adv * r) (s.adv * clamp (one - ε) (one + ε) r)
  if le (one - ε) r && le r (one + ε) then 0
  else if le (one + ε) r then (if pass then 2 else 1)
  else (if pass then 4 else 3)

/-- distance of a sample to the nearest kink of the objective (`ratio = 1 ± ε`, `|v - v_old| = c`) -/
def pgKink (c : PGConfig α) (ppo : Bool) (s : PGSample α) : α :=
  let big : α := ofNat 1000000
  let r := ratio s.logp s.oldLogp
  let k1 := if ppo then min' (abs' (r - (one - c.clip))) (abs' (r - (one + c.clip))) else big
  let k2 := match c.clipVf with
    | none => big
    | some cv => if ppo then abs' (abs' (s.value - s.oldValue) - cv) else big
  min' k1 k2

structure PGResult (α : Type) where
  loss : α
  policyLoss : α
  valueLoss : α
  entropyLoss : α
  cotLogp : List α
  cotValue : List α
  cotEntropy : List α
  branch : List Nat
  vbranch : List Nat
  kink : α
  advUsed : List α

/-- replace the raw advantages by the ones the loss uses -/
def withAdv (S : List (PGSample α)) (advs : List α) : List (PGSample α) :=
  (List.zip S advs).map fun p => { p.1 with adv := p.2 }

/-- Everything PPO's inner loop computes for one minibatch (raw advantages in `S`). -/
def ppoEval (c : PGConfig α) (normalize : Bool) (S₀ : List (PGSample α)) : PGResult α :=
  let advs := ppoAdv normalize (S₀.map (·.adv))
  let S := withAdv S₀ advs
  { loss := ppoLoss c S
    policyLoss := ppoPolicyLoss c.clip S
    valueLoss := valueLoss c.clipVf S
    entropyLoss := entropyLoss c.hasEntropy S
    cotLogp := ppoCotLogp c S
    cotValue := valueCot c.vfCoef c.clipVf S
    cotEntropy := entropyCot c S
    branch := S.map (surrBranch c.clip)
    vbranch := S.map fun s => match c.clipVf with
      | none => 0
      | some cv => if le (-cv) (s.value - s.oldValue) && le (s.value - s.oldValue) cv then 0 else 1
    kink := (S.map (pgKink c true)).foldl min' (ofNat 1000000)
    advUsed := advs }

/-- Everything A2C's single update computes (raw advantages in `S`). -/
def a2cEval (c : PGConfig α) (normalize : Bool) (S₀ : List (PGSample α)) : PGResult α :=
  let advs := a2cAdv normalize (S₀.map (·.adv))
  let S := withAdv S₀ advs
  { loss := a2cLoss c S
    policyLoss := a2cPolicyLoss S
    valueLoss := valueLoss none S
    entropyLoss := entropyLoss c.hasEntropy S
    cotLogp := a2cCotLogp c S
    cotValue := valueCot c.vfCoef none S
    cotEntropy := entropyCot c S
    branch := S.map fun _ => 0
    vbranch := S.map fun _ => 0
    kink := ofNat 1000000
    advUsed := advs }

/-! ### TD targets, DQN -/

/-- `rewards + (1 - dones) * gamma * bootstrap` -/
def tdTarget (γ r d boot : α) : α := r + (one - d) * γ * boot

/-- `F.smooth_l1_loss` (β = 1) of the difference `x = input - target`, one element -/
def smoothL1 (x : α) : α :=
  if le one (abs' x) then abs' x - half else half * x * x

/-- derivative of `smoothL1` -/
def smoothL1Grad (x : α) : α := clamp (-one) one x

structure QSample (α : Type) where
  /-- `q_net(obs)[action]` — network output -/
  q : α
  /-- `q_net_target(next_obs)` — all actions -/
  nextQ : List α
  r : α
  d : α

def dqnTarget (γ : α) (s : QSample α) : α := tdTarget γ s.r s.d (maxList s.nextQ)

def dqnLoss (γ : α) (S : List (QSample α)) : α :=
  meanMap (fun s => smoothL1 (s.q - dqnTarget γ s)) S

/-- ∂ dqnLoss / ∂ q_j -/
def dqnCot (γ : α) (S : List (QSample α)) : List α :=
  S.map fun s => smoothL1Grad (s.q - dqnTarget γ s) / ofNat S.length

/-! ### SAC -/

/-- `ent_coef = th.exp(self.log_ent_coef.detach())` -/
def alphaOf (logα : α) : α := exp logα

/-- `ent_coef_loss = -(log_ent_coef * (log_prob + target_entropy).detach()).mean()` -/
def sacAlphaLoss (H : α) (lps : List α) (logα : α) : α :=
  -(meanMap (fun lp => logα * (lp + H)) lps)

/-- ∂ sacAlphaLoss / ∂ logα -/
def sacAlphaCot (H : α) (lps : List α) : α := -(meanMap (fun lp => lp + H) lps)

/-- One sample of a critic update (SAC and TD3).  `qs` are network outputs (one per critic);
`nextQs` (target critics at the next action), `nextLogp`, `r`, `d` are constants of the objective. -/
structure CriticSample (α : Type) where
  qs : List α
  nextQs : List α
  nextLogp : α
  r : α
  d : α

/-- `r + (1 - d) * γ * (min_i Q'_i(s', a') - α * log π(a'|s'))` -/
def sacTarget (γ αc : α) (s : CriticSample α) : α :=
  tdTarget γ s.r s.d (minList s.nextQs - αc * s.nextLogp)

/-- `F.mse_loss(current_q_k, target)` -/
def mseK (y : CriticSample α → α) (k : Nat) (S : List (CriticSample α)) : α :=
  meanMap (fun s => sq (s.qs.getD k zero - y s)) S

/-- `0.5 * sum(F.mse_loss(current_q, target_q_values) for current_q in current_q_values)` -/
def sacCriticLoss (γ αc : α) (nc : Nat) (S : List (CriticSample α)) : α :=
  half * sum ((List.range nc).map fun k => mseK (sacTarget γ αc) k S)

/-- ∂ sacCriticLoss / ∂ q_{k,j} (row per sample, column per critic) -/
def sacCriticCot (γ αc : α) (nc : Nat) (S : List (CriticSample α)) : List (List α) :=
  S.map fun s => (List.range nc).map fun k =>
    half * (two * (s.qs.getD k zero - sacTarget γ αc s) / ofNat S.length)

structure ActorSample (α : Type) where
  /-- `log π(ã|s)` of the reparameterised action — network output -/
  logp : α
  /-- `Q_i(s, ã)` of every (online) critic — network outputs -/
  qpis : List α

/-- `actor_loss = (ent_coef * log_prob - min_qf_pi).mean()` -/
def sacActorLoss (αc : α) (S : List (ActorSample α)) : α :=
  meanMap (fun s => αc * s.logp - minList s.qpis) S

/-- ∂ sacActorLoss / ∂ logp_j -/
def sacActorCotLogp (αc : α) (S : List (ActorSample α)) : List α :=
  S.map fun _ => αc / ofNat S.length

/-- ∂ sacActorLoss / ∂ qpi_{k,j}: the arg-min critic receives `-1/B`, the others nothing -/
def sacActorCotQ (S : List (ActorSample α)) : List (List α) :=
  S.map fun s => (List.range s.qpis.length).map fun k =>
    if k == argminFirst s.qpis then -(one / ofNat S.length) else zero

/-- gap between the smallest and the second smallest critic value (kink of `min`) -/
def minGap (l : List α) : α :=
  let k := argminFirst l
  let m := minList l
  ((List.zip (List.range l.length) l).foldl
    (fun acc p => if p.1 == k then acc else min' acc (p.2 - m)) (ofNat 1000000))

/-! ### TD3 / DDPG -/

/-- `(actor_target(s') + noise.clamp(-c, c)).clamp(-1, 1)`, one component -/
def td3NextAction (c π n : α) : α := clamp (-one) one (π + clamp (-c) c n)

/-- `r + (1 - d) * γ * min_i Q'_i(s', a')` -/
def td3Target (γ : α) (s : CriticSample α) : α := tdTarget γ s.r s.d (minList s.nextQs)

/-- `sum(F.mse_loss(current_q, target_q_values) for current_q in current_q_values)` -/
def td3CriticLoss (γ : α) (nc : Nat) (S : List (CriticSample α)) : α :=
  sum ((List.range nc).map fun k => mseK (td3Target γ) k S)

/-- ∂ td3CriticLoss / ∂ q_{k,j} -/
def td3CriticCot (γ : α) (nc : Nat) (S : List (CriticSample α)) : List (List α) :=
  S.map fun s => (List.range nc).map fun k =>
    two * (s.qs.getD k zero - td3Target γ s) / ofNat S.length

/-- `actor_loss = -critic.q1_forward(obs, actor(obs)).mean()` -/
def td3ActorLoss (q1s : List α) : α := -(meanMap (fun q => q) q1s)

/-- ∂ td3ActorLoss / ∂ q1_j -/
def td3ActorCot (q1s : List α) : List α := q1s.map fun _ => -(one / ofNat q1s.length)

/-- `if self._n_updates % self.policy_delay == 0` (after `_n_updates += 1`) -/
def td3ActorDue (nUpdates delay : Nat) : Bool := nUpdates % delay == 0

/-! ### gradient-norm clipping -/

/-- total 2-norm of the gradient (all parameters flattened) -/
def l2norm (g : List α) : α := sqrt (sum (g.map sq))

/-- `clip_coef_clamped = clamp(max_norm / (total_norm + 1e-6), max=1.0)` -/
def clipCoef (maxN n : α) : α := min' one (maxN / (n + eps6))

/-- `torch.nn.utils.clip_grad_norm_`: every gradient is multiplied by the clamped coefficient -/
def clipGradNorm (maxN : α) (g : List α) : List α :=
  g.map fun x => x * clipCoef maxN (l2norm g)

/-! ### learning-rate schedule -/

/-- `max(1.0 - float(num_timesteps) / float(total_timesteps), 0.0)` -/
def progressRemaining (num total : Nat) : α :=
  max' (one - (ofNat num : α) / ofNat total) zero

/-- the schedules the harness hands to the algorithms: a constant, `p * lr0`, `lrEnd + p * (lr0 - lrEnd)` -/
inductive LrSchedule (α : Type) where
  | const (lr : α)
  | linear (lr0 : α)
  | affine (lr0 lrEnd : α)

def lrAt : LrSchedule α → α → α
  | .const lr, _ => lr
  | .linear lr0, p => p * lr0
  | .affine lr0 lrEnd, p => lrEnd + p * (lr0 - lrEnd)

end generic

/-! ### executable instance -/

instance : OScalar Float where
  ofNat := Float.ofNat
  exp := Float.exp
  sqrt := Float.sqrt
  le a b := a ≤ b

end SB3Verif.Objective
