/-
Driver for C17: runs the executable wrapper model `SB3Verif.Wrappers` on the raw outputs of the scripted
base VecEnv that the harness (`/verif/harness/c17.py`) fed to the real wrapper stack.

observation  = [[key, shape, data], …]     (a Box observation has the single key "")
space        = {"dict": bool, "subs": [[key, shape, low, high, dtype], …]}
wrapper      = {"w":"frameStack","n":k,"order":"auto"|"first"|"last"|[[key,order],…]}
             | {"w":"transpose","skip":bool} | {"w":"extract","key":s} | {"w":"monitor"} | {"w":"checkNan"}

ops
  {"op":"new","n_envs":k,"space":space,"wrappers":[wrapper…]}   (innermost first)
        → {"space": declared space} | {"error": constructor error}
  {"op":"reset","obs":[observation per env]}           → {"obs":[observation per env]}
  {"op":"step","recs":[{"obs","rew","done","term":observation|null,"trunc","payload"} per env]}
        → {"recs":[{"obs","rew","done","term","trunc","episode":[r,l]|null,"payload"}]}
  {"op":"stackOf","first":b,"n":k,"shape":[…],"ep":[[shape,data]…]}   → {"arr":[shape,data]}   (the specification)
  {"op":"contains","space":space,"obs":observation}    → {"in": bool}
-/
import SB3Verif.Driver.Proto
import SB3Verif.Model.Wrappers

open Lean SB3Verif.Proto SB3Verif.Wrappers

structure St where
  base : Space
  declared : Space
  envs : List (List WS)

def arrOfJ (shape data : Json) : Except String Arr := do
  let s ← asListOf asNat shape
  let d ← asListOf asInt data
  let a : Arr := ⟨s, d⟩
  if !a.wf then throw "array: element count does not match the shape"
  return a

def obsOfJ (j : Json) : Except String Obs := do
  let l ← asList j
  l.mapM fun e => do
    match ← asList e with
    | [k, s, d] => do
      let k ← asStr k
      let a ← arrOfJ s d
      return (k, a)
    | _ => throw "observation entry must be [key, shape, data]"

def obsJ (o : Obs) : Json :=
  listJ (fun kv => Json.arr #[strJ kv.1, listJ natJ kv.2.shape, listJ intJ kv.2.data]) o

def spaceOfJ (j : Json) : Except String Space := do
  let d ← getBool j "dict"
  let subs ← getList (fun e => do
    match ← asList e with
    | [k, s, lo, hi, dt] => do
      let k ← asStr k
      let s ← asListOf asNat s
      let lo ← asListOf asInt lo
      let hi ← asListOf asInt hi
      let dt ← asStr dt
      return (k, ({ shape := s, low := lo, high := hi, dtype := dt } : Box))
    | _ => throw "space entry must be [key, shape, low, high, dtype]") j "subs"
  return { isDict := d, subs := subs }

def spaceJ (sp : Space) : Json :=
  objJ [("dict", boolJ sp.isDict),
        ("subs", listJ (fun kb => Json.arr #[strJ kb.1, listJ natJ kb.2.shape, listJ intJ kb.2.low,
                                             listJ intJ kb.2.high, strJ kb.2.dtype]) sp.subs)]

def orderOfS (s : String) : Except String Order :=
  match s with
  | "auto" => .ok .auto
  | "first" => .ok .first
  | "last" => .ok .last
  | _ => .error s!"bad order {s}"

def cfgOfJ (j : Json) : Except String WCfg := do
  match ← getStr j "w" with
  | "frameStack" => do
    let n ← getNat j "n"
    let o ← fld j "order"
    match o.getStr? with
    | .ok s => return .frameStack n (.all (← orderOfS s))
    | .error _ => do
      let m ← asListOf (fun e => do
        match ← asList e with
        | [k, v] => do return (← asStr k, ← orderOfS (← asStr v))
        | _ => throw "order entry must be [key, order]") o
      return .frameStack n (.perKey m)
  | "transpose" => return .transpose (← getBool j "skip")
  | "extract" => return .extract (← getStr j "key")
  | "monitor" => return .monitor
  | "checkNan" => return .checkNan
  | w => throw s!"bad wrapper {w}"

def recOfJ (j : Json) : Except String Rec := do
  let o ← fld j "obs" >>= obsOfJ
  let rew ← getInt j "rew"
  let done ← getBool j "done"
  let tj ← fld j "term"
  let term ← if tj.isNull then pure none else some <$> obsOfJ tj
  let trunc ← getBool j "trunc"
  let payload ← getInt j "payload"
  return { obs := o, rew := rew, done := done,
           info := { terminal := term, truncated := trunc, episode := none, payload := payload } }

def recJ (r : Rec) : Json :=
  objJ [("obs", obsJ r.obs), ("rew", intJ r.rew), ("done", boolJ r.done),
        ("term", match r.info.terminal with | none => Json.null | some t => obsJ t),
        ("trunc", boolJ r.info.truncated),
        ("episode", match r.info.episode with | none => Json.null | some e => Json.arr #[intJ e.r, natJ e.l]),
        ("payload", intJ r.info.payload)]

def stepC17 (st : Option St) (j : Json) : Except String (Option St × Json) := do
  match ← getStr j "op" with
  | "new" => do
    let k ← getNat j "n_envs"
    let sp ← fld j "space" >>= spaceOfJ
    let cfgs ← getList cfgOfJ j "wrappers"
    match buildStack cfgs sp with
    | .error e => return (none, objJ [("error", strJ e)])
    | .ok (ws, sp') =>
      return (some { base := sp, declared := sp', envs := List.replicate k ws }, objJ [("space", spaceJ sp')])
  | "reset" => do
    let some s := st | throw "no wrapper stack"
    let os ← getList obsOfJ j "obs"
    if os.length != s.envs.length then throw "reset: wrong number of environments"
    if !os.all (obsHasShape s.base) then throw "reset: observation does not have the base space's shape"
    let res := vecReset s.envs os
    return (some { s with envs := res.map (·.1) }, objJ [("obs", listJ obsJ (res.map (·.2)))])
  | "step" => do
    let some s := st | throw "no wrapper stack"
    let rs ← getList recOfJ j "recs"
    if rs.length != s.envs.length then throw "step: wrong number of environments"
    if !rs.all (fun r => obsHasShape s.base r.obs) then throw "step: observation does not have the base space's shape"
    if !rs.all (fun r => match r.info.terminal with | none => true | some t => obsHasShape s.base t) then
      throw "step: terminal observation does not have the base space's shape"
    let res := vecStep s.envs rs
    return (some { s with envs := res.map (·.1) }, objJ [("recs", listJ recJ (res.map (·.2)))])
  | "stackOf" => do
    let first ← getBool j "first"
    let n ← getNat j "n"
    let shape ← getList asNat j "shape"
    let ep ← getList (fun e => do
      match ← asList e with
      | [s, d] => arrOfJ s d
      | _ => throw "array must be [shape, data]") j "ep"
    let a := stackOf first n shape ep
    return (st, objJ [("arr", Json.arr #[listJ natJ a.shape, listJ intJ a.data])])
  | "contains" => do
    let sp ← fld j "space" >>= spaceOfJ
    let o ← fld j "obs" >>= obsOfJ
    return (st, objJ [("in", boolJ (sp.contains o))])
  | op => throw s!"bad-op {op}"

def main : IO Unit := SB3Verif.Proto.run stepC17 none
