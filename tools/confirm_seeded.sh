#!/bin/bash
# usage: tools/confirm_seeded.sh <PID> <worktree> <seeded-id> "<needs>" <test files...>
# Confirms a seeded change: demo fails with it / passes without it, given tests pass with it; then
# files it under /verif/seeded/<seeded-id>/ and runs ./check <PID> against the changed worktree.
set -u
PID=$1; WT=$2; SID=$3; NEEDS=$4; shift 4
cd "$WT" || exit 2
export OMP_NUM_THREADS=1 PYTHONPATH="$WT"
PATCH="$WT/patch_$PID.diff"; DEMO="$WT/demo_$PID.py"
git diff -- stable_baselines3 > /tmp/confirm_$SID.diff
if ! cmp -s /tmp/confirm_$SID.diff "$PATCH"; then echo "NOTE: working tree diff differs from patch file; using working tree diff"; cp /tmp/confirm_$SID.diff "$PATCH"; fi
/venv/bin/python "$DEMO" > /tmp/confirm_$SID.changed.out 2>&1; RC_CHANGED=$?
git apply -R "$PATCH" || { echo "cannot reverse patch"; exit 2; }
/venv/bin/python "$DEMO" > /tmp/confirm_$SID.orig.out 2>&1; RC_ORIG=$?
git apply "$PATCH" || { echo "cannot re-apply patch"; exit 2; }
echo "demo: changed rc=$RC_CHANGED original rc=$RC_ORIG"
TESTS_OK=skipped
if [ $# -gt 0 ]; then
  /venv/bin/python -m pytest -q -p no:cacheprovider --timeout=900 "$@" > /tmp/confirm_$SID.tests.out 2>&1
  tail -3 /tmp/confirm_$SID.tests.out
  # compare with baseline: a failure counts only if the test is in the stable_pass list
  TESTS_OK=$(/venv/bin/python - <<PY
import json,re
b=set(json.load(open('/root/.vp/BASELINE.json'))['stable_pass'])
bad=[]
for l in open('/tmp/confirm_$SID.tests.out'):
    m=re.match(r'(FAILED|ERROR) (tests/\S+?)\.py::(\S+)',l)
    if m:
        name=m.group(2).replace('/','.')+'::'+m.group(3)
        if name in b: bad.append(name)
print('ok' if not bad else 'BASELINE-TESTS-FAIL:'+','.join(bad[:5]))
PY
)
  echo "tests: $TESTS_OK"
fi
cd /verif
SB3_REPO="$WT" ./check $PID > /tmp/confirm_$SID.check.out 2>&1; RC_CHECK=$?
head -3 /tmp/confirm_$SID.check.out
echo "check rc=$RC_CHECK"
if [ $RC_CHANGED -ne 0 ] && [ $RC_ORIG -eq 0 ] && [ "$TESTS_OK" != "${TESTS_OK#ok}" -o "$TESTS_OK" = skipped ]; then
  mkdir -p /verif/seeded/$SID
  cp "$PATCH" /verif/seeded/$SID/patch.diff; cp "$DEMO" /verif/seeded/$SID/demo.py
  /venv/bin/python - <<PY
import json
json.dump({"property":"$PID","seeded_id":"$SID","needs_to_manifest":"""$NEEDS""",
 "confirmed":{"demo_rc_with_change":$RC_CHANGED,"demo_rc_without_change":$RC_ORIG,"tests_run":"$*","tests_result":"$TESTS_OK"},
 "check_result":{"cmd":"SB3_REPO=<worktree with patch> ./check $PID --tier quick","exit":$RC_CHECK,"first_line":open('/tmp/confirm_$SID.check.out').readline().strip()},
 "how_to_rerun":"git -C /repo apply /verif/seeded/$SID/patch.diff && ./check $PID; git -C /repo checkout -- ."},
 open('/verif/seeded/$SID/meta.json','w'),indent=1)
PY
  echo "KEPT as /verif/seeded/$SID"
else
  echo "NOT KEPT"
fi
