/-
C14 — Action distributions are mathematically consistent.

Property theorems only (helper lemmas: `SB3Verif/Lemmas/Dist.lean`).  Every statement is about the ℝ
instance of the generic definitions of `SB3Verif/Model/Dist.lean`; the driver `SB3Verif/Driver/C14.lean`
executes the *same* definitions at `Float` / `Float32` against the real `Distribution` objects.

Naming: plain names are full-strength statements about the modelled code; `_partial` marks a statement
that needs a hypothesis the code does not guarantee (the gap is spelled out in the doc-string);
`_counterexample` proves that the full statement fails for the code as it is, with a witness.
-/
import SB3Verif.Lemmas.Dist

namespace SB3Verif.C14

open SB3Verif.Dist SB3Verif.Lemmas.Dist
open ProbabilityTheory MeasureTheory
open scoped NNReal

/-! ## `sum_independent_dims` -/

/-- A `(batch, dims)` tensor is reduced row by row: one value per batch row, the sum of *that* row
(any batch size, any number of dimensions). -/
theorem sum_independent_dims_rows (rows : List (List ℝ)) :
    sumIndependentDims (.mat rows) = .vec (rows.map List.sum) := by
  simp only [sumIndependentDims]
  congr 1
  exact List.map_congr_left fun r _ => sum_real r

/-- A rank-1 tensor (un-batched parameters) is reduced to its total. -/
theorem sum_independent_dims_vec (l : List ℝ) :
    sumIndependentDims (.vec l) = .scalar l.sum := by
  simp [sumIndependentDims]

/-- Batched `DiagGaussianDistribution.log_prob`: entry `b` of the result is the log-probability of row `b`
computed from row `b` of the parameters and actions only — no mixing across the batch axis. -/
theorem gauss_batch_rows (μ logσ a : List (List ℝ)) :
    gaussLogProbBatch μ logσ a = .vec (zipWith3 gaussLogProb μ logσ a) := by
  simp only [gaussLogProbBatch, sumIndependentDims, zipWith3_map]
  rfl

/-! ## Diagonal Gaussian -/

/-- **log_prob is the log density (one dimension)**: `exp (Normal(μ, exp logσ).log_prob a)` is Mathlib's
Gaussian density with mean `μ` and variance `(exp logσ)²`, and that density integrates to one. -/
theorem gauss_is_density (μ logσ a : ℝ) :
    Real.exp (normalLogProb μ (diagStd logσ) a) = gaussianPDFReal μ (nnsq (Real.exp logσ)) a
      ∧ ∫ x, gaussianPDFReal μ (nnsq (Real.exp logσ)) x = 1 := by
  refine ⟨?_, integral_gaussianPDFReal_eq_one μ (nnsq_ne_zero (Real.exp_pos logσ).ne')⟩
  rw [diagStd_real]
  exact exp_normalLogProb μ _ a (Real.exp_pos logσ)

/-- **log_prob is the log of the product density** (all dimensions, independent components):
`exp (log_prob a) = Π_i pdf_{μ_i, σ_i²}(a_i)` — the sum over action dimensions is the joint density of
independent Gaussians. -/
theorem gauss_joint_density (μ logσ a : List ℝ) :
    Real.exp (gaussLogProb μ logσ a)
      = (zipWith3 (fun m s x => gaussianPDFReal m (nnsq (Real.exp s)) x) μ logσ a).prod :=
  exp_gaussLogProb μ logσ a

/-- **mode is the maximiser**: no action has larger log-probability than `mode()`. -/
theorem gauss_mode_max (μ logσ a : List ℝ) (h1 : μ.length = logσ.length) (h2 : μ.length = a.length) :
    gaussLogProb μ logσ a ≤ gaussLogProb μ logσ (gaussMode μ) :=
  gaussLogProb_le_mode μ logσ a h1 h2

example : ([0.5, -1] : List ℝ).length = ([0, -2] : List ℝ).length
    ∧ ([0.5, -1] : List ℝ).length = ([3, 4] : List ℝ).length := by simp

/-- **entropy is the analytic entropy**, summed over dimensions:
`Σ_i (½ + ½ log 2π + log σ_i) = n (½ + ½ log 2π) + Σ_i logσ_i`. -/
theorem gauss_entropy_sum (logσ : List ℝ) :
    gaussEntropy logσ = (logσ.map fun s => 1 / 2 + 1 / 2 * Real.log (2 * Real.pi) + s).sum
      ∧ gaussEntropy logσ = logσ.length * (1 / 2 + 1 / 2 * Real.log (2 * Real.pi)) + logσ.sum :=
  ⟨gaussEntropy_real logσ, gaussEntropy_closed logσ⟩

/-- **entropy is the differential entropy**: `Normal.entropy` of one dimension equals `-∫ p log p` for
Mathlib's Gaussian measure and density with mean `μ` and variance `(exp logσ)²` (any `μ`). -/
theorem gauss_entropy_is_differential_entropy (μ logσ : ℝ) :
    normalEntropy (diagStd logσ)
      = -∫ x, Real.log (gaussianPDFReal μ (nnsq (Real.exp logσ)) x)
          ∂(gaussianReal μ (nnsq (Real.exp logσ))) := by
  rw [diagStd_real]
  exact normalEntropy_eq_differential μ _ (Real.exp_pos logσ)

/-! ## Tanh-squashed Gaussian -/

/-- **Change of variables, ε = 0** (`_partial`: the code uses `ε = 1e-6`, see `squash_eps_bound` and
`squash_eps_counterexample`).  For every pre-squash vector `x`, the log-probability the code assigns to
the action `tanh x` (given the cached `x`) is the Gaussian log-density of `x` minus
`Σ log (tanh' x_i)` — the log-density of `tanh ∘ X` by the change-of-variables formula, using
`tanh' = 1 - tanh²`. -/
theorem squash_change_of_variables_partial (μ logσ x : List ℝ) :
    squashedLogProbG 0 μ logσ (x.map Real.tanh) x
      = gaussLogProb μ logσ x - (x.map fun xi => Real.log (deriv Real.tanh xi)).sum := by
  rw [squashedLogProbG_real, List.map_map]
  congr 2
  exact List.map_congr_left fun xi _ => squashCorrection_tanh xi

/-- **The squashed log-probability is the log-density of `tanh ∘ X`, ε = 0, one dimension**
(`_partial`: `ε = 0` instead of the code's `1e-6`).  The law of `tanh ∘ X` for `X ~ N(μ, σ²)` has the density
`squashedPDFReal` with respect to Lebesgue measure (measure-theoretic change of variables), and for every
action `y ∈ (-1, 1)` the model's `exp (log_prob y)` with pre-squash value `artanh y` *is* that density. -/
theorem squash_pushforward_density_partial (μ logσ : ℝ) :
    (gaussianReal μ (nnsq (Real.exp logσ))).map Real.tanh
        = volume.withDensity
            (fun y => ENNReal.ofReal (squashedPDFReal μ (nnsq (Real.exp logσ)) y))
      ∧ ∀ y ∈ Set.Ioo (-1 : ℝ) 1,
          Real.exp (squashedLogProbG 0 [μ] [logσ] [y] [Real.artanh y])
            = squashedPDFReal μ (nnsq (Real.exp logσ)) y :=
  ⟨map_tanh_gaussianReal μ (nnsq_ne_zero (Real.exp_pos logσ).ne'),
    fun y hy => exp_squashedLogProbG_one μ logσ y hy⟩

/-- `TanhBijector.inverse` recovers the pre-squash value whenever the action lies in the clamp window
`|tanh g| ≤ 1 - eps`. -/
theorem squash_inverse_recovers (eps : ℝ) (g : List ℝ) (h : ∀ gi ∈ g, |Real.tanh gi| ≤ 1 - eps) :
    (g.map Real.tanh).map (tanhInverse eps) = g := by
  rw [List.map_map]
  conv_rhs => rw [← List.map_id g]
  apply List.map_congr_left
  intro gi hgi
  have := abs_le.mp (h gi hgi)
  exact tanhInverse_tanh (by linarith [this.1]) this.2

example : ∀ gi ∈ ([0.3, -2] : List ℝ), |Real.tanh gi| ≤ 1 - (0 : ℝ) := by
  intro gi _
  simpa using (Real.abs_tanh_lt_one gi).le

/-- **The cached pre-squash sample agrees with re-deriving it**: `log_prob_from_params` (which passes the
cached `gaussian_actions`) returns the same value as `log_prob(action)` (which inverts `tanh`), whenever
the sampled action is inside the clamp window. -/
theorem cached_presquash_agrees (ε eps : ℝ) (μ logσ z : List ℝ)
    (h : ∀ gi ∈ gaussSample μ logσ z, |Real.tanh gi| ≤ 1 - eps) :
    squashedLogProb ε eps μ logσ (squashedLogProbFromParams ε μ logσ z).1
      = (squashedLogProbFromParams ε μ logσ z).2 := by
  simp only [squashedLogProbFromParams, squashedSample, squashedLogProb]
  have : (TScalar.tanh : ℝ → ℝ) = Real.tanh := rfl
  rw [this, squash_inverse_recovers eps _ h]

/-- **Outside the clamp window the inverse is not the inverse** (`_counterexample` to
`cached_presquash_agrees` without its hypothesis): for `1 - eps < y < 1`, `TanhBijector.inverse y` is
strictly smaller than `artanh y`, so `log_prob(action)` evaluates the Gaussian at the wrong point. -/
theorem squash_clamp_counterexample (eps y : ℝ) (h1 : eps < 1) (hy1 : 1 - eps < y) (hy2 : y < 1) :
    tanhInverse eps y < Real.artanh y :=
  tanhInverse_clamped_lt h1 hy1 hy2

example : (2⁻¹ : ℝ) < 1 ∧ 1 - (2⁻¹ : ℝ) < 3 / 4 ∧ (3 / 4 : ℝ) < 1 := by norm_num

/-- **Effect of the code's ε** on the log-probability: it is lowered, by exactly
`Σ_i log (1 + ε / (1 - a_i²))`, which lies between `0` and `Σ_i ε / (1 - a_i²)`. -/
theorem squash_eps_bound (ε : ℝ) (hε : 0 ≤ ε) (μ logσ a g : List ℝ) (ha : ∀ y ∈ a, y ^ 2 < 1) :
    squashedLogProbG 0 μ logσ a g - squashedLogProbG ε μ logσ a g
        = (a.map fun y => Real.log (1 + ε / (1 - y ^ 2))).sum
      ∧ 0 ≤ squashedLogProbG 0 μ logσ a g - squashedLogProbG ε μ logσ a g
      ∧ squashedLogProbG 0 μ logσ a g - squashedLogProbG ε μ logσ a g
          ≤ (a.map fun y => ε / (1 - y ^ 2)).sum := by
  have hd : squashedLogProbG 0 μ logσ a g - squashedLogProbG ε μ logσ a g
      = (a.map fun y => squashCorrection ε y - squashCorrection 0 y).sum := by
    rw [squashedLogProbG_real, squashedLogProbG_real, ← sum_map_sub]; ring
  rw [hd]
  refine ⟨?_, ?_, ?_⟩
  · congr 1
    exact List.map_congr_left fun y hy => squashCorrection_eps ε y hε (ha y hy)
  · apply List.sum_nonneg
    intro x hx
    obtain ⟨y, hy, rfl⟩ := List.mem_map.mp hx
    exact squashCorrection_eps_nonneg ε y hε (ha y hy)
  · apply List.sum_le_sum
    intro y hy
    exact squashCorrection_eps_le ε y hε (ha y hy)

example : ∀ y ∈ ([0.5, -0.9] : List ℝ), y ^ 2 < 1 := by
  intro y hy
  simp only [List.mem_cons, List.not_mem_nil, or_false] at hy
  rcases hy with rfl | rfl <;> norm_num

/-- **With ε > 0 the squashed log_prob is not the exact log-density** (`_counterexample` to the full
statement): at the action `a = √(1-ε)` (inside `(-1, 1)`) the one-dimensional log-probability is lower
than the exact change-of-variables value (`ε = 0`) by exactly `log 2`. -/
theorem squash_eps_counterexample (ε μ s g : ℝ) (h0 : 0 < ε) (h1 : ε < 1) :
    squashedLogProbG ε [μ] [s] [Real.sqrt (1 - ε)] [g]
      = squashedLogProbG 0 [μ] [s] [Real.sqrt (1 - ε)] [g] - Real.log 2 := by
  have := squashCorrection_at_witness ε h0 h1
  rw [squashedLogProbG_real, squashedLogProbG_real]
  simp only [List.map_cons, List.map_nil, List.sum_cons, List.sum_nil, add_zero]
  linarith

example : (0 : ℝ) < 1 / 1000000 ∧ (1 / 1000000 : ℝ) < 1 := by norm_num

/-- **mode() of the squashed Gaussian is not the maximiser in action space** (`_counterexample` to
"mode is the maximiser" for the squashed distributions): with mean `0`, `log_std = 0`, the action `tanh 1`
has strictly larger log-probability than `mode() = tanh 0`, for every regulariser `0 ≤ ε ≤ 1/100`
(the code's `ε` is `1e-6`).  `tanh(mean)` is the median of `tanh ∘ X`; the density `p(x) / (1 - tanh² x)`
is maximal where `(x - mean)/σ² = 2 tanh x`. -/
theorem squash_mode_counterexample (ε : ℝ) (h0 : 0 ≤ ε) (h1 : ε ≤ 1 / 100) :
    squashedLogProbG ε [0] [0] (squashedMode [0]) (gaussMode [0])
      < squashedLogProbG ε [0] [0] [Real.tanh 1] [1] :=
  squashed_mode_not_argmax ε h0 h1

example : (0 : ℝ) ≤ 1 / 1000000 ∧ (1 / 1000000 : ℝ) ≤ 1 / 100 := by norm_num

/-! ## Categorical -/

/-- `logits - logsumexp(logits)` is `log softmax`: the shift by the maximum does not change the value. -/
theorem categorical_is_log_softmax (l : List ℝ) (hl : l ≠ []) :
    logSumExp l = Real.log ((l.map Real.exp).sum)
      ∧ catProbs l = l.map fun x => Real.exp x / (l.map Real.exp).sum :=
  ⟨logSumExp_eq_log l hl, catProbs_eq_softmax l hl⟩

/-- **normalised**: the masses `exp (log_prob a)` over all actions sum to one. -/
theorem categorical_normalised (l : List ℝ) (hl : l ≠ []) :
    ((List.range l.length).map fun a => Real.exp ((catLogProb l a).getD 0)).sum = 1 := by
  have h : ((List.range l.length).map fun a => Real.exp ((catLogProb l a).getD 0))
      = (List.range (catProbs l).length).map fun a => (catProbs l).getD a 0 := by
    rw [catProbs_length]
    apply List.map_congr_left
    intro a ha
    have haL : a < (catLogits l).length := by rw [catLogits_length]; exact List.mem_range.mp ha
    simp [catLogProb, catProbs, List.getD_eq_getElem?_getD, List.getElem?_eq_getElem haL]
  rw [h, map_range_getD]
  exact catProbs_sum l hl

/-- **mode is a maximiser**: every action in the support has log-probability at most that of `mode()`,
and `mode()` is in the support. -/
theorem categorical_mode_max (l : List ℝ) (hl : l ≠ []) (a : Nat) (lp : ℝ)
    (ha : catLogProb l a = some lp) :
    catMode l < l.length ∧ ∃ lpm, catLogProb l (catMode l) = some lpm ∧ lp ≤ lpm :=
  ⟨catMode_lt l hl, catLogProb_le_mode l hl a lp ha⟩

example : catLogProb ([1, 2, 3] : List ℝ) 1 = some ((catLogits ([1, 2, 3] : List ℝ))[1]'(by simp [catLogits])) := by
  simp [catLogProb, catLogits]

/-- **entropy is `-Σ p log p`** of the action probabilities. -/
theorem categorical_entropy_def (l : List ℝ) :
    catEntropy l = -((catProbs l).map fun p => p * Real.log p).sum :=
  catEntropy_real l

/-! ## MultiCategorical -/

/-- `th.split` cuts the flat logits into consecutive blocks of sizes `nvec` (nothing lost, nothing
shared), for every `nvec` whose sizes add up to the row length. -/
theorem multicategorical_split (nvec : List Nat) (logits : List ℝ) (h : nvec.sum = logits.length) :
    (splitBy nvec logits).flatten = logits ∧ (splitBy nvec logits).map List.length = nvec :=
  splitBy_flatten nvec logits h

example : ([2, 3] : List Nat).sum = ([1, 2, 3, 4, 5] : List ℝ).length := by simp

/-- **factorises**: the joint log-probability is the sum of the blocks' categorical log-probabilities
(defined exactly when every component is in its block's support), the entropy is the sum of the blocks'
entropies and the mode is the tuple of the blocks' modes. -/
theorem multicategorical_factorises (b : List ℝ) (bs : List (List ℝ)) (a : Nat) (as : List Nat)
    (x : ℝ) (r : List ℝ) (nvec : List Nat) (logits : List ℝ) :
    (multiLogProbAux (b :: bs) (a :: as) = some (x :: r)
        ↔ catLogProb b a = some x ∧ multiLogProbAux bs as = some r)
      ∧ multiEntropy nvec logits = ((splitBy nvec logits).map catEntropy).sum
      ∧ multiMode nvec logits = (splitBy nvec logits).map catMode :=
  ⟨multiLogProbAux_cons b bs a as x r, by simp [multiEntropy], rfl⟩

/-- **normalised over the product space**: summing `exp (log_prob)` over every tuple of
`Π_k {0, …, nvec_k - 1}` gives one (any number of blocks, any block sizes ≥ 1). -/
theorem multicategorical_normalised (bs : List (List ℝ)) (h : ∀ b ∈ bs, b ≠ []) :
    ((tuples (bs.map List.length)).map fun a => Real.exp (jointLogProb bs a)).sum = 1 :=
  multi_normalised bs h

example : ∀ b ∈ ([[1, 2], [0], [3, -40, 40]] : List (List ℝ)), b ≠ [] := by
  intro b hb
  simp only [List.mem_cons, List.not_mem_nil, or_false] at hb
  rcases hb with rfl | rfl | rfl <;> simp

/-- **mode is a maximiser** of the joint log-probability. -/
theorem multicategorical_mode_max (bs : List (List ℝ)) (as : List Nat) (r : List ℝ)
    (h : ∀ b ∈ bs, b ≠ []) (ha : multiLogProbAux bs as = some r) :
    ∃ rm, multiLogProbAux bs (bs.map catMode) = some rm ∧ r.sum ≤ rm.sum :=
  multiLogProbAux_le_mode bs as r h ha

/-! ## Bernoulli -/

/-- **log_prob is the log mass and the masses are normalised**: `log_prob(1) = log σ(l)`,
`log_prob(0) = log (1 - σ(l))`, and they exponentiate to a total of one. -/
theorem bernoulli_normalised (l : ℝ) :
    bernLogProb1 l 1 = Real.log (sigmoid l) ∧ bernLogProb1 l 0 = Real.log (1 - sigmoid l)
      ∧ Real.exp (bernLogProb1 l 1) + Real.exp (bernLogProb1 l 0) = 1 :=
  ⟨bernLogProb1_one l, bernLogProb1_zero l, bern_normalised l⟩

/-- **mode is a maximiser** (all dimensions): `round(probs)` has the largest mass among all binary
vectors. -/
theorem bernoulli_mode_max (ls as : List ℝ) (hlen : ls.length = as.length)
    (hsupp : ∀ a ∈ as, a = 0 ∨ a = 1) :
    bernLogProb ls as ≤ bernLogProb ls (bernMode ls) :=
  bernLogProb_le_mode ls as hlen hsupp

example : ([0.3, -2] : List ℝ).length = ([1, 0] : List ℝ).length
    ∧ ∀ a ∈ ([1, 0] : List ℝ), a = 0 ∨ a = 1 := by
  refine ⟨by simp, ?_⟩
  intro a ha
  simp only [List.mem_cons, List.not_mem_nil, or_false] at ha
  rcases ha with rfl | rfl <;> simp

/-- the mode's threshold: component `1` exactly when the logit is positive (`probs > ½`). -/
theorem bernoulli_mode_threshold (l : ℝ) : bernModeB l = decide (0 < l) :=
  bernModeB_real l

/-- **entropy is `-(p log p + (1-p) log (1-p))`** per component, summed over components. -/
theorem bernoulli_entropy_def (ls : List ℝ) :
    bernEntropy ls = (ls.map fun l => -(sigmoid l * Real.log (sigmoid l)
        + (1 - sigmoid l) * Real.log (1 - sigmoid l))).sum := by
  simp only [bernEntropy, sum_real]
  congr 1
  exact List.map_congr_left fun l _ => bernEntropy1_real l

/-! ## State-dependent noise (gSDE) -/

/-- **std is positive** for both parametrisations (`exp`, `expln`) and every `ε ≥ 0`, and the masked
arithmetic of `use_expln` is the piecewise function `exp x` (`x ≤ 0`) / `log(1 + x + ε) + 1` (`x > 0`). -/
theorem expln_pos (b : Bool) (ε x : ℝ) (hε : 0 ≤ ε) :
    0 < gsdeStd1 b ε x
      ∧ gsdeStd1 true ε x = (if x ≤ 0 then Real.exp x else Real.log (1 + (x + ε)) + 1)
      ∧ gsdeStd1 false ε x = Real.exp x :=
  ⟨gsdeStd1_pos b ε x hε, gsdeStd1_expln ε x, gsdeStd1_exp ε x⟩

/-- `expln` without the regulariser is continuous (the two branches meet at `x = 0`). -/
theorem expln_continuous_partial : Continuous (gsdeStd1 true (0 : ℝ)) :=
  gsdeStd1_expln_continuous

/-- **variance, algebraically**: `th.mm(latent², std²)` has entries `Σ_i latent_i² · std_ij²`, and the noise
`latent @ W` has entries `Σ_i latent_i · W_ij` (every latent dimension `k`, action dimension `n`). -/
theorem gsde_variance_formula {k n : ℕ} (l : Fin k → ℝ) (s W : Fin k → Fin n → ℝ) :
    gsdeVariance (List.ofFn l) (List.ofFn fun i => List.ofFn (s i)) n
        = List.ofFn (fun j : Fin n => ∑ i, l i ^ 2 * s i j ^ 2)
      ∧ gsdeNoise (List.ofFn l) (List.ofFn fun i => List.ofFn (W i)) n
        = List.ofFn (fun j : Fin n => ∑ i, l i * W i j) :=
  ⟨gsdeVariance_ofFn l s, gsdeNoise_ofFn l W⟩

/-- **variance, probabilistically**: if the entries `W_ij` of column `j` of the exploration matrix are
pairwise independent, square-integrable, with variance `std_ij²`, then component `j` of the noise
`latent @ W` has variance `Σ_i latent_i² · std_ij²` — the value `gsdeVariance` computes. -/
theorem gsde_variance {Ω : Type*} [MeasurableSpace Ω] {P : Measure Ω} {k : ℕ}
    (l s : Fin k → ℝ) (W : Fin k → Ω → ℝ) (hL2 : ∀ i, MemLp (W i) 2 P)
    (hind : Pairwise fun i j => IndepFun (W i) (W j) P) (hvar : ∀ i, variance (W i) P = s i ^ 2) :
    variance (fun ω => ∑ i, l i * W i ω) P = ∑ i, l i ^ 2 * s i ^ 2 :=
  variance_linear_comb l s W hL2 hind hvar

/-- **the sampled action is exactly Gaussian**: for mutually independent exploration weights
`W_i ~ N(0, std_i²)` (what `sample_weights` draws), component `mean + Σ_i latent_i · W_i` of `sample()` has
law `N(mean, Σ_i latent_i² · std_i²)` — the variance `gsdeVariance` computes (without the `ε` the code adds
before taking the square root, see `gsde_eps_counterexample`). -/
theorem gsde_noise_gaussian {Ω : Type*} [MeasurableSpace Ω] {P : Measure Ω} [IsProbabilityMeasure P]
    {k : ℕ} (mean : ℝ) (l s : Fin k → ℝ) (W : Fin k → Ω → ℝ) (hW : ∀ i, Measurable (W i))
    (hind : iIndepFun W P) (hlaw : ∀ i, P.map (W i) = gaussianReal 0 (nnsq (s i))) :
    P.map (fun ω => mean + ∑ i, l i * W i ω) = gaussianReal mean (∑ i, nnsq (l i) * nnsq (s i))
      ∧ ((∑ i, nnsq (l i) * nnsq (s i) : ℝ≥0) : ℝ) = ∑ i, l i ^ 2 * s i ^ 2 :=
  ⟨map_gsde_action_gaussianReal mean l s W hW hind hlaw, coe_sum_nnsq l s⟩

/-- the hypotheses of `gsde_noise_gaussian` are satisfiable for every number of latent dimensions and
every std vector: coordinates of a product of centred Gaussians -/
example (k : ℕ) (s : Fin k → ℝ) :
    ∃ (P : Measure (Fin k → ℝ)) (_ : IsProbabilityMeasure P) (W : Fin k → (Fin k → ℝ) → ℝ),
      (∀ i, Measurable (W i)) ∧ iIndepFun W P ∧ ∀ i, P.map (W i) = gaussianReal 0 (nnsq (s i)) := by
  refine ⟨Measure.pi fun i => gaussianReal 0 (nnsq (s i)), inferInstance, fun i ω => ω i,
    fun i => measurable_pi_apply i, ?_, ?_⟩
  · exact iIndepFun_pi (X := fun _ => id) (fun _ => aemeasurable_id)
  · intro i
    exact (measurePreserving_eval (fun i => gaussianReal 0 (nnsq (s i))) i).map_eq

/-- … and they imply those of `gsde_variance` (square-integrable, pairwise independent, variance `std²`) -/
example {Ω : Type*} [MeasurableSpace Ω] {P : Measure Ω} [IsProbabilityMeasure P] {k : ℕ}
    (s : Fin k → ℝ) (W : Fin k → Ω → ℝ) (hW : ∀ i, Measurable (W i)) (hind : iIndepFun W P)
    (hlaw : ∀ i, P.map (W i) = gaussianReal 0 (nnsq (s i))) :
    (∀ i, MemLp (W i) 2 P) ∧ (Pairwise fun i j => IndepFun (W i) (W j) P)
      ∧ ∀ i, variance (W i) P = s i ^ 2 := by
  refine ⟨fun i => ?_, fun i j hij => hind.indepFun hij, fun i => ?_⟩
  · have h := memLp_id_gaussianReal (μ := 0) (v := nnsq (s i)) 2
    rw [← hlaw i] at h
    exact (memLp_map_measure_iff aestronglyMeasurable_id (hW i).aemeasurable).mp h
  · have h := variance_id_gaussianReal (μ := 0) (v := nnsq (s i))
    rw [← hlaw i, variance_map aemeasurable_id (hW i).aemeasurable] at h
    simpa using h

/-- **log_prob is the log-density of `N(mean, variance + ε)`** (`_partial`: the sampled action has
variance `variance`, not `variance + ε`; see `gsde_eps_counterexample`). -/
theorem gsde_logprob_density_partial (μ v ε a : ℝ) (h : 0 < v + ε) :
    Real.exp (normalLogProb μ (Real.sqrt (v + ε)) a) = gaussianPDFReal μ ⟨v + ε, h.le⟩ a
      ∧ ∫ x, gaussianPDFReal μ ⟨v + ε, h.le⟩ x = 1 := by
  refine ⟨exp_normalLogProb_sqrt μ v ε a h, integral_gaussianPDFReal_eq_one μ ?_⟩
  intro h0
  have : ((⟨v + ε, h.le⟩ : ℝ≥0) : ℝ) = 0 := by rw [h0]; rfl
  have h' : v + ε = 0 := this
  linarith

example : (0 : ℝ) < 0.25 + 1 / 1000000 := by norm_num

/-- **With ε > 0 the gSDE log_prob is not the log-density of the sampled action** (`_counterexample`):
when the noise variance equals `ε`, the reported log-probability of the mean is `log 2 / 2` below the
log-density of `N(mean, variance)` there. -/
theorem gsde_eps_counterexample (μ ε : ℝ) (h : 0 < ε) :
    normalLogProb μ (Real.sqrt (ε + ε)) μ = normalLogProb μ (Real.sqrt ε) μ - Real.log 2 / 2 :=
  normalLogProb_eps_witness μ ε h

/-- the squash correction of gSDE (written on the pre-squash value) is the one of the squashed Gaussian
(written on the action): `log(1 - tanh²x + ε)` both times. -/
theorem gsde_squash_correction_eq (ε x : ℝ) :
    bijectorCorrection ε x = squashCorrection ε (Real.tanh x) :=
  bijectorCorrection_eq_squashCorrection ε x

end SB3Verif.C14
