/-
Driver for C07: evaluates the executable model `SB3Verif.Objective` (the same generic definitions the
theorems of `Props/C07.lean` are about) at core `Float` on the network outputs the harness
(`/verif/harness/c07.py`) computed with torch for the batch the real `train()` drew.

Every floating-point number crosses the protocol as the IEEE-754 bit pattern of a *double*
(a natural number < 2^64), never as decimal text.  `f` = bit pattern below.

ops
  {"op":"ppo"|"a2c","clip":f,"clip_vf":f|null,"ent_coef":f,"vf_coef":f,"normalize":bool,"has_entropy":bool,
   "adv":[f],"old_logp":[f],"old_value":[f],"ret":[f],"logp":[f],"value":[f],"entropy":[f]}
      → {"loss":f,"pg":f,"vl":f,"el":f,"cot_logp":[f],"cot_value":[f],"cot_entropy":[f],
         "branch":[n],"vbranch":[n],"kink":f,"adv_used":[f]}
  {"op":"dqn","gamma":f,"q":[f],"next_q":[[f]],"r":[f],"d":[f]}
      → {"loss":f,"target":[f],"cot_q":[f],"branch":[n]}          branch 0 quadratic, 1 linear
  {"op":"sac_alpha","log_alpha":f,"target_entropy":f,"logp":[f]} → {"loss":f,"cot":f,"alpha":f}
  {"op":"sac_critic"|"td3_critic","gamma":f,"alpha":f (sac only),"n_critics":n,"qs":[[f]],"next_qs":[[f]],
   "next_logp":[f] (sac only),"r":[f],"d":[f]}
      → {"loss":f,"target":[f],"cot":[[f]],"argmin":[n]}
  {"op":"sac_actor","alpha":f,"logp":[f],"qpis":[[f]]}
      → {"loss":f,"cot_logp":[f],"cot_q":[[f]],"argmin":[n],"kink":f}
  {"op":"td3_target","clip":f,"pi":[[f]],"noise":[[f]]} → {"next_actions":[[f]],"branch":[[n]]}
  {"op":"td3_actor","q1":[f],"n_updates":n,"policy_delay":n} → {"due":bool,"loss":f,"cot":[f]}
  {"op":"clip","max_norm":f,"g":[f]} → {"norm":f,"coef":f,"g":[f]}
  {"op":"lr","kind":"const"|"linear"|"affine","lr0":f,"lr_end":f,"num_timesteps":n,"total":n}
      → {"progress":f,"lr":f}
A request the model rejects (ragged lists, empty batch, zero policy_delay) answers {"error": …}.
-/
import SB3Verif.Driver.Proto
import SB3Verif.Model.Objective

open Lean SB3Verif.Proto SB3Verif.Objective

def decF (n : Nat) : Float := Float.ofBits (UInt64.ofNat n)
def encF (x : Float) : Nat := x.toBits.toNat

def getF (j : Json) (k : String) : Except String Float := do
  let n ← getNat j k
  if n < 18446744073709551616 then return decF n else throw s!"not a bit pattern: {k}"

def getVec (j : Json) (k : String) : Except String (List Float) := do
  return (← getList asNat j k).map decF

def getMat (j : Json) (k : String) : Except String (List (List Float)) := do
  return (← getList (asListOf asNat) j k).map fun r => r.map decF

def getOptF (j : Json) (k : String) : Except String (Option Float) :=
  match fld j k with
  | .ok Json.null => pure none
  | .ok v => do let n ← asNat v; return some (decF n)
  | .error _ => pure none

def fJ (x : Float) : Json := natJ (encF x)
def vecJ (l : List Float) : Json := listJ fJ l
def matJ (m : List (List Float)) : Json := listJ vecJ m

def sameLen (n : Nat) (ls : List Nat) : Except String Unit :=
  if n == 0 then throw "empty-batch"
  else if ls.all (· == n) then pure () else throw "length-mismatch"

def zip7 : List Float → List Float → List Float → List Float → List Float → List Float → List Float →
    List (PGSample Float)
  | a :: as, b :: bs, c :: cs, d :: ds, e :: es, f :: fs, g :: gs =>
    { adv := a, oldLogp := b, oldValue := c, ret := d, logp := e, value := f, entropy := g } ::
      zip7 as bs cs ds es fs gs
  | _, _, _, _, _, _, _ => []

def pgResultJ (r : PGResult Float) : Json :=
  objJ [("loss", fJ r.loss), ("pg", fJ r.policyLoss), ("vl", fJ r.valueLoss), ("el", fJ r.entropyLoss),
        ("cot_logp", vecJ r.cotLogp), ("cot_value", vecJ r.cotValue), ("cot_entropy", vecJ r.cotEntropy),
        ("branch", listJ natJ r.branch), ("vbranch", listJ natJ r.vbranch), ("kink", fJ r.kink),
        ("adv_used", vecJ r.advUsed)]

def criticSamples (qs nqs : List (List Float)) (nlp r d : List Float) : List (CriticSample Float) :=
  (List.range qs.length).map fun i =>
    { qs := qs.getD i [], nextQs := nqs.getD i [], nextLogp := nlp.getD i 0, r := r.getD i 0, d := d.getD i 0 }

def stepC07 (_ : Unit) (j : Json) : Except String (Unit × Json) := do
  let op ← getStr j "op"
  match op with
  | "ppo" | "a2c" =>
    let cfg : PGConfig Float :=
      { clip := ← getF j "clip", clipVf := ← getOptF j "clip_vf", entCoef := ← getF j "ent_coef",
        vfCoef := ← getF j "vf_coef", hasEntropy := ← getBool j "has_entropy" }
    let normalize ← getBool j "normalize"
    let adv ← getVec j "adv"
    let ol ← getVec j "old_logp"
    let ov ← getVec j "old_value"
    let ret ← getVec j "ret"
    let lp ← getVec j "logp"
    let v ← getVec j "value"
    let ent ← getVec j "entropy"
    sameLen adv.length [ol.length, ov.length, ret.length, lp.length, v.length, ent.length]
    let S := zip7 adv ol ov ret lp v ent
    let r := if op == "ppo" then ppoEval cfg normalize S else a2cEval cfg normalize S
    return ((), pgResultJ r)
  | "dqn" =>
    let γ ← getF j "gamma"
    let q ← getVec j "q"
    let nq ← getMat j "next_q"
    let r ← getVec j "r"
    let d ← getVec j "d"
    sameLen q.length [nq.length, r.length, d.length]
    if nq.any (·.isEmpty) then throw "empty-action-set"
    let S : List (QSample Float) := (List.range q.length).map fun i =>
      { q := q.getD i 0, nextQ := nq.getD i [], r := r.getD i 0, d := d.getD i 0 }
    return ((), objJ [("loss", fJ (dqnLoss γ S)), ("target", vecJ (S.map (dqnTarget γ))),
      ("cot_q", vecJ (dqnCot γ S)),
      ("branch", listJ natJ (S.map fun s => if OScalar.le one (abs' (s.q - dqnTarget γ s)) then 1 else 0))])
  | "sac_alpha" =>
    let la ← getF j "log_alpha"
    let H ← getF j "target_entropy"
    let lp ← getVec j "logp"
    sameLen lp.length []
    return ((), objJ [("loss", fJ (sacAlphaLoss H lp la)), ("cot", fJ (sacAlphaCot H lp)),
      ("alpha", fJ (alphaOf la))])
  | "sac_critic" | "td3_critic" =>
    let γ ← getF j "gamma"
    let nc ← getNat j "n_critics"
    let qs ← getMat j "qs"
    let nqs ← getMat j "next_qs"
    let r ← getVec j "r"
    let d ← getVec j "d"
    if nc == 0 then throw "no-critic"
    if !(qs.all (·.length == nc)) || !(nqs.all (·.length == nc)) then throw "critic-count-mismatch"
    if op == "sac_critic" then
      let αc ← getF j "alpha"
      let nlp ← getVec j "next_logp"
      sameLen qs.length [nqs.length, nlp.length, r.length, d.length]
      let S := criticSamples qs nqs nlp r d
      return ((), objJ [("loss", fJ (sacCriticLoss γ αc nc S)), ("target", vecJ (S.map (sacTarget γ αc))),
        ("cot", matJ (sacCriticCot γ αc nc S)), ("argmin", listJ natJ (S.map fun s => argminFirst s.nextQs))])
    else
      sameLen qs.length [nqs.length, r.length, d.length]
      let S := criticSamples qs nqs (qs.map fun _ => 0) r d
      return ((), objJ [("loss", fJ (td3CriticLoss γ nc S)), ("target", vecJ (S.map (td3Target γ))),
        ("cot", matJ (td3CriticCot γ nc S)), ("argmin", listJ natJ (S.map fun s => argminFirst s.nextQs))])
  | "sac_actor" =>
    let αc ← getF j "alpha"
    let lp ← getVec j "logp"
    let qp ← getMat j "qpis"
    sameLen lp.length [qp.length]
    if qp.any (·.isEmpty) then throw "no-critic"
    let S : List (ActorSample Float) := (List.zip lp qp).map fun p => { logp := p.1, qpis := p.2 }
    return ((), objJ [("loss", fJ (sacActorLoss αc S)), ("cot_logp", vecJ (sacActorCotLogp αc S)),
      ("cot_q", matJ (sacActorCotQ S)), ("argmin", listJ natJ (S.map fun s => argminFirst s.qpis)),
      ("kink", fJ ((S.map fun s => minGap s.qpis).foldl min' (1000000 : Float)))])
  | "td3_target" =>
    let c ← getF j "clip"
    let π ← getMat j "pi"
    let n ← getMat j "noise"
    sameLen π.length [n.length]
    if !((List.zip π n).all fun p => p.1.length == p.2.length) then throw "length-mismatch"
    let rows := (List.zip π n).map fun p => (List.zip p.1 p.2).map fun q => td3NextAction c q.1 q.2
    let br := (List.zip π n).map fun p => (List.zip p.1 p.2).map fun q =>
      (if OScalar.le (-c) q.2 && OScalar.le q.2 c then 0 else 1) +
      (if OScalar.le (-one) (q.1 + clamp (-c) c q.2) && OScalar.le (q.1 + clamp (-c) c q.2) (one : Float) then 0 else 2)
    return ((), objJ [("next_actions", matJ rows), ("branch", listJ (listJ natJ) br)])
  | "td3_actor" =>
    let q1 ← getVec j "q1"
    let n ← getNat j "n_updates"
    let delay ← getNat j "policy_delay"
    if delay == 0 then throw "zero-policy-delay"
    sameLen q1.length []
    return ((), objJ [("due", boolJ (td3ActorDue n delay)), ("loss", fJ (td3ActorLoss q1)),
      ("cot", vecJ (td3ActorCot q1))])
  | "clip" =>
    let m ← getF j "max_norm"
    let g ← getVec j "g"
    return ((), objJ [("norm", fJ (l2norm g)), ("coef", fJ (clipCoef m (l2norm g))),
      ("g", vecJ (clipGradNorm m g))])
  | "lr" =>
    let kind ← getStr j "kind"
    let lr0 ← getF j "lr0"
    let num ← getNat j "num_timesteps"
    let total ← getNat j "total"
    if total == 0 then throw "zero-total"
    let sched : LrSchedule Float ← match kind with
      | "const" => pure (LrSchedule.const lr0)
      | "linear" => pure (LrSchedule.linear lr0)
      | "affine" => do let e ← getF j "lr_end"; pure (LrSchedule.affine lr0 e)
      | _ => throw s!"bad-schedule {kind}"
    let p : Float := progressRemaining num total
    return ((), objJ [("progress", fJ p), ("lr", fJ (lrAt sched p))])
  | _ => throw s!"bad-op {op}"

def main : IO Unit := SB3Verif.Proto.run stepC07 ()
