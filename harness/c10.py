"""
C10 — seeded training is reproducible.

Implementation under test: the seeding plumbing of stable-baselines3
  utils.set_random_seed, BaseAlgorithm.set_random_seed, On/OffPolicyAlgorithm._setup_model (order of seeding and
  network initialisation), VecEnv.seed -> reset delivery, and every draw site (buffers, HER, noise, DQN predict,
  warm-up sampling, distributions, gSDE, TD3 smoothing).
Model: lean/SB3Verif/Model/Seeding.lean (driver lean/SB3Verif/Driver/C10.lean)

Two detectors
  oracle (independent of the Lean model): the ambient-poisoning differential.  Run A and run B use the same seed,
    algorithm, configuration and environment constructor but start from different ambient generator states; every
    tensor of the parameters / optimizers, every array of the buffer, VecNormalize statistics and the per-env action
    sequences must be bit-identical.  Ambient state includes the state INSIDE the objects of the configuration: before
    each run a poisoning run (other seed, other length) uses the very same action-noise object (OU / Normal /
    pre-vectorised), policy_kwargs and replay_buffer_kwargs dicts and stops mid-episode.  Run C (seed+1, ambient of A) must differ in parameters, buffer and actions.
  correspondence: the generators are observed at every boundary of the real run (seeding calls, end of __init__,
    learn's reset, rollout start, every step, rollout end, train begin/end, training end) and give
      sites     which generators advanced in a segment    vs  the model's draw sites for that segment (must/may)
      lowness   generator state of A == generator state of B at a boundary  <=>  the model's taint analysis says the
                generator is a function of the seed there
      delivery  the seeds the sub-environments received at each reset  vs  the model's pending-seed mechanism
      measured  the measured trace (seeding calls in their real order + one draw per advanced generator) must pass
                the model's `traceOK` check, i.e. satisfy the hypothesis of `seeded_noninterference`
"""
from __future__ import annotations

import hashlib
import random as pyrandom

import gymnasium as gym
import numpy as np
from gymnasium import spaces

from harness.common import guarded

RULE = (
    "cases from one SplitMix64 stream: algorithm in {PPO,A2C,DQN,SAC,TD3,DDPG} x n_envs in {1,2} (thorough: also 3,4) x "
    "observation kind {box, dict, goal-dict (HER), image+CNN (thorough)} x action kind {discrete, box, asymmetric box} x "
    "env container {DummyVecEnv, plain env (Monitor+DummyVecEnv by the library), VecNormalize, SubprocVecEnv} "
    "x reset options pending at the first reset (VecEnv.set_options with one dict / a per-env list with empty entries, "
    "called by the env constructor or just before learn()) x options {gSDE with sde_sample_freq / use_sde_at_warmup, Normal / OU / pre-vectorised action noise, epsilon-greedy "
    "schedule, warm-up length, HER future/final/episode with n_sampled_goal, PPO epochs/minibatch, train_freq/"
    "gradient_steps, second learn() call with and without reset_num_timesteps} x seed (0 with weight, small, 31-bit) x "
    "stochastic env drawing from its own np_random (always) and optionally from python `random` / global numpy. "
    "Each case = three real training runs (A, B: same seed, different ambient generator state, allocations and "
    "pending env seeds and — always when there is an action-noise object, else 25% — different leftovers inside the shared "
    "configuration objects from an earlier poisoning run with the same kwargs; C: seed+1), <= 60 env steps, net_arch=[4]. non-trivial = a case whose run draws from at least "
    "three distinct seeded generator families after construction and performs at least one gradient update; "
    "distinct = distinct canonical configuration (without the ambient values). Plus (xproc) per run 12 (thorough 120) "
    "configurations with Dict observations of 2-4 keys (vector keys, goal keys for HER, vector+image keys; "
    "MultiInputPolicy), any algorithm, DummyVecEnv / plain env / VecNormalize, <= 32 steps, each executed in four "
    "separate child interpreters (PYTHONHASHSEED=1, 2, 3 and unset; same case, same ambient seed) whose digests must "
    "all be equal, and once with seed+1, which must differ"
)
STREAMS = {
    "xproc": "(oracle only, no model) the same seeded run in separate child interpreters with PYTHONHASHSEED=1/2/3/unset: "
             "all digests of parameters, optimizer state, buffer, actions and predicted actions equal; seed+1 differs",
    "sites": "set of generators that advanced in each segment of run A: model.must <= measured <= model.may",
    "lowness": "per boundary and generator: state(A)==state(B) iff the model's taint analysis marks it seed-determined",
    "delivery": "(seed, options) received by sub-env i at each reset == model (seed+i AND the pending options at the first "
                "reset after env.seed, then (None, no options))",
    "measured": "measured trace (real order of seeding calls, one draw per advanced generator) passes traceOK in the model",
}

ALGOS = ["PPO", "A2C", "DQN", "SAC", "TD3", "DDPG"]
ON_POLICY = ("PPO", "A2C")
GLOBAL_GENS = ["py", "np", "torch", "actSpace", "obsSpace", "os", "noise"]


# =================================================================================================
# stochastic environment: all its randomness comes from self.np_random (+ optionally the global generators)
# =================================================================================================
class NoisyEnv(gym.Env):
    metadata = {"render_modes": []}

    def __init__(self, env_id=0, obs="box", act="discrete", max_len=6, p_term=0.1, use_py=False, use_npg=False):
        super().__init__()
        self.env_id, self.obs_kind, self.act_kind = env_id, obs, act
        self.max_len, self.p_term, self.use_py, self.use_npg = max_len, p_term, use_py, use_npg
        big = np.float32(1e6)
        if obs == "box":
            self.observation_space = spaces.Box(-big, big, (3,), np.float32)
        elif obs == "dict":
            self.observation_space = spaces.Dict({"vec": spaces.Box(-big, big, (2,), np.float32),
                                                  "aux": spaces.Box(-big, big, (1,), np.float32)})
        elif obs == "goal":
            self.observation_space = spaces.Dict({k: spaces.Box(-big, big, (2,), np.float32)
                                                  for k in ("observation", "achieved_goal", "desired_goal")})
        elif obs == "dict4":   # four vector keys (their concatenation order in CombinedExtractor matters)
            self.observation_space = spaces.Dict({"vec": spaces.Box(-big, big, (2,), np.float32),
                                                  "aux": spaces.Box(-big, big, (1,), np.float32),
                                                  "pos": spaces.Box(-big, big, (2,), np.float32),
                                                  "vel": spaces.Box(-big, big, (3,), np.float32)})
        elif obs == "dictimg":  # vector keys + an image key
            self.observation_space = spaces.Dict({"vec": spaces.Box(-big, big, (2,), np.float32),
                                                  "aux": spaces.Box(-big, big, (1,), np.float32),
                                                  "img": spaces.Box(0, 255, (36, 36, 1), np.uint8)})
        elif obs == "image":
            self.observation_space = spaces.Box(0, 255, (36, 36, 1), np.uint8)
        else:
            raise ValueError(obs)
        if act == "discrete":
            self.action_space = spaces.Discrete(4)
        elif act == "box":
            self.action_space = spaces.Box(-1.0, 1.0, (2,), np.float32)
        elif act == "box_asym":
            self.action_space = spaces.Box(np.array([-2.0, 0.5], np.float32), np.array([6.0, 1.5], np.float32))
        else:
            raise ValueError(act)
        self.x = np.zeros(2)
        self.g = np.zeros(2)
        self.t = 0
        self.reset_seeds = []   # seed argument of every reset() call
        self.reset_opts = []    # tag of the options argument of every reset() call (None: no options)
        self.actions = []       # bytes of every action received
        self.n_draws = 0

    # -- randomness --------------------------------------------------------------------------------
    def _noise(self):
        self.n_draws += 1
        z = self.np_random.normal(size=2)
        if self.use_py:
            z = z + np.array([pyrandom.random(), pyrandom.gauss(0.0, 1.0)])
        if self.use_npg:
            z = z + np.random.normal(size=2)
        return z

    def _obs(self):
        x32 = self.x.astype(np.float32)
        if self.obs_kind == "box":
            return np.array([x32[0], x32[1], np.float32(self.t)], dtype=np.float32)
        if self.obs_kind == "dict":
            return {"vec": x32.copy(), "aux": np.array([self.t], dtype=np.float32)}
        if self.obs_kind == "goal":
            return {"observation": x32.copy(), "achieved_goal": x32.copy(), "desired_goal": self.g.astype(np.float32)}
        if self.obs_kind == "dict4":
            return {"vec": x32.copy(), "aux": np.array([self.t], dtype=np.float32), "pos": (x32 * np.float32(0.5)).copy(),
                    "vel": np.array([x32[0] - x32[1], x32[0] + x32[1], np.float32(1.0)], dtype=np.float32)}
        img = np.zeros((36, 36, 1), dtype=np.uint8)
        v = np.clip((self.x * 40 + 128), 0, 255).astype(np.uint8)
        img[:18, :, 0] = v[0]
        img[18:, :, 0] = v[1]
        img[0, 0, 0] = self.t
        if self.obs_kind == "dictimg":
            return {"vec": x32.copy(), "aux": np.array([self.t], dtype=np.float32), "img": img}
        return img

    def compute_reward(self, achieved_goal, desired_goal, info):
        d = np.linalg.norm(np.asarray(achieved_goal, dtype=np.float64) - np.asarray(desired_goal, dtype=np.float64), axis=-1)
        return -(d > 0.5).astype(np.float32)

    def reset(self, *, seed=None, options=None):
        super().reset(seed=seed)
        self.reset_seeds.append(seed)
        self.reset_opts.append((options or {}).get("tag"))
        self.x = self._noise() * float((options or {}).get("scale", 1.0))
        self.g = self.np_random.normal(size=2)
        self.t = 0
        return self._obs(), {}

    def step(self, action):
        a = np.asarray(action)
        self.actions.append(a.astype(np.float64).tobytes())
        if self.act_kind == "discrete":
            k = int(a)
            d = np.array([[1.0, 0.0], [-1.0, 0.0], [0.0, 1.0], [0.0, -1.0]])[k % 4]
        else:
            d = np.clip(a.astype(np.float64).reshape(-1)[:2], -2.0, 6.0)
        self.x = 0.8 * self.x + 0.3 * d + 0.2 * self._noise()
        self.t += 1
        terminated = bool(self.np_random.random() < self.p_term)
        truncated = bool(self.t >= self.max_len)
        if self.obs_kind == "goal":
            rew = float(self.compute_reward(self.x, self.g, {}))
        else:
            rew = float(-np.abs(self.x).sum())
        info = {"TimeLimit.truncated": truncated and not terminated}
        if self.obs_kind == "goal":
            info["is_success"] = bool(rew == 0.0)
        return self._obs(), rew, terminated, truncated, info

    # reachable through env_method (SubprocVecEnv)
    def get_record(self):
        return {"reset_seeds": list(self.reset_seeds), "reset_opts": list(self.reset_opts), "actions": list(self.actions), "n_draws": self.n_draws,
                "np_random": gen_token(getattr(self, "_np_random", None))}

    def poison(self, amb):
        """ambient state of this env's generators (simulates a different OS entropy / earlier use)"""
        self._np_random = np.random.default_rng(900_000 + amb * 17 + self.env_id)
        self.action_space.seed(700_000 + amb * 13 + self.env_id)
        self.observation_space.seed(800_000 + amb * 11 + self.env_id)
        return True


class NoisyEnvFn:
    def __init__(self, **kw):
        self.kw = kw

    def __call__(self):
        return NoisyEnv(**self.kw)


# =================================================================================================
# observing the generators
# =================================================================================================
def _h(b: bytes) -> str:
    return hashlib.md5(b).hexdigest()[:12]


def gen_token(g):
    """state token of a numpy Generator (None = never created)"""
    if g is None:
        return "unset"
    st = g.bit_generator.state
    return _h(repr((st["state"], st.get("has_uint32"), st.get("uinteger"))).encode())


def space_token(sp):
    if isinstance(sp, spaces.Dict):
        return "|".join([gen_token(sp._np_random)] + [space_token(s) for s in sp.spaces.values()])
    return gen_token(sp._np_random)


def noise_token(nz):
    """state inside an action-noise object of the configuration"""
    from stable_baselines3.common.noise import OrnsteinUhlenbeckActionNoise, VectorizedActionNoise

    if nz is None:
        return "none"
    if isinstance(nz, VectorizedActionNoise):
        toks = [noise_token(x) for x in nz.noises]
        return "stateless" if all(t == "stateless" for t in toks) else "|".join(toks)
    if isinstance(nz, OrnsteinUhlenbeckActionNoise):
        return _h(np.asarray(nz.noise_prev, dtype=np.float64).tobytes())
    return "stateless"


class Recorder:
    """snapshots of all generators at the boundaries of one real run + the seeding calls in their real order"""

    def __init__(self, venv_base, n_envs, subproc):
        self.venv_base = venv_base
        self.n_envs = n_envs
        self.subproc = subproc
        self.act_space = venv_base.action_space
        self.obs_space = venv_base.observation_space
        self.os_events = 0
        self.noise_get = lambda: None   # the action-noise object the library currently uses
        self.in_load = False            # inside BaseAlgorithm.load (see install)
        self._noise_depth = 0
        self.marks = []      # [label, info, snapshot]
        self._undo = []

    def snapshot(self):
        import torch as th

        st = np.random.get_state()
        s = {
            "py": _h(repr(pyrandom.getstate()).encode()),
            "np": _h(st[1].tobytes() + repr(st[2:]).encode()),
            "torch": _h(th.get_rng_state().numpy().tobytes()),
            "actSpace": space_token(self.act_space),
            "obsSpace": space_token(self.obs_space),
            "os": str(self.os_events),
            "noise": noise_token(self.noise_get()),
            "pending": list(self.venv_base._seeds),
        }
        if self.subproc:
            recs = self.venv_base.env_method("get_record")
            for i in range(self.n_envs):
                s[f"env{i}"] = recs[i]["np_random"]
            s["draws"] = [recs[i]["n_draws"] for i in range(self.n_envs)]
        else:
            envs = [e.unwrapped for e in self.venv_base.envs]
            for i in range(self.n_envs):
                s[f"env{i}"] = gen_token(getattr(envs[i], "_np_random", None))
            s["draws"] = [envs[i].n_draws for i in range(self.n_envs)]
        return s

    def last_reset_seeds(self):
        if self.subproc:
            recs = self.venv_base.env_method("get_record")
            return [[r["reset_seeds"][-1], r["reset_opts"][-1]] if r["reset_seeds"] else "never" for r in recs]
        return [([e.unwrapped.reset_seeds[-1], e.unwrapped.reset_opts[-1]] if e.unwrapped.reset_seeds else "never")
                for e in self.venv_base.envs]

    def mark(self, label, info=None):
        self.marks.append([label, info or {}, self.snapshot()])

    # -- patches (all undone in close()) ----------------------------------------------------------------
    def _patch(self, obj, name, new):
        had = name in vars(obj) if hasattr(obj, "__dict__") else True
        old = getattr(obj, name)
        setattr(obj, name, new)
        self._undo.append((obj, name, old, had))
        return old

    def install(self):
        import torch as th
        from gymnasium.utils import seeding

        rec = self

        def wrap_seed(obj, name, label):
            old = getattr(obj, name)

            def w(*a, **k):
                arg = a[0] if a else k.get("seed", None)
                rec.mark("before:" + label, {"seed": None if arg is None else int(arg)})
                r = old(*a, **k)
                rec.mark("seed:" + label, {"seed": None if arg is None else int(arg)})
                return r

            rec._patch(obj, name, w)

        wrap_seed(pyrandom, "seed", "py")
        wrap_seed(np.random, "seed", "np")
        wrap_seed(th, "manual_seed", "torch")
        wrap_seed(self.act_space, "seed", "actSpace")
        # load(): the loaded model owns an unpickled COPY of the action space; that copy is "the action space the library
        # samples from" from the moment load() seeds it (the environment's own space object is no longer the library's)
        from gymnasium import spaces as gsp

        old_space_seed = gsp.Space.seed

        def space_seed(self_, seed=None):
            adopt = rec.in_load and self_ is not rec.act_space and type(self_) is type(rec.act_space) and self_ == rec.act_space
            if not adopt:
                return old_space_seed(self_, seed)
            rec.in_load = False
            rec.mark("before:actSpace", {"seed": None if seed is None else int(seed)})
            rec.act_space = self_   # (re-pointed between the two marks: the seeding assigns the generator anyway)
            r = old_space_seed(self_, seed)
            rec.mark("seed:actSpace", {"seed": None if seed is None else int(seed)})
            return r

        self._patch(gsp.Space, "seed", space_seed)
        from stable_baselines3.common.vec_env.base_vec_env import VecEnv

        old_vseed = VecEnv.seed

        def vseed(self_, seed=None):
            rec.venv_base = self_
            rec.mark("before:env", {"seed": None if seed is None else int(seed)})
            r = old_vseed(self_, seed)
            rec.mark("seed:env", {"seed": None if seed is None else int(seed)})
            return r

        self._patch(VecEnv, "seed", vseed)
        from stable_baselines3.common.vec_env import DummyVecEnv, SubprocVecEnv

        def wrap_reset(cls):
            old_reset = cls.reset

            def vreset(self_):
                rec.venv_base = self_
                rec.mark("before:vreset")
                r = old_reset(self_)
                rec.mark("vreset", {"seeds": rec.last_reset_seeds()})
                return r

            rec._patch(cls, "reset", vreset)

        wrap_reset(DummyVecEnv)
        wrap_reset(SubprocVecEnv)

        from stable_baselines3.common.noise import ActionNoise, OrnsteinUhlenbeckActionNoise, VectorizedActionNoise

        def wrap_noise_reset(cls):
            old = vars(cls)["reset"]

            def nreset(self_, *a, **k):
                # only resets of the object the library currently uses count (VectorizedActionNoise.__init__ also
                # resets the deep copies it has just made, before the library installs the wrapper)
                outer = rec._noise_depth == 0 and self_ is rec.noise_get()
                rec._noise_depth += 1
                try:
                    if outer:
                        rec.mark("before:noisereset")
                    r = old(self_, *a, **k)
                    if outer:
                        rec.mark("noisereset")
                    return r
                finally:
                    rec._noise_depth -= 1

            rec._patch(cls, "reset", nreset)

        for cls in (ActionNoise, OrnsteinUhlenbeckActionNoise, VectorizedActionNoise):
            wrap_noise_reset(cls)

        old_default_rng = np.random.default_rng

        def default_rng(*a, **k):
            if (not a or a[0] is None) and k.get("seed") is None:
                rec.os_events += 1
            return old_default_rng(*a, **k)

        self._patch(np.random, "default_rng", default_rng)
        old_np_random = seeding.np_random

        def np_random(seed=None):
            if seed is None:
                rec.os_events += 1
            return old_np_random(seed)

        self._patch(seeding, "np_random", np_random)

    def close(self):
        for obj, name, old, had in reversed(self._undo):
            if had or not hasattr(obj, "__dict__"):
                setattr(obj, name, old)
            else:
                try:
                    delattr(obj, name)
                except AttributeError:
                    setattr(obj, name, old)
        self._undo = []


# =================================================================================================
# digests of the final state
# =================================================================================================
def _walk(prefix, x, out):
    import torch as th

    if isinstance(x, th.Tensor):
        out[prefix] = _h(x.detach().cpu().contiguous().numpy().tobytes() + str(x.dtype).encode())
    elif isinstance(x, np.ndarray):
        if x.dtype == object:
            out[prefix] = _h(repr(x.tolist()).encode())
        else:
            out[prefix] = _h(np.ascontiguousarray(x).tobytes() + str(x.dtype).encode() + str(x.shape).encode())
    elif isinstance(x, dict):
        for k in sorted(x.keys(), key=str):
            _walk(f"{prefix}.{k}", x[k], out)
    elif isinstance(x, (list, tuple)):
        for i, v in enumerate(x):
            _walk(f"{prefix}[{i}]", v, out)
    elif isinstance(x, (bool, int, float, str, np.integer, np.floating, np.bool_)) or x is None:
        out[prefix] = repr(x)


def probe_actions(model, venv):
    """deterministic actions predicted by the trained model for one fixed observation"""
    def fixed(sp):
        n = int(np.prod(sp.shape)) if sp.shape else 1
        if sp.dtype == np.uint8:
            return (np.arange(n) % 251).astype(np.uint8).reshape(sp.shape)
        return np.linspace(-1.0, 1.0, n).astype(sp.dtype).reshape(sp.shape)

    sp = venv.observation_space
    if isinstance(sp, spaces.Dict):
        obs = {k: fixed(sp.spaces[k]) for k in sorted(sp.spaces)}
    else:
        obs = fixed(sp)
    action, _ = model.predict(obs, deterministic=True)
    return np.asarray(action)


def final_digests(model, venv, recs):
    """component -> {key -> digest}"""
    comp = {"params": {}, "optimizer": {}, "buffer": {}, "actions": {}, "vecnormalize": {}, "state": {}}
    for name, sd in model.get_parameters().items():
        _walk(name, sd, comp["optimizer" if "optimizer" in name else "params"])
    for extra in ("log_ent_coef", "ent_coef_tensor"):
        if getattr(model, extra, None) is not None:
            _walk(extra, getattr(model, extra), comp["params"])
    buf = getattr(model, "rollout_buffer", None) or getattr(model, "replay_buffer", None)
    skip = {"env", "device", "observation_space", "action_space", "obs_shape", "goal_selection_strategy", "sde_dim"}
    for k, v in sorted(vars(buf).items()):
        if k in skip or callable(v):
            continue
        _walk(k, v, comp["buffer"])
    for i, r in enumerate(recs):
        comp["actions"][f"env{i}"] = _h(b"".join(r["actions"])) + f":{len(r['actions'])}"
    from stable_baselines3.common.vec_env import VecNormalize

    vn = venv if isinstance(venv, VecNormalize) else None
    if vn is not None:
        for nm in ("obs_rms", "ret_rms"):
            rms = getattr(vn, nm)
            if isinstance(rms, dict):
                for k, r in rms.items():
                    _walk(f"{nm}.{k}", {"mean": r.mean, "var": r.var, "count": r.count}, comp["vecnormalize"])
            else:
                _walk(nm, {"mean": rms.mean, "var": rms.var, "count": rms.count}, comp["vecnormalize"])
        _walk("returns", vn.returns, comp["vecnormalize"])
    comp["predict"] = {}
    _walk("action", probe_actions(model, venv), comp["predict"])
    _walk("last_obs", model._last_obs, comp["state"])
    comp["state"]["num_timesteps"] = repr(int(model.num_timesteps))
    comp["state"]["episodes"] = repr(int(getattr(model, "_episode_num", 0)))
    return comp


# =================================================================================================
# one real training run
# =================================================================================================
def poison_globals(amb, mode):
    """ambient state of the process-wide generators before the env and the model are constructed"""
    import torch as th

    pyrandom.seed(100_000 + amb * 7)
    for _ in range(amb % 5):
        pyrandom.random()
    np.random.seed(200_000 + amb * 3)
    np.random.rand(amb % 7)
    th.manual_seed(300_000 + amb * 5)
    th.rand(amb % 3 + 1)
    junk = [th.empty((amb * 13) % 257 + 1), np.empty((amb * 29) % 131 + 1)]  # unrelated allocations
    return junk


def make_noise(case):
    from stable_baselines3.common.noise import NormalActionNoise, OrnsteinUhlenbeckActionNoise, VectorizedActionNoise

    kind = case.get("noise")
    if not kind:
        return None
    base_kind = kind.replace("vec_", "")
    mu, sig = np.zeros(2, dtype=np.float32), 0.3 * np.ones(2, dtype=np.float32)
    base = NormalActionNoise(mu, sig) if base_kind == "normal" else OrnsteinUhlenbeckActionNoise(mu, sig)
    if kind.startswith("vec_"):
        return VectorizedActionNoise(base, case["n_envs"])
    return base


def make_options(case):
    """argument of VecEnv.set_options: one dict for all sub-envs, or a per-env list with empty entries"""
    tags = case.get("opts_tags") or []
    dicts = [({"tag": t, "scale": 1.0 + t / 8.0} if t is not None else {}) for t in tags]
    if case.get("opts") == "dict":
        return dicts[0]
    return dicts


def build_env(case, amb):
    from stable_baselines3.common.vec_env import DummyVecEnv, SubprocVecEnv, VecNormalize

    n = case["n_envs"]
    fns = [NoisyEnvFn(env_id=i, obs=case["obs"], act=case["act"], max_len=case["max_len"], p_term=case["p_term"],
                      use_py=case["env_py"], use_npg=case["env_npg"]) for i in range(n)]
    wrap = case["wrap"]
    if wrap == "subproc":
        base = SubprocVecEnv(fns, start_method="fork")
    else:
        base = DummyVecEnv(fns)
    if case["amb_mode"] == "explicit":
        if wrap == "subproc":
            base.env_method("poison", amb)
            base.action_space.seed(700_000 + amb * 13)
            base.observation_space.seed(800_000 + amb * 11)
        else:
            for e in base.envs:
                e.unwrapped.poison(amb)
    if case["pre_env_seed"]:
        base.seed(600_000 + amb)
    if case["pre_reset"]:
        base.reset()
    venv = base
    if wrap == "vecnorm":
        venv = VecNormalize(base, norm_obs=True, norm_reward=True, clip_obs=10.0,
                            norm_obs_keys=(["vec"] if case["obs"] == "dict" else
                                           ["vec", "aux"] if case["obs"] == "dictimg" else None))
    if case.get("opts") and case.get("opts_when") == "constructor":
        venv.set_options(make_options(case))   # the env constructor leaves reset options pending
    return base, venv


def make_shared(case):
    """objects of the CONFIGURATION that are handed, as they are, to every model built from it"""
    pk = dict(net_arch=[4])
    if case["obs"] == "image":
        pk["features_extractor_kwargs"] = dict(features_dim=8)
    elif case["obs"] == "dictimg":
        pk["features_extractor_kwargs"] = dict(cnn_output_dim=8)
    sh = {"policy_kwargs": pk, "noise": make_noise(case) if case["algo"] not in ON_POLICY + ("DQN",) else None,
          "rb_kwargs": None}
    if case.get("her"):
        sh["rb_kwargs"] = dict(n_sampled_goal=case["n_sampled_goal"], goal_selection_strategy=case["her"])
    elif case.get("opt_mem"):
        sh["rb_kwargs"] = dict(handle_timeout_termination=False)
    return sh


def poison_config(case, shared, amb):
    """an earlier run with the very same configuration objects (other seed, other length, stops mid-episode);
    whatever state it leaves inside them is ambient for the run under test"""
    base, venv = build_env(case, amb)
    try:
        model = build_model(case, 4242 + amb, venv, base, shared)
        model.learn(((amb % 4) + 2) * case["n_envs"])
    finally:
        try:
            base.close()
        except Exception:
            pass
    if shared["noise"] is not None:
        for _ in range(amb % 3 + 1):   # the earlier run stopped in the middle of an episode
            shared["noise"]()


def build_model(case, seed, venv, base, shared=None):
    import stable_baselines3 as sb3
    from stable_baselines3.common.logger import Logger

    algo = case["algo"]
    cls = getattr(sb3, algo)
    shared = shared or make_shared(case)
    pk = shared["policy_kwargs"]
    if case["obs"] == "image":
        policy = "CnnPolicy"
    elif case["obs"] in ("dict", "goal", "dict4", "dictimg"):
        policy = "MultiInputPolicy"
    else:
        policy = "MlpPolicy"
    kw = dict(policy_kwargs=pk, device="cpu", verbose=0, seed=seed)
    if algo in ON_POLICY:
        kw.update(n_steps=case["n_steps"], use_sde=case["use_sde"], sde_sample_freq=case["sde_freq"])
        if algo == "PPO":
            kw.update(batch_size=case["batch_size"], n_epochs=case["n_epochs"])
    else:
        kw.update(learning_starts=case["learning_starts"], batch_size=case["batch_size"], buffer_size=case["buffer_size"],
                  train_freq=(case["train_freq"], "step"), gradient_steps=case["gradient_steps"])
        if algo == "DQN":
            kw.update(exploration_fraction=case["eps_fraction"], exploration_initial_eps=case["eps_initial"],
                      exploration_final_eps=case["eps_final"], target_update_interval=case["target_update_interval"])
        else:
            kw["action_noise"] = shared["noise"]
        if algo == "SAC":
            kw.update(use_sde=case["use_sde"], sde_sample_freq=case["sde_freq"], use_sde_at_warmup=case["sde_at_warmup"],
                      ent_coef="auto" if case["ent_auto"] else 0.1)
        if algo == "TD3":
            kw.update(policy_delay=case["policy_delay"])
        if case.get("her"):
            from stable_baselines3.her.her_replay_buffer import HerReplayBuffer

            kw.update(replay_buffer_class=HerReplayBuffer, replay_buffer_kwargs=shared["rb_kwargs"])
        elif case.get("opt_mem"):
            kw.update(optimize_memory_usage=True, replay_buffer_kwargs=shared["rb_kwargs"])
    env_arg = venv
    if case["wrap"] == "raw":
        env_arg = base.envs[0]
    model = cls(policy, env_arg, **kw)
    model.set_logger(Logger(folder=None, output_formats=[]))
    return model


def run_once(case, seed, amb):
    """one real training run from ambient state `amb`; returns marks (boundary snapshots), records and digests"""
    import warnings

    from stable_baselines3.common.callbacks import BaseCallback

    warnings.filterwarnings("ignore", category=UserWarning)
    shared = make_shared(case)
    if case.get("cfg_poison"):
        poison_config(case, shared, amb)
    donor_zip = donor_noise = None
    donor_envs = []
    if case.get("via_load"):
        # a donor model (same configuration and seed, its own environment) is saved before anything is instrumented or
        # poisoned; the model that trains is `load(zip, env=<this run's env>)`
        import io

        dbase, dvenv = build_env(case, amb)
        try:
            donor_zip = io.BytesIO()
            dshared = make_shared(case)
            build_model(case, seed, dvenv, dbase, dshared).save(donor_zip)
            donor_noise = dshared["noise"]   # the loaded model's noise object is an unpickled copy of this one
        finally:
            dbase.close()
    junk = poison_globals(amb, case["amb_mode"])
    base, venv = build_env(case, amb)
    n = case["n_envs"]
    rec = Recorder(base, n, case["wrap"] == "subproc")
    model = None
    try:
        rec.install()
        rec.noise_get = lambda: (model.action_noise if model is not None else
                                 donor_noise if donor_zip is not None else shared["noise"])
        rec.mark("start")
        if donor_zip is not None:
            import stable_baselines3 as sb3
            from stable_baselines3.common.logger import Logger

            donor_zip.seek(0)
            rec.in_load = True
            model = getattr(sb3, case["algo"]).load(donor_zip, env=venv, device="cpu")
            rec.in_load = False
            model.set_logger(Logger(folder=None, output_formats=[]))
        elif case.get("via_set_env"):
            dbase, dvenv = build_env(case, amb)
            donor_envs.append(dbase)
            base.seed(seed + 7)                  # the user seeds the environment the model will train on
            model = build_model(case, seed, dvenv, dbase, shared)
            model.set_env(venv)
        else:
            model = build_model(case, seed, venv, base, shared)
        rec.mark("constructed")
        if case.get("opts") and case.get("opts_when") == "before_learn":
            model.get_env().set_options(make_options(case))
            rec.mark("setopts", {"opts": list(case["opts_tags"])})
        vb = model.env
        while hasattr(vb, "venv"):
            vb = vb.venv
        rec.venv_base = vb  # (plain env: the library made its own Monitor + DummyVecEnv around it)

        class Obs(BaseCallback):
            def __init__(self):
                super().__init__()
                self.k = 0

            def _on_training_start(self):
                rec.mark("training_start")

            def _on_rollout_start(self):
                self.k = 0
                rec.mark("rollout_start")

            def _on_step(self):
                m = self.model
                rec.mark("step", {"t": int(m.num_timesteps) - n, "k": self.k})
                self.k += 1
                return True

            def _on_rollout_end(self):
                rec.mark("rollout_end")

            def _on_training_end(self):
                rec.mark("training_end")

        orig_train = model.train

        def train(*a, **k):
            rec.mark("train_begin")
            single = False
            rb = getattr(model, "replay_buffer", None)
            if rb is not None and n == 1:
                stored = int((rb.ep_length > 0).sum()) if hasattr(rb, "ep_length") else int(rb.size())
                single = stored <= 1
            r = orig_train(*a, **k)
            gs = k.get("gradient_steps", a[0] if a else None)
            rec.mark("train_end", {"n": int(gs) if gs is not None else 1, "single": single})
            return r

        model.train = train
        for li in range(case["learn_calls"]):
            rec.mark("learn_begin")
            model.learn(case["steps"], callback=Obs(), reset_num_timesteps=(True if li == 0 else case["reset_ts"]))
        if case["wrap"] == "subproc":
            recs = base.env_method("get_record")
        else:
            recs = [e.unwrapped.get_record() for e in rec.venv_base.envs]
        dig = final_digests(model, venv if case["wrap"] != "raw" else model.env, recs)
        return {"marks": rec.marks, "recs": [{"reset_seeds": r["reset_seeds"], "n_draws": r["n_draws"]} for r in recs],
                "dig": dig}
    finally:
        rec.close()
        for d in [base] + donor_envs:
            try:
                d.close()
            except Exception:
                pass
        del junk


# =================================================================================================
# case generation
# =================================================================================================
def gen_case(rng, thorough, widen):
    algo = rng.choice(ALGOS)
    n_envs = rng.weighted([(1, 3), (2, 4)] + ([(3, 1), (4, 1)] if thorough else []))
    off = algo not in ON_POLICY
    c = {"algo": algo, "n_envs": n_envs}
    # spaces ---------------------------------------------------------------------------------------
    if algo == "DQN":
        act = "discrete"
    elif algo in ON_POLICY:
        act = rng.weighted([("discrete", 3), ("box", 2), ("box_asym", 1)])
    else:
        act = rng.weighted([("box", 2), ("box_asym", 1)])
    her = None
    if off and rng.chance(0.3):
        her = rng.choice(["future", "final", "episode"])
    obs = "goal" if her else rng.weighted([("box", 5), ("dict", 3)] + ([("image", 1)] if thorough else []))
    c.update(act=act, obs=obs, her=her, n_sampled_goal=rng.randint(1, 4))
    # container ------------------------------------------------------------------------------------
    wraps = [("dummy", 6), ("vecnorm", 2 if obs != "image" else 0)]
    if n_envs == 1:
        wraps.append(("raw", 2))
    wraps.append(("subproc", 1))
    wrap = rng.weighted([w for w in wraps if w[1] > 0])
    c["wrap"] = wrap
    # ambient state --------------------------------------------------------------------------------
    a = rng.randint(0, 999)
    b = rng.randint(0, 998)
    if b >= a:
        b += 1
    c.update(ambA=a, ambB=b, amb_mode=rng.weighted([("explicit", 3), ("natural", 1)]),
             pre_env_seed=rng.chance(0.3), pre_reset=rng.chance(0.2))
    c["seed"] = rng.weighted([(0, 3), (rng.randint(1, 9), 6), (rng.randint(10, 2**31 - 2), 8), (2**31 - 2, 1)])
    # environment ----------------------------------------------------------------------------------
    sub = wrap == "subproc"
    c.update(env_py=(not sub) and rng.chance(0.25), env_npg=(not sub) and rng.chance(0.25),
             max_len=rng.randint(3, 8), p_term=rng.choice([0.0, 0.1, 0.3]))
    # run length -----------------------------------------------------------------------------------
    # reset options pending at the model's first reset (VecEnv.set_options by the env constructor / before learn())
    c.update(opts=None, opts_when=None, opts_tags=None)
    if rng.chance(0.35):
        kind = rng.choice(["dict", "list"])
        if kind == "dict":
            tags = [rng.randint(1, 9)] * n_envs
        else:
            tags = [rng.randint(1, 9) if rng.chance(0.6) else None for _ in range(n_envs)]
            if all(t is None for t in tags) and rng.chance(0.7):
                tags[rng.randint(0, n_envs - 1)] = rng.randint(1, 9)
        when = "before_learn" if wrap == "raw" else rng.weighted([("constructor", 3), ("before_learn", 1)])
        c.update(opts=kind, opts_when=when, opts_tags=tags)
    c["cfg_poison"] = rng.chance(0.25)   # forced to True below when there is an action-noise object
    c["learn_calls"] = 2 if rng.chance(0.2) else 1
    c["reset_ts"] = rng.chance(0.5)
    # algorithm options ----------------------------------------------------------------------------
    box = act != "discrete"
    c.update(use_sde=False, sde_freq=-1, sde_at_warmup=False, noise=None)
    if box and algo in ("PPO", "A2C", "SAC") and rng.chance(0.4):
        c.update(use_sde=True, sde_freq=rng.choice([-1, 1, 2, 3, 4]), sde_at_warmup=rng.chance(0.5))
    if algo in ON_POLICY:
        n_steps = rng.randint(3, max(3, 16 // n_envs))
        c.update(n_steps=n_steps, n_epochs=rng.randint(1, 3))
        N = n_steps * n_envs
        c["batch_size"] = rng.weighted([(N, 2), (max(2, N // 2), 2), (rng.randint(2, max(2, N)), 3), (N + 3, 1)])
        c["steps"] = rng.randint(N, max(N, 44 // c["learn_calls"]))
    else:
        if algo != "DQN":
            c["noise"] = rng.weighted([(None, 3), ("normal", 2), ("ou", 3), ("vec_normal", 1), ("vec_ou", 2)])
            if c["noise"]:
                c["cfg_poison"] = True
        c["steps"] = rng.randint(16, 56) // c["learn_calls"]
        if her:
            ls = c["max_len"] * n_envs + rng.randint(0, 4)
            c["steps"] = max(c["steps"], ls + 2 * n_envs + rng.randint(0, 10))
        else:
            ls = rng.weighted([(0, 2), (rng.randint(1, 10), 3), (rng.randint(10, 30), 2)])
        c.update(learning_starts=ls, train_freq=rng.randint(1, 4), gradient_steps=rng.choice([1, 2, 3, -1]),
                 batch_size=rng.randint(2, 8), buffer_size=rng.weighted([(200, 3), (max(8, n_envs * rng.randint(4, 12)), 2)]),
                 eps_fraction=rng.choice([0.1, 0.5, 1.0]), eps_initial=rng.choice([1.0, 0.5]),
                 eps_final=rng.choice([0.05, 0.3]), target_update_interval=rng.randint(1, 10),
                 ent_auto=rng.chance(0.6), policy_delay=rng.randint(1, 3),
                 opt_mem=(not her) and obs == "box" and rng.chance(0.15))
        if her:
            c["buffer_size"] = 200
    # the model that trains is one obtained by save() + load(env=<this run's env>): load() re-seeds from the stored seed,
    # so the run must still be a function of the seed alone (the loaded model's spaces / generators are NEW objects, the
    # environment's own action space was never seeded by the library) — seeded change C10-g
    c["via_load"] = wrap != "raw" and rng.chance(0.25)
    if c["via_load"]:
        c["cfg_poison"] = False   # this run's configuration objects are not used by a loaded model
    # the model is constructed (seeded) on another environment and then moved to this run's environment with
    # `set_env(env)`; the user seeded that environment with `env.seed(f(seed))` but — like every user — not its action
    # space. The run must still be a function of the seed alone (seeded change C10-i). Oracle only: the trace model does
    # not describe this flow.
    c["via_set_env"] = (not c["via_load"]) and wrap in ("dummy", "vecnorm") and rng.chance(0.15)
    if c["via_set_env"]:
        c.update(pre_env_seed=False, pre_reset=False, opts=None, opts_when=None, opts_tags=None)
    return c


# =================================================================================================
# cross-process differential: the same seeded run in separate interpreters with different PYTHONHASHSEED
# =================================================================================================
HASHSEEDS = ["1", "2", "3", None]   # None: PYTHONHASHSEED unset (random per process)


def gen_xproc_case(rng, thorough):
    """a normal configuration with a Dict observation space of several keys (MultiInputPolicy / CombinedExtractor),
    run once per child interpreter"""
    while True:
        c = gen_case(rng, thorough, False)
        if c["wrap"] == "subproc":
            c["wrap"] = "dummy"
        if not c.get("her"):
            c["obs"] = rng.weighted([("dict", 2), ("dict4", 4), ]
                                  # (an image key under VecNormalize needs a hand-placed VecTransposeImage: not generated)
                                  + ([("dictimg", 2)] if c["wrap"] != "vecnorm" else []))
            c["opt_mem"] = False
        c["kind"] = "xproc"
        c["hashseeds"] = list(HASHSEEDS)
        c["learn_calls"] = 1
        c["steps"] = min(c["steps"], 32)
        return c


def child_main():
    """entry point of a child interpreter: run every case once (and once more with seed+1 when asked) and print the
    digests; all randomness of the run comes from the case, the only thing that differs between children is the
    process (PYTHONHASHSEED, addresses, import order effects)"""
    import json
    import sys

    from harness import common

    common.setup_repo_import()
    req = json.loads(sys.stdin.read())
    out = []
    import traceback

    for case in req["cases"]:
        try:
            r = {"same": run_once(case, case["seed"], case["ambA"])["dig"]}
            if req.get("other_seed"):
                r["other"] = run_once(case, case["seed"] + 1, case["ambA"])["dig"]
        except Exception:  # noqa  (reported for this case only)
            r = {"error": traceback.format_exc()[-1500:]}
        out.append(r)
    sys.stdout.write("\nC10CHILD " + json.dumps(out) + "\n")
    sys.stdout.flush()


def run_children(cases, hashseeds):
    """one child interpreter per PYTHONHASHSEED value, all running the same list of cases, in parallel"""
    import json
    import os
    import subprocess
    import sys

    from harness.common import REPO, VERIF, InfraError

    procs = []
    for i, hs in enumerate(hashseeds):
        env = dict(os.environ)
        env["PYTHONPATH"] = f"{REPO}:{VERIF}"
        env["SB3_REPO"] = REPO
        env["OMP_NUM_THREADS"] = "1"
        env["MKL_NUM_THREADS"] = "1"
        env.pop("PYTHONHASHSEED", None)
        if hs is not None:
            env["PYTHONHASHSEED"] = str(hs)
        p = subprocess.Popen([sys.executable, "-c", "from harness import c10; c10.child_main()"], cwd=VERIF, env=env,
                             stdin=subprocess.PIPE, stdout=subprocess.PIPE, stderr=subprocess.PIPE)
        p.stdin.write(json.dumps({"cases": cases, "other_seed": i == 0}).encode())
        p.stdin.close()
        procs.append(p)
    results = []
    for hs, p in zip(hashseeds, procs):
        try:
            so = p.stdout.read()
            se = p.stderr.read()
            p.wait(timeout=900)
        except Exception as e:  # noqa
            p.kill()
            raise InfraError(f"C10 child interpreter (PYTHONHASHSEED={hs}) did not finish: {e}")
        line = [l for l in so.decode(errors="replace").splitlines() if l.startswith("C10CHILD ")]
        if p.returncode != 0 or not line:
            results.append({"error": se.decode(errors="replace")[-1500:]})
        else:
            results.append({"digs": json.loads(line[-1][len("C10CHILD "):])})
    return results


def check_xproc(ctx, cases):
    """oracle only (hash randomisation is not in the Lean model): every child must print the same digests for the same
    seed; the seed+1 run must differ"""
    rep = ctx.report
    if not cases:
        return
    by_hs = {}
    for c in cases:
        by_hs.setdefault(tuple(c["hashseeds"]), []).append(c)
    for hss, group in by_hs.items():
        res = run_children(group, list(hss))
        for ci, case in enumerate(group):
            rep.count("kind:xproc")
            rep.count(f"xproc:algo:{case['algo']}")
            rep.count(f"xproc:obs:{case['obs']}")
            rep.count(f"xproc:wrap:{case['wrap']}")
            if case.get("her"):
                rep.count("xproc:her")
            rep.case(case, config_key(case))
            errs = [(hs, r["error"]) for hs, r in zip(hss, res) if "error" in r]
            errs += [(hs, r["digs"][ci]["error"]) for hs, r in zip(hss, res) if "digs" in r and "error" in r["digs"][ci]]
            if errs:
                rep.violation("unexpected exception from the implementation on a valid input (child interpreter)", case,
                              {"exception": "child", "kind": "xproc"}, detail={"PYTHONHASHSEED": errs[0][0], "stderr": errs[0][1]})
                continue
            ref = {"dig": res[0]["digs"][ci]["same"]}
            bad = None
            for hs, r in zip(hss[1:], res[1:]):
                d = compare_runs(ref, {"dig": r["digs"][ci]["same"]})
                rep.count("xproc:children_compared")
                if d:
                    bad = (hs, d)
                    break
            if bad is not None:
                comp = next(c for c in COMPONENT_ORDER if c in bad[1])
                rep.violation("two runs with the same seed, algorithm, configuration and environment constructor in two "
                              "separate interpreter launches (different PYTHONHASHSEED) are not bit-identical", case,
                              {"kind": "not_reproducible_across_processes", "component": comp},
                              {"PYTHONHASHSEED": [hss[0], bad[0]], "differing": {k: v[:6] for k, v in bad[1].items()}})
                continue
            dAC = compare_runs(ref, {"dig": res[0]["digs"][ci]["other"]})
            for comp in ("params", "buffer", "actions"):
                if comp not in dAC:
                    rep.violation("changing only the seed does not change the result", case,
                                  {"kind": "seed_ignored", "component": comp, "xproc": True}, {"differing": sorted(dAC)})
                    break
            else:
                rep.agree()


def config_key(case):
    return {k: v for k, v in case.items() if k not in ("ambA", "ambB")}


def gen_cases(ctx):
    n = ctx.budget(120, 1200)
    cases = [gen_case(ctx.rng, ctx.thorough, ctx.widen) for _ in range(n)]
    nx = ctx.budget(12, 120)
    return cases + [gen_xproc_case(ctx.rng, ctx.thorough) for _ in range(nx)]


def shrink_candidates(case):
    def alt(**kw):
        c = dict(case)
        c.update(kw)
        return c

    if case.get("kind") == "xproc":   # every candidate costs one round of child interpreters: keep them few
        if case["wrap"] != "dummy":
            yield alt(wrap="dummy")
        if case["n_envs"] > 1:
            yield alt(n_envs=1, opts=None, opts_when=None, opts_tags=None,
                      noise=(case["noise"][4:] if (case.get("noise") or "").startswith("vec_") else case.get("noise")))
        if case.get("her"):
            yield alt(her=None, obs="dict4")
        if case["obs"] == "dictimg":
            yield alt(obs="dict")
        if case.get("noise") or case.get("cfg_poison") or case.get("opts") or case.get("use_sde"):
            yield alt(noise=None, cfg_poison=False, opts=None, opts_when=None, opts_tags=None, use_sde=False)
        if case["steps"] > 8 and not case.get("her"):
            yield alt(steps=8)
        if len(case["hashseeds"]) > 2:
            yield alt(hashseeds=case["hashseeds"][:2])
        return
    if case.get("via_load"):
        yield alt(via_load=False)
    if case.get("via_set_env"):
        yield alt(via_set_env=False)
    if case.get("learn_calls", 1) > 1:
        yield alt(learn_calls=1)
    if case.get("opts"):
        yield alt(opts=None, opts_when=None, opts_tags=None)
    if case["wrap"] != "dummy":
        yield alt(wrap="dummy")
    if case["n_envs"] > 1:
        c = alt(n_envs=case["n_envs"] - 1)
        if c.get("opts_tags"):
            c["opts_tags"] = c["opts_tags"][:c["n_envs"]]
        if c.get("noise") and c["noise"].startswith("vec_") and c["n_envs"] == 1:
            c["noise"] = c["noise"][4:]
        yield c
    for k in ("env_py", "env_npg", "pre_env_seed", "pre_reset", "use_sde", "opt_mem"):
        if case.get(k):
            yield alt(**{k: False})
    if case.get("cfg_poison") and not case.get("noise"):
        yield alt(cfg_poison=False)
    if case.get("noise"):
        yield alt(noise=None, cfg_poison=False)
        if case["noise"] not in ("ou", "normal"):
            yield alt(noise=case["noise"].replace("vec_", ""))
    if case.get("her"):
        yield alt(her=None, obs="box")
    if case["obs"] in ("dict", "image") and case.get("kind") != "xproc":
        yield alt(obs="box")
    if case["obs"] in ("dict4", "dictimg"):
        yield alt(obs="dict")
    if case["amb_mode"] != "explicit":
        yield alt(amb_mode="explicit")
    if case["steps"] > 8:
        yield alt(steps=max(8, case["steps"] // 2))
    if case["algo"] not in ON_POLICY and case.get("learning_starts", 0) > 0 and not case.get("her"):
        yield alt(learning_starts=0)
    if case["seed"] > 1:
        yield alt(seed=1)


# =================================================================================================
# correspondence: marks -> model operations
# =================================================================================================
def setup_marks(marks):
    """indices of the marks taken inside `_setup_learn` (learn_begin … training_start): there a change of the noise
    token is the reset / the vectorisation (deep copies), never a draw"""
    out, inside = set(), False
    for i, m in enumerate(marks):
        if m[0] == "learn_begin":
            inside = True
        if inside:
            out.add(i)
        if m[0] == "training_start":
            inside = False
    return out


def universe(n):
    return GLOBAL_GENS + [f"env{i}" for i in range(n)]


def advanced(prev, cur, n):
    return [g for g in universe(n) if prev[g] != cur[g]]


def model_cfg(case, seed):
    # `cnn`: NatureCNN samples the observation space once for its shape (values discarded), which lazily creates the space's
    # generator from OS entropy. A loaded model's observation space is the donor's pickled space, whose generator already
    # exists: no OS draw happens in the run that loads.
    noise = (case.get("noise") or "none").replace("vec_", "")
    return {"algo": case["algo"], "nEnvs": case["n_envs"], "seed": seed, "useSde": bool(case["use_sde"]),
            "sdeFreq": max(0, case["sde_freq"]), "useSdeAtWarmup": bool(case["sde_at_warmup"]), "noise": noise,
            "learningStarts": case.get("learning_starts", 0), "cnn": case["obs"] == "image" and not case.get("via_load"), "envPy": case["env_py"],
            "envNp": case["env_npg"], "initDraws": 1}


def build_ops(case, seed, run):
    """the two model requests for one real run + the grouping of marks into the model's segments"""
    marks = run["marks"]
    n = case["n_envs"]
    cnn = case["obs"] == "image"
    measured = []       # one list of model ops per mark (except the first)
    groups = []         # [model event | "construct" | "reset0", [mark indices]]
    events = []
    phase = "construct"
    reset_draws = [0] * n
    first_reset_done = False
    cur_group = None
    in_setup = False
    setup = setup_marks(marks)
    for i in range(1, len(marks)):
        lab, info, snap = marks[i]
        prev = marks[i - 1][2]
        adv = advanced(prev, snap, n)
        if i in setup:
            adv = [x for x in adv if x != "noise"]
        ddraws = [snap["draws"][e] - prev["draws"][e] for e in range(n)]
        ops = []
        if lab.startswith("seed:"):
            g = lab[5:]
            others = [x for x in adv if x != g]
            ops += [{"o": "draw", "g": x, "k": 1} for x in others]
            if info["seed"] is not None:
                ops.append({"o": "envSeed", "s": info["seed"], "n": n} if g == "env" else
                           {"o": "seed", "g": g, "s": info["seed"]})
        elif lab == "vreset":
            ops.append({"o": "envReset", "n": n})
            ops += [{"o": "draw", "g": x, "k": 1} for x in adv]
        elif lab == "setopts":
            ops += [{"o": "draw", "g": x, "k": 1} for x in adv]
            ops.append({"o": "setOptions", "opts": info["opts"]})
        elif lab == "noisereset":
            ops += [{"o": "draw", "g": x, "k": 1} for x in adv if x != "noise"]
            ops.append({"o": "reset", "g": "noise"})
        else:
            for x in adv:
                if x == "os" and cnn and phase == "construct":
                    ops.append({"o": "discard", "g": x, "k": 1})  # torch_layers.py:102: only the shape is used
                else:
                    ops.append({"o": "draw", "g": x, "k": 1})
        measured.append(ops)
        # grouping into the model's segments ---------------------------------------------------------
        if phase == "construct":
            if cur_group is None:
                cur_group = ["construct", []]
                groups.append(cur_group)
            cur_group[1].append(i)
            if lab == "constructed":
                phase = "learn"
                cur_group = None
            continue
        if not first_reset_done:
            if cur_group is None:
                cur_group = ["reset0", []]
                groups.append(cur_group)
            cur_group[1].append(i)
            if lab == "vreset":
                reset_draws = ddraws
            if lab == "training_start":
                first_reset_done = True
                cur_group = None
            continue
        if lab == "learn_begin":
            in_setup = True
        elif lab == "training_start":
            in_setup = False
        if lab == "noisereset" and in_setup:
            ev = {"e": "learnStart"}
        elif lab == "rollout_start":
            ev = {"e": "rolloutStart"}
        elif lab == "step":
            ev = {"e": "step", "t": info["t"], "k": info["k"], "draws": ddraws}
        elif lab == "rollout_end":
            ev = {"e": "rolloutEnd"}
        elif lab == "train_end":
            ev = {"e": "train", "n": max(1, info["n"]), "single": bool(info["single"])}
        elif lab == "vreset":
            ev = {"e": "reset", "draws": ddraws}
        else:
            ev = {"e": "idle"}
        events.append(ev)
        groups.append([ev["e"], [i]])
    tags = list(case.get("opts_tags") or [None] * n) if case.get("opts") else [None] * n
    predict = {"op": "predict", "cfg": model_cfg(case, seed), "resetDraws": reset_draws, "options": tags, "events": events}
    meas = {"op": "measured", "n": n, "options": tags if case.get("opts_when") == "constructor" else [None] * n,
            "segments": measured}
    return predict, meas, groups


def compare_runs(X, Y):
    """component -> keys whose digests differ"""
    out = {}
    for comp in X["dig"]:
        dx, dy = X["dig"][comp], Y["dig"][comp]
        bad = sorted(k for k in set(dx) | set(dy) if dx.get(k) != dy.get(k))
        if bad:
            out[comp] = bad
    return out


COMPONENT_ORDER = ["params", "optimizer", "buffer", "actions", "vecnormalize", "state", "predict"]


def oracle(ctx, case, A, B, C):
    """the property sentence on the implementation's observables (no Lean involved)"""
    rep = ctx.report
    dAB = compare_runs(A, B)
    if dAB:
        comp = next(c for c in COMPONENT_ORDER if c in dAB)
        rep.violation("two runs with the same seed, algorithm, configuration and environment constructor, started from "
                      "different ambient generator states, are not bit-identical", case,
                      {"kind": "not_reproducible", "component": comp},
                      {"differing": {k: v[:6] for k, v in dAB.items()}})
        return False
    dAC = compare_runs(A, C)
    for comp in ("params", "buffer", "actions"):
        if comp not in dAC:
            if comp == "actions" and "params" in dAC and "buffer" in dAC:
                # a handful of discrete actions can coincide for two seeds by chance (seen at thorough scale: A2C, one
                # env, a few steps) while parameters and buffer contents differ: not evidence that the seed is ignored
                rep.count("actions_coincide_for_two_seeds_by_chance")
                continue
            rep.violation("changing only the seed does not change the result", case,
                          {"kind": "seed_ignored", "component": comp}, {"differing": sorted(dAC)})
            return False
    return True


def correspondence(ctx, case, A, B, predict_out, meas_out, groups):
    rep = ctx.report
    n = case["n_envs"]
    marksA, marksB = A["marks"], B["marks"]
    if predict_out is None or meas_out is None:
        return
    if "error" in predict_out or "error" in meas_out:
        rep.disagree("measured", case, "ok", {"predict": predict_out.get("error"), "measured": meas_out.get("error")})
        return
    uni = universe(n)
    # ---- measured: the real trace satisfies the hypothesis of seeded_noninterference ----------------
    if not (meas_out["ok"] and meas_out["noninterf"]):
        fb = meas_out["firstBad"]
        lab = marksA[fb + 1][0] if fb is not None and fb + 1 < len(marksA) else None
        rep.disagree("measured", case, {"segment": fb, "label": lab,
                                        "ops": None if fb is None else build_ops(case, case["seed"], A)[1]["segments"][fb]},
                     {"ok": meas_out["ok"], "noninterf": meas_out["noninterf"]},
                     note="a draw site of the real run reads a generator that was not assigned from the seed before")
    else:
        rep.agree()
    if not (predict_out["ok"] and predict_out["noninterf"]):
        rep.disagree("measured", case, "libTrace", predict_out["ok"], note="model's own trace rejected")
    # ---- lowness: state(A) == state(B)  <=>  marked by the analysis (measured trace, every mark) -----
    same_labels = [m[0] for m in marksA] == [m[0] for m in marksB]
    if not same_labels:
        rep.disagree("lowness", case, [m[0] for m in marksA][:40], [m[0] for m in marksB][:40],
                     note="runs A and B pass different boundaries")
        return

    first_learn = next((i for i, m in enumerate(marksA) if m[0] == "learn_begin"), len(marksA))

    def check_low(i, low, pend, where):
        sa, sb = marksA[i][2], marksB[i][2]
        for g in uni:
            if g == "os":
                continue
            eq = sa[g] == sb[g]
            if g == "noise" and not (g in low and not eq):
                # stateless / absent noise has no state to compare; a stateful one must differ while ambient
                if not (g not in low and eq and case.get("cfg_poison") and "ou" in (case.get("noise") or "")
                        and i <= first_learn):
                    continue
            if g in low and not eq:
                rep.disagree("lowness", case, {"mark": i, "label": marksA[i][0], "gen": g, "equal": False},
                             {"low": True, "from": where},
                             note="model: determined by the seed here; implementation: differs between A and B")
                return False
            if g not in low and eq and sa[g] != "unset" and case["amb_mode"] == "explicit":
                rep.disagree("lowness", case, {"mark": i, "label": marksA[i][0], "gen": g, "equal": True},
                             {"low": False, "from": where},
                             note="model: still ambient here; implementation: already equal in A and B")
                return False
        for e in range(n):
            pa, pb = sa["pending"][e], sb["pending"][e]
            want = pend[e]
            okp = (want == "unknown") or (want == "none" and pa is None and pb is None) or \
                  (want == "some" and pa is not None and pa == pb)
            if not okp:
                rep.disagree("lowness", case, {"mark": i, "label": marksA[i][0], "pending": [pa, pb], "env": e},
                             {"pend": want, "from": where})
                return False
        return True

    ok = True
    for i in range(1, len(marksA)):
        seg = meas_out["segments"][i - 1]
        if not check_low(i, seg["low"], seg["pend"], "measured"):
            ok = False
            break
    if ok:
        for gi, (kind, idxs) in enumerate(groups):
            seg = predict_out["segments"][gi]
            if not check_low(idxs[-1], seg["low"], seg["pend"], "predicted"):
                ok = False
                break
    if ok:
        rep.agree()
    # ---- sites: generators that advanced in each model segment ---------------------------------------
    ok = True
    setup = setup_marks(marksA)
    for gi, (kind, idxs) in enumerate(groups):
        seg = predict_out["segments"][gi]
        adv = set()
        for i in idxs:
            lab = marksA[i][0]
            a = advanced(marksA[i - 1][2], marksA[i][2], n)
            if lab.startswith("seed:"):
                a = [x for x in a if x != lab[5:]]
            if lab == "noisereset" or i in setup:
                a = [x for x in a if x != "noise"]
            adv.update(a)
        must, may = set(seg["must"]), set(seg["may"])
        if not (must <= adv <= may):
            rep.disagree("sites", case, {"segment": gi, "kind": kind, "label": marksA[idxs[-1]][0],
                                         "info": marksA[idxs[-1]][1], "advanced": sorted(adv)},
                         {"must": sorted(must), "may": sorted(may)})
            ok = False
            break
    if ok:
        rep.agree()
    # ---- delivery ------------------------------------------------------------------------------------
    impl = [m[1]["seeds"] for m in marksA if m[0] == "vreset"]
    if impl != predict_out["deliveries"] or impl != meas_out["deliveries"]:
        rep.disagree("delivery", case, impl, {"predicted": predict_out["deliveries"], "measured_model": meas_out["deliveries"]})
    else:
        rep.agree()


def nontrivial(case, A):
    fam = set()
    trained = False
    marks = A["marks"]
    started = False
    for i in range(1, len(marks)):
        lab = marks[i][0]
        if lab == "constructed":
            started = True
            continue
        if not started or lab.startswith("seed:"):
            continue
        for g in advanced(marks[i - 1][2], marks[i][2], case["n_envs"]):
            fam.add("env" if g.startswith("env") else g)
        if lab == "train_end":
            trained = True
    return trained and len(fam) >= 3


def check_cases(ctx, cases):
    rep = ctx.report
    ops, plan = [], []
    check_xproc(ctx, [c for c in cases if c.get("kind") == "xproc"])
    for case in cases:
        if case.get("kind") == "xproc":
            continue
        rep.count(f"algo:{case['algo']}")
        rep.count(f"n_envs:{case['n_envs']}")
        rep.count(f"wrap:{case['wrap']}")
        rep.count(f"obs:{case['obs']}")
        rep.count(f"act:{case['act']}")
        rep.count("seed:" + ("0" if case["seed"] == 0 else "small" if case["seed"] < 10 else "large"))
        for k in ("use_sde", "her", "noise", "env_py", "env_npg", "pre_env_seed", "pre_reset", "opt_mem", "cfg_poison", "via_load", "via_set_env"):
            if case.get(k):
                rep.count(f"opt:{k}" + (f"={case[k]}" if isinstance(case[k], str) else ""))
        if case.get("opts"):
            rep.count(f"opt:set_options={case['opts']}@{case['opts_when']}")
        if case["learn_calls"] > 1:
            rep.count("opt:second_learn" + ("_reset" if case["reset_ts"] else "_continue"))
        if case["algo"] not in ON_POLICY and case.get("learning_starts", 0) > 0:
            rep.count("opt:warmup")
        rep.count(f"amb:{case['amb_mode']}")
        seed = case["seed"]
        A = guarded(ctx, case, lambda: run_once(case, seed, case["ambA"]))
        B = guarded(ctx, case, lambda: run_once(case, seed, case["ambB"])) if A is not None else None
        C = guarded(ctx, case, lambda: run_once(case, seed + 1, case["ambA"])) if B is not None else None
        if C is None:
            rep.case(case, None)
            continue
        rep.case(case, config_key(case) if nontrivial(case, A) else None)
        for m in A["marks"]:
            if m[0] in ("step", "train_end", "vreset"):
                rep.count("marks:" + m[0])
        oracle(ctx, case, A, B, C)
        if case.get("via_set_env"):
            continue   # oracle only (see gen_case)
        predict, meas, groups = build_ops(case, seed, A)
        plan.append((case, A, B, len(ops), groups))
        ops += [predict, meas]
    outs = ctx.lean.run(ops)
    for case, A, B, i, groups in plan:
        correspondence(ctx, case, A, B, outs[i], outs[i + 1], groups)
