/-
Driver for C11: runs the executable model `SB3Verif.Predict` on the calls the harness
(`/verif/harness/c11.py`) made to the real `predict()`.

spaces   {"k":"box","shape":[n],"image":bool} | {"k":"discrete","n":n} | {"k":"multidiscrete","nvec":[n]}
         | {"k":"multibinary","shape":[n]} | {"k":"dict","items":[[key, leaf]]}
actions  {"k":"box","shape":[n]} | {"k":"discrete","n":n} | {"k":"multidiscrete","nvec":[n]} | {"k":"multibinary","n":n}
obs      {"arr":[n]} | {"dict":[[key,[n]]]}

ops
  {"op":"shape","obs_space":S,"act_space":A,"obs":O}
        → {"predict":[n]|E,"vectorized":b|E,"transposed":[b]|E,"explore":[n]|E}   with E = {"error":e}
          (`predict`, `vectorizedFlag`, per-key `transposed` of `obsToTensor`; `explore` = `dqnExplore`)
  {"op":"post","squash":b,"low":[q],"high":[q],"raw":[q]}          → {"act":[q],"inside":b}   (`postBox`, `contains`)
  {"op":"mode","act_space":A,"low":[q],"high":[q],"squash":b,"out":[q]}
        → {"real":[q]} | {"int":[n]}, plus "inside":b                                   (`modeAction`, `contains`)
  {"op":"encode","leaf":S,"obs":[n],"normalize":b,"real":b,"rows":[[q or n]]}
        → {"rows":[[q]],"transposed":b,"vectorized":b,"batch":n}            (`leafToTensor`, `encodeRow` per row)
-/
import SB3Verif.Driver.Proto
import SB3Verif.Model.Predict

open Lean SB3Verif.Proto SB3Verif.Predict

def liftE {β : Type} (x : Except Err β) : Except String β :=
  match x with
  | .ok v => .ok v
  | .error e => .error e.name

def parseLeaf (j : Json) : Except String Leaf := do
  let k ← getStr j "k"
  match k with
  | "box" => return .box (← getList asNat j "shape") (← getBool j "image")
  | "discrete" => return .discrete (← getNat j "n")
  | "multidiscrete" => return .multiDiscrete (← getList asNat j "nvec")
  | "multibinary" => return .multiBinary (← getList asNat j "shape")
  | _ => throw s!"bad-leaf {k}"

def parsePair {β : Type} (f : Json → Except String β) (j : Json) : Except String (String × β) := do
  match (← asList j) with
  | [a, b] => return (← asStr a, ← f b)
  | _ => throw "bad-pair"

def parseObsSpace (j : Json) : Except String ObsSpace := do
  let k ← getStr j "k"
  if k == "dict" then
    return .dict (← getList (parsePair parseLeaf) j "items")
  else
    return .leaf (← parseLeaf j)

def parseObs (j : Json) : Except String ObsShape :=
  match fld j "arr" with
  | .ok a => do return .arr (← asListOf asNat a)
  | .error _ => do return .dict (← getList (parsePair (asListOf asNat)) j "dict")

def parseAct (j : Json) : Except String ActSpace := do
  let k ← getStr j "k"
  match k with
  | "box" => return .box (← getList asNat j "shape")
  | "discrete" => return .discrete (← getNat j "n")
  | "multidiscrete" => return .multiDiscrete (← getList asNat j "nvec")
  | "multibinary" => return .multiBinary (← getNat j "n")
  | _ => throw s!"bad-act {k}"

def actV (a : ActSpace) (lo hi : List Rat) : ActSpaceV Rat :=
  match a with
  | .box _ => .box lo hi
  | .discrete n => .discrete n
  | .multiDiscrete nv => .multiDiscrete nv
  | .multiBinary n => .multiBinary n

def stepC11 (_ : Unit) (j : Json) : Except String (Unit × Json) := do
  let op ← getStr j "op"
  match op with
  | "shape" =>
    let os ← parseObsSpace (← fld j "obs_space")
    let as ← parseAct (← fld j "act_space")
    let obs ← parseObs (← fld j "obs")
    let ej : Json := match dqnExplore os as obs with
      | .ok s => listJ natJ s
      | .error e => errJ e.name
    let pj : Json := match predict os as obs with
      | .ok s => listJ natJ s
      | .error e => errJ e.name
    let vj : Json := match vectorizedFlag os obs with
      | .ok v => boolJ v
      | .error e => errJ e.name
    let tj : Json := match obsToTensor os obs with
      | .ok infos => listJ boolJ (infos.map (·.transposed))
      | .error e => errJ e.name
    return ((), objJ [("predict", pj), ("vectorized", vj), ("transposed", tj), ("explore", ej)])
  | "post" =>
    let squash ← getBool j "squash"
    let lo ← getList asRat j "low"
    let hi ← getList asRat j "high"
    let raw ← getList asRat j "raw"
    if lo.length ≠ raw.length ∨ hi.length ≠ raw.length then throw "data"
    let act := postBox squash lo hi raw
    return ((), objJ [("act", listJ ratJ act), ("inside", boolJ ((ActSpaceV.box lo hi).contains (.real act)))])
  | "mode" =>
    let as ← parseAct (← fld j "act_space")
    let lo ← getList asRat j "low"
    let hi ← getList asRat j "high"
    let squash ← getBool j "squash"
    let out ← getList asRat j "out"
    let sp := actV as lo hi
    let a := modeAction sp squash out
    let inside := boolJ (sp.contains a)
    match a with
    | .real xs => return ((), objJ [("real", listJ ratJ xs), ("inside", inside)])
    | .int ks => return ((), objJ [("int", listJ natJ ks), ("inside", inside)])
  | "encode" =>
    let l ← parseLeaf (← fld j "leaf")
    let obs ← getList asNat j "obs"
    let normalize ← getBool j "normalize"
    let real ← getBool j "real"
    let info ← liftE (leafToTensor l obs)
    let rows : List (ObsData Rat) ←
      if real then do
        let r ← getList (asListOf asRat) j "rows"
        pure (r.map ObsData.real)
      else do
        let r ← getList (asListOf asNat) j "rows"
        pure (r.map ObsData.nat)
    if rows.length ≠ info.batch then throw "data"
    let enc ← liftE (rows.mapM (encodeRow l info.transposed normalize))
    return ((), objJ [("rows", listJ (listJ ratJ) enc), ("transposed", boolJ info.transposed),
      ("vectorized", boolJ info.vectorized), ("batch", natJ info.batch)])
  | _ => throw s!"bad-op {op}"

def main : IO Unit := SB3Verif.Proto.run stepC11 ()
