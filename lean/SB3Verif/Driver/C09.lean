/-
Driver for C09: runs the executable model `SB3Verif.SaveLoad` on the operations the harness
(`/verif/harness/c09.py`) performed on the real `save_util` / `BaseAlgorithm.save/load` code.

Python values cross as tagged arrays
  ["n"] ["b",bool] ["i",int] ["f",bits] ["s",str] ["l",[v…]] ["t",[v…]] ["d",[[k,v]…]]
  ["o",cls,id,js|null,[[k,v]…]]
JSON documents as  null | true/false | ["i",int] | ["f",bits] | "str" | ["a",[j…]] | ["o",[[key,j]…]].

ops
  {"op":"codec","attrs":[[name,v]…],"custom":[[name,v]…],"old":bool,
   "strs":[[v,str]…],"fkeys":[[bits,str]…],"pickles":[[v,token]…],"unp":[[str,"raised"|"caught"]…]}
        → {"json":j|null,"stored":[[name,"json"|"pickled"]…],"loaded":[[name,v]…]|null}
  {"op":"native","v":v,"strs":…,"fkeys":…} → {"native":b,"serializable":b,"dumps":j|null,"loads":v|null,"wf":b}
  {"op":"partition","algo":a,"learned":b,"attrs":[name…],"exclude":[…],"include":[…]}
        → {"data":[…],"params":[…],"vars":[…],"excluded":[…],"tops":[…]}
  {"op":"setparams","algo":a,"learned":b,"have":[…],"given":[…],"exact":b} → {"ok":b}
  {"op":"load","algo":a,"learned":b,"attrs":[name…],"exclude":[…],"include":[…],"env":b,"force_reset":b,
   "kwargs":[name…],"fresh":[name…],"rebuilt":[name…]}
        → {"attrs":[[name,source]…],"torch":[[name,source]…]} | {"error":…}
  {"op":"path","mode":"w"|"r","kind":"str"|"pathlib"|"file","p":str,"has_suffix":b,"suffix":str,"fs":[str…]}
        → {"target":str|null}
  {"op":"state","dropped":[…],"attrs":[…],"rebind":[…]} → {"attrs":[[name,source]…]}
-/
import SB3Verif.Driver.Proto
import SB3Verif.Model.SaveLoad

open Lean SB3Verif.Proto SB3Verif.SaveLoad

partial def decJ (j : Json) : Except String JVal :=
  match j with
  | .null => .ok .null
  | .bool b => .ok (.bool b)
  | .str s => .ok (.str s)
  | .arr #[.str "i", n] => do return .int (← asInt n)
  | .arr #[.str "f", n] => do return .float (← asNat n)
  | .arr #[.str "a", xs] => do return .arr (← (← asList xs).mapM decJ)
  | .arr #[.str "o", kvs] => do
    let items ← (← asList kvs).mapM fun kv =>
      match kv with
      | .arr #[.str k, v] => do return (k, ← decJ v)
      | _ => .error s!"bad json item {kv.compress}"
    return .obj items
  | _ => .error s!"bad json value {j.compress}"

partial def encJ : JVal → Json
  | .null => .null
  | .bool b => .bool b
  | .str s => .str s
  | .int i => .arr #[.str "i", intJ i]
  | .float b => .arr #[.str "f", natJ b]
  | .arr xs => .arr #[.str "a", .arr (xs.map encJ).toArray]
  | .obj kvs => .arr #[.str "o", .arr (kvs.map fun kv => Json.arr #[.str kv.1, encJ kv.2]).toArray]

partial def decP (j : Json) : Except String PyVal :=
  match j with
  | .arr #[.str "n"] => .ok .none
  | .arr #[.str "b", .bool b] => .ok (.bool b)
  | .arr #[.str "i", n] => do return .int (← asInt n)
  | .arr #[.str "f", n] => do return .float (← asNat n)
  | .arr #[.str "s", .str s] => .ok (.str s)
  | .arr #[.str "l", xs] => do return .list (← (← asList xs).mapM decP)
  | .arr #[.str "t", xs] => do return .tuple (← (← asList xs).mapM decP)
  | .arr #[.str "d", kvs] => do return .dict (← decItems kvs)
  | .arr #[.str "o", .str cls, id, js, kvs] => do
    let js' ← match js with
      | .null => pure none
      | j => do pure (some (← decJ j))
    return .obj cls (← asNat id) js' (← decItems kvs)
  | _ => .error s!"bad python value {j.compress}"
where
  decItems (kvs : Json) : Except String (List (PyVal × PyVal)) := do
    (← asList kvs).mapM fun kv =>
      match kv with
      | .arr #[k, v] => do return (← decP k, ← decP v)
      | _ => .error s!"bad item {kv.compress}"

partial def encP : PyVal → Json
  | .none => .arr #[.str "n"]
  | .bool b => .arr #[.str "b", .bool b]
  | .int i => .arr #[.str "i", intJ i]
  | .float b => .arr #[.str "f", natJ b]
  | .str s => .arr #[.str "s", .str s]
  | .list xs => .arr #[.str "l", .arr (xs.map encP).toArray]
  | .tuple xs => .arr #[.str "t", .arr (xs.map encP).toArray]
  | .dict kvs => .arr #[.str "d", .arr (kvs.map fun kv => Json.arr #[encP kv.1, encP kv.2]).toArray]
  | .obj cls id js kvs =>
    .arr #[.str "o", .str cls, natJ id, (match js with | none => .null | some j => encJ j),
      .arr (kvs.map fun kv => Json.arr #[encP kv.1, encP kv.2]).toArray]

/-- identity of a value on the protocol -/
def pkey (v : PyVal) : String := (encP v).compress

def getPairs {α β} (f : Json → Except String α) (g : Json → Except String β) (j : Json) (k : String) :
    Except String (List (α × β)) :=
  match fld j k with
  | .error _ => .ok []
  | .ok l => do
    (← asList l).mapM fun kv =>
      match kv with
      | .arr #[a, b] => do return (← f a, ← g b)
      | _ => .error s!"bad pair in {k}"

/-- the externals as measured by the harness on this case -/
def mkExt (j : Json) : Except String Ext := do
  let strs ← getPairs decP asStr j "strs"
  let strT := strs.map fun kv => (pkey kv.1, kv.2)
  let fkeys ← getPairs asNat asStr j "fkeys"
  let pick ← getPairs decP asStr j "pickles"
  let pickT := pick.map fun kv => (pkey kv.1, kv.2)
  let unp ← getPairs asStr asStr j "unp"
  return {
    pickle := fun v => (dictGet pickT (pkey v)).getD ("?" ++ pkey v)
    unpickle := fun s =>
      match pick.find? (fun kv => kv.2 == s) with
      | some kv => .ok kv.1
      | none => match dictGet unp s with
        | some "caught" => .caught
        | _ => .raised
    pyStr := fun v => (dictGet strT (pkey v)).getD ("?str" ++ pkey v)
    floatKey := fun b => ((fkeys.find? (fun kv => kv.1 == b)).map (·.2)).getD s!"?float{b}"
  }

def getAttrs (j : Json) (k : String) : Except String (List (String × PyVal)) := getPairs asStr decP j k

def algoOf (j : Json) : Except String Algo := do
  let a ← getStr j "algo"
  let learned := match getBool j "learned" with | .ok b => b | .error _ => false
  match a with
  | "a2c" => pure .a2c
  | "ppo" => pure .ppo
  | "dqn" => pure .dqn
  | "sac" => pure (.sac learned)
  | "td3" => pure .td3
  | "ddpg" => pure .ddpg
  | _ => throw s!"bad algo {a}"

def strsJ (l : List String) : Json := listJ strJ l

/-- attributes as provenance tags: `int i` = the i-th attribute of the original model -/
def tagAttrs (names : List String) (base : Int) : List (String × PyVal) :=
  (names.zip (List.range names.length)).map fun kv => (kv.1, PyVal.int (base + kv.2))

def sourceOf (v : PyVal) : String :=
  match v with
  | .int i =>
    if i < 1000 then s!"saved:{i}" else if i < 2000 then "fresh" else if i < 3000 then "rebuilt"
    else if i < 4000 then "kwargs" else "numenvs"
  | .none => "none"
  | _ => "other"

def trivialExt : Ext := ⟨fun _ => "P", fun _ => .raised, fun _ => "S", fun _ => "F"⟩

def stepC09 (_ : Unit) (j : Json) : Except String (Unit × Json) := do
  let op ← getStr j "op"
  match op with
  | "codec" =>
    let E ← mkExt j
    let attrs ← getAttrs j "attrs"
    let custom ← getAttrs j "custom"
    let old := match getBool j "old" with | .ok b => b | .error _ => false
    let stored := attrs.map fun kv =>
      let viaJson := if old then isJsonSerializable E kv.2 else (isJsonSerializable E kv.2 && isNative kv.2)
      Json.arr #[.str kv.1, .str (if viaJson then "json" else "pickled")]
    let doc := if old then dataToJsonOld E attrs else dataToJson E attrs
    let loaded := match doc with
      | none => none
      | some d => jsonToData E custom d
    let docJ := match doc with | none => Json.null | some d => encJ d
    let loadedJ := match loaded with
      | none => Json.null
      | some l => Json.arr (l.map fun kv => Json.arr #[.str kv.1, encP kv.2]).toArray
    return ((), objJ [("json", docJ), ("stored", .arr stored.toArray), ("loaded", loadedJ),
      ("no_serialized_key", boolJ (noSerializedKey E attrs))])
  | "native" =>
    let E ← mkExt j
    let v ← fld j "v" >>= decP
    let d := jsonDumps E v
    return ((), objJ [("native", boolJ (isNative v)), ("serializable", boolJ (isJsonSerializable E v)),
      ("dumps", match d with | none => .null | some x => encJ x),
      ("loads", match d with | none => .null | some x => encP (jsonLoads x)),
      ("wf", boolJ (wfKeys v))])
  | "partition" =>
    let a ← algoOf j
    let names ← getList asStr j "attrs"
    let excl ← getList asStr j "exclude"
    let incl ← getList asStr j "include"
    let s := a.spec
    let data := saveData s excl incl (tagAttrs names 0)
    return ((), objJ [("data", strsJ (data.map (·.1))), ("params", strsJ s.stateDicts),
      ("vars", strsJ s.torchVars), ("excluded", strsJ s.excluded), ("tops", strsJ (torchTops s))])
  | "setparams" =>
    let a ← algoOf j
    let have_ ← getList asStr j "have"
    let given ← getList asStr j "given"
    let exact ← getBool j "exact"
    let r := setParameters a.spec (tagAttrs have_ 0) (tagAttrs given 5000) exact
    return ((), objJ [("ok", boolJ r.isSome)])
  | "load" =>
    let a ← algoOf j
    let names ← getList asStr j "attrs"
    let excl ← getList asStr j "exclude"
    let incl ← getList asStr j "include"
    let env ← getBool j "env"
    let fr ← getBool j "force_reset"
    let kw ← getList asStr j "kwargs"
    let fresh ← getList asStr j "fresh"
    let rebuilt ← getList asStr j "rebuilt"
    let s := a.spec
    let tnames := s.stateDicts ++ s.torchVars
    let m : Model := ⟨tagAttrs names 0, tagAttrs tnames 0⟩
    let args : LoadArgs := {
      envGiven := env, forceReset := fr, numEnvs := 4000, kwargs := tagAttrs kw 3000, custom := [],
      fresh := tagAttrs fresh 1000,
      setup := fun attrs => dictUpdate attrs (tagAttrs rebuilt 2000),
      freshTorch := tagAttrs tnames 1000 }
    match save trivialExt s excl incl m with
    | none => throw "save-raises"
    | some ar =>
      match load trivialExt s args ar with
      | none => throw "load-raises"
      | some m' =>
        let enc := fun (l : List (String × PyVal)) =>
          Json.arr (l.map fun kv => Json.arr #[.str kv.1, .str (sourceOf kv.2)]).toArray
        return ((), objJ [("attrs", enc m'.attrs), ("torch", enc m'.torch)])
  | "path" =>
    let mode ← getStr j "mode"
    let kind ← getStr j "kind"
    let p ← getStr j "p"
    let hs ← getBool j "has_suffix"
    let suffix ← getStr j "suffix"
    let fs ← getList asStr j "fs"
    let arg : PathArg := match kind with
      | "str" => .str p
      | "pathlib" => .pathlib p
      | _ => .file 0
    let t := if mode == "w" then writeTarget (fun _ => hs) suffix arg else readTarget fs suffix arg
    return ((), objJ [("target", match t with | .named q => strJ q | .handle _ => .null)])
  | "state" =>
    let dropped ← getList asStr j "dropped"
    let names ← getList asStr j "attrs"
    let rebind ← getList asStr j "rebind"
    let r := setState (getState dropped (tagAttrs names 0)) (tagAttrs rebind 2000)
    return ((), objJ [("attrs", Json.arr (r.map fun kv => Json.arr #[.str kv.1, .str (sourceOf kv.2)]).toArray)])
  | _ => throw s!"bad-op {op}"

def main : IO Unit := SB3Verif.Proto.run stepC09 ()
