/-
C04 — Off-policy collection stores each real transition once, with the true successor.

Property theorems only (helper lemmas: `SB3Verif/Lemmas/OffPolicy.lean`). All statements are about the
executable model `SB3Verif/Model/OffPolicy.lean`, whose definitions the driver `SB3Verif/Driver/C04.lean`
runs against real `SAC` / `TD3` / `DDPG` / `DQN` `learn()` calls.

Reading guide.
* `run cfg calls` executes any number of `learn()` calls (with / without counter reset), each consuming an
  arbitrary external stream (policy outputs, noise, sub-environment answers, `VecNormalize` statistics);
  the result holds the mechanism's state `st` (its `trace`; the replay buffer's add log is `st.buffer`) and
  the sub-environments' own record `w` (what each env had last returned, the action it received, its answer).
* `store_log_eq_env_log*`: the add log equals that record, row by row — full statement without
  `VecNormalize`; with `VecNormalize` the code stores `unnormalize(normalize(terminal observation))`, which is
  the terminal observation only when the clip was inactive (`…_partial`, `normalized_env_stores_raw`);
  otherwise the statement is false of the code (`…_counterexample`, recorded finding K-C04-a).
* an observation wrapper outside `VecNormalize` (`VecTransposeImage`) is any map `cfg.post` applied alike to
  observations and terminal observations; the buffer then holds the wrapped observations. Without `VecNormalize`
  this is covered by the full statement; with `VecNormalize` *below* such a wrapper the code stores
  `get_original_obs()`, the batch before the wrapper (`…_wrapper_counterexample`, finding K-C04-b: the real code
  fails with a shape error), hence the hypothesis `PostTrivialUnderVN`.
* action algebra over an arbitrary ordered field: the stored action lies in `[-1, 1]`, the environment
  received its rescaling, which lies in the box for *every* stored value (`unscale_action` clips, fix 933445d).
-/
import SB3Verif.Lemmas.OffPolicy
import SB3Verif.Props.C04C03

set_option linter.unusedSectionVars false
set_option linter.unusedVariables false

namespace SB3Verif.C04

open SB3Verif.OffPolicy SB3Verif.Lemmas.OffPolicy SB3Verif.Lemmas.OffPolicyReplay

/-! ## Action algebra (any ordered field) -/

section Field

variable {α : Type} [Field α] [LinearOrder α] [IsStrictOrderedRing α]

/-- `unscale_action ∘ scale_action = id` on the box. -/
theorem unscale_scale (low high a : α) (h : low < high) (h1 : low ≤ a) (h2 : a ≤ high) :
    unscaleAction low high (scaleAction low high a) = a :=
  Lemmas.OffPolicy.unscale_scale low high a h h1 h2

/-- `scale_action ∘ unscale_action = id` on `[-1, 1]`: the stored action determines the environment's one and
is recovered from it. -/
theorem scale_unscale (low high s : α) (h : low < high) (h1 : -1 ≤ s) (h2 : s ≤ 1) :
    scaleAction low high (unscaleAction low high s) = s :=
  Lemmas.OffPolicy.scale_unscale low high s h h1 h2

/-- The scaled version of an in-bounds action lies in `[-1, 1]`. -/
theorem scale_in_unit (low high a : α) (h : low < high) (h1 : low ≤ a) (h2 : a ≤ high) :
    -1 ≤ scaleAction low high a ∧ scaleAction low high a ≤ 1 :=
  scale_mem low high a h h1 h2

/-- **The environment never receives an out-of-bounds action**: for *every* scaled value (in `[-1,1]` or
not) the un-scaled action lies in `[low, high]`. -/
theorem unscale_in_bounds (low high s : α) (h : low ≤ high) :
    low ≤ unscaleAction low high s ∧ unscaleAction low high s ≤ high :=
  unscale_mem low high s h

/-- On `[-1, 1]` the clip in `unscale_action` is inactive: the environment's action is exactly the affine image
`low + 0.5 (s + 1)(high - low)` of the stored one. -/
theorem unscale_affine_on_unit (low high s : α) (h : low ≤ high) (h1 : -1 ≤ s) (h2 : s ≤ 1) :
    unscaleAction low high s = low + (1 / (1 + 1)) * (s + 1) * (high - low) :=
  unscale_eq_raw low high s h h1 h2

/-- **`_sample_action`, Box**: whatever the policy / warm-up output `u` and the noise sample are (right
dimension), the action handed to the environment is the un-scaling of the stored action and lies in the box. -/
theorem env_action_is_unscaled_buffer_action (low high u : List α) (noise : Option (List α))
    (hb : ProperBox low high) (hu : u.length = low.length) (hn : ∀ e, noise = some e → e.length = low.length) :
    (sampleAction1 (.box low high) noise u).1 = map3 unscaleAction low high (sampleAction1 (.box low high) noise u).2 ∧
      InBox low high (sampleAction1 (.box low high) noise u).1 := by
  have hhl : high.length = low.length := (List.Forall₂.length_eq hb).symm
  refine ⟨rfl, ?_⟩
  simp only [sampleAction1]
  apply map3_unscale_inBox low high _ hb
  cases noise with
  | none => exact map3_length _ _ _ _ hhl hu
  | some e =>
    simp only [List.length_zipWith, map3_length _ _ _ _ hhl hu, hn e rfl, Nat.min_self]

/-- **The stored action is normalised**: with action noise it is clipped to `[-1, 1]` whatever the noise; without
noise it is the scaling of the policy's in-bounds action, hence in `[-1, 1]` as well. -/
theorem buffer_action_in_unit (low high u : List α) (noise : Option (List α)) (hb : ProperBox low high)
    (hu : noise = none → InBox low high u) : InUnit (sampleAction1 (.box low high) noise u).2 := by
  simp only [sampleAction1]
  cases noise with
  | none => exact map3_scale_inUnit low high u hb (hu rfl)
  | some e => exact zipWith_addNoise_inUnit _ e

/-- Without action noise the environment receives exactly the policy's (in-bounds) action. -/
theorem env_action_eq_policy_action_without_noise (low high u : List α) (hb : ProperBox low high)
    (hu : InBox low high u) : (sampleAction1 (.box low high) none u).1 = u := by
  simp only [sampleAction1]
  exact map3_unscale_scale low high u hb hu

/-- **Under `VecNormalize` the raw terminal observation is what gets stored as long as no normalised coordinate
was clipped**: `unnormalize_obs (normalize_obs o) = o`. -/
theorem normalized_env_stores_raw (z : Normalizer α) (o : List α) (h : Unclipped z o) :
    z.unnormObs (z.normObs o) = o :=
  unnormObs_normObs z o h

/-- … and a coordinate whose normalised value *was* clipped comes back as the clip bound mapped through the
statistics, not as the raw value (the mechanism behind finding K-C04-a). -/
theorem clipped_coordinate_is_lost (mean sd c x : α) (hc : 0 ≤ c) (h : c < (x - mean) / sd) :
    unnormWith mean sd (normWith mean sd c x) = c * sd + mean :=
  unnorm_norm_clipped_hi mean sd c x hc h

end Field

/-! ## The collection mechanism (any scalar type; all histories) -/

section Mechanism

variable {α : Type} [Add α] [Sub α] [Mul α] [Div α] [Neg α] [One α] [LT α] [DecidableLT α]

/-- Discrete actions are stored and sent as they are. -/
theorem discrete_action_stored_as_is (noise : Option (List α)) (u : List α) :
    sampleAction1 (ActSpace.discrete : ActSpace α) noise u = (u, u) := rfl

/-- **One loop iteration** (any state, any well-formed external input whose terminal observations survive the
`VecNormalize` round trip): exactly one row is appended; it holds the raw observation the action was computed
from, the sub-environments' own observations as successors (the terminal one where an episode ended — never the
reset observation, and never a stale `terminal_observation` an env's reused info dict still carries from an
earlier episode, `RawStep.staleTerm`; as the outer observation wrapper presents them), the raw rewards,
`done = terminated ∨ truncated`, `timeout = truncated ∧ ¬terminated`; the policy's input was `_last_obs`;
afterwards the raw last observation is the reset observation for finished envs and the new observation
otherwise. -/
theorem one_step_adds_the_true_transition (cfg : Cfg α) (st : St α) (x : StepIn α) (hwf : x.wf cfg = true)
    (hrt : TermRoundTrip x) (hp : PostTrivialUnderVN cfg) :
    (body cfg st x).1.buffer = st.buffer ++ [(body cfg st x).2.row] ∧
    (body cfg st x).2.row.obs = origObs cfg st ∧
    (body cfg st x).2.row.nextObs = x.raws.map (fun r => cfg.post r.obs) ∧
    (body cfg st x).2.row.reward = x.raws.map (·.rew) ∧
    (body cfg st x).2.row.done = x.raws.map (fun r => r.term || r.trunc) ∧
    (body cfg st x).2.row.timeout = x.raws.map (fun r => r.trunc && !r.term) ∧
    (body cfg st x).2.policyInput = st.lastObs ∧
    origObs cfg (body cfg st x).1 = (x.raws.map (fun r => if r.done then r.resetObs else r.obs)).map cfg.post := by
  have sp := body_spec cfg st x hwf hrt hp
  simp only at sp
  obtain ⟨b1, b2, b3, b4, b5, b6, b7, _, _, _, b11, _, _⟩ := sp
  refine ⟨?_, b1, b2, b3, ?_, b5, b6, b7⟩
  · simp only [St.buffer, b11, List.map_append, List.map_cons, List.map_nil]
  · rw [b4]; rfl

/-- **Any split into rollouts and `learn()` loops is the same sequence of loop bodies**: whatever
`train_freq` (steps or episodes), `learning_starts`, `total_timesteps` and the counters are, one `learn()` call
applies the loop body to a prefix of the external stream, in order, once each, and leaves the rest untouched. -/
theorem learn_is_fold_of_body (cfg : Cfg α) (s : Sys α) (c : Call α) :
    ∃ pre, pre ++ (runCall cfg s c).2 = c.steps ∧
      (runCall cfg s c).1 = pre.foldl (bodyS cfg) (setupLearn cfg s c).1 := by
  unfold runCall
  exact learnLoop_fold cfg (setupLearn cfg s c).2 (c.steps.length + 1) (setupLearn cfg s c).1 c.steps

/-- **Store log = environment log**, for every `n_envs`, every action space, every `train_freq` /
`learning_starts` / `total_timesteps`, every number of `learn()` calls with or without counter reset, every
external stream (episode scripts mixing termination and truncation, policy outputs, noise) — under the two
hypotheses that concern `VecNormalize` only: terminal observations survive its round trip (`CallRoundTrip`;
discharged by `normalized_env_stores_raw` when nothing was clipped) and there is no observation wrapper above it
(`PostTrivialUnderVN`); both are discharged by `store_log_eq_env_log` when there is no `VecNormalize`:
the sequence of rows added to the replay buffer equals, row by row, the sub-environments' own record
(observation the env had last returned, its own next observation, raw reward, flags), the actions the envs
received are the ones computed next to each stored action, and there is exactly one row per vectorised step. -/
theorem store_log_eq_env_log_partial (cfg : Cfg α) (calls : List (Call α))
    (hwf : ∀ c ∈ calls, c.wf cfg = true) (hrt : ∀ c ∈ calls, CallRoundTrip c) (hp : PostTrivialUnderVN cfg) :
    (run cfg calls).st.buffer.map Row.core = (run cfg calls).w.log.map (specCore cfg.post) ∧
    (run cfg calls).st.trace.map (·.action) = (run cfg calls).w.log.map (fun ts => ts.map (·.action)) ∧
    (run cfg calls).st.buffer.length = (run cfg calls).w.log.length := by
  have hi := inv_run cfg calls hwf hrt hp
  have hrows : (run cfg calls).st.buffer.map Row.core = (run cfg calls).w.log.map (specCore cfg.post) := by
    rw [St.buffer, List.map_map]
    exact hi.rows
  refine ⟨hrows, hi.acts, ?_⟩
  have := congrArg List.length hrows
  simpa using this

/-- **Full statement without `VecNormalize`** (no side condition on the stream; any observation wrapper such as
`VecTransposeImage` on top of the VecEnv). -/
theorem store_log_eq_env_log (cfg : Cfg α) (calls : List (Call α)) (hv : cfg.vecNormalize = false)
    (hwf : ∀ c ∈ calls, c.wf cfg = true) :
    (run cfg calls).st.buffer.map Row.core = (run cfg calls).w.log.map (specCore cfg.post) ∧
    (run cfg calls).st.trace.map (·.action) = (run cfg calls).w.log.map (fun ts => ts.map (·.action)) ∧
    (run cfg calls).st.buffer.length = (run cfg calls).w.log.length :=
  store_log_eq_env_log_partial cfg calls hwf (fun c hc => roundTrip_of_no_vn cfg c hv (hwf c hc))
    (postTrivial_of_no_vn cfg hv)

/-- **The agent acted on the stored observation**: the policy input of every collected step is the row's
(raw) observation — itself without `VecNormalize`, seen through the statistics of that moment with it. -/
theorem policy_input_is_stored_obs (cfg : Cfg α) (calls : List (Call α))
    (hwf : ∀ c ∈ calls, c.wf cfg = true) (hrt : ∀ c ∈ calls, CallRoundTrip c) (hp : PostTrivialUnderVN cfg) :
    ∀ o ∈ (run cfg calls).st.trace, ∃ z : Option (Normalizer α),
      (cfg.vecNormalize = false → z = none) ∧ o.policyInput = viewOf z o.row.obs :=
  (inv_run cfg calls hwf hrt hp).view

/-- **Noise reset index**: after a step, `action_noise.reset` is called exactly for the environments whose
episode ended in that step (and for none when there is no action noise). -/
theorem noise_reset_index (cfg : Cfg α) (st : St α) (x : StepIn α) (i : Nat) :
    i ∈ (body cfg st x).2.noiseReset ↔
      x.noise.isSome = true ∧ (x.raws.map (fun r => r.term || r.trunc))[i]? = some true := by
  cases hn : x.noise with
  | none => simp [body, hn]
  | some es =>
    simp only [body, hn, mem_trueIdx, dummyStep, Nat.zero_le, true_and, Nat.sub_zero, Option.isSome_some]
    rfl

/-- **Stored action and environment action of a step come from one `_sample_action` call**: for every collected
step there are a noise sample and policy outputs such that the env actions are the first and the stored actions
the second components of `sampleActions` (so `env_action_is_unscaled_buffer_action` applies to every row). -/
theorem stored_and_env_action_paired (cfg : Cfg α) (calls : List (Call α))
    (hwf : ∀ c ∈ calls, c.wf cfg = true) (hrt : ∀ c ∈ calls, CallRoundTrip c) (hp : PostTrivialUnderVN cfg) :
    ∀ o ∈ (run cfg calls).st.trace, ∃ (noise : Option (List (List α))) (us : List (List α)),
      o.action = (sampleActions cfg.space noise us).map (·.1) ∧
      o.row.action = (sampleActions cfg.space noise us).map (·.2) :=
  (inv_run cfg calls hwf hrt hp).paired

/-! ### End to end with the replay buffer of C03 (proved in `Props/C04C03.lean`, re-exported here so that the
axiom audit of this file covers them) -/

/-- see `C04C03.sampled_is_env_transition`: every `(slot, env)` pair that can be sampled from the standard replay
buffer after any off-policy run without `VecNormalize` holds one of the environments' own last-`capacity`
transitions (observation acted on, true successor, raw reward, stored action, masked done). -/
theorem sampled_is_env_transition (T : Tagging α) (cfg : Cfg α) (calls : List (Call α)) (rc : Replay.Cfg)
    (hv : cfg.vecNormalize = false) (hwf : ∀ c ∈ calls, c.wf cfg = true) (hn : rc.nEnvs = cfg.nEnvs)
    (hm : rc.memopt = false) (s e : ℕ)
    (h : (s, e) ∈ (Replay.run rc (toOps T (run cfg calls).st.buffer)).domain) :
    ∃ a ts t o, a < (run cfg calls).w.log.length ∧ (run cfg calls).w.log.length ≤ a + rc.cap ∧ a % rc.cap = s ∧
      e < cfg.nEnvs ∧
      (run cfg calls).w.log[a]? = some ts ∧ ts[e]? = some t ∧
      (run cfg calls).st.trace[a]? = some o ∧ o.action[e]? = some t.action ∧
      ((Replay.run rc (toOps T (run cfg calls).st.buffer)).get s e).obs = T.obs (cfg.post t.obs) ∧
      ((Replay.run rc (toOps T (run cfg calls).st.buffer)).get s e).next = T.obs (cfg.post t.next) ∧
      ((Replay.run rc (toOps T (run cfg calls).st.buffer)).get s e).rew = T.rew t.rew ∧
      ((Replay.run rc (toOps T (run cfg calls).st.buffer)).get s e).act = T.act (o.row.action.getD e []) ∧
      ((Replay.run rc (toOps T (run cfg calls).st.buffer)).get s e).done =
        if (t.term || t.trunc) && !(rc.hto && (t.trunc && !t.term)) then 1 else 0 :=
  C04C03.sampled_is_env_transition T cfg calls rc hv hwf hn hm s e h

/-- see `C04C03.recent_env_transition_is_drawable`: each of the last `capacity` vectorised steps, each env, can be
sampled. -/
theorem recent_env_transition_is_drawable (T : Tagging α) (cfg : Cfg α) (calls : List (Call α)) (rc : Replay.Cfg)
    (hv : cfg.vecNormalize = false) (hwf : ∀ c ∈ calls, c.wf cfg = true) (hn : rc.nEnvs = cfg.nEnvs)
    (hm : rc.memopt = false) (a e : ℕ) (ha : a < (run cfg calls).w.log.length)
    (hr : (run cfg calls).w.log.length ≤ a + rc.cap) (he : e < cfg.nEnvs) :
    (a % rc.cap, e) ∈ (Replay.run rc (toOps T (run cfg calls).st.buffer)).domain :=
  C04C03.recent_env_transition_is_drawable T cfg calls rc hv hwf hn hm a e ha hr he

/-- see `C04C03.sampled_is_env_transition_memopt_partial`: the memory-optimised variant under the chaining
hypothesis — own successor for non-terminal transitions and the newest one (K-C03-a otherwise). -/
theorem sampled_is_env_transition_memopt_partial (T : Tagging α) (cfg : Cfg α) (calls : List (Call α))
    (rc : Replay.Cfg) (hv : cfg.vecNormalize = false) (hwf : ∀ c ∈ calls, c.wf cfg = true)
    (hn : rc.nEnvs = cfg.nEnvs) (hm : rc.memopt = true)
    (hch : Replay.Chained ((run cfg calls).st.buffer.map (toRow T))) (s e : ℕ)
    (h : (s, e) ∈ (Replay.run rc (toOps T (run cfg calls).st.buffer)).domain) :
    ∃ a ts t o, a < (run cfg calls).w.log.length ∧ (run cfg calls).w.log.length < a + rc.cap ∧ a % rc.cap = s ∧
      e < cfg.nEnvs ∧
      (run cfg calls).w.log[a]? = some ts ∧ ts[e]? = some t ∧
      (run cfg calls).st.trace[a]? = some o ∧ o.action[e]? = some t.action ∧
      ((Replay.run rc (toOps T (run cfg calls).st.buffer)).get s e).obs = T.obs (cfg.post t.obs) ∧
      ((Replay.run rc (toOps T (run cfg calls).st.buffer)).get s e).rew = T.rew t.rew ∧
      ((Replay.run rc (toOps T (run cfg calls).st.buffer)).get s e).act = T.act (o.row.action.getD e []) ∧
      ((Replay.run rc (toOps T (run cfg calls).st.buffer)).get s e).done =
        (if (t.term || t.trunc) && !(rc.hto && (t.trunc && !t.term)) then 1 else 0) ∧
      ((t.term || t.trunc) = false ∨ a + 1 = (run cfg calls).w.log.length →
        ((Replay.run rc (toOps T (run cfg calls).st.buffer)).get s e).next = T.obs (cfg.post t.next)) :=
  C04C03.sampled_is_env_transition_memopt_partial T cfg calls rc hv hwf hn hm hch s e h

end Mechanism

/-! ## `VecNormalize`: without the two hypotheses the statement is false of the code (K-C04-a, K-C04-b) -/

/- `witnessCfg`, `witnessNz`, `witnessCalls` (defined in `Lemmas/OffPolicy.lean`): one env, one `learn(1)`; the
episode ends at the first step with terminal observation `500`; `VecNormalize` statistics mean `0`,
`sqrt(var+eps) = 1`, `clip_obs = 1`. -/

/-- **Counterexample to the statement without the round-trip hypothesis** (K-C04-a): the stream is well-formed
and there is no outer wrapper, yet the stored successor is `unnormalize(clip(normalize 500)) = 1`, not the
terminal observation `500` the environment produced. -/
theorem store_log_eq_env_log_counterexample :
    ¬ ∀ (cfg : Cfg ℚ) (calls : List (Call ℚ)), (∀ c ∈ calls, c.wf cfg = true) → PostTrivialUnderVN cfg →
      (run cfg calls).st.buffer.map Row.core = (run cfg calls).w.log.map (specCore cfg.post) := by
  intro h
  have h1 := h witnessCfg witnessCalls (by decide +kernel) (fun _ _ => rfl)
  have h2 : ((run witnessCfg witnessCalls).st.buffer.map Row.core).map (·.nextObs) = [[[1]]] := by decide +kernel
  have h3 : ((run witnessCfg witnessCalls).w.log.map (specCore witnessCfg.post)).map (·.nextObs) = [[[500]]] := by
    decide +kernel
  rw [h1, h3] at h2
  exact absurd h2 (by decide)

/-- **Counterexample to the statement without `PostTrivialUnderVN`** (K-C04-b): `VecNormalize` below a wrapper
that re-orders the coordinates (`VecTransposeImage`); nothing is clipped (nothing is even normalised), the stream
is well-formed, yet the stored observation is `get_original_obs()` — the batch *before* the wrapper, `[1, 2]` —
while the buffer's observation space (and the policy) have the wrapped layout `[2, 1]`. In the real code the two
layouts have different shapes and `replay_buffer.add` raises. -/
theorem store_log_eq_env_log_wrapper_counterexample :
    ¬ ∀ (cfg : Cfg ℚ) (calls : List (Call ℚ)), (∀ c ∈ calls, c.wf cfg = true) → (∀ c ∈ calls, CallRoundTrip c) →
      (run cfg calls).st.buffer.map Row.core = (run cfg calls).w.log.map (specCore cfg.post) := by
  intro h
  have h1 := h wrapCfg wrapCalls (by decide +kernel)
    (fun c hc => callRoundTrip_of_check c (by revert c; decide +kernel))
  have h2 : ((run wrapCfg wrapCalls).st.buffer.map Row.core).map (·.obs) = [[[1, 2]]] := by decide +kernel
  have h3 : ((run wrapCfg wrapCalls).w.log.map (specCore wrapCfg.post)).map (·.obs) = [[[2, 1]]] := by
    decide +kernel
  rw [h1, h3] at h2
  exact absurd h2 (by decide)

/-- Everything else in that row is right: observation, reward and flags are the environment's. -/
theorem counterexample_only_successor_differs :
    ((run witnessCfg witnessCalls).st.buffer.map fun r => (r.obs, r.reward, r.done, r.timeout)) =
      ((run witnessCfg witnessCalls).w.log.map (specCore witnessCfg.post)).map
        fun c => (c.obs, c.reward, c.done, c.timeout) := by
  decide +kernel

/-! ## Non-vacuity: the hypotheses are met by concrete non-trivial data -/

/-- a proper asymmetric box, an in-bounds action, a noise sample -/
example : ProperBox ([-2, 1/2] : List ℚ) [6, 3/2] := by
  unfold ProperBox
  exact .cons (by norm_num) (.cons (by norm_num) .nil)

example : InBox ([-2, 1/2] : List ℚ) [6, 3/2] [6, 1] := by
  unfold InBox
  exact .cons (by norm_num) (.cons (by norm_num) .nil)

/-- `[-2, 6]`: the action `6` is stored as `1`, noise `+1/2` is clipped away, the env receives `6` -/
example : sampleAction1 (.box ([-2] : List ℚ) [6]) (some [1/2]) [6] = ([6], [1]) := by decide +kernel

example : sampleAction1 (.box ([-2] : List ℚ) [6]) (some [-1/2]) [2] = ([0], [-1/2]) := by decide +kernel

/-- an unclipped terminal observation under non-trivial statistics -/
example : Unclipped (⟨[some (2, 4), none], 3, none, 10⟩ : Normalizer ℚ) [10, 77] := by
  simp only [Unclipped, CoordsUnclipped]
  norm_num

/- `exCfg`, `exNz`, `exCalls` (defined in `Lemmas/OffPolicy.lean`): two envs, box actions in `[-2, 6]` with noise,
two `learn()` calls (the second without counter reset), `VecNormalize` (mean 100, sd 50, clip 10, reward
normalisation on), a truncation in env 1, a termination in env 0 and a `terminated ∧ truncated` end in env 1: the
stream is well-formed and the terminal observations are unclipped, so `store_log_eq_env_log_partial` applies; the
three rows are the environments' transitions. -/
example : ∀ c ∈ exCalls, c.wf exCfg = true := by decide +kernel

example : PostTrivialUnderVN exCfg := fun _ _ => rfl

example : ∀ c ∈ exCalls, CallRoundTrip c :=
  fun c hc => callRoundTrip_of_check c (by revert c; decide +kernel)

example : Unclipped exNz [101] ∧ Unclipped exNz [2] ∧ Unclipped exNz [202] := by
  simp only [Unclipped, CoordsUnclipped, exNz]
  norm_num

example : (run exCfg exCalls).st.buffer.map (fun r => (r.obs, r.nextObs, r.done, r.timeout)) =
    [ ([[0], [100]], [[1], [101]], [false, true], [false, true]),
      ([[1], [200]], [[2], [201]], [true, false], [false, false]),
      ([[10], [201]], [[11], [202]], [false, true], [false, false]) ] := by decide +kernel

example : (run exCfg exCalls).st.buffer.map (·.reward) = [[1, 2], [3, -1], [0, 0]] := by decide +kernel

/-- the stored actions are in `[-1, 1]`, the envs received their rescalings -/
example : (run exCfg exCalls).st.trace.map (fun o => (o.row.action, o.action)) =
    [ ([[1/2], [1]], [[4], [6]]), ([[-1/2], [-1]], [[0], [-2]]), ([[0], [0]], [[2], [2]]) ] := by decide +kernel

/-- the warm-up flag follows `num_timesteps < learning_starts` and the noise of finished envs is reset -/
example : (run exCfg exCalls).st.trace.map (fun o => (o.warmup, o.noiseReset)) =
    [(true, [1]), (false, [0]), (false, [1])] := by decide +kernel

/-- `wrapCfg'`, `wrapCalls'`: the coordinate-swapping wrapper *without* `VecNormalize`, an episode that ends at the
first step, an env whose reused info dict still holds that terminal observation at the second step: the rows hold the wrapped observations, the wrapped terminal observation `[4, 3]` (not the wrapped
reset observation `[6, 5]`), and the next row starts from the wrapped reset observation. -/
example : (run wrapCfg' wrapCalls').st.buffer.map (fun r => (r.obs, r.nextObs, r.done)) =
    [ ([[2, 1]], [[4, 3]], [true]), ([[6, 5]], [[8, 7]], [false]) ] := by decide +kernel

example : ∀ c ∈ wrapCalls', c.wf wrapCfg' = true := by decide +kernel

end SB3Verif.C04
