#!/usr/bin/env python3
"""Regenerates /verif/MANIFEST.json from tools/claims.json (one entry per claimed property)."""
import json, os
V = os.path.dirname(os.path.dirname(os.path.abspath(__file__)))
claims = {}
cdir = os.path.join(V, "tools", "claims")
for f in sorted(os.listdir(cdir)):
    if f.endswith(".json"):
        claims[f[:-5]] = json.load(open(os.path.join(cdir, f)))
props = [json.loads(l) for l in open(os.path.join(V, "properties.jsonl"))]
checks, na = [], []
for p in props:
    pid = p["id"]
    c = claims.get(pid)
    if not c or c.get("not_applicable"):
        na.append({"property_id": pid, "reason": (c or {}).get("not_applicable", "no check built yet for this property (work in progress; see DESIGN.md §4 for the plan)")})
        continue
    checks.append({
        "property_id": pid,
        "quick_cmd": f"./check {pid} --tier quick",
        "thorough_cmd": f"./check {pid} --tier thorough",
        "evidence_file": f"evidence/{pid}.json",
        "replay_cmd_template": f"./check {pid} --replay {{path}}",
        "engine": "lean4-proof+correspondence",
        "level_claimed": {"category": c.get("category", "proof"), "text": c["text"], "design_ref": f"DESIGN.md §4 {pid}"},
        "level_note": c["note"],
        "technique": c["technique"],
    })
m = {
    "version": 1,
    "setup_cmd": "cd lean && lake build",
    "hooks": {
        "guard": "SB3_VERIF",
        "enable": "no source hooks: every check observes stable-baselines3 through its public API from the harness process (callbacks, scripted environments, wrappers applied at run time); SB3_VERIF is reserved and unused",
        "baseline_off_cmd": "cd /repo && /venv/bin/python -m pytest -ra -q -p no:cacheprovider --timeout=900 --continue-on-collection-errors",
        "source_commits": [],
        "add_only": True,
    },
    "engines": [{
        "name": "lean4-proof+correspondence",
        "path": "check",
        "serves_properties": [c["property_id"] for c in checks],
        "kind_free_text": "Lean 4 theorems about an executable model (lean/SB3Verif/{Model,Lemmas,Props}), axiom audit on every run, and a differential correspondence check that runs the model's definitions (lean --run driver, JSON line protocol) and the real code in /repo on the same generated cases, plus a property oracle used for the failing-input search",
    }],
    "checks": checks,
    "not_applicable": na,
    "notes": "Exit codes: 0 held, 1 violation (VIOLATION line), 2 infrastructure failure/timeout. VERIF_SEED / --seed seeds the single SplitMix64 stream; VERIF_TIER or --tier selects budgets. Genuine defects found while building were repaired in /repo by 'fix:' commits and are listed as status=fixed in known_findings.json (they suppress nothing); status=known entries print KNOWN-FINDING lines.",
}
json.dump(m, open(os.path.join(V, "MANIFEST.json"), "w"), indent=1)
print(f"{len(checks)} checks, {len(na)} not_applicable")
