/-
Model of `VecNormalize` (stable_baselines3/common/vec_env/vec_normalize.py) and of
`sync_envs_normalization` (stable_baselines3/common/vec_env/__init__.py).

Data layout. An array of shape `(batch, *shape)` is represented *coordinate-major*:
`Arr α = List (List α)`, `arr[j]` = the values of (flattened) coordinate `j` along the batch axis.
`RunningMeanStd.update` reduces along the batch axis, `normalize` is element-wise, so this layout makes
both a `zipWith` with the per-coordinate statistics. A `Box` observation is a batch with the single key
`""`; a `Dict` observation is a batch with one entry per key. A single (terminal) observation is a batch
whose columns have length one.

The sub-environment is external: `reset` / `stepWait` take what `venv.reset()` / `venv.step_wait()`
returned (raw observations, rewards, dones and the `terminal_observation` found in each info).

`sqrt` is a parameter (`HasSqrt`): the theorems hold for every choice that is positive where needed
(instantiated at `Real.sqrt` and at `ratSqrt` in `Props/C15.lean`); the driver runs `Rat` with `ratSqrt`,
a rational square root with relative error below `2⁻⁶⁴`.

The float32 cast of returned observations / rewards is not modelled (compared with a tolerance).
-/
import SB3Verif.Model.RunningMeanStd

namespace SB3Verif.VecNorm

open SB3Verif.RMS

class HasSqrt (α : Type) where
  sqrt : α → α

abbrev Arr (α : Type) := List (List α)
abbrev Batch (α : Type) := List (String × Arr α)
abbrev ObsRms (α : Type) := List (String × List (Mom α))

/-- `clip_obs, clip_reward, gamma, epsilon` -/
structure Cfg (α : Type) where
  clipObs : α
  clipRew : α
  gamma : α
  eps : α

structure VN (α : Type) where
  cfg : Cfg α
  nEnvs : Nat
  training : Bool
  normObs : Bool
  normRew : Bool
  /-- the attribute `obs_rms` exists only when the wrapper was constructed with `norm_obs=True` -/
  hasObsRms : Bool
  /-- one entry per normalised key (`norm_obs_keys`), one `Mom` per coordinate -/
  obsRms : ObsRms α
  retRms : Mom α
  returns : List α
  oldObs : Batch α
  oldRew : List α

section Scalar

variable {α : Type} [Add α] [Sub α] [Mul α] [Div α] [Neg α] [Zero α] [One α] [NatCast α]
  [LT α] [DecidableLT α] [HasSqrt α]

/-- `np.clip(x, lo, hi) = np.minimum(np.maximum(x, lo), hi)` -/
def clip (x lo hi : α) : α :=
  let y := if x < lo then lo else x
  if hi < y then hi else y

/-- `np.sqrt(rms.var + self.epsilon)` -/
def sd (m : Mom α) (eps : α) : α := HasSqrt.sqrt (m.var + eps)

/-- `clip((x - mean) / s, -c, c)` with the standard deviation already computed -/
def normWith (mean s c x : α) : α := clip ((x - mean) / s) (-c) c

/-- `x * s + mean` -/
def unnormWith (mean s z : α) : α := z * s + mean

/-- `_normalize_obs`, one element -/
def normScalar (m : Mom α) (eps c x : α) : α := normWith m.mean (sd m eps) c x

/-- `_unnormalize_obs`, one element -/
def unnormScalar (m : Mom α) (eps z : α) : α := unnormWith m.mean (sd m eps) z

/-- `normalize_reward`, one element (rewards are scaled, not centred) -/
def normRewScalar (m : Mom α) (eps c r : α) : α := clip (r / sd m eps) (-c) c

/-- `unnormalize_reward`, one element -/
def unnormRewScalar (m : Mom α) (eps z : α) : α := z * sd m eps

/-- one coordinate column (the standard deviation is computed once per coordinate, as NumPy does) -/
def normCol (m : Mom α) (eps c : α) (col : List α) : List α :=
  let s := sd m eps
  col.map (normWith m.mean s c)

def unnormCol (m : Mom α) (eps : α) (col : List α) : List α :=
  let s := sd m eps
  col.map (unnormWith m.mean s)

def normArr (ms : List (Mom α)) (eps c : α) (a : Arr α) : Arr α :=
  List.zipWith (fun m col => normCol m eps c col) ms a

def unnormArr (ms : List (Mom α)) (eps : α) (a : Arr α) : Arr α :=
  List.zipWith (fun m col => unnormCol m eps col) ms a

/-- apply `f` to the arrays of the keys that have statistics, leave every other key as it is -/
def mapKeys (rms : ObsRms α) (f : List (Mom α) → Arr α → Arr α) (b : Batch α) : Batch α :=
  b.map fun ka => match rms.lookup ka.1 with
    | some ms => (ka.1, f ms ka.2)
    | none => ka

/-- `for key in self.obs_rms.keys(): self.obs_rms[key].update(obs[key])` -/
def updateObsRms (rms : ObsRms α) (b : Batch α) : ObsRms α :=
  rms.map fun kms => match b.lookup kms.1 with
    | some a => (kms.1, List.zipWith update kms.2 a)
    | none => kms

/-- initial statistics: `RunningMeanStd(shape=…)` for every normalised key (`dims` = flattened sizes) -/
def initObsRms (eps0 : α) (dims : List (String × Nat)) : ObsRms α :=
  dims.map fun kd => (kd.1, List.replicate kd.2 (Mom.prior eps0))

def VN.init (cfg : Cfg α) (nEnvs : Nat) (training normObs normRew : Bool) (eps0 : α)
    (dims : List (String × Nat)) : VN α :=
  { cfg := cfg, nEnvs := nEnvs, training := training, normObs := normObs, normRew := normRew,
    hasObsRms := normObs, obsRms := if normObs then initObsRms eps0 dims else [],
    retRms := Mom.prior eps0, returns := List.replicate nEnvs 0, oldObs := [], oldRew := [] }

/-- `normalize_obs` -/
def VN.normalizeObs (s : VN α) (b : Batch α) : Batch α :=
  if s.normObs then mapKeys s.obsRms (fun ms a => normArr ms s.cfg.eps s.cfg.clipObs a) b else b

/-- `unnormalize_obs` -/
def VN.unnormalizeObs (s : VN α) (b : Batch α) : Batch α :=
  if s.normObs then mapKeys s.obsRms (fun ms a => unnormArr ms s.cfg.eps a) b else b

/-- `normalize_reward` -/
def VN.normalizeReward (s : VN α) (r : List α) : List α :=
  if s.normRew then
    let d := sd s.retRms s.cfg.eps
    r.map (fun x => clip (x / d) (-s.cfg.clipRew) s.cfg.clipRew)
  else r

/-- `unnormalize_reward` -/
def VN.unnormalizeReward (s : VN α) (r : List α) : List α :=
  if s.normRew then
    let d := sd s.retRms s.cfg.eps
    r.map (fun z => z * d)
  else r

/-- `if self.training and self.norm_obs: … update(obs)` -/
def VN.absorbObs (s : VN α) (b : Batch α) : VN α :=
  if s.training && s.normObs then { s with obsRms := updateObsRms s.obsRms b } else s

/-- `reset()`: raw observation kept, return accumulators zeroed, statistics updated (training),
normalised observation returned. -/
def VN.reset (s : VN α) (obs : Batch α) : VN α × Batch α :=
  let s1 := { s with oldObs := obs, returns := List.replicate s.nEnvs 0 }
  let s2 := s1.absorbObs obs
  (s2, s2.normalizeObs obs)

/-- `_update_reward`: `returns = returns * gamma + reward; ret_rms.update(returns)` -/
def VN.updateReward (s : VN α) (rew : List α) : VN α :=
  let rets := List.zipWith (fun R r => R * s.cfg.gamma + r) s.returns rew
  { s with returns := rets, retRms := update s.retRms rets }

structure StepOut (α : Type) where
  obs : Batch α
  rew : List α
  terms : List (Option (Batch α))

/-- `step_wait()` in the order of the code: keep raw values; update observation statistics; normalise
observations; update return statistics; normalise rewards; normalise terminal observations of finished
environments (with the statistics just updated); zero the accumulators of finished environments. -/
def VN.stepWait (s : VN α) (obs : Batch α) (rew : List α) (dones : List Bool)
    (terms : List (Option (Batch α))) : VN α × StepOut α :=
  let s1 := { s with oldObs := obs, oldRew := rew }
  let s2 := s1.absorbObs obs
  let obsN := s2.normalizeObs obs
  let s3 := if s2.training then s2.updateReward rew else s2
  let rewN := s3.normalizeReward rew
  let termsN := List.zipWith (fun d t => if d then t.map s3.normalizeObs else t) dones terms
  let s4 := { s3 with returns := List.zipWith (fun d R => if d then 0 else R) dones s3.returns }
  (s4, { obs := obsN, rew := rewN, terms := termsN })

/-- `get_original_obs()` / `get_original_reward()` -/
def VN.getOriginalObs (s : VN α) : Batch α := s.oldObs
def VN.getOriginalReward (s : VN α) : List α := s.oldRew

/-- `save` + `load(path, venv)`: everything is pickled except `venv`, `class_attributes`, `returns`;
`set_venv` makes fresh zero accumulators. -/
def VN.saveLoad (s : VN α) (nEnvs : Nat) : VN α :=
  { s with nEnvs := nEnvs, returns := List.replicate nEnvs 0 }

/-- `sync_envs_normalization(src, dst)` for one `VecNormalize` layer: deep copies of `obs_rms`
(if the source has one) and `ret_rms`; nothing else. -/
def VN.syncFrom (dst src : VN α) : VN α :=
  { dst with
    obsRms := if src.hasObsRms then src.obsRms else dst.obsRms,
    hasObsRms := src.hasObsRms || dst.hasObsRms,
    retRms := src.retRms }

/-- The code reads `self.obs_rms` whenever `norm_obs` is on; the attribute does not exist on a wrapper
constructed with `norm_obs=False` (`AttributeError`). -/
def VN.obsError (s : VN α) : Bool := s.normObs && !s.hasObsRms

/-! ### Histories of one wrapper -/

inductive Ev (α : Type) where
  | reset (obs : Batch α)
  | step (obs : Batch α) (rew : List α) (dones : List Bool) (terms : List (Option (Batch α)))
  | setTraining (b : Bool)
  | setNormObs (b : Bool)
  | setNormRew (b : Bool)
  | saveLoad

def VN.apply (s : VN α) : Ev α → VN α
  | .reset o => (s.reset o).1
  | .step o r d t => (s.stepWait o r d t).1
  | .setTraining b => { s with training := b }
  | .setNormObs b => { s with normObs := b }
  | .setNormRew b => { s with normRew := b }
  | .saveLoad => s.saveLoad s.nEnvs

def VN.run (s : VN α) (evs : List (Ev α)) : VN α := evs.foldl VN.apply s

/-- The same with the `AttributeError` of a missing `obs_rms`: `none` as soon as `reset` / `step_wait`
is called while `norm_obs` is on and the attribute does not exist. -/
def VN.apply? (s : VN α) (e : Ev α) : Option (VN α) :=
  match e with
  | .reset _ | .step _ _ _ _ => if s.obsError then none else some (s.apply e)
  | _ => some (s.apply e)

def VN.run? (s : VN α) : List (Ev α) → Option (VN α)
  | [] => some s
  | e :: evs => match s.apply? e with
    | none => none
    | some s' => VN.run? s' evs

/-! ### Specification vocabulary (used by the theorems in `Props/C15.lean`) -/

/-- Observation batches returned by `reset` / `step` while `training` **and** `norm_obs` were on —
what the code absorbs. -/
def absorbedObs : Bool → Bool → List (Ev α) → List (Batch α)
  | _, _, [] => []
  | tr, no, .reset o :: evs => (if tr && no then [o] else []) ++ absorbedObs tr no evs
  | tr, no, .step o _ _ _ :: evs => (if tr && no then [o] else []) ++ absorbedObs tr no evs
  | _, no, .setTraining b :: evs => absorbedObs b no evs
  | tr, _, .setNormObs b :: evs => absorbedObs tr b evs
  | tr, no, .setNormRew _ :: evs => absorbedObs tr no evs
  | tr, no, .saveLoad :: evs => absorbedObs tr no evs

/-- Observation batches returned by `reset` / `step` in training mode — what the property sentence says
the statistics are the moments of. -/
def trainingObs : Bool → List (Ev α) → List (Batch α)
  | _, [] => []
  | tr, .reset o :: evs => (if tr then [o] else []) ++ trainingObs tr evs
  | tr, .step o _ _ _ :: evs => (if tr then [o] else []) ++ trainingObs tr evs
  | _, .setTraining b :: evs => trainingObs b evs
  | tr, _ :: evs => trainingObs tr evs

/-- values of coordinate `j` of key `k` in a batch -/
def column (k : String) (j : Nat) (b : Batch α) : List α := ((b.lookup k).getD []).getD j []

/-- Discounted return of a reward list (oldest first): `Σ γ^(n-1-i) · r_i`, as the accumulator
recursion `R ← R·γ + r` from `0`. -/
def discRet (γ : α) (rs : List α) : α := rs.foldl (fun R r => R * γ + r) 0

/-- Per-environment rewards of the current episode as seen by the accumulator: a `step` in training
mode appends the reward, a finished environment starts an empty list, `reset` and `load` start all
environments afresh. Returns the final per-environment lists and, for every training-mode step, the
vector of discounted returns that was fed to `ret_rms`. -/
def retTrace (γ : α) (n : Nat) : Bool → List (List α) → List (Ev α) → List (List α) × List (List α)
  | _, acc, [] => (acc, [])
  | tr, _, .reset _ :: evs => retTrace γ n tr (List.replicate n []) evs
  | tr, acc, .step _ rew dones _ :: evs =>
    let acc1 := if tr then List.zipWith (fun l r => l ++ [r]) acc rew else acc
    let fed := if tr then [acc1.map (discRet γ)] else []
    let acc2 := List.zipWith (fun d l => if d then [] else l) dones acc1
    let rest := retTrace γ n tr acc2 evs
    (rest.1, fed ++ rest.2)
  | _, acc, .setTraining b :: evs => retTrace γ n b acc evs
  | tr, acc, .setNormObs _ :: evs => retTrace γ n tr acc evs
  | tr, acc, .setNormRew _ :: evs => retTrace γ n tr acc evs
  | tr, _, .saveLoad :: evs => retTrace γ n tr (List.replicate n []) evs

/-- Per-environment rewards of the running episode, whatever the mode: every `step` appends the reward,
a finished environment starts an empty list, `reset` / `load` start all environments afresh. The property
sentence's "per-step discounted returns (which restart when an episode ends)" are `discRet γ` of these. -/
def episodeRewards (n : Nat) : List (List α) → List (Ev α) → List (List α)
  | acc, [] => acc
  | _, .reset _ :: evs => episodeRewards n (List.replicate n []) evs
  | acc, .step _ rew dones _ :: evs =>
    episodeRewards n (List.zipWith (fun d l => if d then [] else l) dones (List.zipWith (fun l r => l ++ [r]) acc rew)) evs
  | _, .saveLoad :: evs => episodeRewards n (List.replicate n []) evs
  | acc, _ :: evs => episodeRewards n acc evs

end Scalar

/-! ### Executable square root on `Rat` (driver instance) -/

/-- `⌊√(num·den)·2⁶⁴⌋ / (den·2⁶⁴)` — below `√q` by less than `2⁻⁶⁴` relative; `0` for `q ≤ 0`. -/
def ratSqrt (q : Rat) : Rat :=
  if q.num ≤ 0 then 0
  else
    let s : Nat := 2 ^ 64
    mkRat (Nat.sqrt (q.num.toNat * q.den * (s * s)) : Nat) (q.den * s)

instance : HasSqrt Rat := ⟨ratSqrt⟩

end SB3Verif.VecNorm
