/-
Driver for C06: runs the executable model `SB3Verif.OnPolicy` on what the harness
(`/verif/harness/c06.py`) observed in real PPO / A2C training runs on scripted environments.

Observations are tags (`Nat`), actions vectors of rationals, scalars rationals (`[num, den]`).

ops
  {"op":"new","n":n,"gamma":q,"lam":q,"is_box":b,"squash":b,"low":[q],"high":[q]} → {"ok":true,"act":"clip"|"unscale"|"ident"}
  {"op":"learn","reset":b,"obs":[tag]}                                           → {"last_obs":[tag],"starts":[b]}
       `obs` = what env.reset() returned if the harness saw a reset, else []; if the model resets
       (`reset` or nothing carried yet) and `obs` has not `n` entries the op is rejected
  {"op":"rollout","V":[[tag,q]],"steps":[{"samples":[{"a":[q],"logp":q}],
        "raw":[{"obs":tag,"r":q,"term":b,"trunc":b,"reset":tag,"stale_term":tag|null,"stale_tl":b}]}]}
       ("stale_*" optional: what the sub-environment's reused info dict already carried; "new" takes an optional
        "lazy_vec":b selecting `vecOutLazy` — keys written on episode end only — instead of `vecOut`)
       → {"rows":[[{"obs":tag,"action":[q],"reward":q,"start":b,"value":q,"logp":q}]]   (T × n)
          "env_actions":[[[q]]] (T × n × dim), "vec":[[{"obs":tag,"done":b,"tl":b,"term_obs":tag|null}]],
          "last_values":[q],"last_dones":[b],"adv":[[q]] (T × n),"ret":[[q]] (T × n),"last_obs":[tag],"starts":[b]}
       `V` is the critic of the current policy as a finite table; every observation the model asks the
       value of must be in it, otherwise the op is rejected (never a default).
-/
import SB3Verif.Driver.Proto
import SB3Verif.Model.OnPolicy

open Lean SB3Verif.Proto SB3Verif.OnPolicy

structure Cfg where
  n : Nat
  γ : Rat
  lam : Rat
  lazyVec : Bool
  kind : ActKind
  lo : List Rat
  hi : List Rat

structure DSt where
  cfg : Option Cfg
  carry : Option (Carry Nat)

def kindStr : ActKind → String
  | .clip => "clip"
  | .unscale => "unscale"
  | .ident => "ident"

def parseRaw (j : Json) : Except String (Raw Nat Rat) := do
  let staleT : Option Nat ← match j.getObjVal? "stale_term" with
    | .ok Json.null => pure none
    | .ok v => do pure (some (← asNat v))
    | .error _ => pure none
  let staleF : Bool ← match j.getObjVal? "stale_tl" with
    | .ok v => asBool v
    | .error _ => pure false
  return { obs := ← getNat j "obs", reward := ← getRat j "r", terminated := ← getBool j "term",
           truncated := ← getBool j "trunc", resetObs := ← getNat j "reset",
           staleTerminal := staleT, staleTimeLimit := staleF }

def parseSample (j : Json) : Except String (Sample (List Rat) Rat) := do
  return { action := ← getList asRat j "a", logp := ← getRat j "logp" }

def parsePair (j : Json) : Except String (Nat × Rat) := do
  match j.getArr? with
  | .ok #[a, b] => return (← asNat a, ← asRat b)
  | _ => throw s!"not a [tag, value] pair: {j.compress}"

def carryJ (n : Nat) (c : Carry Nat) : List (String × Json) :=
  [("last_obs", listJ natJ ((List.range n).map c.lastObs)),
   ("starts", listJ boolJ ((List.range n).map c.lastStarts))]

def slotJ (s : Slot Nat (List Rat) Rat) : Json :=
  objJ [("obs", natJ s.obs), ("action", listJ ratJ s.action), ("reward", ratJ s.reward),
        ("start", boolJ s.start), ("value", ratJ s.value), ("logp", ratJ s.logp)]

def voutJ (o : VOut Nat Rat) : Json :=
  objJ [("obs", natJ o.obs), ("done", boolJ o.done), ("tl", boolJ o.timeLimit),
        ("term_obs", match o.terminalObs with | some t => natJ t | none => Json.null)]

def stepC06 (st : DSt) (j : Json) : Except String (DSt × Json) := do
  let op ← getStr j "op"
  match op with
  | "new" =>
    let n ← getNat j "n"
    let γ ← getRat j "gamma"
    let lam ← getRat j "lam"
    let lazyVec ← match j.getObjVal? "lazy_vec" with
      | .ok v => asBool v
      | .error _ => pure false
    let isBox ← getBool j "is_box"
    let squash ← getBool j "squash"
    let lo ← getList asRat j "low"
    let hi ← getList asRat j "high"
    if n = 0 then throw "n_envs=0"
    let k := actKind isBox squash
    if isBox && lo.length != hi.length then throw "bounds of different lengths"
    return ({ cfg := some { n := n, γ := γ, lam := lam, lazyVec := lazyVec, kind := k, lo := lo, hi := hi }, carry := none },
            objJ [("ok", boolJ true), ("act", strJ (kindStr k))])
  | "set_env" =>
    -- `set_env(env, force_reset=True)`: `self._last_obs = None`; the next `_setup_learn` takes the "no previous
    -- observation" branch of `setupLearn` (environment reset, episode starts all true) whatever `reset_num_timesteps` is
    return ({ st with carry := none }, objJ [("ok", boolJ true)])
  | "learn" =>
    let some cfg := st.cfg | throw "no-config"
    let reset ← getBool j "reset"
    let obs ← getList asNat j "obs"
    let willReset := reset || st.carry.isNone
    if willReset && obs.length != cfg.n then throw "reset-needed-but-no-reset-observation"
    if !willReset && obs.length != 0 then throw "reset-observed-but-model-does-not-reset"
    let c := setupLearn st.carry reset (fun e => obs.getD e 0)
    return ({ st with carry := some c }, objJ (carryJ cfg.n c))
  | "rollout" =>
    let some cfg := st.cfg | throw "no-config"
    let some c := st.carry | throw "no-previous-observation"   -- assert self._last_obs is not None
    let table ← getList parsePair j "V"
    let stepsJ ← getList pure j "steps"
    if stepsJ.isEmpty then throw "n_steps=0"
    let steps ← stepsJ.mapM fun sj => do
      let samples ← getList parseSample sj "samples"
      let raws ← getList parseRaw sj "raw"
      if samples.length != cfg.n || raws.length != cfg.n then throw "step width differs from n_envs"
      if cfg.kind != .ident then
        for s in samples do
          if s.action.length != cfg.lo.length then throw "action dimension differs from the bounds"
      let outs := raws.map (if cfg.lazyVec then vecOutLazy else vecOut)
      let dS : Sample (List Rat) Rat := { action := [], logp := 0 }
      let dO : VOut Nat Rat := { obs := 0, reward := 0, done := false, terminalObs := none, timeLimit := false }
      pure ({ sample := fun e => samples.getD e dS, out := fun e => outs.getD e dO } :
        StepIn Nat (List Rat) Rat)
    -- every observation whose value can be requested must be in the table
    let es := List.range cfg.n
    let needed : List Nat :=
      es.map c.lastObs ++
      steps.flatMap fun x => es.flatMap fun e =>
        (x.out e).obs :: (match (x.out e).done && (x.out e).timeLimit, (x.out e).terminalObs with
          | true, some t => [t]   -- exactly the terminal observations `rewardOf` asks the value of
          | _, _ => [])
    for o in needed do
      if (table.lookup o).isNone then throw s!"V-missing {o}"
    let V : Nat → Rat := fun o => (table.lookup o).getD 0
    let f : List Rat → List Rat := envAction cfg.kind (1 / 2 : Rat) cfg.lo cfg.hi
    let ops : List (Op Nat (List Rat) Rat) := [.rollout V steps]
    let c' := carryAfterOps cfg.γ f c ops
    match runOps cfg.γ f c ops with
    | [ro] =>
      let T := steps.length
      let advCols := es.map (advantagesOf cfg.γ cfg.lam ro)
      let retCols := es.map (returnsOf cfg.γ cfg.lam ro)
      let rowsOf (cols : List (List Rat)) : List (List Rat) :=
        (List.range T).map fun t => cols.map fun col => col.getD t 0
      let out := objJ ([
        ("adv", listJ (listJ ratJ) (rowsOf advCols)),
        ("ret", listJ (listJ ratJ) (rowsOf retCols)),
        ("rows", listJ (fun row => listJ slotJ (es.map row)) ro.rows),
        ("env_actions", listJ (fun a => listJ (listJ ratJ) (es.map a)) ro.envActs),
        ("vec", listJ (fun (x : StepIn Nat (List Rat) Rat) => listJ voutJ (es.map x.out)) steps),
        ("last_values", listJ ratJ (es.map ro.lastValues)),
        ("last_dones", listJ boolJ (es.map ro.lastDones))] ++ carryJ cfg.n c')
      return ({ st with carry := some c' }, out)
    | _ => throw "internal: one rollout expected"
  | _ => throw s!"bad-op {op}"

def main : IO Unit := SB3Verif.Proto.run stepC06 { cfg := none, carry := none }
